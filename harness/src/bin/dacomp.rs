//! DA-compression family (C07): a compression context in the style of
//! fuel-tx/src/tests/da_compression.rs (registry with key rotation on top of `RegistryKey::next`,
//! UTXO / message fact tables), sequences of transactions of all kinds through ONE context with the
//! key counters started near `MAX_WRITABLE`, decompression against the same context.
//! The registry of fuel-core is not part of /repo: the context here is the harness's own.
#[path = "../c0607_gen.rs"]
mod g;
#[path = "../c06_tree.rs"]
mod tree;

use fuel_compression::{CompressibleBy, ContextError, DecompressibleBy, Decompress, RegistryKey};
use fuel_tx::input::coin::{Coin, CoinSpecification};
use fuel_tx::input::message::{Message, MessageSpecification};
use fuel_tx::input::{AsField, PredicateCode};
use fuel_tx::*;
use fuel_types::bytes::Bytes;
use fuel_types::Nonce;
use fvh::*;
use g::*;
use serde_json::json;
use std::collections::{BTreeMap, HashMap};
use tree::*;

// =============================================================================== context
#[derive(Debug, Clone, PartialEq)]
enum CtxErr {
    KeyNotFound,
    UtxoNotFound,
    CoinNotFound,
    MessageNotFound,
    NoTxPointer,
    NoFreeKey,
}
#[derive(Debug, Clone, PartialEq)]
struct CoinInfo {
    owner: Address,
    amount: u64,
    asset_id: AssetId,
}
#[derive(Debug, Clone, PartialEq)]
struct MessageInfo {
    sender: Address,
    recipient: Address,
    amount: u64,
    data: Vec<u8>,
}
#[derive(Debug, Clone, PartialEq)]
struct KeySpace {
    next: RegistryKey,
    fwd: HashMap<RegistryKey, Vec<u8>>,
    rev: HashMap<Vec<u8>, RegistryKey>,
    /// keys handed out since the current transaction began: never overwritten by an allocation
    pinned: Vec<RegistryKey>,
}
#[derive(Debug, Clone, PartialEq)]
struct Ctx {
    start: RegistryKey,
    spaces: BTreeMap<u8, KeySpace>,
    utxos: Vec<UtxoId>,
    coins: HashMap<UtxoId, CoinInfo>,
    msgs: HashMap<Nonce, MessageInfo>,
    mint_ptr: Option<TxPointer>,
    /// (keyspace, value, key, allocated?) in call order
    log: Vec<(u8, Vec<u8>, u32, bool)>,
}
const KS_ADDRESS: u8 = 0;
const KS_ASSET: u8 = 1;
const KS_CONTRACT: u8 = 2;
const KS_SCRIPT: u8 = 3;
const KS_PREDICATE: u8 = 4;

impl Ctx {
    fn new(start: RegistryKey) -> Ctx {
        Ctx { start, spaces: BTreeMap::new(), utxos: vec![], coins: HashMap::new(), msgs: HashMap::new(), mint_ptr: None, log: vec![] }
    }
    fn begin_tx(&mut self) {
        for s in self.spaces.values_mut() {
            s.pinned.clear();
        }
    }
    fn reg_compress(&mut self, ks: u8, value: &[u8]) -> Result<RegistryKey, CtxErr> {
        let start = self.start;
        let sp = self.spaces.entry(ks).or_insert_with(|| KeySpace { next: start, fwd: HashMap::new(), rev: HashMap::new(), pinned: vec![] });
        if let Some(k) = sp.rev.get(value).copied() {
            sp.pinned.push(k);
            self.log.push((ks, value.to_vec(), k.as_u32(), false));
            return Ok(k);
        }
        // first key from `next` on (RegistryKey::next rotation) that was not handed out in this tx
        let mut k = sp.next;
        let mut fuel = sp.pinned.len() + 1;
        loop {
            if fuel == 0 {
                return Err(CtxErr::NoFreeKey);
            }
            fuel -= 1;
            if sp.pinned.contains(&k) {
                k = k.next();
            } else {
                break;
            }
        }
        if let Some(old) = sp.fwd.insert(k, value.to_vec()) {
            sp.rev.remove(&old);
        }
        sp.rev.insert(value.to_vec(), k);
        sp.pinned.push(k);
        sp.next = k.next();
        self.log.push((ks, value.to_vec(), k.as_u32(), true));
        Ok(k)
    }
    fn reg_get(&self, ks: u8, k: RegistryKey) -> Result<Vec<u8>, CtxErr> {
        self.spaces.get(&ks).and_then(|s| s.fwd.get(&k)).cloned().ok_or(CtxErr::KeyNotFound)
    }
    /// the facts a block producer / DA layer knows when the tx is decompressed (as in the reference
    /// test context): coins and messages spent by the transaction, position of the mint
    fn store_tx_info(&mut self, tx: &Transaction) {
        let inputs: Vec<Input> = match tx {
            Transaction::Script(t) => field::Inputs::inputs(t).clone(),
            Transaction::Create(t) => field::Inputs::inputs(t).clone(),
            Transaction::Upgrade(t) => field::Inputs::inputs(t).clone(),
            Transaction::Upload(t) => field::Inputs::inputs(t).clone(),
            Transaction::Blob(t) => field::Inputs::inputs(t).clone(),
            Transaction::Mint(t) => {
                self.mint_ptr = Some(*field::TxPointer::tx_pointer(t));
                vec![]
            }
        };
        for i in &inputs {
            if i.is_coin() {
                self.coins.insert(*i.utxo_id().unwrap(), CoinInfo { owner: *i.input_owner().unwrap(), amount: i.amount().unwrap(), asset_id: *i.asset_id(&AssetId::default()).unwrap() });
            }
            if i.is_message() {
                self.msgs.insert(
                    *i.nonce().unwrap(),
                    MessageInfo { sender: *i.sender().unwrap(), recipient: *i.recipient().unwrap(), amount: i.amount().unwrap(), data: i.input_data().unwrap_or_default().to_vec() },
                );
            }
        }
    }
}
impl ContextError for Ctx {
    type Error = CtxErr;
}
macro_rules! registry_type {
    ($t:ty, $ks:expr, $to:expr, $from:expr) => {
        impl CompressibleBy<Ctx> for $t {
            async fn compress_with(&self, ctx: &mut Ctx) -> Result<RegistryKey, CtxErr> {
                let f: fn(&$t) -> Vec<u8> = $to;
                ctx.reg_compress($ks, &f(self))
            }
        }
        impl DecompressibleBy<Ctx> for $t {
            async fn decompress_with(key: RegistryKey, ctx: &Ctx) -> Result<$t, CtxErr> {
                let f: fn(Vec<u8>) -> Option<$t> = $from;
                f(ctx.reg_get($ks, key)?).ok_or(CtxErr::KeyNotFound)
            }
        }
    };
}
fn arr32(v: Vec<u8>) -> Option<[u8; 32]> {
    v.try_into().ok()
}
registry_type!(Address, KS_ADDRESS, |x| x.as_ref().to_vec(), |v| arr32(v).map(Address::from));
registry_type!(AssetId, KS_ASSET, |x| x.as_ref().to_vec(), |v| arr32(v).map(AssetId::from));
registry_type!(ContractId, KS_CONTRACT, |x| x.as_ref().to_vec(), |v| arr32(v).map(ContractId::from));
registry_type!(ScriptCode, KS_SCRIPT, |x| x.bytes.to_vec(), |v| Some(ScriptCode::from(v)));
registry_type!(PredicateCode, KS_PREDICATE, |x| x.bytes.to_vec(), |v| Some(PredicateCode::from(v)));

impl CompressibleBy<Ctx> for UtxoId {
    async fn compress_with(&self, ctx: &mut Ctx) -> Result<CompressedUtxoId, CtxErr> {
        let idx = match ctx.utxos.iter().position(|u| u == self) {
            Some(i) => i,
            None => {
                ctx.utxos.push(*self);
                ctx.utxos.len() - 1
            }
        };
        Ok(CompressedUtxoId { tx_pointer: TxPointer::new((idx as u32).into(), 0), output_index: 0 })
    }
}
impl DecompressibleBy<Ctx> for UtxoId {
    async fn decompress_with(c: CompressedUtxoId, ctx: &Ctx) -> Result<UtxoId, CtxErr> {
        if c.output_index != 0 || c.tx_pointer.tx_index() != 0 {
            return Err(CtxErr::UtxoNotFound);
        }
        ctx.utxos.get(u32::from(c.tx_pointer.block_height()) as usize).copied().ok_or(CtxErr::UtxoNotFound)
    }
}
impl<Spec> DecompressibleBy<Ctx> for Coin<Spec>
where
    Spec: CoinSpecification,
    Spec::Predicate: DecompressibleBy<Ctx>,
    Spec::PredicateData: DecompressibleBy<Ctx>,
    Spec::PredicateGasUsed: DecompressibleBy<Ctx>,
    Spec::Witness: DecompressibleBy<Ctx>,
{
    async fn decompress_with(c: <Coin<Spec> as fuel_compression::Compressible>::Compressed, ctx: &Ctx) -> Result<Coin<Spec>, CtxErr> {
        let utxo_id = UtxoId::decompress_with(c.utxo_id, ctx).await?;
        let info = ctx.coins.get(&utxo_id).ok_or(CtxErr::CoinNotFound)?;
        Ok(Coin {
            utxo_id,
            owner: info.owner,
            amount: info.amount,
            asset_id: info.asset_id,
            tx_pointer: Default::default(),
            witness_index: c.witness_index.decompress(ctx).await?,
            predicate_gas_used: c.predicate_gas_used.decompress(ctx).await?,
            predicate: c.predicate.decompress(ctx).await?,
            predicate_data: c.predicate_data.decompress(ctx).await?,
        })
    }
}
impl<Spec> DecompressibleBy<Ctx> for Message<Spec>
where
    Spec: MessageSpecification,
    Spec::Data: DecompressibleBy<Ctx> + Default,
    Spec::Predicate: DecompressibleBy<Ctx>,
    Spec::PredicateData: DecompressibleBy<Ctx>,
    Spec::PredicateGasUsed: DecompressibleBy<Ctx>,
    Spec::Witness: DecompressibleBy<Ctx>,
{
    async fn decompress_with(c: <Message<Spec> as fuel_compression::Compressible>::Compressed, ctx: &Ctx) -> Result<Message<Spec>, CtxErr> {
        let msg = ctx.msgs.get(&c.nonce).ok_or(CtxErr::MessageNotFound)?;
        let mut message: Message<Spec> = Message {
            sender: msg.sender,
            recipient: msg.recipient,
            amount: msg.amount,
            nonce: c.nonce,
            witness_index: c.witness_index.decompress(ctx).await?,
            predicate_gas_used: c.predicate_gas_used.decompress(ctx).await?,
            data: Default::default(),
            predicate: c.predicate.decompress(ctx).await?,
            predicate_data: c.predicate_data.decompress(ctx).await?,
        };
        if let Some(data) = message.data.as_mut_field() {
            *data = Bytes::new(msg.data.clone());
        }
        Ok(message)
    }
}
impl DecompressibleBy<Ctx> for Mint {
    async fn decompress_with(c: CompressedMint, ctx: &Ctx) -> Result<Mint, CtxErr> {
        Ok(Transaction::mint(
            ctx.mint_ptr.ok_or(CtxErr::NoTxPointer)?,
            c.input_contract.decompress(ctx).await?,
            c.output_contract.decompress(ctx).await?,
            c.mint_amount.decompress(ctx).await?,
            c.mint_asset_id.decompress(ctx).await?,
            c.gas_price.decompress(ctx).await?,
        ))
    }
}

fn block_on<F: std::future::Future>(f: F) -> F::Output {
    thread_local! {
        static RT: tokio::runtime::Runtime = tokio::runtime::Builder::new_current_thread().build().unwrap();
    }
    RT.with(|rt| rt.block_on(f))
}

// =============================================================================== neutral values
#[derive(Clone, Debug, PartialEq)]
enum V {
    N(u128),
    B(Vec<u8>),
    U,
    L(Vec<V>),
    R(Vec<V>),
    E(u32, Vec<V>),
}
impl V {
    fn coq(&self) -> String {
        let ls = |l: &Vec<V>| coq_list(&l.iter().map(|x| x.coq()).collect::<Vec<_>>());
        match self {
            V::N(n) => format!("(VN {})", n),
            V::B(b) => format!("(VB (hex \"{}\"))", hex::encode(b)),
            V::U => "VU".into(),
            V::L(l) => format!("(VL {})", ls(l)),
            V::R(l) => format!("(VR {})", ls(l)),
            V::E(i, l) => format!("(VE {} {})", i, ls(l)),
        }
    }
}
/// serde view of a value -> neutral form (see coq/DaComp/CompressModel.v)
fn to_val(t: &T) -> V {
    let ls = |l: &Vec<T>| l.iter().map(to_val).collect::<Vec<_>>();
    match t {
        T::U(_, n) => V::N(*n),
        T::Bool(b) => V::N(*b as u128),
        T::Bytes(b) => V::B(b.clone()),
        T::Str(s) => V::B(s.as_bytes().to_vec()),
        T::Unit | T::UnitStruct(_) | T::None => V::U,
        T::Some(v) => to_val(v),
        T::Tuple(l) if !l.is_empty() && l.iter().all(|x| matches!(x, T::U(8, _))) => V::B(l.iter().map(|x| if let T::U(_, n) = x { *n as u8 } else { 0 }).collect()),
        T::Tuple(l) | T::TupleStruct(_, l) => V::R(ls(l)),
        T::Seq(l) => V::L(ls(l)),
        T::Newtype(n, v) if n == "Empty" => V::R(vec![to_val(v)]),
        T::Newtype(n, v) if n == "RegistryKey" => match to_val(v) {
            V::B(b) if b.len() == 3 => V::N(((b[0] as u128) << 16) | ((b[1] as u128) << 8) | b[2] as u128),
            x => x,
        },
        T::Newtype(_, v) => to_val(v),
        T::Struct(_, f) => V::R(f.iter().map(|x| to_val(&x.1)).collect()),
        T::Map(kv) => V::L(kv.iter().map(|(k, v)| V::R(vec![to_val(k), to_val(v)])).collect()),
        T::VarUnit(_, i, _) => V::E(*i, vec![]),
        T::VarNewtype(_, i, _, v) => V::E(*i, vec![to_val(v)]),
        T::VarTuple(_, i, _, l) => V::E(*i, ls(l)),
        T::VarStruct(_, i, _, f) => V::E(*i, f.iter().map(|x| to_val(&x.1)).collect()),
    }
}
fn val_of<X: serde::Serialize>(x: &X) -> V {
    to_val(&record(x, false).expect("record"))
}

// =============================================================================== independent reference
/// the value the property expects back: every `#[compress(skip)]` field that the context does not
/// restore is at its Default, everything else unchanged (written from the attribute lists, not
/// from the derive output)
fn erase_unrestored(tx: &Transaction) -> Transaction {
    fn inputs(v: &mut Vec<Input>) {
        for i in v.iter_mut() {
            match i {
                Input::CoinSigned(c) => c.tx_pointer = Default::default(),
                Input::CoinPredicate(c) => c.tx_pointer = Default::default(),
                Input::Contract(c) => in_contract(c),
                _ => {}
            }
        }
    }
    fn in_contract(c: &mut input::contract::Contract) {
        c.utxo_id = Default::default();
        c.balance_root = Default::default();
        c.state_root = Default::default();
        c.tx_pointer = Default::default();
    }
    fn out_contract(c: &mut output::contract::Contract) {
        c.balance_root = Default::default();
        c.state_root = Default::default();
    }
    fn outputs(v: &mut Vec<Output>) {
        for o in v.iter_mut() {
            match o {
                Output::Contract(c) => out_contract(c),
                Output::Change { amount, .. } => *amount = 0,
                Output::Variable { to, amount, asset_id } => {
                    *to = Default::default();
                    *amount = 0;
                    *asset_id = Default::default();
                }
                _ => {}
            }
        }
    }
    macro_rules! chargeable {
        ($t:expr) => {{
            let mut t = $t.clone();
            inputs(field::Inputs::inputs_mut(&mut t));
            outputs(field::Outputs::outputs_mut(&mut t));
            t
        }};
    }
    match tx {
        Transaction::Script(t) => {
            let mut t = chargeable!(t);
            *field::ReceiptsRoot::receipts_root_mut(&mut t) = Default::default();
            // drop the cache: rebuild through the canonical encoding is not needed, metadata is ignored by ==
            t.into()
        }
        Transaction::Create(t) => chargeable!(t).into(),
        Transaction::Upgrade(t) => chargeable!(t).into(),
        Transaction::Upload(t) => chargeable!(t).into(),
        Transaction::Blob(t) => chargeable!(t).into(),
        Transaction::Mint(t) => {
            let mut t = t.clone();
            in_contract(field::InputContract::input_contract_mut(&mut t));
            out_contract(field::OutputContract::output_contract_mut(&mut t));
            t.into()
        }
    }
}

// =============================================================================== generators
struct Pools {
    addr: u64,
    code: u64,
}
fn pooled32(rng: &mut Rng, pool: u64) -> [u8; 32] {
    if rng.chance(1, 6) { b32(rng) } else { b32_pool(rng, pool) }
}
fn pooled_code(rng: &mut Rng, pool: u64, nonempty: bool) -> Vec<u8> {
    let k = rng.below(pool);
    if k == 0 && !nonempty {
        return vec![];
    }
    let mut r = Rng::new(0xC0DE_0000 + k);
    let n = 1 + r.below(12) as usize;
    r.bytes(n)
}
fn gen_input_pooled(rng: &mut Rng, p: &Pools, kind: usize) -> Input {
    let amount = rng.u64_biased();
    let gas = rng.u64_biased();
    let wi = rng.u64_biased() as u16;
    let dl = 1 + rng.below(12) as usize;
    let pdl = rng.below(8) as usize;
    let a = |rng: &mut Rng| pooled32(rng, p.addr);
    match kind {
        0 => Input::coin_signed(gen_utxo_unique(rng), a(rng).into(), amount, a(rng).into(), gen_txptr(rng), wi),
        1 => Input::coin_predicate(gen_utxo_unique(rng), a(rng).into(), amount, a(rng).into(), gen_txptr(rng), gas, pooled_code(rng, p.code, true), rng.bytes(pdl)),
        2 => Input::contract(gen_utxo(rng), b32(rng).into(), b32(rng).into(), gen_txptr(rng), a(rng).into()),
        3 => Input::message_coin_signed(a(rng).into(), a(rng).into(), amount, rng.bytes32().into(), wi),
        4 => Input::message_coin_predicate(a(rng).into(), a(rng).into(), amount, rng.bytes32().into(), gas, pooled_code(rng, p.code, true), rng.bytes(pdl)),
        5 => Input::message_data_signed(a(rng).into(), a(rng).into(), amount, rng.bytes32().into(), wi, rng.bytes(dl)),
        _ => Input::message_data_predicate(a(rng).into(), a(rng).into(), amount, rng.bytes32().into(), gas, rng.bytes(dl), pooled_code(rng, p.code, true), rng.bytes(pdl)),
    }
}
/// utxo ids / nonces are random 32-byte values: two different coins never share an id, so the
/// fact tables are functions (a context whose facts disagree with the transaction is outside the
/// statement)
fn gen_utxo_unique(rng: &mut Rng) -> UtxoId {
    UtxoId::new(rng.bytes32().into(), rng.u64_biased() as u16)
}
fn gen_output_pooled(rng: &mut Rng, p: &Pools, kind: usize) -> Output {
    let a = |rng: &mut Rng| pooled32(rng, p.addr);
    match kind {
        0 => Output::coin(a(rng).into(), rng.u64_biased(), a(rng).into()),
        1 => Output::contract(rng.u64_biased() as u16, b32(rng).into(), b32(rng).into()),
        2 => Output::change(a(rng).into(), rng.u64_biased(), a(rng).into()),
        3 => Output::variable(a(rng).into(), rng.u64_biased(), a(rng).into()),
        _ => Output::contract_created(a(rng).into(), b32(rng).into()),
    }
}
fn gen_tx_pooled(rng: &mut Rng, p: &Pools, kind: usize) -> Transaction {
    let ni = rng.below(5) as usize;
    let no = rng.below(5) as usize;
    let nw = rng.below(3) as usize;
    let mut inputs: Vec<Input> = (0..ni).map(|_| { let k = rng.below(7) as usize; gen_input_pooled(rng, p, k) }).collect();
    // the same input twice (identical facts): exercises reuse of utxo ids and registry keys
    if !inputs.is_empty() && rng.chance(1, 5) {
        let i = inputs[rng.below(inputs.len() as u64) as usize].clone();
        inputs.push(i);
    }
    let parts = Parts {
        policies: gen_policies(rng),
        inputs,
        outputs: (0..no).map(|_| { let k = rng.below(5) as usize; gen_output_pooled(rng, p, k) }).collect(),
        witnesses: (0..nw).map(|_| rng.bytes_upto(20).into()).collect(),
    };
    let mut tx = match kind {
        0 => {
            let mut t = Transaction::script(rng.u64_biased(), pooled_code(rng, p.code, false), rng.bytes_upto(12), parts.policies, parts.inputs, parts.outputs, parts.witnesses);
            *field::ReceiptsRoot::receipts_root_mut(&mut t) = b32(rng).into();
            Transaction::from(t)
        }
        2 => Transaction::mint(
            gen_txptr(rng),
            input::contract::Contract { utxo_id: gen_utxo(rng), balance_root: b32(rng).into(), state_root: b32(rng).into(), tx_pointer: gen_txptr(rng), contract_id: pooled32(rng, p.addr).into() },
            output::contract::Contract { input_index: rng.u64_biased() as u16, balance_root: b32(rng).into(), state_root: b32(rng).into() },
            rng.u64_biased(),
            pooled32(rng, p.addr).into(),
            rng.u64_biased(),
        )
        .into(),
        k => gen_tx_from_parts(rng, k, false, parts),
    };
    if rng.chance(1, 4) {
        let _ = tx.precompute(&chain());
    }
    tx
}

fn start_key(rng: &mut Rng) -> RegistryKey {
    let max = RegistryKey::MAX_WRITABLE.as_u32();
    let v = match rng.below(6) {
        0 => 0,
        1 => rng.below(1 << 20) as u32,
        _ => max - rng.below(7) as u32,
    };
    RegistryKey::try_from(v).unwrap()
}

// =============================================================================== cases
struct TxOutcome {
    compressed: Option<V>,
    decompressed: Option<V>,
    note: String,
}
fn run_tx(out: &mut Out, ctx: &mut Ctx, tx: &Transaction, seq_replay: &serde_json::Value) -> TxOutcome {
    let kind = tx_kind_name(tx);
    out.oracle_evaluations += 1;
    out.count(&format!("oracle/tx-{}", kind));
    ctx.begin_tx();
    ctx.store_tx_info(tx);
    let log0 = ctx.log.len();
    let compressed = match guarded(|| block_on(tx.compress_with(ctx))) {
        Ok(Ok(c)) => c,
        Ok(Err(e)) => {
            out.oracle_fail(&format!("compress-error-{}", kind), &format!("compression failed: {:?}", e), seq_replay.clone());
            return TxOutcome { compressed: None, decompressed: None, note: format!("{:?}", e) };
        }
        Err(p) => {
            out.oracle_fail(&format!("compress-panic-{}", kind), &format!("compression panicked: {}", p), seq_replay.clone());
            return TxOutcome { compressed: None, decompressed: None, note: p };
        }
    };
    let cval = val_of(&compressed);
    // the compressed form survives its wire format
    let wire = postcard::to_allocvec(&compressed).ok().and_then(|b| postcard::from_bytes::<CompressedTransaction>(&b).ok());
    if wire.as_ref() != Some(&compressed) {
        out.oracle_fail(&format!("compressed-postcard-roundtrip-{}", kind), "compressed transaction does not survive postcard", seq_replay.clone());
    }
    // compressing the same transaction again reuses every key (no allocation, same result)
    let snapshot = ctx.clone();
    let again = guarded(|| block_on(tx.compress_with(ctx)));
    let allocs_again = ctx.log[snapshot.log.len()..].iter().filter(|e| e.3).count();
    if !matches!(&again, Ok(Ok(c)) if c == &compressed) || allocs_again != 0 || ctx.utxos != snapshot.utxos {
        out.oracle_fail(&format!("recompression-not-idempotent-{}", kind), "second compression of the same transaction allocated keys or gave a different result", seq_replay.clone());
    }
    *ctx = snapshot;
    let _ = log0;
    let dec: Result<Result<Transaction, CtxErr>, String> = guarded(|| block_on(Transaction::decompress_with(compressed.clone(), ctx)));
    match dec {
        Ok(Ok(d)) => {
            let chain = chain();
            // strip the cache of the original before asking for its id (a cached id is returned verbatim)
            let orig_id = erase_metadata(tx).id(&chain);
            if d.id(&chain) != orig_id {
                out.oracle_fail(&format!("id-changed-{}", kind), &format!("id(decompress(compress(tx))) = {} but id(tx) = {}", d.id(&chain), orig_id), seq_replay.clone());
            }
            if d.cached_id().is_some() {
                out.oracle_fail(&format!("metadata-not-erased-{}", kind), "decompressed transaction carries cached metadata", seq_replay.clone());
            }
            let expect = erase_unrestored(tx);
            if d != expect {
                out.oracle_fail(&format!("non-skipped-field-changed-{}", kind), "decompressed transaction differs from the original in a field that is not skipped (or a skipped field is not at its default)", seq_replay.clone());
            }
            TxOutcome { compressed: Some(cval), decompressed: Some(val_of(&d)), note: String::new() }
        }
        Ok(Err(e)) => {
            out.oracle_fail(&format!("decompress-error-{}", kind), &format!("decompression failed against the compressing context: {:?}", e), seq_replay.clone());
            TxOutcome { compressed: Some(cval), decompressed: None, note: format!("{:?}", e) }
        }
        Err(p) => {
            out.oracle_fail(&format!("decompress-panic-{}", kind), &format!("decompression panicked: {}", p), seq_replay.clone());
            TxOutcome { compressed: Some(cval), decompressed: None, note: p }
        }
    }
}
/// same transaction without cached metadata (through the canonical encoding, which skips it)
fn erase_metadata(tx: &Transaction) -> Transaction {
    let b = fuel_types::canonical::Serialize::to_bytes(tx);
    <Transaction as fuel_types::canonical::Deserialize>::from_bytes(&b).unwrap_or_else(|_| tx.clone())
}

fn seq_case(out: &mut Out, start: RegistryKey, txs: &[Transaction], stream: &str, model: bool) {
    let replay = json!({"kind":"seq","start":start.as_u32(),"txs":txs.iter().map(|t| hex::encode(postcard::to_allocvec(t).unwrap_or_default())).collect::<Vec<_>>()});
    let mut ctx = Ctx::new(start);
    let mut items = vec![];
    let mut kinds = vec![];
    let mut complete = true;
    for tx in txs {
        let o = run_tx(out, &mut ctx, tx, &replay);
        kinds.push(tx_kind_name(tx));
        match (o.compressed, o.decompressed) {
            (Some(c), Some(d)) => items.push(format!("({}, {}, {})", val_of(tx).coq(), c.coq(), d.coq())),
            _ => {
                complete = false;
                out.notes.push(format!("sequence dropped from the model cases: {}", o.note));
            }
        }
    }
    // later transactions must not break earlier registrations that are still referenced... they may:
    // keys are rotated.  What must hold is only per-transaction round trip, checked above.
    let allocs = ctx.log.iter().filter(|e| e.3).count();
    let wrapped = ctx.spaces.values().any(|s| s.next.as_u32() < start.as_u32());
    if model && complete {
        out.push(Case {
            coq: format!("CSeq {} {}", start.as_u32(), coq_list(&items)),
            json: json!({"kind":"seq","stream":stream,"start":start.as_u32(),"txs":kinds,"registry_calls":ctx.log.len(),"allocations":allocs,"wrapped":wrapped}),
            key: format!("seq:{}:{}", start.as_u32(), hex::encode(&txs.iter().flat_map(|t| t.id(&chain()).to_vec()).collect::<Vec<u8>>()[..txs.len().min(4) * 8])),
            nontrivial: ctx.log.iter().any(|e| !e.3) && allocs > 0,
            class: format!("seq/{}/{}", stream, if wrapped { "wrapped" } else { "no-wrap" }),
        });
    }
}

/// pure registry histories (many allocations, wrap-around, pinned keys in the way)
fn keys_case(out: &mut Out, rng: &mut Rng) {
    let start = start_key(rng);
    let mut ctx = Ctx::new(start);
    let pool = 2 + rng.below(12);
    let n = 5 + rng.below(40) as usize;
    let mut ops = vec![];
    let mut exp = vec![];
    for _ in 0..n {
        if rng.chance(1, 5) {
            ctx.begin_tx();
            ops.push("KBegin".to_string());
            continue;
        }
        let ks = rng.below(3) as u8;
        let v = b32_pool(rng, pool).to_vec();
        match ctx.reg_compress(ks, &v) {
            Ok(k) => {
                let alloc = ctx.log.last().unwrap().3;
                ops.push(format!("(KPut {} {})", ks, coq_bytes(&v)));
                exp.push(format!("({}, {})", k.as_u32(), coq_bool(alloc)));
                // oracle: the key just returned stands for the value, and is never the default key
                out.oracle_evaluations += 1;
                if ctx.reg_get(ks, k).ok().as_deref() != Some(&v[..]) || k == RegistryKey::DEFAULT_VALUE {
                    out.oracle_fail("registry-key-does-not-resolve", "key returned by the registry does not resolve to the value", json!({"kind":"keys"}));
                }
            }
            Err(e) => out.notes.push(format!("registry error {:?}", e)),
        }
    }
    let wrapped = ctx.spaces.values().any(|s| s.next.as_u32() < start.as_u32());
    out.push(Case {
        coq: format!("CKeys {} {} {}", start.as_u32(), coq_list(&ops), coq_list(&exp)),
        json: json!({"kind":"keys","start":start.as_u32(),"ops":ops.len(),"wrapped":wrapped}),
        key: format!("keys:{}:{}", start.as_u32(), ops.join("")),
        nontrivial: exp.len() > 3,
        class: format!("keys/{}", if wrapped { "wrapped" } else { "no-wrap" }),
    });
}

/// RegistryKey::next on boundary and random keys
fn next_case(out: &mut Out, k: u32) {
    let key = match RegistryKey::try_from(k) {
        Ok(x) => x,
        Err(_) => {
            out.push(Case { coq: format!("CNext {} None true", k), json: json!({"kind":"next","k":k,"r":"not-a-key"}), key: format!("next:{}", k), nontrivial: false, class: "next/not-a-key".into() });
            return;
        }
    };
    let r = guarded(|| key.next());
    let (coq, class) = match &r {
        Ok(n) => (format!("(Some {})", n.as_u32()), if n.as_u32() == 0 { "next/wrap" } else { "next/succ" }),
        Err(_) => ("None".to_string(), "next/panic"),
    };
    out.oracle_evaluations += 1;
    if let Ok(n) = &r {
        if *n == RegistryKey::DEFAULT_VALUE || n.as_u32() != (k + 1) % 0xff_ffff {
            out.oracle_fail("registry-key-next-wrong", &format!("next({}) = {}", k, n.as_u32()), json!({"kind":"next","k":k}));
        }
    } else if key != RegistryKey::DEFAULT_VALUE {
        out.oracle_fail("registry-key-next-panics", &format!("next({}) panicked", k), json!({"kind":"next","k":k}));
    }
    let bytes_ok = RegistryKey::try_from(key.as_ref()).map(|x| x == key).unwrap_or(false);
    out.push(Case { coq: format!("CNext {} {} false", k, coq), json: json!({"kind":"next","k":k}), key: format!("next:{}", k), nontrivial: true, class: class.into() });
    if !bytes_ok {
        out.oracle_fail("registry-key-bytes", "key bytes do not round-trip", json!({"kind":"next","k":k}));
    }
}

fn run_c07(args: &Args, out: &mut Out) {
    let mut rng = Rng::new(args.seed);
    let model = !args.oracle_only;
    if model {
        for k in [0u32, 1, 2, 255, 256, 65535, 65536, 0xff_fffc, 0xff_fffd, 0xff_fffe, 0xff_ffff, 0x100_0000, u32::MAX] {
            next_case(out, k);
        }
    }
    // sequences of transactions of all kinds through one context, interleaved with pure registry
    // histories and RegistryKey::next probes (so that the model shards are balanced)
    let n_seq = args.scale(48, 4000);
    let n_keys = args.scale(144, 6000);
    let n_next = args.scale(48, 2000);
    for i in 0..n_seq {
        let pools = Pools { addr: 2 + rng.below(10), code: 2 + rng.below(5) };
        let start = start_key(&mut rng);
        let len = 2 + rng.below(5) as usize;
        let txs: Vec<Transaction> = (0..len).map(|j| { let k = if j == 0 { i % 6 } else { rng.below(6) as usize }; gen_tx_pooled(&mut rng, &pools, k) }).collect();
        // thorough tier: only every 8th sequence goes to the (slower) model
        seq_case(out, start, &txs, "pooled", model && (!args.thorough() || i % 8 == 0));
        if model {
            for _ in 0..n_keys.div_ceil(n_seq) {
                keys_case(out, &mut rng);
            }
            for _ in 0..n_next.div_ceil(n_seq) {
                next_case(out, rng.below(0xff_ffff) as u32);
            }
        }
    }
    // the library's own factory transactions (signed inputs), one context per kind
    {
        use fuel_tx::test_helper::TransactionFactory;
        let k = args.scale(5, 100);
        let s = rng.next();
        let mut all: Vec<Vec<Transaction>> = vec![];
        all.push(TransactionFactory::<_, Script>::from_seed(s).take(k).map(|(t, _)| t.into()).collect());
        all.push(TransactionFactory::<_, Create>::from_seed(s).take(k).map(|(t, _)| t.into()).collect());
        all.push(TransactionFactory::<_, Upgrade>::from_seed(s).take(k).map(|(t, _)| t.into()).collect());
        all.push(TransactionFactory::<_, Upload>::from_seed(s).take(k).map(|(t, _)| t.into()).collect());
        all.push(TransactionFactory::<_, Blob>::from_seed(s).take(k).map(|(t, _)| t.into()).collect());
        all.push(TransactionFactory::<_, Mint>::from_seed(s).take(k).map(|t| t.into()).collect());
        for txs in all {
            seq_case(out, start_key(&mut rng), &txs, "factory", false);
        }
    }
}

fn replay_c07(out: &mut Out, v: &serde_json::Value) {
    match v.get("kind").and_then(|k| k.as_str()) {
        Some("seq") => {
            let start = RegistryKey::try_from(v["start"].as_u64().unwrap_or(0) as u32).unwrap_or(RegistryKey::ZERO);
            let txs: Vec<Transaction> = v["txs"].as_array().cloned().unwrap_or_default().iter().filter_map(|x| hex::decode(x.as_str()?).ok()).filter_map(|b| postcard::from_bytes(&b).ok()).collect();
            seq_case(out, start, &txs, "replay", true);
        }
        Some("next") => next_case(out, v["k"].as_u64().unwrap_or(0) as u32),
        _ => out.notes.push("replay: unknown kind".into()),
    }
}

fn main() {
    quiet_panics();
    let args = Args::parse();
    let mut out = Out::new();
    let header = "From FV Require Import Base.Bytes DaComp.RegistryModel DaComp.CompressModel Run.DaComp.\nOpen Scope N_scope.";
    match args.prop.as_str() {
        "C07" => {
            if let Some(f) = &args.replay {
                let v = read_replay(f);
                replay_c07(&mut out, &v);
            } else {
                run_c07(&args, &mut out);
            }
            out.write(&args, header, "ccase", "bad_ccases");
        }
        p => {
            eprintln!("dacomp: unknown property {p}");
            std::process::exit(2);
        }
    }
}
