//! C27 — assets are conserved by every script execution: trace extraction for the Coq checker
//! (Run/Assets.v) and the implementation-level oracle (per-asset ledger equation in u128,
//! receipt = balance movement, memory table = running free balances).
#[path = "../vmfin/mod.rs"]
mod vmfin;
use fuel_tx::{Output, Receipt};
use fuel_types::{AssetId, ContractId};
use fuel_tx::ContractIdExt;
use fvh::vmtrace::*;
use fvh::*;
use serde_json::json;
use std::collections::{BTreeMap, BTreeSet};
use vmfin::*;

const ASSET_OPS: [&str; 6] = ["TR", "TRO", "CALL", "MINT", "BURN", "SMO"];
fn is_asset_opcode(b: u8) -> bool {
    fuel_asm::Opcode::try_from(b).map(|o| ASSET_OPS.contains(&format!("{o:?}").as_str())).unwrap_or(false)
}

fn scenario_json(scn: &Scenario) -> serde_json::Value {
    json!({"scenario": scn.to_json(), "gas_price": scn.world.gas_price, "max_fee": scn.tx.max_fee})
}
fn scenario_from(v: &serde_json::Value) -> Result<Scenario, String> {
    let mut s = Scenario::from_json(&v["scenario"])?;
    s.world.gas_price = v["gas_price"].as_u64().unwrap_or(0);
    s.tx.max_fee = v["max_fee"].as_u64().unwrap_or(0);
    Ok(s)
}
fn to_scenario(w: World, tx: TxSpec, note: &str) -> Scenario {
    let ids: Vec<ContractId> = w.contracts.iter().map(|c| c.id).collect();
    let layout = DataLayout::new(&mut Rng::new(0), &ids, &w.assets.clone(), 0);
    Scenario { world: w, tx, layout, units: vec![], seed_note: note.to_string() }
}

fn coq_values(t: &[(AssetId, u64)]) -> String {
    coq_list(&t.iter().map(|(_, v)| v.to_string()).collect::<Vec<_>>())
}
fn coq_table(t: &[(AssetId, u64)]) -> String {
    coq_list(&t.iter().map(|(a, v)| format!("({}, {})", idn(a.as_ref()), v)).collect::<Vec<_>>())
}
fn coq_cb(m: &BTreeMap<(ContractId, AssetId), u64>) -> String {
    coq_list(&m.iter().map(|((c, a), v)| format!("(({}, {}), {})", idn(c.as_ref()), idn(a.as_ref()), v)).collect::<Vec<_>>())
}
fn coq_ctx(c: &Ctx) -> String {
    match c { Ctx::Script => "Script".into(), Ctx::Contract(id) => format!("(Internal {})", idn(id.as_ref())) }
}

struct AStep {
    coq_op: String,
    kind: String,
    obs: Option<u8>,
    receipt: Option<String>,
    table: Vec<(AssetId, u64)>,
    cwrites: BTreeMap<(ContractId, AssetId), u64>,
}

fn sub_asset(c: &ContractId, sub: &[u8; 32]) -> AssetId {
    c.asset_id(&fuel_types::SubAssetId::from(*sub))
}

struct CaseOut {
    case: Option<Case>,
    fails: Vec<(String, String)>,
    stats: Vec<String>,
}

fn run_case(scn: &Scenario, idx: usize) -> Result<CaseOut, String> {
    let w = &scn.world;
    let ready = scn.tx.build(w)?;
    let mut fails: Vec<(String, String)> = vec![];
    let mut stats: Vec<String> = vec![];
    let tr = match guarded(|| trace(w, &scn.tx, &TraceOpts::default())) {
        Ok(Ok(t)) => t,
        Ok(Err(e)) => return Err(e),
        Err(p) => { fails.push(("host-panic".into(), format!("host panic while tracing: {p}"))); return Ok(CaseOut { case: None, fails, stats }); }
    };
    if tr.final_state == FinalState::StepLimit { return Err("step limit".into()); }
    if let FinalState::Error(e) = &tr.final_state {
        fails.push(("non-panic-interpreter-error".into(), format!("transact returned a non-panic error: {e}")));
        return Ok(CaseOut { case: None, fails, stats });
    }
    let (Some(result), Some(gas_used)) = (tr.script_result, tr.gas_used) else { return Err("no script result".into()) };
    let facts = tx_facts(w, &ready);
    let pr = probe(w, ready.clone(), 25_000, is_asset_opcode);
    let cl = client_run(w, ready.clone(), &tr.storage_log);
    let exec: Vec<&Step> = tr.steps.iter().filter(|s| s.kind == StepKind::Exec).collect();
    if exec.len() != pr.steps.len() || exec.iter().zip(&pr.steps).any(|(a, b)| a.pc != b.pc || a.raw != b.raw) {
        fails.push(("probe-trace-misaligned".into(), format!("probe run and traced run differ ({} vs {} steps)", pr.steps.len(), exec.len())));
        return Ok(CaseOut { case: None, fails, stats });
    }
    // storage before / after on the same key set
    let before = dump_storage(&w.storage, w, &tr.storage_log);
    let cb0 = before.balances.clone();
    let cb_final = cl.storage_after.balances.clone();
    let success = result == 0;
    // ---------------------------------------------------------------- steps
    let mut asteps: Vec<AStep> = vec![];
    let mut run_cb: BTreeMap<(ContractId, AssetId), u64> = cb0.clone();
    let mut run_table: Vec<(AssetId, u64)> = pr.table0.clone();
    let (mut minted, mut burned): (BTreeMap<AssetId, u128>, BTreeMap<AssetId, u128>) = (BTreeMap::new(), BTreeMap::new());
    let mut msgout: u128 = 0;
    let mut variable_sets: Vec<(u64, [u8; 32], u64, AssetId)> = vec![];
    let mut subassets: BTreeMap<(ContractId, [u8; 32]), AssetId> = BTreeMap::new();
    if !pr.tail0_zero { fails.push(("memory-table-tail-nonzero".into(), "balance table area beyond the last entry is not zero at start".into())); }
    for (s, p) in exec.iter().zip(&pr.steps) {
        let is_asset = ASSET_OPS.contains(&s.mnemonic.as_str()) && s.instr.is_some();
        // contract balance writes of this step
        let mut cw: BTreeMap<(ContractId, AssetId), u64> = BTreeMap::new();
        for e in &s.storage {
            if e.table == "ContractsAssets" && e.op == StorageOp::Write && e.key.len() == 64 {
                if let Some(v) = &e.value { if v.len() == 8 {
                    cw.insert((ContractId::from(b32(&e.key[..32])), AssetId::from(b32(&e.key[32..]))), u64::from_be_bytes(v[..8].try_into().unwrap()));
                } }
            } else if e.table == "ContractsAssets" && e.op != StorageOp::Read {
                fails.push(("balance-table-unexpected-storage-op".into(), format!("step {} {}: {:?} on ContractsAssets", s.index, s.mnemonic, e.op)));
            }
        }
        let panicked = s.outcome.panic_reason();
        if !is_asset {
            if !cw.is_empty() { fails.push(("balance-write-outside-asset-op".into(), format!("step {} {} wrote contract balances", s.index, s.mnemonic))); }
            if p.table_after != run_table { fails.push(("memory-table-changed-outside-asset-op".into(), format!("step {} {} changed the balance table in memory", s.index, s.mnemonic))); run_table = p.table_after.clone(); }
            for (k, v) in cw { run_cb.insert(k, v); }
            continue;
        }
        let fv = s.field_values();
        let at = &p.at_fields;
        let cx = &s.ctx_before;
        let from_id: [u8; 32] = match cx { Ctx::Script => [0u8; 32], Ctx::Contract(c) => b32(c.as_ref()) };
        // resolve operands; None if a pointer operand is unreadable
        let (coq_op, expect): (Option<String>, Option<(String, Vec<((ContractId, AssetId), i128)>, Vec<(AssetId, i128)>)>) = match s.mnemonic.as_str() {
            "TR" => match (at[0], at[2]) {
                (Some(dst), Some(a)) => {
                    let amt = fv[1];
                    let mut dc = vec![((ContractId::from(dst), AssetId::from(a)), amt as i128)];
                    let mut df = vec![];
                    match cx { Ctx::Script => df.push((AssetId::from(a), -(amt as i128))), Ctx::Contract(c) => dc.push(((*c, AssetId::from(a)), -(amt as i128))) }
                    (Some(format!("OpTransfer {} {} {} {}", coq_ctx(cx), idn(&dst), idn(&a), amt)),
                     Some((format!("RTransfer {} {} {} {}", idn(&from_id), idn(&dst), amt, idn(&a)), dc, df)))
                }
                _ => (None, None),
            },
            "TRO" => match (at[0], at[3]) {
                (Some(to), Some(a)) => {
                    let (idx, amt) = (fv[1], fv[2]);
                    let mut dc = vec![];
                    let mut df = vec![];
                    match cx { Ctx::Script => df.push((AssetId::from(a), -(amt as i128))), Ctx::Contract(c) => dc.push(((*c, AssetId::from(a)), -(amt as i128))) }
                    if panicked.is_none() { variable_sets.push((idx, to, amt, AssetId::from(a))); }
                    (Some(format!("OpTransferOut {} {} {} {} {}", coq_ctx(cx), idn(&to), idx, idn(&a), amt)),
                     Some((format!("RTransferOut {} {} {} {}", idn(&from_id), idn(&to), amt, idn(&a)), dc, df)))
                }
                _ => (None, None),
            },
            "CALL" => match (at[0], at[2]) {
                (Some(dst), Some(a)) => {
                    let amt = fv[1];
                    let mut dc = vec![((ContractId::from(dst), AssetId::from(a)), amt as i128)];
                    let mut df = vec![];
                    match cx { Ctx::Script => df.push((AssetId::from(a), -(amt as i128))), Ctx::Contract(c) => dc.push(((*c, AssetId::from(a)), -(amt as i128))) }
                    (Some(format!("OpCall {} {} {} {}", coq_ctx(cx), idn(&dst), idn(&a), amt)),
                     Some((format!("RCall {} {} {} {}", idn(&from_id), idn(&dst), amt, idn(&a)), dc, df)))
                }
                _ => (None, None),
            },
            "MINT" | "BURN" => match (at[1], cx) {
                (Some(sub), Ctx::Contract(c)) => {
                    let amt = fv[0];
                    let a = sub_asset(c, &sub);
                    subassets.insert((*c, sub), a);
                    let mint = s.mnemonic == "MINT";
                    if panicked.is_none() { *(if mint { &mut minted } else { &mut burned }).entry(a).or_insert(0) += amt as u128; }
                    (Some(format!("{} {} {} {}", if mint { "OpMint" } else { "OpBurn" }, coq_ctx(cx), idn(&sub), amt)),
                     Some((format!("{} {} {} {}", if mint { "RMint" } else { "RBurn" }, idn(&sub), idn(c.as_ref()), amt),
                           vec![((*c, a), if mint { amt as i128 } else { -(amt as i128) })], vec![])))
                }
                (_, Ctx::Script) => (Some(format!("{} Script 0 {}", if s.mnemonic == "MINT" { "OpMint" } else { "OpBurn" }, fv[0])), None),
                _ => (None, None),
            },
            "SMO" => {
                let amt = fv[3];
                let mut dc = vec![];
                let mut df = vec![];
                match cx { Ctx::Script => df.push((facts.base, -(amt as i128))), Ctx::Contract(c) => dc.push(((*c, facts.base), -(amt as i128))) }
                if panicked.is_none() { msgout += amt as u128; }
                (Some(format!("OpMessageOut {} {}", coq_ctx(cx), amt)), Some((format!("RMessageOut {}", amt), dc, df)))
            }
            _ => (None, None),
        };
        // the receipt the step pushed (amount-carrying part)
        let receipt: Option<String> = s.receipts.iter().find_map(|r| match r {
            Receipt::Transfer { id, to, amount, asset_id, .. } => Some(format!("RTransfer {} {} {} {}", idn(id.as_ref()), idn(to.as_ref()), amount, idn(asset_id.as_ref()))),
            Receipt::TransferOut { id, to, amount, asset_id, .. } => Some(format!("RTransferOut {} {} {} {}", idn(id.as_ref()), idn(to.as_ref()), amount, idn(asset_id.as_ref()))),
            Receipt::Call { id, to, amount, asset_id, .. } => Some(format!("RCall {} {} {} {}", idn(id.as_ref()), idn(to.as_ref()), amount, idn(asset_id.as_ref()))),
            Receipt::Mint { sub_id, contract_id, val, .. } => Some(format!("RMint {} {} {}", idn(sub_id.as_ref()), idn(contract_id.as_ref()), val)),
            Receipt::Burn { sub_id, contract_id, val, .. } => Some(format!("RBurn {} {} {}", idn(sub_id.as_ref()), idn(contract_id.as_ref()), val)),
            Receipt::MessageOut { amount, .. } => Some(format!("RMessageOut {}", amount)),
            _ => None,
        });
        // ---- oracle: receipt = movement of exactly that amount (observed storage writes / memory table)
        if panicked.is_none() {
            match &expect {
                Some((want_receipt, dc, df)) => {
                    if receipt.as_deref() != Some(want_receipt.as_str()) {
                        fails.push(("receipt-does-not-announce-operands".into(), format!("step {} {}: receipt {:?}, operands say {}", s.index, s.mnemonic, receipt, want_receipt)));
                    }
                    // net expected deltas per contract key / free asset
                    let mut ec: BTreeMap<(ContractId, AssetId), i128> = BTreeMap::new();
                    for (k, d) in dc { *ec.entry(*k).or_insert(0) += d; }
                    let mut keys: BTreeSet<(ContractId, AssetId)> = ec.keys().cloned().collect();
                    keys.extend(cw.keys().cloned());
                    for k in keys {
                        let before = *run_cb.get(&k).unwrap_or(&0) as i128;
                        let after = cw.get(&k).map(|v| *v as i128).unwrap_or(before);
                        if after - before != *ec.get(&k).unwrap_or(&0) {
                            fails.push(("receipt-amount-vs-contract-balance".into(), format!("step {} {}: contract balance moved by {} but the receipt announces {}", s.index, s.mnemonic, after - before, ec.get(&k).unwrap_or(&0))));
                        }
                    }
                    let mut ef: BTreeMap<AssetId, i128> = BTreeMap::new();
                    for (a, d) in df { *ef.entry(*a).or_insert(0) += d; }
                    for (i, (a, v)) in p.table_after.iter().enumerate() {
                        let before = run_table.get(i).map(|x| x.1).unwrap_or(0) as i128;
                        if run_table.get(i).map(|x| x.0) != Some(*a) { fails.push(("memory-table-asset-id-changed".into(), format!("step {}: entry {} changed its asset id", s.index, i))); }
                        if *v as i128 - before != *ef.get(a).unwrap_or(&0) {
                            fails.push(("receipt-amount-vs-free-balance".into(), format!("step {} {}: free balance in memory moved by {} but the receipt announces {}", s.index, s.mnemonic, *v as i128 - before, ef.get(a).unwrap_or(&0))));
                        }
                    }
                    for (a, _) in &ef { if !p.table_after.iter().any(|x| x.0 == *a) && ef[a] != 0 { fails.push(("free-balance-spent-without-table-entry".into(), format!("step {}: asset without table entry was debited", s.index))); } }
                }
                None => fails.push(("asset-op-succeeded-with-unreadable-operands".into(), format!("step {} {} succeeded but its operands were unreadable / it is not allowed here", s.index, s.mnemonic))),
            }
        }
        if panicked.is_some() {
            // a panicking instruction may have debited the free balance already (the run is reverted), nothing else
            let debit: Option<(AssetId, u64)> = match (&expect, cx) { (Some((_, _, df)), Ctx::Script) => df.first().map(|(a, d)| (*a, (-*d) as u64)), _ => None };
            for (i, (a, v)) in p.table_after.iter().enumerate() {
                let before = run_table.get(i).map(|x| x.1).unwrap_or(0);
                let ok = *v == before || matches!(debit, Some((da, amt)) if da == *a && before.checked_sub(amt) == Some(*v));
                if !ok || run_table.get(i).map(|x| x.0) != Some(*a) {
                    fails.push(("memory-table-after-panic".into(), format!("step {} {}: table entry {} went from {} to {} in a panicking instruction", s.index, s.mnemonic, i, before, v)));
                }
            }
        }
        if !p.tail_zero { fails.push(("memory-table-tail-nonzero".into(), format!("step {}: table area beyond the last entry is not zero", s.index))); }
        for (k, v) in &cw { run_cb.insert(*k, *v); }
        run_table = p.table_after.clone();
        stats.push(format!("{}:{}", s.mnemonic, panicked.map(|r| format!("{r:?}")).unwrap_or_else(|| "ok".into())));
        if let Some(op) = coq_op {
            asteps.push(AStep { coq_op: op, kind: s.mnemonic.clone(), obs: panicked.map(reason_byte), receipt, table: p.table_after.clone(), cwrites: cw });
        } else {
            stats.push("operands-unreadable".into());
            if panicked.is_none() { /* reported above */ }
        }
    }
    // ---------------------------------------------------------------- final facts
    let Some(refund) = facts.refund_impl(w, gas_used) else { return Err("refund overflow".into()) };
    if facts.refund_ref(gas_used) != Some(refund) {
        fails.push(("refund-formula-mismatch".into(), format!("refund_fee = {refund}, exact formula = {:?}", facts.refund_ref(gas_used))));
    }
    if cl.outputs != tr.outputs { fails.push(("client-outputs-differ".into(), "MemoryClient and Interpreter::transact produced different outputs".into())); }
    if cl.receipts != tr.receipts { fails.push(("client-receipts-differ".into(), "MemoryClient and Interpreter::transact produced different receipts".into())); }
    let outs_final: Vec<TOut> = tr.outputs.iter().map(out_of).collect();
    // ---- oracle: the ledger equation, per asset, in u128, from inputs / outputs / storage / receipts
    let mut assets: BTreeSet<AssetId> = w.assets.iter().cloned().collect();
    assets.insert(facts.base);
    for i in &facts.ins { if let TIn::Coin(a, _) = i { assets.insert(*a); } }
    for o in facts.outs.iter().chain(outs_final.iter()) { match o { TOut::Coin(_, _, a) | TOut::Change(_, _, a) | TOut::Variable(_, _, a) => { assets.insert(*a); } _ => {} } }
    for ((_, a), _) in cb0.iter().chain(cb_final.iter()) { assets.insert(*a); }
    for a in minted.keys().chain(burned.keys()) { assets.insert(*a); }
    let class_end = match result { 0 => "success", 1 => "revert", _ => "panic" };
    for a in &assets {
        let is_base = *a == facts.base;
        let mut lhs: u128 = 0;
        for i in &facts.ins {
            match i {
                TIn::Coin(x, m) if x == a => lhs += *m as u128,
                TIn::MsgCoin(m) if is_base => lhs += *m as u128,
                TIn::MsgData(m) if is_base && success => lhs += *m as u128,
                _ => {}
            }
        }
        lhs += cb0.iter().filter(|((_, x), _)| x == a).map(|(_, v)| *v as u128).sum::<u128>();
        if success { lhs += *minted.get(a).unwrap_or(&0); }
        let mut rhs: u128 = 0;
        let mut has_change = false;
        for o in &outs_final {
            match o {
                TOut::Coin(_, m, x) if x == a => rhs += *m as u128,
                TOut::Change(_, m, x) if x == a => { rhs += *m as u128; has_change = true; }
                TOut::Variable(_, m, x) if x == a => rhs += *m as u128,
                _ => {}
            }
        }
        rhs += cb_final.iter().filter(|((_, x), _)| x == a).map(|(_, v)| *v as u128).sum::<u128>();
        if success { rhs += *burned.get(a).unwrap_or(&0); }
        if !has_change {
            let free = if success { pr.table_final.iter().find(|x| x.0 == *a).map(|x| x.1).unwrap_or(0) } else { pr.initial_nr.iter().find(|x| x.0 == *a).map(|x| x.1).unwrap_or(0) };
            rhs += free as u128 + if is_base { refund as u128 } else { 0 };
        }
        if is_base { rhs += (facts.max_fee - refund) as u128 + if success { msgout } else { 0 }; }
        if lhs != rhs {
            fails.push((format!("ledger-equation-{class_end}"), format!("asset {}: inputs+prior+minted = {lhs} but outputs+final+burned+leftover+fee+messages = {rhs}", hex::encode(a))));
        }
    }
    // ---- oracle: failed execution => variable outputs zero, change = initial (+ refund), storage as before
    if !success {
        for o in &outs_final {
            match o {
                TOut::Variable(_, m, _) if *m != 0 => fails.push(("failed-variable-output-not-zero".into(), "variable output amount not zero after revert/panic".into())),
                TOut::Change(_, m, a) => {
                    let init = pr.initial_nr.iter().find(|x| x.0 == *a).map(|x| x.1).unwrap_or(0) as u128 + if *a == facts.base { refund as u128 } else { 0 };
                    if *m as u128 != init { fails.push(("failed-change-not-initial".into(), format!("change {} after failure, initial free balance (+refund) {}", m, init))); }
                }
                _ => {}
            }
        }
        if cb_final != cb0 { fails.push(("failed-contract-balances-not-rolled-back".into(), "MemoryClient storage balances differ after revert/panic".into())); }
    } else {
        // successful TROs are visible as variable outputs of exactly that amount
        for (idx, to, amt, a) in &variable_sets {
            match tr.outputs.get(*idx as usize) {
                Some(Output::Variable { to: t, amount, asset_id }) if t.as_ref() == to && amount == amt && asset_id == a => {}
                other => fails.push(("transfer-out-not-in-variable-output".into(), format!("TRO of {amt} to output {idx}: final output is {other:?}"))),
            }
        }
        for (k, v) in &cb_final {
            if run_cb.get(k).unwrap_or(&0) != v {
                fails.push(("committed-balances-differ-from-writes".into(), "MemoryClient storage after success differs from the balance writes observed".into()));
                break;
            }
        }
    }
    // ---------------------------------------------------------------- the Coq case
    let steps_coq: Vec<String> = asteps.iter().map(|s| format!(
        "{{| as_op := {}; as_obs := {}; as_receipt := {}; as_table := {}; as_cwrites := {} |}}",
        s.coq_op, coq_opt(s.obs.map(|b| b.to_string())), coq_opt(s.receipt.clone().map(|r| format!("({r})"))), coq_values(&s.table), coq_cb(&s.cwrites))).collect();
    let coq = format!(
        "{{| ac_base := {}; ac_input_contracts := {}; ac_ins := {}; ac_outs := {}; ac_max_fee := {}; ac_cb0 := {}; ac_initial := {}; ac_table0 := {};\n   ac_steps := {};\n   ac_end := {}; ac_refund := {}; ac_outs_final := {}; ac_cb_final := {}; ac_table_final := {}; ac_assets := {}; ac_subassets := {} |}}",
        idn(facts.base.as_ref()),
        coq_list(&facts.input_contracts.iter().map(|c| idn(c.as_ref())).collect::<Vec<_>>()),
        coq_list(&facts.ins.iter().map(|i| i.coq()).collect::<Vec<_>>()),
        coq_list(&facts.outs.iter().map(|o| o.coq()).collect::<Vec<_>>()),
        facts.max_fee, coq_cb(&cb0), coq_table(&pr.initial_nr), coq_table(&pr.table0),
        coq_list(&steps_coq), result, refund,
        coq_list(&outs_final.iter().map(|o| o.coq()).collect::<Vec<_>>()),
        coq_cb(&cb_final), coq_table(&pr.table_final),
        coq_list(&assets.iter().map(|a| idn(a.as_ref())).collect::<Vec<_>>()),
        coq_list(&subassets.iter().map(|((c, sub), a)| format!("(({}, {}), {})", idn(c.as_ref()), idn(sub), idn(a.as_ref()))).collect::<Vec<_>>()));
    let kinds: Vec<String> = asteps.iter().map(|s| format!("{}{}", s.kind, s.obs.map(|b| format!("!{b}")).unwrap_or_default())).collect();
    let key = format!("{}|{}|{}|{}", kinds.join(","), result, facts.outs.len(), facts.ins.len());
    let nontrivial = !asteps.is_empty();
    let class = format!("{}-{}", if scn.seed_note.starts_with("boundary") { "boundary" } else { "generated" }, class_end);
    let case = Case {
        coq: intern_ids(&coq),
        json: json!({"i": idx, "note": scn.seed_note, "asset_steps": kinds, "result": result, "gas_used": gas_used, "refund": refund,
                     "max_fee": facts.max_fee, "replay": scenario_json(scn)}),
        key, nontrivial, class,
    };
    Ok(CaseOut { case: Some(case), fails, stats })
}

// ------------------------------------------------------------------------------------ generators
fn gen_generated(rng: &mut Rng) -> Scenario {
    let mut cfg = GenCfg::default();
    cfg.n_contracts = rng.range(1, 3) as usize;
    cfg.unit_items = rng.range(6, 22) as usize;
    cfg.features = match rng.below(4) {
        0 => F_ASSET | F_CALL | F_ALU,
        1 => F_ASSET | F_CALL | F_FLOW | F_ALU | F_LOG,
        2 => F_ALL & !F_GARBAGE & !F_CRYPTO & !F_WIDE,
        _ => F_ASSET | F_CALL | F_FLOW | F_STORAGE | F_ALU | F_MEM,
    };
    cfg.fault_per_mille = *rng.pick(&[0u64, 3, 10, 30]);
    cfg.schedule = match rng.below(4) { 0 => GasSchedule::Unit, 1 => GasSchedule::Random(rng.next()), _ => GasSchedule::Default };
    if rng.chance(1, 8) { cfg.gas_limit = rng.below(20_000); }
    let mut scn = gen_scenario(rng, &cfg);
    // fees: a gas price and a max fee the base coins can pay (sometimes exactly, sometimes not at all)
    if rng.chance(2, 3) {
        scn.world.gas_price = *rng.pick(&[1u64, 2, 7, 1000, 1_000_000]);
        let base = scn.world.assets[0];
        let have: u64 = scn.tx.coins.iter().filter(|c| c.0 == base).map(|c| c.1).sum();
        scn.tx.coins.push((base, rng.range(1_000_000, 3_000_000_000)));
        let have = have + scn.tx.coins.last().unwrap().1;
        scn.tx.max_fee = match rng.below(4) { 0 => have, 1 => have / 2, _ => rng.range(have / 4, have - 1) };
    }
    scn.seed_note = "generated".into();
    scn
}

/// mostly an amount that can be paid (1 ..= min(avail / 3, 2000)); with probability `fault` a boundary value
fn amount_pick(rng: &mut Rng, avail: u64, fault: u64) -> u64 {
    if rng.chance(fault, 100) {
        match rng.below(9) {
            0 => 0,
            1 => avail,
            2 => avail.saturating_add(1),
            3 => avail.saturating_sub(1),
            4 => u64::MAX,
            5 => u64::MAX - avail,
            6 => (u64::MAX - avail).saturating_add(1),
            7 => 1 << 63,
            _ => avail / 2 + 1,
        }
    } else {
        rng.range(1, (avail / 3).clamp(1, 2000))
    }
}

fn gen_boundary(rng: &mut Rng) -> Scenario {
    let fault = *rng.pick(&[0u64, 5, 10, 25, 60]);
    let n_assets = rng.range(1, 3) as usize;
    let mut assets: Vec<AssetId> = (0..n_assets).map(|_| AssetId::from(rng.bytes32())).collect();
    if rng.chance(1, 3) { assets[0] = AssetId::zeroed(); }
    let n_c = rng.range(1, 3) as usize;
    let subs: Vec<[u8; 32]> = vec![[0u8; 32], rng.bytes32()];
    let coin_amt: Vec<u64> = (0..n_assets).map(|_| *rng.pick(&[1000u64, 5000, 1 << 40, u64::MAX / 4])).collect();
    let mut contracts = vec![];
    for ci in 0..n_c {
        let mut bals = vec![];
        for a in 0..n_assets {
            if rng.chance(3, 4) { bals.push((a, if rng.chance(fault, 100) { *rng.pick(&[0u64, 1, u64::MAX - 10, u64::MAX]) } else { *rng.pick(&[500u64, 90_000, 1 << 50]) })); }
        }
        let n_ops = rng.range(0, 6) as usize;
        let mut ops = vec![];
        for _ in 0..n_ops {
            let a = rng.below(n_assets as u64) as usize;
            let around = bals.iter().find(|b| b.0 == a).map(|b| b.1).unwrap_or(0).min(1 << 40);
            ops.push(match rng.below(10) {
                0 | 1 => AOp::Tr { contract: rng.below(n_c as u64) as usize, asset: a, amount: amount_pick(rng, around / 4, fault) },
                2 => AOp::Tro { out: if rng.chance(fault, 100) { *rng.pick(&[0u64, 99, n_c as u64 + 9]) } else { n_c as u64 + rng.below(2) }, asset: a, amount: amount_pick(rng, around / 4, fault) },
                3 | 4 => AOp::Mint { sub: rng.below(2) as usize, amount: amount_pick(rng, 3000, fault) },
                5 => AOp::Burn { sub: rng.below(2) as usize, amount: amount_pick(rng, 30, fault) },
                6 => AOp::Smo { amount: amount_pick(rng, around / 8, fault), len: rng.below(40) },
                7 if ci + 1 < n_c => AOp::Call { contract: ci + 1, asset: a, amount: amount_pick(rng, around / 4, fault), gas: 1 << 40 },
                8 => AOp::Bal { contract: ci, asset: a },
                _ => AOp::Log,
            });
        }
        match rng.below(20) { 0 => ops.push(AOp::Rvrt), 1 => ops.push(AOp::Boom), _ => ops.push(AOp::Ret) }
        contracts.push((ContractId::from(rng.bytes32()), bals, ops));
    }
    let mut script = vec![];
    let n_var = rng.range(0, 3);
    let mut var_used = 0u64;
    for _ in 0..rng.range(1, 8) {
        let a = rng.below(n_assets as u64) as usize;
        script.push(match rng.below(10) {
            0 | 1 | 2 => AOp::Call { contract: rng.below(n_c as u64) as usize, asset: a, amount: if rng.bool() { 0 } else { amount_pick(rng, coin_amt[a] / 8, fault) }, gas: if rng.chance(fault, 100) { *rng.pick(&[0u64, 50, 5000]) } else { 1 << 40 } },
            3 | 4 => AOp::Tr { contract: rng.below(n_c as u64) as usize, asset: a, amount: amount_pick(rng, coin_amt[a] / 8, fault) },
            5 | 6 => {
                let idx = if var_used < n_var && !rng.chance(fault, 100) { var_used += 1; n_c as u64 + 2 + var_used - 1 } else if rng.chance(fault, 100) { *rng.pick(&[0u64, 77, n_c as u64]) } else { n_c as u64 + rng.below(2) };
                AOp::Tro { out: idx, asset: a, amount: amount_pick(rng, coin_amt[a] / 8, fault) }
            }
            7 => AOp::Smo { amount: amount_pick(rng, coin_amt[0] / 16, fault), len: rng.below(40) },
            8 if rng.chance(fault, 100) => AOp::Mint { sub: 0, amount: 5 },
            _ => AOp::Log,
        });
    }
    match rng.below(12) { 0 => script.push(AOp::Rvrt), 1 => script.push(AOp::Boom), _ => script.push(AOp::Ret) }
    let mut coins: Vec<(usize, u64)> = (0..n_assets).map(|a| (a, coin_amt[a])).collect();
    if rng.chance(1, 3) { coins.push((rng.below(n_assets as u64) as usize, rng.range(1, 999))); }
    let mut messages = vec![];
    if rng.chance(1, 3) { messages.push((rng.range(1, 100_000), vec![])); }
    if rng.chance(1, 3) { let n = rng.range(1, 20) as usize; let amt = rng.range(1, 100_000); messages.push((amt, rng.bytes(n))); }
    // outputs: [contracts..] then 2 variable outputs used by contracts, then the script's own
    let mut outputs = vec![OutSpecIdx::Variable, OutSpecIdx::Variable];
    for _ in 0..n_var { outputs.push(OutSpecIdx::Variable); }
    for a in 0..n_assets { if rng.chance(2, 3) { outputs.push(OutSpecIdx::Change(a)); } }
    if rng.chance(1, 3) { outputs.push(OutSpecIdx::Coin(rng.below(n_assets as u64) as usize, rng.range(0, 900))); }
    let gas_price = if rng.bool() { 0 } else { *rng.pick(&[1u64, 3, 1000]) };
    let max_fee = if gas_price == 0 { if rng.chance(1, 4) { rng.below(900) } else { 0 } } else { rng.range(200, 900) };
    let p = AssetProg {
        assets, contracts, subs, addr: rng.bytes32(), script, coins, messages, outputs,
        gas_limit: if rng.chance(fault, 200) { *rng.pick(&[3000u64, 400]) } else { 1_000_000 },
        gas_price, max_fee,
        schedule: if gas_price >= 1000 { GasSchedule::Free } else { rng.pick(&[GasSchedule::Default, GasSchedule::Unit, GasSchedule::Free]).clone() },
        drop_last_contract_input: rng.chance(fault, 400),
        key_seed: rng.next(),
    };
    let (w, tx) = p.build();
    to_scenario(w, tx, "boundary")
}

fn main() {
    quiet_panics();
    let args = Args::parse();
    if args.prop != "C27" { eprintln!("assets: unknown property {}", args.prop); std::process::exit(2); }
    let mut out = Out::new();
    let mut rng = Rng::new(args.seed ^ 0xC27);
    let mut scenarios: Vec<Scenario> = vec![];
    if let Some(f) = &args.replay {
        let v = read_replay(f);
        match scenario_from(&v) { Ok(s) => scenarios.push(s), Err(e) => { eprintln!("bad replay: {e}"); std::process::exit(2); } }
    } else {
        let n_gen = args.scale(90, 2500);
        let n_bnd = args.scale(130, 3500);
        for _ in 0..n_gen { scenarios.push(gen_generated(&mut rng)); }
        for _ in 0..n_bnd { scenarios.push(gen_boundary(&mut rng)); }
    }
    let mut build_errors = 0u64;
    for (i, scn) in scenarios.iter().enumerate() {
        out.oracle_evaluations += 1;
        match run_case(scn, i) {
            Ok(co) => {
                for s in co.stats { out.count(&format!("step {s}")); }
                for (class, what) in co.fails { out.oracle_fail(&class, &what, scenario_json(scn)); }
                if let Some(c) = co.case { out.push(c); }
            }
            Err(e) => { build_errors += 1; out.count(&format!("skipped: {}", e.split(':').next().unwrap_or("?"))); }
        }
    }
    out.notes.push(format!("{} scenarios, {} not executable (transaction rejected by the crate's own checks / step limit)", scenarios.len(), build_errors));
    out.write(&args,
        "From FV Require Import Base.Bytes Vm.AssetModel Run.Assets.\nOpen Scope N_scope.",
        "acase", "bad_acases");
}
