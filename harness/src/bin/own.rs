//! C24 "Programs can only write memory they own": trace validation cases + implementation-level oracle.
//!
//! Every scenario is run on the real interpreter through vmtrace's single-step tracer.  For each
//! executed instruction the facts the ownership model needs are printed as a Coq term
//! (Run/Own.v replays Vm/OwnModel.v over them), and the property itself is checked here, directly on
//! the memory diff (oracle, written from the property text: changed bytes must lie in the current
//! frame's stack region, its heap region, or the region of the VM's own write of that instruction;
//! accesses beyond memory / into never-allocated memory / to foreign memory panic with the reason
//! the specification names).
#[path = "../vmown/mod.rs"]
mod vmown;
use fuel_asm::PanicReason;
use fvh::vmtrace::*;
use fvh::*;
use serde_json::{json, Value};
use std::collections::BTreeMap;
use vmown::*;

struct Stats {
    steps: u64,
    quiet: u64,
    user_writes: u64,
    vm_writes: u64,
    mem_panics: BTreeMap<String, u64>,
    hostile_outcomes: BTreeMap<String, u64>,
    panic_with_change: u64,
    max_depth: usize,
    build_errors: u64,
}

fn owned(x: u64, ssp: u64, sp: u64, hp: u64, prev_hp: u64) -> bool {
    (ssp <= x && x < sp) || (hp <= x && x < prev_hp)
}

/// reason the specification gives for an access of `len` bytes at `start` (None = accessible)
fn access_reason(start: u128, len: u128, stack_len: u64, hp: u64) -> Option<PanicReason> {
    let end = start + len;
    if start > MEM as u128 || len > MEM as u128 || end > MEM as u128 { return Some(PanicReason::MemoryOverflow); }
    if end <= stack_len as u128 || start >= hp as u128 { None } else { Some(PanicReason::UninitalizedMemoryAccess) }
}

/// The property, checked on one step.  Returns failures (class, description).
fn oracle_step(l: &TxLayout, t: &Tracked, perturb: bool) -> Vec<(String, String)> {
    let s = t.step;
    // --perturb 1 (self-test of the oracle, never used by ./check): pretend stores hit 4096 bytes lower
    let shifted: Vec<(u64, u64)> = t.changed.iter().map(|(a, n)| (a.saturating_sub(4096), *n)).collect();
    let changed_obs = if perturb && matches!(wclass(&s.mnemonic), WClass::Store(_)) { &shifted } else { &t.changed };
    let m = s.mnemonic.as_str();
    let rb = &s.regs_before;
    let ra = &s.regs_after;
    let (ssp, sp, hp, fp) = (rb[R_SSP], rb[R_SP], rb[R_HP], rb[R_FP]);
    let prev_hp = t.prev_hp.unwrap_or(MEM);
    let external = t.prev_hp.is_none();
    let cls = wclass(m);
    let fv = s.field_values();
    let mut fails = vec![];
    let user = matches!(cls, WClass::Store(_) | WClass::Clear | WClass::Copy | WClass::User | WClass::UserMulti | WClass::Ecal);
    for (a, n) in changed_obs {
        for x in *a..a + n {
            let ok = (user && owned(x, ssp, sp, hp, prev_hp))
                || (cls == WClass::Push && sp <= x && x < ra[R_SP])
                || (cls == WClass::Aloc && ra[R_HP] <= x && x < hp)
                || (cls == WClass::Call && s.outcome == Outcome::Proceed && sp <= x && x < ra[R_SP])
                || (cls == WClass::Ldc && ((ssp <= x && x < ra[R_SSP].max(ssp) && s.outcome == Outcome::Proceed)
                        || (s.outcome != Outcome::Proceed && ssp <= x && x < hp)
                        || (!external && fp + 576 <= x && x < fp + 584)))
                || (matches!(cls, WClass::Call | WClass::Bal | WClass::Tro) && external && l.in_balance_value(x))
                || (cls == WClass::Tro && l.in_output(fv[1], x))
                || (t.is_last && l.in_any_output(x));
            if !ok {
                fails.push((format!("write-outside-permitted-region:{m}"),
                    format!("{m} at pc {} changed byte {x} (ssp {ssp} sp {sp} hp {hp} prev_hp {prev_hp} fp {fp}, outcome {})", s.pc, s.outcome.name())));
                return fails;
            }
        }
    }
    // reasons of refused accesses, for the instructions whose only checks are gas, address, access, ownership
    let reason = s.outcome.panic_reason();
    if reason == Some(PanicReason::OutOfGas) { return fails; }
    let expect: Option<Option<PanicReason>> = match (cls, is_load(m)) {
        (WClass::Store(size), _) => {
            let addr = fv[0] as u128 + s.imm as u128 * size as u128;
            Some(if addr > u64::MAX as u128 { Some(PanicReason::MemoryOverflow) }
                 else { access_reason(addr, size as u128, t.stack_len, hp).or_else(|| {
                     let a = addr as u64;
                     if (a..a + size).all(|x| owned(x, ssp, sp, hp, prev_hp)) && (a >= hp || a + size <= sp) { None } else { Some(PanicReason::MemoryOwnership) } }) })
        }
        (WClass::Clear, _) => {
            let len = if m == "MCLI" { s.imm as u64 } else { fv[1] };
            if len == 0 { None } else {
                Some(access_reason(fv[0] as u128, len as u128, t.stack_len, hp).or_else(|| {
                    let a = fv[0];
                    if (ssp <= a && a + len <= sp) || (hp <= a && a + len <= prev_hp) { None } else { Some(PanicReason::MemoryOwnership) } }))
            }
        }
        (_, Some(size)) => {
            if s.fields()[0] < 16 { None } else {
                let addr = fv[1] as u128 + s.imm as u128 * size as u128;
                Some(if addr > u64::MAX as u128 { Some(PanicReason::MemoryOverflow) } else { access_reason(addr, size as u128, t.stack_len, hp) })
            }
        }
        _ => None,
    };
    if let Some(e) = expect {
        if e != reason {
            fails.push((format!("access-verdict-mismatch:{m}"),
                format!("{m} at pc {}: specification says {:?}, interpreter {:?} (addr reg {} imm {} ssp {ssp} sp {sp} hp {hp} prev_hp {prev_hp} stack_len {})",
                        s.pc, e, reason, if is_load(m).is_some() { fv[1] } else { fv[0] }, s.imm, t.stack_len)));
        }
    }
    fails
}

fn coq_step(t: &Tracked) -> Option<String> {
    let s = t.step;
    let out = outcome_code(&s.outcome)?;
    let m = s.mnemonic.as_str();
    let quiet = wclass(m) == WClass::None || wclass(m) == WClass::Grow;
    let mem_reason = matches!(s.outcome.panic_reason(), Some(PanicReason::MemoryOverflow | PanicReason::MemoryOwnership | PanicReason::UninitalizedMemoryAccess | PanicReason::MemoryWriteOverlap));
    if quiet && is_load(m).is_none() && m != "MEQ" && t.changed.is_empty() && !t.is_last && !(mem_reason && false) {
        return Some(format!("Q{}", s.opcode));
    }
    let f = s.fields();
    let v = s.field_values();
    let (rb, ra) = (&s.regs_before, &s.regs_after);
    // an operand that is a gas register is read by some handlers before and by others after the
    // instruction's own gas charge: such steps are left to the oracle (region check) only
    if s.reg_args.iter().any(|r| *r == 9 || *r == 10) && wclass(m) != WClass::Call { return Some("SKIP".into()); }
    Some(format!("OStep (mkr {} {} {} {} {} {} {} {} {} {} {} {} {} {} {} {} {} {} {} {} {} {})",
        s.opcode, f[0], f[1], f[2], f[3], s.imm, v[0], v[1], v[2], v[3],
        rb[R_SSP], rb[R_SP], rb[R_HP], rb[R_FP], ra[R_SSP], ra[R_SP], ra[R_HP],
        coq_opt(t.prev_hp.map(|x| x.to_string())), t.stack_len, out, coq_runs(&t.changed), coq_bool(t.is_last)))
}

fn run_scenario(out: &mut Out, st: &mut Stats, world: &World, tx: &TxSpec, replay: Value, stream: &str, note: &str, oracle_only: bool) {
    let perturb = std::env::args().any(|a| a == "--perturb");
    let opts = TraceOpts { max_steps: 6000, mem_diff: true, storage: false, frames: true };
    let tr = match guarded(|| trace(world, tx, &opts)) {
        Ok(Ok(t)) => t,
        Ok(Err(_)) => { st.build_errors += 1; return; }
        Err(p) => { out.oracle_fail("host-panic-in-interpreter", &format!("host panic: {p}"), replay); return; }
    };
    let init = match initial_stack(world, tx) { Ok(v) => v, Err(_) => { st.build_errors += 1; return; } };
    let layout = match TxLayout::new(world, tx, &tr) { Ok(l) => l, Err(_) => { st.build_errors += 1; return; } };
    let mut coq_steps: Vec<String> = vec![];
    let mut quiet_run: Vec<String> = vec![];
    let mut sig = String::new();
    let mut unprintable = false;
    let mut skipped_gas_operand = 0u64;
    let (mut uw, mut memp) = (0u64, 0u64);
    let mut failures: Vec<(String, String)> = vec![];
    track(&tr, &init, |t, _sh| {
        st.steps += 1;
        out.oracle_evaluations += 1;
        st.max_depth = st.max_depth.max(t.step.frames_after.len());
        let cls = wclass(&t.step.mnemonic);
        if !t.changed.is_empty() {
            match cls { WClass::Store(_) | WClass::Clear | WClass::Copy | WClass::User | WClass::UserMulti => { st.user_writes += 1; uw += 1; } _ => st.vm_writes += 1 }
            if let Some(r) = t.step.outcome.panic_reason() {
                // the last step's diff includes the post-execution update of the transaction outputs: not counted
                if t.changed.iter().any(|(a, n)| (*a..a + n).any(|x| !layout.in_any_output(x))) {
                    st.panic_with_change += 1; *st.mem_panics.entry(format!("changed-memory-then-{r:?}@{}", t.step.mnemonic)).or_insert(0) += 1;
                }
            }
        }
        if let Some(r) = t.step.outcome.panic_reason() {
            if matches!(r, PanicReason::MemoryOverflow | PanicReason::MemoryOwnership | PanicReason::UninitalizedMemoryAccess | PanicReason::MemoryWriteOverlap | PanicReason::MemoryGrowthOverlap | PanicReason::ExpectedUnallocatedStack) {
                *st.mem_panics.entry(format!("{r:?}@{}", t.step.mnemonic)).or_insert(0) += 1;
                memp += 1;
            }
        }
        for f in oracle_step(&layout, t, perturb) { failures.push(f); }
        match coq_step(t) {
            Some(c) => {
                if c == "SKIP" { skipped_gas_operand += 1; }
                else if let Some(op) = c.strip_prefix('Q') { st.quiet += 1; quiet_run.push(op.to_string()); }
                else { if !quiet_run.is_empty() { coq_steps.push(format!("OQuiet {}", coq_list(&quiet_run))); quiet_run.clear(); } coq_steps.push(c); }
            }
            None => unprintable = true,
        }
        sig.push_str(&format!("{}:{};", t.step.opcode, outcome_code(&t.step.outcome).unwrap_or(999)));
    });
    if !note.is_empty() {
        let last = tr.steps.iter().rev().find(|s| s.kind == StepKind::Exec).map(|s| s.outcome.name()).unwrap_or_default();
        *st.hostile_outcomes.entry(format!("{} -> {}", note.split(':').take(2).collect::<Vec<_>>().join(":"), last)).or_insert(0) += 1;
    }
    for (class, what) in failures.into_iter().take(2) {
        out.oracle_fail(&class, &what, replay.clone());
    }
    if !quiet_run.is_empty() { coq_steps.push(format!("OQuiet {}", coq_list(&quiet_run))); }
    for _ in 0..skipped_gas_operand { out.count("step-with-gas-register-operand (oracle only, not replayed by the model)"); }
    if unprintable { out.count("scenario-with-non-panic-interpreter-error (not printed as a case)"); }
    if oracle_only || unprintable { return; }
    let coq = format!("{{| oc_env := {}; oc_steps := {} |}}", layout.to_coq_env(), coq_list(&coq_steps));
    let key = format!("{:x}", { use std::hash::{Hash, Hasher}; let mut h = std::collections::hash_map::DefaultHasher::new(); sig.hash(&mut h); h.finish() });
    out.push(Case {
        coq,
        json: json!({"stream": stream, "note": note, "steps": tr.steps.len(), "final": format!("{:?}", tr.final_state).chars().take(60).collect::<String>(),
                     "user_write_steps": uw, "memory_fault_steps": memp, "replay": replay}),
        key,
        nontrivial: uw > 0 || memp > 0,
        class: stream.to_string(),
    });
}

fn hostile_matrix(rng: &mut Rng, n: usize) -> Vec<Hostile> {
    let mut v = vec![];
    // every target with SW and with a random opcode, every opcode on a random target, reads
    for t in 0..15u8 { v.push(Hostile::Write(t, 0)); v.push(Hostile::Write(t, rng.below(17) as u8)); }
    for o in 0..17u8 { v.push(Hostile::Write(rng.below(15) as u8, o)); }
    for t in [0u8, 2, 4, 5, 6, 8, 13] { v.push(Hostile::Read(t)); }
    while v.len() < n { v.push(if rng.chance(1, 8) { Hostile::Read(rng.below(15) as u8) } else { Hostile::Write(rng.below(15) as u8, rng.below(17) as u8) }); }
    v.truncate(n.max(1));
    v
}

fn main() {
    quiet_panics();
    let args = Args::parse();
    if args.prop != "C24" { eprintln!("own: unknown property {}", args.prop); std::process::exit(2); }
    let mut out = Out::new();
    let mut st = Stats { steps: 0, quiet: 0, user_writes: 0, vm_writes: 0, mem_panics: BTreeMap::new(), hostile_outcomes: BTreeMap::new(), panic_with_change: 0, max_depth: 0, build_errors: 0 };
    let mut rng = Rng::new(args.seed ^ 0xC24);
    let oo = args.oracle_only;

    if let Some(p) = &args.replay {
        let v = read_replay(p);
        let v = if v.get("replay").is_some() && v.get("kind").is_none() { v["replay"].clone() } else { v };
        match v["kind"].as_str().unwrap_or("") {
            "tree" => match TreeScenario::from_json(&v["input"]) {
                Ok(t) => run_scenario(&mut out, &mut st, &t.scn.world, &t.scn.tx, v.clone(), "replay", &t.note, oo),
                Err(e) => { eprintln!("replay: {e}"); std::process::exit(2); }
            },
            _ => match Scenario::from_json(&v["input"]) {
                Ok(s) => run_scenario(&mut out, &mut st, &s.world, &s.tx, v.clone(), "replay", "", oo),
                Err(e) => { eprintln!("replay: {e}"); std::process::exit(2); }
            },
        }
    } else {
        // stream A: vmtrace's grammar (memory / wide / crypto / storage / call items, fault injection)
        for _ in 0..args.scale(90, 800) {
            let mut cfg = GenCfg::default();
            cfg.n_contracts = rng.below(4) as usize;
            cfg.unit_items = rng.range(6, 22) as usize;
            cfg.fault_per_mille = *rng.pick(&[0u64, 3, 10, 30]);
            cfg.recursion_depth = rng.below(4);
            cfg.schedule = match rng.below(4) { 0 => GasSchedule::Unit, 1 => GasSchedule::Random(rng.next()), _ => GasSchedule::Default };
            if rng.chance(1, 8) { cfg.features |= F_GARBAGE; }
            let scn = gen_scenario(&mut rng, &cfg);
            let rj = json!({"kind": "vmtrace", "input": scn.to_json()});
            run_scenario(&mut out, &mut st, &scn.world, &scn.tx, rj, "grammar", "", oo);
        }
        // stream B: call trees with callee allocation, shrink/regrow, LDC, VM-own writes
        for k in 0..args.scale(90, 800) {
            let cfg = TreeCfg { n_contracts: rng.below(4) as usize, recursion: if rng.chance(1, 3) { rng.range(1, 6) } else { 0 }, hostile: Hostile::None, hostile_unit: 0,
                                ldc: k % 2 == 0, actions: rng.range(2, 10) as usize, schedule: if rng.chance(1, 4) { GasSchedule::Unit } else { GasSchedule::Default },
                                gas_limit: 20_000_000, touch: false, misalign_per_mille: 700 };
            let t = gen_tree(&mut rng, &cfg);
            let rj = json!({"kind": "tree", "input": t.to_json()});
            run_scenario(&mut out, &mut st, &t.scn.world, &t.scn.tx, rj, "tree", "", oo);
        }
        // stream C: one hostile access per transaction
        let hs = hostile_matrix(&mut rng, args.scale(140, 1500));
        for h in hs {
            let n = rng.below(4) as usize;
            let cfg = TreeCfg { n_contracts: n, recursion: if rng.chance(1, 4) { rng.range(1, 4) } else { 0 }, hostile: h, hostile_unit: rng.below(n as u64 + 1) as usize,
                                ldc: false, actions: rng.range(0, 4) as usize, schedule: GasSchedule::Default, gas_limit: 20_000_000, touch: false, misalign_per_mille: 700 };
            let t = gen_tree(&mut rng, &cfg);
            let rj = json!({"kind": "tree", "input": t.to_json()});
            run_scenario(&mut out, &mut st, &t.scn.world, &t.scn.tx, rj, "hostile", &t.note, oo);
        }
        // stream D: stack grown until it touches the heap, write across the boundary (64 MiB buffers: few)
        for k in 0..args.scale(2, 6) {
            let h = if k % 2 == 0 { Hostile::Write(11, rng.below(8) as u8) } else { Hostile::Write(13, 0) };
            let cfg = TreeCfg { n_contracts: (k % 2) as usize, recursion: 0, hostile: h, hostile_unit: (k % 2) as usize, ldc: false, actions: 1,
                                schedule: GasSchedule::Free, gas_limit: 20_000_000, touch: true, misalign_per_mille: 0 };
            let t = gen_tree(&mut rng, &cfg);
            let rj = json!({"kind": "tree", "input": t.to_json()});
            run_scenario(&mut out, &mut st, &t.scn.world, &t.scn.tx, rj, "touch", &t.note, oo);
        }
    }
    rng.shuffle(&mut out.cases);   // balance the shards
    out.notes.push(format!("steps {} (quiet {}), steps with user writes {}, with VM-own writes {}, panicking steps that changed memory outside the transaction outputs {}, max call depth {}, scenarios not buildable {}",
        st.steps, st.quiet, st.user_writes, st.vm_writes, st.panic_with_change, st.max_depth, st.build_errors));
    out.notes.push(format!("memory-fault panics: {:?}", st.mem_panics));
    out.notes.push(format!("hostile accesses (target:opcode -> outcome of the last instruction): {:?}", st.hostile_outcomes));
    out.write(&args, "From FV Require Import Base.Bytes Run.Own.\nOpen Scope N_scope.", "ocase", "bad_ocases");
}
