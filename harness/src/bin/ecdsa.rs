//! ECDSA family (C16, C17): run both secp256k1 back-ends of fuel-crypto (hook `verif_k1`), the
//! public `Signature` API, secp256r1, ed25519 and the VM instructions ECK1/ECR1/ED19 on the same
//! inputs; print cases for the Gallina model (coq/Run/Ecdsa.v) and check the properties directly
//! on the real code (implementation-level oracle).
use fuel_crypto::verif_k1::{k256 as bk, secp256k1 as bs};
use fuel_crypto::{Error as CErr, Message, PublicKey, SecretKey, Signature};
use fuel_types::{Bytes32, Bytes64};
use fvh::*;
use primitive_types::{U256, U512};
use serde_json::{json, Value};

// ------------------------------------------------------------------ integers
fn u(hexstr: &str) -> U256 {
    U256::from_str_radix(hexstr, 16).unwrap()
}
fn n_k1() -> U256 {
    u("FFFFFFFFFFFFFFFFFFFFFFFFFFFFFFFEBAAEDCE6AF48A03BBFD25E8CD0364141")
}
fn p_k1() -> U256 {
    u("FFFFFFFFFFFFFFFFFFFFFFFFFFFFFFFFFFFFFFFFFFFFFFFFFFFFFFFEFFFFFC2F")
}
fn n_r1() -> U256 {
    u("FFFFFFFF00000000FFFFFFFFFFFFFFFFBCE6FAADA7179E84F3B9CAC2FC632551")
}
fn p_r1() -> U256 {
    u("FFFFFFFF00000001000000000000000000000000FFFFFFFFFFFFFFFFFFFFFFFF")
}
fn gx_k1() -> U256 {
    u("79BE667EF9DCBBAC55A06295CE870B07029BFCDB2DCE28D959F2815B16F81798")
}
fn gx_r1() -> U256 {
    u("6B17D1F2E12C4247F8BCE6E563A440F277037D812DEB33A0F4A13945D898C296")
}
fn two255() -> U256 {
    U256::one() << 255
}
fn be(x: U256) -> [u8; 32] {
    let mut b = [0u8; 32];
    x.to_big_endian(&mut b);
    b
}
fn from_be(b: &[u8]) -> U256 {
    U256::from_big_endian(b)
}
fn mulmod(a: U256, b: U256, m: U256) -> U256 {
    let r: U512 = a.full_mul(b) % U512::from(m);
    U256::try_from(r).unwrap()
}
fn addmod(a: U256, b: U256, m: U256) -> U256 {
    let r: U512 = (U512::from(a) + U512::from(b)) % U512::from(m);
    U256::try_from(r).unwrap()
}
fn submod(a: U256, b: U256, m: U256) -> U256 {
    addmod(a % m, m - (b % m), m)
}
fn powmod(a: U256, e: U256, m: U256) -> U256 {
    let mut r = U256::one();
    let mut base = a % m;
    for i in 0..256 {
        if e.bit(i) {
            r = mulmod(r, base, m);
        }
        base = mulmod(base, base, m);
    }
    r
}
/// is x (< p) the abscissa of a point of y^2 = x^3 + a x + b over F_p (Euler criterion)?
fn liftable(x: U256, p: U256, a: U256, b: U256) -> bool {
    if x >= p {
        return false;
    }
    let t = addmod(addmod(mulmod(mulmod(x, x, p), x, p), mulmod(a, x, p), p), b, p);
    if t.is_zero() {
        return true;
    }
    powmod(t, (p - U256::one()) >> 1, p) == U256::one()
}
fn liftable_k1(x: U256) -> bool {
    liftable(x, p_k1(), U256::zero(), U256::from(7u64))
}
fn liftable_r1(x: U256) -> bool {
    let p = p_r1();
    liftable(x, p, p - U256::from(3u64), u("5AC635D8AA3A93E7B3EBBD55769886BC651D06B0CC53B0F63BCE3C3E27D2604B"))
}
fn pk_valid_k1(pk: &[u8; 64]) -> bool {
    let p = p_k1();
    let (x, y) = (from_be(&pk[..32]), from_be(&pk[32..]));
    x < p && y < p && mulmod(y, y, p) == addmod(mulmod(mulmod(x, x, p), x, p), U256::from(7u64), p)
}
fn rand_u256(rng: &mut Rng) -> U256 {
    from_be(&rng.bytes32())
}
fn rand_scalar(rng: &mut Rng, n: U256) -> U256 {
    loop {
        let x = rand_u256(rng);
        if !x.is_zero() && x < n {
            return x;
        }
    }
}
fn secret_of(x: U256) -> SecretKey {
    SecretKey::try_from(Bytes32::from(be(x))).expect("scalar in [1,n)")
}
fn sig_of(r: U256, s_full: U256) -> [u8; 64] {
    let mut b = [0u8; 64];
    b[..32].copy_from_slice(&be(r));
    b[32..].copy_from_slice(&be(s_full));
    b
}
/// decode independently of the code under test: (r, s without bit 255, parity)
fn split_sig(sig: &[u8; 64]) -> (U256, U256, bool) {
    let r = from_be(&sig[..32]);
    let sf = from_be(&sig[32..]);
    (r, sf & (two255() - U256::one()), sf.bit(255))
}
fn h64(b: &[u8; 64]) -> String {
    hexs(b)
}
fn parse64(v: &Value) -> Option<[u8; 64]> {
    let b = hex::decode(v.as_str()?).ok()?;
    b.try_into().ok()
}
fn parse32(v: &Value) -> Option<[u8; 32]> {
    let b = hex::decode(v.as_str()?).ok()?;
    b.try_into().ok()
}

// ------------------------------------------------------------------ canonical observations
#[derive(Clone, Copy, PartialEq, Eq, Debug)]
enum Rec {
    Key([u8; 64]),
    Err,
    Panic,
}
impl Rec {
    fn coq(&self) -> String {
        match self {
            Rec::Key(k) => format!("(Some {})", coq_bytes(k)),
            _ => "None".into(),
        }
    }
    fn js(&self) -> Value {
        match self {
            Rec::Key(k) => json!(hexs(k)),
            Rec::Err => json!("Err"),
            Rec::Panic => json!("PANIC"),
        }
    }
    fn key(&self) -> Option<[u8; 64]> {
        match self {
            Rec::Key(k) => Some(*k),
            _ => None,
        }
    }
}
#[derive(Clone, Copy, PartialEq, Eq, Debug)]
enum Ver {
    Ok,
    BadSig,
    BadKey,
    Panic,
}
impl Ver {
    fn coq(&self) -> &'static str {
        if *self == Ver::Ok { "true" } else { "false" }
    }
    fn accepted(&self) -> bool {
        *self == Ver::Ok
    }
    fn js(&self) -> Value {
        json!(format!("{:?}", self))
    }
}
fn rec_res(r: Result<Result<PublicKey, CErr>, String>) -> Rec {
    match r {
        Ok(Ok(pk)) => Rec::Key(*pk),
        Ok(Err(_)) => Rec::Err,
        Err(_) => Rec::Panic,
    }
}
fn ver_res(r: Result<Result<(), CErr>, String>) -> Ver {
    match r {
        Ok(Ok(())) => Ver::Ok,
        Ok(Err(CErr::InvalidPublicKey)) => Ver::BadKey,
        Ok(Err(_)) => Ver::BadSig,
        Err(_) => Ver::Panic,
    }
}
fn k_recover(sig: &[u8; 64], msg: &[u8; 32]) -> Rec {
    rec_res(guarded(|| bk::recover(*sig, &Message::from_bytes(*msg))))
}
fn s_recover(sig: &[u8; 64], msg: &[u8; 32]) -> Rec {
    rec_res(guarded(|| bs::recover(*sig, &Message::from_bytes(*msg))))
}
fn api_recover(sig: &[u8; 64], msg: &[u8; 32]) -> Rec {
    rec_res(guarded(|| Signature::from_bytes(*sig).recover(&Message::from_bytes(*msg))))
}
fn k_verify(sig: &[u8; 64], pk: &[u8; 64], msg: &[u8; 32]) -> Ver {
    ver_res(guarded(|| bk::verify(*sig, *pk, &Message::from_bytes(*msg))))
}
fn s_verify(sig: &[u8; 64], pk: &[u8; 64], msg: &[u8; 32]) -> Ver {
    ver_res(guarded(|| bs::verify(*sig, *pk, &Message::from_bytes(*msg))))
}
/// the public API takes a `PublicKey`; the type is `repr(transparent)` over the 64 bytes and values
/// holding arbitrary bytes exist (`PublicKey::default()` is 64 zero bytes, serde does not validate),
/// so build one from raw bytes.  (`PublicKey::try_from(Bytes64)` cannot be used: it passes the 64
/// untagged bytes to `VerifyingKey::from_sec1_bytes`, which rejects every 64-byte input.)
fn api_verify(sig: &[u8; 64], pk: &[u8; 64], msg: &[u8; 32]) -> Ver {
    let p: PublicKey = unsafe { std::mem::transmute::<[u8; 64], PublicKey>(*pk) };
    ver_res(guarded(|| Signature::from_bytes(*sig).verify(&p, &Message::from_bytes(*msg))))
}
fn pubkey_of(d: U256) -> [u8; 64] {
    *bs::public_key(&secret_of(d))
}

// ------------------------------------------------------------------ inputs
#[derive(Clone)]
struct Inp {
    class: String,
    sig: [u8; 64],
    msg: [u8; 32],
    /// key to verify against (the signer when there is one)
    pk: [u8; 64],
    /// textbook ECDSA says: this signature recovers exactly this key (None: unknown / invalid)
    expect: Option<[u8; 64]>,
}
impl Inp {
    fn js(&self) -> Value {
        json!({"kind":"k1","class":self.class,"sig":h64(&self.sig),"msg":hexs(&self.msg),"pk":h64(&self.pk),
               "expect": self.expect.map(|e| hexs(&e))})
    }
}

/// a mathematically valid signature (r, s, v) with a CHOSEN s on the digest z = s k - r d (mod n)
fn craft(rng: &mut Rng, s: U256) -> Inp {
    let n = n_k1();
    loop {
        let d = rand_scalar(rng, n);
        let k = rand_scalar(rng, n);
        let q = pubkey_of(d);
        let rr = pubkey_of(k);
        let rx = from_be(&rr[..32]);
        if rx >= n || rx.is_zero() {
            continue;
        }
        let odd = rr[63] & 1 == 1;
        let z = submod(mulmod(s, k, n), mulmod(rx, d, n), n);
        let sf = if odd { s | two255() } else { s };
        return Inp { class: String::new(), sig: sig_of(rx, sf), msg: be(z), pk: q, expect: Some(q) };
    }
}
fn valid_sig(rng: &mut Rng) -> (U256, Inp) {
    let d = rand_scalar(rng, n_k1());
    let msg = if rng.bool() { rng.bytes32() } else { *Message::new(rng.bytes_upto(80)) };
    let sk = secret_of(d);
    let sig = bs::sign(&sk, &Message::from_bytes(msg));
    let q = pubkey_of(d);
    (d, Inp { class: "valid".into(), sig, msg, pk: q, expect: Some(q) })
}
fn nonresidue_x(rng: &mut Rng) -> U256 {
    loop {
        let x = rand_scalar(rng, n_k1());
        if !liftable_k1(x) {
            return x;
        }
    }
}
fn residue_x(rng: &mut Rng) -> U256 {
    loop {
        let x = rand_scalar(rng, n_k1());
        if liftable_k1(x) {
            return x;
        }
    }
}

fn gen_inputs(rng: &mut Rng, args: &Args) -> Vec<Inp> {
    let n = n_k1();
    let p = p_k1();
    let half = n >> 1;
    let one = U256::one();
    let mut v: Vec<Inp> = vec![];
    let push = |mut i: Inp, class: &str, v: &mut Vec<Inp>| {
        i.class = class.to_string();
        v.push(i);
    };
    // 1. valid signatures from random keys
    for _ in 0..args.scale(150, 3000) {
        let (_, i) = valid_sig(rng);
        v.push(i);
    }
    // 2. textbook-valid signatures with a chosen s (boundaries of the low/high split and of the format)
    let special_s: Vec<(U256, &str)> = vec![
        (one, "crafted-s=1"),
        (U256::from(2u64), "crafted-s=2"),
        (half - one, "crafted-s=n/2-1"),
        (half, "crafted-s=n/2"),
        (half + one, "crafted-high-s=n/2+1"),
        (half + U256::from(2u64), "crafted-high-s=n/2+2"),
        (two255() - one, "crafted-high-s=2^255-1"),
    ];
    for rep in 0..args.scale(3, 20) {
        for (s, c) in &special_s {
            push(craft(rng, *s), c, &mut v);
        }
        // random s in the high window (n/2, 2^255) and just below it
        let w = two255() - one - half; // width of the window
        let t = rand_u256(rng) % w;
        push(craft(rng, half + one + t), "crafted-high-s=random", &mut v);
        let ls = rand_scalar(rng, half);
        push(craft(rng, ls), "crafted-low-s=random", &mut v);
        // s -> n - s with parity flipped (representable only when n - s < 2^255)
        let t2 = rand_u256(rng) % w;
        let lo = craft(rng, half - t2); // low s inside (n - 2^255, n/2]
        let (r, s, odd) = split_sig(&lo.sig);
        let s2 = n - s;
        let mut mal = lo.clone();
        mal.sig = sig_of(r, if !odd { s2 | two255() } else { s2 });
        push(lo, "crafted-low-s-near-half", &mut v);
        push(mal, "malleated-n-minus-s", &mut v);
        let _ = rep;
    }
    // 3. boundary r / s planted into a valid signature (raw 32-byte encodings, both parity bits)
    let s_raw: Vec<(U256, &str)> = vec![
        (U256::zero(), "s=0"), (one, "s=1"), (half, "s=n/2"), (half + one, "s=n/2+1"), (n - one, "s=n-1(raw)"),
        (n, "s=n(raw)"), (two255() - one, "s=2^255-1"), (two255(), "s=2^255(raw)"), (U256::MAX, "s=2^256-1(raw)"),
    ];
    let r_raw: Vec<(U256, &str)> = vec![
        (U256::zero(), "r=0"), (one, "r=1"), (n - one, "r=n-1"), (n, "r=n"), (n + one, "r=n+1"), (p - one, "r=p-1"),
        (p, "r=p"), (U256::MAX, "r=2^256-1"), (gx_k1(), "r=Gx"),
    ];
    for _ in 0..args.scale(1, 6) {
        let (_, base) = valid_sig(rng);
        let (r0, s0, _) = split_sig(&base.sig);
        for (s, c) in &s_raw {
            for par in [false, true] {
                let sf = if par { *s | two255() } else { *s };
                let mut i = base.clone();
                i.sig = sig_of(r0, sf);
                i.expect = None;
                push(i, &format!("boundary-{}", c), &mut v);
            }
        }
        for (r, c) in &r_raw {
            for par in [false, true] {
                let sf = if par { s0 | two255() } else { s0 };
                let mut i = base.clone();
                i.sig = sig_of(*r, sf);
                i.expect = None;
                push(i, &format!("boundary-{}", c), &mut v);
            }
        }
        for par in [false, true] {
            let x = nonresidue_x(rng);
            let mut i = base.clone();
            i.sig = sig_of(x, if par { s0 | two255() } else { s0 });
            i.expect = None;
            push(i, "boundary-r=non-residue", &mut v);
            let x = residue_x(rng);
            let mut i = base.clone();
            i.sig = sig_of(x, if par { s0 | two255() } else { s0 });
            i.expect = None;
            push(i, "r=random-residue", &mut v);
        }
        // high s planted on a liftable r (the signature is not valid for base.pk, but recovers *some* key)
        for s in [half + one, two255() - one] {
            let mut i = base.clone();
            i.sig = sig_of(gx_k1(), s);
            i.expect = None;
            push(i, "high-s-on-Gx", &mut v);
        }
    }
    // 4. random 64 bytes
    for _ in 0..args.scale(60, 2000) {
        let (_, base) = valid_sig(rng);
        let mut sig = [0u8; 64];
        sig.copy_from_slice(&rng.bytes(64));
        let mut i = base.clone();
        i.sig = sig;
        i.expect = None;
        push(i, "random-64-bytes", &mut v);
    }
    v
}

// ------------------------------------------------------------------ C16 oracle: the two back-ends agree
struct Obs {
    rk: Rec,
    rs: Rec,
    vk: Ver,
    vs: Ver,
}
fn observe(i: &Inp) -> Obs {
    Obs { rk: k_recover(&i.sig, &i.msg), rs: s_recover(&i.sig, &i.msg), vk: k_verify(&i.sig, &i.pk, &i.msg), vs: s_verify(&i.sig, &i.pk, &i.msg) }
}
fn is_high_s(sig: &[u8; 64]) -> bool {
    let (_, s, _) = split_sig(sig);
    s > (n_k1() >> 1) && s < n_k1()
}
fn c16_oracle(out: &mut Out, i: &Inp) -> Obs {
    out.oracle_evaluations += 1;
    let o = observe(i);
    let what = |t: &str, a: Value, b: Value| format!("{}: class={} sig={} msg={} k256={} libsecp256k1={}", t, i.class, h64(&i.sig), hexs(&i.msg), a, b);
    if o.rk == Rec::Panic || o.rs == Rec::Panic || o.vk == Ver::Panic || o.vs == Ver::Panic {
        out.oracle_fail("host-panic", &what("a back-end panicked", o.rk.js(), o.rs.js()), i.js());
    }
    if o.rk != o.rs {
        let class = if is_high_s(&i.sig) && o.rk == Rec::Err && matches!(o.rs, Rec::Key(_)) {
            "k256-rejects-high-s-recover"
        } else if is_high_s(&i.sig) {
            "backend-recover-mismatch-high-s-other"
        } else {
            "backend-recover-mismatch-low-s"
        };
        out.oracle_fail(class, &what("recover differs between back-ends", o.rk.js(), o.rs.js()), i.js());
    }
    if o.vk.accepted() != o.vs.accepted() {
        let class = if is_high_s(&i.sig) { "backend-verify-mismatch-high-s" } else { "backend-verify-mismatch" };
        out.oracle_fail(class, &what("verify differs between back-ends", o.vk.js(), o.vs.js()), i.js());
    } else if o.vk != o.vs {
        // both reject, with different error kinds (k256 parses the key first, libsecp256k1 the signature)
        out.count("verify-both-reject-error-kind-differs");
    }
    // the public API is the std back-end
    let ar = api_recover(&i.sig, &i.msg);
    if ar != o.rs {
        out.oracle_fail("public-api-recover-differs-from-std-backend", &what("Signature::recover vs libsecp256k1", ar.js(), o.rs.js()), i.js());
    }
    let av = api_verify(&i.sig, &i.pk, &i.msg);
    if av != o.vs {
        out.oracle_fail("public-api-verify-differs-from-std-backend", &what("Signature::verify vs libsecp256k1", av.js(), o.vs.js()), i.js());
    }
    // textbook expectation, where the generator knows it: a valid signature recovers its key on BOTH
    // back-ends (k256 normalises a high s since fix 378a736); verify accepts it iff s is low
    if let Some(q) = i.expect {
        if o.rs != Rec::Key(q) || o.rk != Rec::Key(q) {
            let class = if !is_high_s(&i.sig) {
                "valid-low-s-signature-not-recovered"
            } else if o.rk == Rec::Err && o.rs == Rec::Key(q) {
                "k256-rejects-high-s-recover"
            } else {
                "high-s-recovers-wrong-key"
            };
            out.oracle_fail(class, &what("valid signature does not recover the signer on both back-ends", o.rk.js(), o.rs.js()), i.js());
        }
        if !is_high_s(&i.sig) && (o.vs != Ver::Ok || o.vk != Ver::Ok) {
            out.oracle_fail("valid-low-s-signature-not-verified", &what("valid low-s signature does not verify", o.vk.js(), o.vs.js()), i.js());
        }
        if is_high_s(&i.sig) && (o.vs == Ver::Ok || o.vk == Ver::Ok) {
            out.oracle_fail("high-s-signature-verifies", &what("non-normalised (high-s) signature is accepted by verify", o.vk.js(), o.vs.js()), i.js());
        }
    }
    o
}
/// verify with keys other than the signer's: invalid encodings and unrelated keys
fn c16_pk_variants(out: &mut Out, rng: &mut Rng, i: &Inp) -> Vec<Inp> {
    let mut vs = vec![];
    let mut mk = |pk: [u8; 64], c: &str| {
        let mut j = i.clone();
        j.pk = pk;
        j.expect = None;
        j.class = format!("pk-{}", c);
        vs.push(j);
    };
    mk([0u8; 64], "zero");
    let mut r = [0u8; 64];
    r.copy_from_slice(&rng.bytes(64));
    mk(r, "random-bytes");
    let mut wrong_y = i.pk;
    wrong_y[63] ^= 1;
    mk(wrong_y, "y-off-by-one");
    let mut big = i.pk;
    big[..32].copy_from_slice(&be(p_k1()));
    mk(big, "x=p");
    mk(pubkey_of(rand_scalar(rng, n_k1())), "other-valid-key");
    // negated key (same x): valid key, must not verify
    let y = from_be(&i.pk[32..]);
    if !y.is_zero() && y < p_k1() {
        let mut negk = i.pk;
        negk[32..].copy_from_slice(&be(p_k1() - y));
        mk(negk, "negated-key");
    }
    for j in &vs {
        c16_oracle(out, j);
    }
    vs
}
fn c16_sign_oracle(out: &mut Out, d: U256, msg: &[u8; 32]) {
    out.oracle_evaluations += 1;
    let sk = secret_of(d);
    let m = Message::from_bytes(*msg);
    let a = guarded(|| bk::sign(&sk, &m));
    let b = guarded(|| bs::sign(&sk, &m));
    let c = guarded(|| *Signature::sign(&sk, &m));
    let rp = json!({"kind":"k1-sign","d":hexs(&be(d)),"msg":hexs(msg)});
    match (&a, &b, &c) {
        (Ok(x), Ok(y), Ok(z)) => {
            if x != y {
                out.oracle_fail(if from_be(msg) >= n_k1() { "backend-sign-mismatch-message-ge-n" } else { "backend-sign-mismatch" }, &format!("sign differs (both are valid signatures; message as integer >= n: {}): d={} msg={} k256={} libsecp256k1={}", from_be(msg) >= n_k1(), hexs(&be(d)), hexs(msg), h64(x), h64(y)), rp.clone());
            }
            if z != y {
                out.oracle_fail("public-api-sign-differs-from-std-backend", &format!("Signature::sign differs from libsecp256k1: d={} msg={}", hexs(&be(d)), hexs(msg)), rp.clone());
            }
        }
        _ => out.oracle_fail("sign-panics", &format!("sign panicked: d={} msg={} k256={:?} libsecp={:?}", hexs(&be(d)), hexs(msg), a.is_ok(), b.is_ok()), rp.clone()),
    }
    let pa = guarded(|| *bk::public_key(&sk));
    let pb = guarded(|| *bs::public_key(&sk));
    if pa != pb {
        out.oracle_fail("backend-public-key-mismatch", &format!("public_key differs for d={}", hexs(&be(d))), rp);
    }
}

// ------------------------------------------------------------------ model cases
struct MCase {
    case: Case,
    weight: u32,
}
fn lib_would_compute_core(sig: &[u8; 64], n: U256, lift: fn(U256) -> bool) -> bool {
    let (r, s, _) = split_sig(sig);
    !r.is_zero() && r < n && !s.is_zero() && s < n && lift(r)
}
fn erec_case(i: &Inp, o: &Obs) -> MCase {
    let core = lib_would_compute_core(&i.sig, n_k1(), liftable_k1);
    // high s: the k256 model recovers from the normalised signature (second candidate key + re-verification)
    let weight = if !core { 1 } else if is_high_s(&i.sig) { 33 } else { 22 };
    MCase {
        case: Case {
            coq: format!("(ERec {} {} {} {})", coq_bytes(&i.sig), coq_bytes(&i.msg), o.rk.coq(), o.rs.coq()),
            json: json!({"case":"recover","class":i.class,"sig":h64(&i.sig),"msg":hexs(&i.msg),"k256":o.rk.js(),"libsecp256k1":o.rs.js()}),
            key: format!("rec/{}/{}", h64(&i.sig), hexs(&i.msg)),
            nontrivial: core,
            class: format!("recover:{}", i.class),
        },
        weight,
    }
}
fn ever_case(i: &Inp, o: &Obs) -> MCase {
    let (r, s, _) = split_sig(&i.sig);
    let n = n_k1();
    let exp = pk_valid_k1(&i.pk) && !r.is_zero() && r < n && !s.is_zero() && s <= (n >> 1);
    MCase {
        case: Case {
            coq: format!("(EVer {} {} {} {} {})", coq_bytes(&i.sig), coq_bytes(&i.pk), coq_bytes(&i.msg), o.vk.coq(), o.vs.coq()),
            json: json!({"case":"verify","class":i.class,"sig":h64(&i.sig),"pk":h64(&i.pk),"msg":hexs(&i.msg),"k256":o.vk.js(),"libsecp256k1":o.vs.js()}),
            key: format!("ver/{}/{}/{}", h64(&i.sig), h64(&i.pk), hexs(&i.msg)),
            nontrivial: exp,
            class: format!("verify:{}", i.class),
        },
        weight: if exp { 11 } else { 1 },
    }
}
/// order the cases so that the contiguous shards cut by Out::write carry similar total weight
fn balance(mut cs: Vec<MCase>, shards: usize) -> Vec<Case> {
    let n = cs.len();
    let k = shards.max(1);
    let per = n.div_ceil(k).max(1);
    let caps: Vec<usize> = (0..k).map(|s| if s * per >= n { 0 } else { per.min(n - s * per) }).collect();
    cs.sort_by(|a, b| b.weight.cmp(&a.weight));
    let mut bins: Vec<(u32, Vec<Case>)> = (0..k).map(|_| (0, vec![])).collect();
    for c in cs {
        let mut best = usize::MAX;
        for s in 0..k {
            if bins[s].1.len() < caps[s] && (best == usize::MAX || bins[s].0 < bins[best].0) {
                best = s;
            }
        }
        bins[best].0 += c.weight;
        bins[best].1.push(c.case);
    }
    bins.into_iter().flat_map(|b| b.1).collect()
}
/// pick model cases under a budget: at most `quota` per class and `heavy` expensive ones in total
struct Picker {
    per_class: std::collections::BTreeMap<String, usize>,
    heavy_left: i64,
    quota: usize,
    picked: Vec<MCase>,
}
impl Picker {
    fn new(heavy_budget: i64, quota: usize) -> Self {
        Picker { per_class: Default::default(), heavy_left: heavy_budget, quota, picked: vec![] }
    }
    fn offer(&mut self, m: MCase) {
        let c = self.per_class.entry(m.case.class.clone()).or_insert(0);
        if *c >= self.quota {
            return;
        }
        if m.weight > 1 {
            if self.heavy_left < m.weight as i64 {
                return;
            }
            self.heavy_left -= m.weight as i64;
        }
        *c += 1;
        self.picked.push(m);
    }
}

const HEADER: &str = "From FV Require Import Base.Bytes Crypto.VmCryptoModel Run.Ecdsa.\nOpen Scope N_scope.";

fn run_c16(args: &Args, out: &mut Out) {
    let mut rng = Rng::new(args.seed);
    let inputs = gen_inputs(&mut rng, args);
    // quick: ~16 shards x ~25 s of vm_compute; thorough: ~16 x 150 s
    let mut pick = Picker::new(if args.thorough() { 2400 } else { 280 }, if args.thorough() { 6 } else { 1 });
    // the F5 witness first, so it is always model-checked
    let mut all: Vec<Inp> = vec![];
    let w = f5_witness();
    all.push(w);
    all.extend(inputs);
    let mut nvar = 0;
    let mut offers: Vec<(usize, MCase)> = vec![];
    // classes whose expensive (group-computation) cases are model-checked first
    const PRIO: [&str; 9] = ["F5", "crafted-s=n/2", "crafted-high-s=n/2+1", "valid", "malleated-n-minus-s",
        "crafted-high-s=2^255-1", "crafted-s=1", "crafted-low-s-near-half", "crafted-high-s=random"];
    let prio = |c: &str| PRIO.iter().position(|p| *p == c).unwrap_or(PRIO.len());
    for (idx, i) in all.iter().enumerate() {
        let o = c16_oracle(out, i);
        out.count(&format!("in:{}", i.class));
        if !args.oracle_only {
            offers.push((prio(&i.class), erec_case(i, &o)));
            if prio(&i.class) < PRIO.len() || idx % 3 == 0 {
                offers.push((prio(&i.class), ever_case(i, &o)));
            }
        }
        // other public keys for a few inputs of every kind
        if idx % 10 == 0 {
            let vs = c16_pk_variants(out, &mut rng, i);
            if !args.oracle_only && nvar < 2 {
                nvar += 1;
                for j in &vs {
                    let o = observe(j);
                    offers.push((PRIO.len(), ever_case(j, &o)));
                }
            }
        }
    }
    offers.sort_by_key(|(p, _)| *p);
    for (_, m) in offers {
        pick.offer(m);
    }
    // signing determinism and public keys
    for _ in 0..args.scale(200, 4000) {
        let d = rand_scalar(&mut rng, n_k1());
        let msg = rng.bytes32();
        c16_sign_oracle(out, d, &msg);
    }
    for d in [U256::one(), U256::from(2u64), n_k1() - U256::one(), n_k1() >> 1] {
        for m in [[0u8; 32], [0xffu8; 32], be(n_k1()), be(n_k1() - U256::one())] {
            c16_sign_oracle(out, d, &m);
        }
    }
    out.count("sign-determinism-checks");
    out.notes.push("verify: when the signature does not parse AND the public key is invalid the back-ends return different error kinds (k256: InvalidPublicKey, libsecp256k1: InvalidSignature); both reject, counted under verify-both-reject-error-kind-differs".into());
    out.notes.push("side observation: PublicKey::try_from(Bytes64) / from_str pass 64 untagged bytes to VerifyingKey::from_sec1_bytes and therefore reject every input (public.rs:119); the harness builds PublicKey values by transmute".into());
    let cases = balance(pick.picked, args.shards);
    for c in cases {
        out.push(c);
    }
}

/// F5 corpus case (the back-ends differed here before fix 378a736; must agree now):
/// s = n/2 + 1 on r = Gx (parity even), message 0x00..01
fn f5_witness() -> Inp {
    let n = n_k1();
    let s = (n >> 1) + U256::one();
    let mut msg = [0u8; 32];
    msg[31] = 1;
    let sig = sig_of(gx_k1(), s);
    let pk = match s_recover(&sig, &msg) {
        Rec::Key(k) => k,
        _ => pubkey_of(U256::one()),
    };
    Inp { class: "F5".into(), sig, msg, pk, expect: None }
}

// ------------------------------------------------------------------ C17: sign / recover / verify consistency
fn c17_roundtrip(out: &mut Out, rng: &mut Rng, d: U256, msg: [u8; 32], flips: bool) -> Option<[u8; 64]> {
    out.oracle_evaluations += 1;
    let n = n_k1();
    let sk = secret_of(d);
    let m = Message::from_bytes(msg);
    let rp = json!({"kind":"k1-sign","d":hexs(&be(d)),"msg":hexs(&msg)});
    let sig = match guarded(|| *Signature::sign(&sk, &m)) {
        Ok(s) => s,
        Err(e) => {
            out.oracle_fail("sign-panics", &format!("Signature::sign panicked ({e}) d={} msg={}", hexs(&be(d)), hexs(&msg)), rp);
            return None;
        }
    };
    let pk = *sk.public_key();
    let desc = format!("d={} msg={} sig={}", hexs(&be(d)), hexs(&msg), h64(&sig));
    // normalised: s <= n/2, so bit 255 is free for the parity
    let (r, s, _) = split_sig(&sig);
    if s.is_zero() || s > (n >> 1) || r.is_zero() || r >= n {
        out.oracle_fail("produced-signature-not-normalised", &format!("s not in [1,n/2] or r not in [1,n): {desc}"), rp.clone());
    }
    let stripped = Signature::from_bytes(sig).remove_recovery_id();
    if from_be(&stripped[32..]) != s || stripped[..32] != sig[..32] {
        out.oracle_fail("remove-recovery-id-wrong", &format!("remove_recovery_id: {desc}"), rp.clone());
    }
    if api_recover(&sig, &msg) != Rec::Key(pk) {
        out.oracle_fail("sign-recover-mismatch", &format!("recover(sign(d,m),m) != pk(d): {desc}"), rp.clone());
    }
    if api_verify(&sig, &pk, &msg) != Ver::Ok {
        out.oracle_fail("sign-verify-fails", &format!("verify(sign(d,m),pk(d),m) fails: {desc}"), rp.clone());
    }
    // both back-ends too
    if k_recover(&sig, &msg) != Rec::Key(pk) || k_verify(&sig, &pk, &msg) != Ver::Ok {
        out.oracle_fail("sign-recover-mismatch-k256", &format!("k256 back-end: {desc}"), rp.clone());
    }
    // any other message: a different random one, and one differing in a single bit
    let mut others = vec![rng.bytes32()];
    let mut one_bit = msg;
    one_bit[(rng.below(32)) as usize] ^= 1 << rng.below(8);
    others.push(one_bit);
    for m2 in others {
        if m2 == msg {
            continue;
        }
        c17_other_message(out, &sig, &pk, &msg, &m2);
    }
    // m +- n where it fits into 32 bytes
    let mz = from_be(&msg);
    if let Some(m2) = mz.checked_add(n) {
        c17_other_message(out, &sig, &pk, &msg, &be(m2));
    }
    if mz >= n {
        c17_other_message(out, &sig, &pk, &msg, &be(mz - n));
    }
    if flips {
        for bit in 0..512usize {
            let mut f = sig;
            f[bit / 8] ^= 0x80 >> (bit % 8);
            out.oracle_evaluations += 1;
            let rr = api_recover(&f, &msg);
            let vv = api_verify(&f, &pk, &msg);
            let rpf = json!({"kind":"k1","class":"bitflip","sig":h64(&f),"msg":hexs(&msg),"pk":h64(&pk),"expect":Value::Null,"flipped_bit":bit});
            if rr == Rec::Key(pk) {
                out.oracle_fail("bitflip-recovers-same-key", &format!("bit {bit} flipped, still recovers the signer: {desc}"), rpf.clone());
            }
            // bit 256 is the recovery id, which verify ignores by design (decode_signature truncates it)
            if vv == Ver::Ok && bit != 256 {
                out.oracle_fail("bitflip-verifies", &format!("bit {bit} flipped, still verifies: {desc}"), rpf.clone());
            }
            if bit == 256 && vv != Ver::Ok {
                out.oracle_fail("recovery-bit-affects-verify", &format!("verify depends on the recovery bit: {desc}"), rpf);
            }
        }
    }
    Some(sig)
}
fn c17_other_message(out: &mut Out, sig: &[u8; 64], pk: &[u8; 64], msg: &[u8; 32], m2: &[u8; 32]) {
    out.oracle_evaluations += 1;
    let n = n_k1();
    let rr = api_recover(sig, m2);
    let vv = api_verify(sig, pk, m2);
    if rr == Rec::Key(*pk) || vv == Ver::Ok {
        let a = from_be(msg);
        let b = from_be(m2);
        let congruent = a % n == b % n;
        let class = if congruent { "message-plus-n-same-key" } else { "other-message-same-key" };
        out.oracle_fail(
            class,
            &format!("signature made for msg={} also recovers/verifies the signer for the DIFFERENT 32-byte message {} (recover same key: {}, verify ok: {}; messages congruent mod n: {})",
                hexs(msg), hexs(m2), rr == Rec::Key(*pk), vv == Ver::Ok, congruent),
            json!({"kind":"k1-msg-pair","sig":h64(sig),"msg":hexs(msg),"msg2":hexs(m2),"pk":h64(pk)}),
        );
    }
}

// ---- secp256r1
fn r1_recover(sig: &[u8; 64], msg: &[u8; 32]) -> Rec {
    match guarded(|| fuel_crypto::secp256r1::recover(&Bytes64::from(*sig), &Message::from_bytes(*msg))) {
        Ok(Ok(k)) => Rec::Key(*k),
        Ok(Err(_)) => Rec::Err,
        Err(_) => Rec::Panic,
    }
}
/// the same operation done directly on the p256 crate (independent glue)
fn r1_reference(sig: &[u8; 64], msg: &[u8; 32]) -> Rec {
    use k256::ecdsa::RecoveryId;
    use p256::ecdsa::{Signature as PSig, VerifyingKey};
    let (r, s, odd) = split_sig(sig);
    let raw = sig_of(r, s);
    let Ok(ps) = PSig::from_slice(&raw) else { return Rec::Err };
    match VerifyingKey::recover_from_prehash(msg, &ps, RecoveryId::new(odd, false)) {
        Ok(vk) => {
            let pt = vk.to_encoded_point(false);
            let mut k = [0u8; 64];
            k[..32].copy_from_slice(pt.x().unwrap());
            k[32..].copy_from_slice(pt.y().unwrap());
            Rec::Key(k)
        }
        Err(_) => Rec::Err,
    }
}
fn r1_case(sig: &[u8; 64], msg: &[u8; 32], res: &Rec, class: &str) -> MCase {
    let core = lib_would_compute_core(sig, n_r1(), liftable_r1);
    MCase {
        case: Case {
            coq: format!("(ER1 {} {} {})", coq_bytes(sig), coq_bytes(msg), res.coq()),
            json: json!({"case":"r1-recover","class":class,"sig":h64(sig),"msg":hexs(msg),"p256":res.js()}),
            key: format!("r1/{}/{}", h64(sig), hexs(msg)),
            nontrivial: core,
            class: format!("r1:{}", class),
        },
        weight: if core { 30 } else { 1 },
    }
}
fn c17_r1(out: &mut Out, rng: &mut Rng, pick: &mut Picker, args: &Args) {
    use p256::ecdsa::SigningKey;
    let n = n_r1();
    for it in 0..args.scale(150, 3000) {
        out.oracle_evaluations += 1;
        let d = rand_scalar(rng, n);
        let Ok(sk) = SigningKey::from_slice(&be(d)) else { continue };
        let msg = if it % 5 == 0 { be(rand_u256(rng) >> 130) } else { rng.bytes32() };
        let m = Message::from_bytes(msg);
        let rp = json!({"kind":"r1-sign","d":hexs(&be(d)),"msg":hexs(&msg)});
        let sig: [u8; 64] = match guarded(|| fuel_crypto::secp256r1::sign_prehashed(&sk, &m)) {
            Ok(Ok(s)) => *s,
            _ => {
                out.oracle_fail("r1-sign-fails", &format!("secp256r1::sign_prehashed failed/panicked d={} msg={}", hexs(&be(d)), hexs(&msg)), rp);
                continue;
            }
        };
        let pk = fuel_crypto::secp256r1::encode_pubkey(*sk.verifying_key());
        let desc = format!("d={} msg={} sig={}", hexs(&be(d)), hexs(&msg), h64(&sig));
        let (r, s, _) = split_sig(&sig);
        if s.is_zero() || s > (n >> 1) || r.is_zero() || r >= n {
            out.oracle_fail("r1-produced-signature-not-normalised", &format!("r1: {desc}"), rp.clone());
        }
        let rr = r1_recover(&sig, &msg);
        if rr != Rec::Key(pk) {
            out.oracle_fail("r1-sign-recover-mismatch", &format!("r1 recover(sign(d,m),m) != pk(d): {desc}"), rp.clone());
        }
        if r1_reference(&sig, &msg) != rr {
            out.oracle_fail("r1-differs-from-p256-crate", &format!("r1: {desc}"), rp.clone());
        }
        if !args.oracle_only && it < (if args.thorough() { 24 } else { 8 }) {
            pick.offer(r1_case(&sig, &msg, &rr, "valid"));
        }
        // other messages
        let mut m2 = msg;
        m2[(rng.below(32)) as usize] ^= 1 << rng.below(8);
        let mut pairs = vec![m2, rng.bytes32()];
        let mz = from_be(&msg);
        if let Some(x) = mz.checked_add(n) {
            pairs.push(be(x));
        }
        for m2 in pairs {
            out.oracle_evaluations += 1;
            if m2 != msg && r1_recover(&sig, &m2) == Rec::Key(pk) {
                let congruent = from_be(&m2) % n == mz % n;
                out.oracle_fail(
                    if congruent { "r1-message-plus-n-same-key" } else { "r1-other-message-same-key" },
                    &format!("r1: signature for msg={} recovers the signer for the different message {} too", hexs(&msg), hexs(&m2)),
                    json!({"kind":"r1-msg-pair","sig":h64(&sig),"msg":hexs(&msg),"msg2":hexs(&m2),"pk":h64(&pk)}),
                );
            }
        }
        // malformed variants: fuel wrapper vs direct crate use
        if it % 4 == 0 {
            let half = n >> 1;
            let vars: Vec<(U256, U256, &str)> = vec![
                (U256::zero(), s, "r=0"), (n, s, "r=n"), (r, U256::zero(), "s=0"), (r, half + U256::one(), "s=n/2+1"),
                (r, two255() - U256::one(), "s=2^255-1"), (gx_r1(), s, "r=Gx"), (rand_u256(rng), rand_u256(rng) >> 1, "random"),
            ];
            for (r2, s2, c) in vars {
                for par in [false, true] {
                    out.oracle_evaluations += 1;
                    let sg = sig_of(r2, if par { s2 | two255() } else { s2 });
                    let a = r1_recover(&sg, &msg);
                    let b = r1_reference(&sg, &msg);
                    if a != b {
                        out.oracle_fail("r1-differs-from-p256-crate", &format!("r1 {c}: sig={} msg={} fuel={} p256={}", h64(&sg), hexs(&msg), a.js(), b.js()),
                            json!({"kind":"r1","sig":h64(&sg),"msg":hexs(&msg)}));
                    }
                    if a == Rec::Panic {
                        out.oracle_fail("host-panic", &format!("r1 recover panicked sig={}", h64(&sg)), json!({"kind":"r1","sig":h64(&sg),"msg":hexs(&msg)}));
                    }
                    if !args.oracle_only && it < 4 {
                        pick.offer(r1_case(&sg, &msg, &a, c));
                    }
                }
            }
        }
    }
}

// ---- ed25519
fn ed_fuel(pk: &[u8; 32], sig: &[u8; 64], msg: &[u8]) -> Result<bool, String> {
    guarded(|| fuel_crypto::ed25519::verify(&Bytes32::from(*pk), &Bytes64::from(*sig), msg).is_ok())
}
fn ed_reference(pk: &[u8; 32], sig: &[u8; 64], msg: &[u8]) -> bool {
    match ed25519_dalek::VerifyingKey::from_bytes(pk) {
        Ok(vk) => vk.verify_strict(msg, &ed25519_dalek::Signature::from_bytes(sig)).is_ok(),
        Err(_) => false,
    }
}
fn small_order_points() -> Vec<[u8; 32]> {
    [
        "0100000000000000000000000000000000000000000000000000000000000000",
        "ecffffffffffffffffffffffffffffffffffffffffffffffffffffffffffff7f",
        "0000000000000000000000000000000000000000000000000000000000000000",
        "0000000000000000000000000000000000000000000000000000000000000080",
        "26e8958fc2b227b045c3f489f2ef98f0d5dfac05d3c63339b13802886d53fc05",
        "26e8958fc2b227b045c3f489f2ef98f0d5dfac05d3c63339b13802886d53fc85",
        "c7176a703d4dd84fba3c0b760d10670f2a2053fa2c39ccc64ec7fd7792ac037a",
        "c7176a703d4dd84fba3c0b760d10670f2a2053fa2c39ccc64ec7fd7792ac03fa",
        // non-canonical encodings of small-order points
        "eeffffffffffffffffffffffffffffffffffffffffffffffffffffffffffff7f",
        "edffffffffffffffffffffffffffffffffffffffffffffffffffffffffffff7f",
    ]
    .iter()
    .map(|h| hex::decode(h).unwrap().try_into().unwrap())
    .collect()
}
struct EdIn {
    pk: [u8; 32],
    sig: [u8; 64],
    msg: Vec<u8>,
    class: &'static str,
}
fn ed_inputs(rng: &mut Rng, args: &Args) -> Vec<EdIn> {
    use ed25519_dalek::{Signer, SigningKey};
    let mut v = vec![];
    // group order L (little endian), to build non-canonical S = S + L
    let l = u("1000000000000000000000000000000014DEF9DEA2F79CD65812631A5CF5D3ED");
    for it in 0..args.scale(100, 2000) {
        let sk = SigningKey::from_bytes(&rng.bytes32());
        let msg = rng.bytes_upto(100);
        let sig = sk.sign(&msg).to_bytes();
        let pk = sk.verifying_key().to_bytes();
        v.push(EdIn { pk, sig, msg: msg.clone(), class: "valid" });
        // bit flips
        let mut f = sig;
        f[rng.below(64) as usize] ^= 1 << rng.below(8);
        v.push(EdIn { pk, sig: f, msg: msg.clone(), class: "mutated-sig" });
        let mut fp = pk;
        fp[rng.below(32) as usize] ^= 1 << rng.below(8);
        v.push(EdIn { pk: fp, sig, msg: msg.clone(), class: "mutated-pk" });
        let mut fm = msg.clone();
        if fm.is_empty() {
            fm.push(0);
        } else {
            let k = rng.below(fm.len() as u64) as usize;
            fm[k] ^= 1 << rng.below(8);
        }
        v.push(EdIn { pk, sig, msg: fm, class: "mutated-msg" });
        // S + L (non-canonical scalar): same signature equation, must be rejected
        let mut sle = [0u8; 32];
        sle.copy_from_slice(&sig[32..]);
        sle.reverse();
        let s = from_be(&sle);
        if let Some(s2) = s.checked_add(l) {
            let mut b = be(s2);
            b.reverse();
            let mut g = sig;
            g[32..].copy_from_slice(&b);
            v.push(EdIn { pk, sig: g, msg: msg.clone(), class: "mutated-s-plus-L" });
        }
        if it < 20 {
            // small-order public keys / R, S = 0 and S of a valid signature
            for a in small_order_points() {
                for r in small_order_points().iter().take(4) {
                    let mut g = [0u8; 64];
                    g[..32].copy_from_slice(r);
                    v.push(EdIn { pk: a, sig: g, msg: msg.clone(), class: "small-order" });
                }
                v.push(EdIn { pk: a, sig, msg: msg.clone(), class: "small-order" });
                let mut g = sig;
                g[..32].copy_from_slice(&a);
                v.push(EdIn { pk, sig: g, msg: msg.clone(), class: "small-order" });
            }
        }
        let mut rs = [0u8; 64];
        rs.copy_from_slice(&rng.bytes(64));
        v.push(EdIn { pk: rng.bytes32(), sig: rs, msg: msg.clone(), class: "random" });
    }
    v
}
fn c17_ed(out: &mut Out, i: &EdIn) -> bool {
    out.oracle_evaluations += 1;
    let rp = json!({"kind":"ed","class":i.class,"pk":hexs(&i.pk),"sig":h64(&i.sig),"msg":hexs(&i.msg)});
    let desc = format!("class={} pk={} sig={} msg={}", i.class, hexs(&i.pk), h64(&i.sig), hexs(&i.msg));
    let f = match ed_fuel(&i.pk, &i.sig, &i.msg) {
        Ok(b) => b,
        Err(e) => {
            out.oracle_fail("host-panic", &format!("ed25519::verify panicked ({e}): {desc}"), rp);
            return false;
        }
    };
    let r = ed_reference(&i.pk, &i.sig, &i.msg);
    if f != r {
        out.oracle_fail("ed25519-differs-from-verify-strict", &format!("fuel={f} dalek verify_strict={r}: {desc}"), rp.clone());
    }
    match i.class {
        "valid" if !f => out.oracle_fail("ed25519-valid-rejected", &desc, rp),
        "small-order" if f => out.oracle_fail("ed25519-small-order-accepted", &desc, rp),
        c if c.starts_with("mutated") && f => out.oracle_fail("ed25519-mutated-accepted", &desc, rp),
        "random" if f => out.oracle_fail("ed25519-random-accepted", &desc, rp),
        _ => {}
    }
    f
}

// ---- the VM instructions
mod vm {
    use fuel_asm::{op, GTFArgs, RegId};
    use fuel_tx::{Receipt, TransactionBuilder};
    use fuel_vm::prelude::*;

    fn run(script: Vec<fuel_asm::Instruction>, data: Vec<u8>) -> Result<Vec<Receipt>, String> {
        fvh::guarded(|| {
            let mut client = MemoryClient::default();
            let tx = TransactionBuilder::script(script.into_iter().collect(), data)
                .script_gas_limit(10_000_000)
                .add_fee_input()
                .finalize_checked(Default::default());
            client.transact(tx).to_vec()
        })
    }
    fn err_and_data(rs: &[Receipt]) -> Option<(u64, Vec<u8>)> {
        let mut err = None;
        let mut data = None;
        let mut ok = false;
        for r in rs {
            match r {
                Receipt::Log { ra, .. } => err = Some(*ra),
                Receipt::LogData { data: d, .. } => data = d.as_ref().map(|b| b.to_vec()),
                Receipt::Return { .. } => ok = true,
                _ => {}
            }
        }
        if !ok {
            return None;
        }
        Some((err?, data.unwrap_or_default()))
    }
    /// ECK1 / ECR1: returns ($err, 64 bytes at dst); dst is pre-filled with the signature bytes
    pub fn recover(r1: bool, sig: &[u8; 64], msg: &[u8; 32]) -> Result<Option<(u64, Vec<u8>)>, String> {
        let rec = if r1 { op::ecr1(0x11, 0x20, 0x21) } else { op::eck1(0x11, 0x20, 0x21) };
        let script = vec![
            op::gtf_args(0x20, 0x00, GTFArgs::ScriptData),
            op::addi(0x21, 0x20, 64),
            op::movi(0x10, 64),
            op::aloc(0x10),
            op::move_(0x11, RegId::HP),
            op::mcpi(0x11, 0x20, 64),
            rec,
            op::log(RegId::ERR, RegId::ZERO, RegId::ZERO, RegId::ZERO),
            op::logd(RegId::ZERO, RegId::ZERO, 0x11, 0x10),
            op::ret(RegId::ONE),
        ];
        let mut data = sig.to_vec();
        data.extend_from_slice(msg);
        Ok(err_and_data(&run(script, data)?))
    }
    /// one step of a multi-instruction script
    #[derive(Clone)]
    pub enum SeqOp {
        Rec { r1: bool, sig: [u8; 64], msg: [u8; 32] },
        Ed { pk: [u8; 32], sig: [u8; 64], msg: Vec<u8> },
        /// another instruction leaves $err = 1: DIV by zero with F_UNSAFEMATH set
        PresetErr,
    }
    #[derive(Clone, Debug, PartialEq)]
    pub enum SeqObs {
        Rec { err: u64, out: Vec<u8> },
        Ed { err: u64 },
        Preset { err: u64 },
    }
    /// Run all ops in ONE script.  ALL operand registers of ALL ops are loaded (and output buffers
    /// allocated and pre-filled with the signature bytes) BEFORE the first crypto instruction, because
    /// almost every ALU instruction resets `$err`: between two consecutive ops only LOG / LOGD run, which
    /// do not touch `$err`.  F_UNSAFEMATH is set once at the start so that the `$err`-preset step is a
    /// single DIV by zero.  Around each op: LOG $err (before), the op, LOG $err (after), and LOGD of the
    /// 64 output bytes for a recovery.  Returns (observations, $err logged immediately before each op).
    pub fn run_seq(ops: &[SeqOp]) -> Result<Option<(Vec<SeqObs>, Vec<u64>)>, String> {
        assert!(ops.len() <= 7, "at most 7 ops: 4 registers each");
        const BASE: u8 = 0x10;
        const TMP: u8 = 0x11;
        const C64: u8 = 0x12;
        let mut setup = vec![
            op::gtf_args(BASE, 0x00, GTFArgs::ScriptData),
            op::movi(C64, 64),
            op::movi(TMP, 1), // F_UNSAFEMATH
            op::flag(TMP),
        ];
        let mut body = vec![];
        let mut data: Vec<u8> = vec![];
        let mut next_reg: u8 = 0x13;
        for o in ops {
            let off = data.len() as u32;
            let (r0, r1, r2, r3) = (next_reg, next_reg + 1, next_reg + 2, next_reg + 3);
            next_reg += 4;
            body.push(op::log(RegId::ERR, RegId::ZERO, RegId::ZERO, RegId::ZERO));
            match o {
                SeqOp::Rec { r1: is_r1, sig, msg } => {
                    data.extend_from_slice(sig);
                    data.extend_from_slice(msg);
                    // r0 = dst, r1 = sig, r2 = msg
                    setup.extend([
                        op::movi(TMP, off),
                        op::add(r1, BASE, TMP),
                        op::addi(r2, r1, 64),
                        op::aloc(C64),
                        op::move_(r0, RegId::HP),
                        op::mcpi(r0, r1, 64),
                    ]);
                    body.push(if *is_r1 { op::ecr1(r0, r1, r2) } else { op::eck1(r0, r1, r2) });
                    body.push(op::log(RegId::ERR, RegId::ZERO, RegId::ZERO, RegId::ZERO));
                    body.push(op::logd(RegId::ZERO, RegId::ZERO, r0, C64));
                }
                SeqOp::Ed { pk, sig, msg } => {
                    data.extend_from_slice(pk);
                    data.extend_from_slice(sig);
                    data.extend_from_slice(msg);
                    // r0 = pk, r1 = sig, r2 = msg, r3 = len
                    setup.extend([
                        op::movi(TMP, off),
                        op::add(r0, BASE, TMP),
                        op::addi(r1, r0, 32),
                        op::addi(r2, r1, 64),
                        op::movi(r3, msg.len() as u32),
                    ]);
                    body.push(op::ed19(r0, r1, r2, r3));
                    body.push(op::log(RegId::ERR, RegId::ZERO, RegId::ZERO, RegId::ZERO));
                }
                SeqOp::PresetErr => {
                    body.push(op::div(r0, RegId::ONE, RegId::ZERO));
                    body.push(op::log(RegId::ERR, RegId::ZERO, RegId::ZERO, RegId::ZERO));
                }
            }
        }
        data.extend_from_slice(&ED19_FILLER);
        let mut script = setup;
        script.extend(body);
        script.push(op::ret(RegId::ONE));
        let rs = run(script, data)?;
        if !rs.iter().any(|r| matches!(r, Receipt::Return { .. })) {
            return Ok(None);
        }
        let mut it = rs.iter().filter(|r| matches!(r, Receipt::Log { .. } | Receipt::LogData { .. }));
        let mut obs = vec![];
        let mut before = vec![];
        for o in ops {
            let Some(Receipt::Log { ra: b, .. }) = it.next() else { return Ok(None) };
            before.push(*b);
            let Some(Receipt::Log { ra, .. }) = it.next() else { return Ok(None) };
            match o {
                SeqOp::Rec { .. } => {
                    let Some(Receipt::LogData { data: d, .. }) = it.next() else { return Ok(None) };
                    obs.push(SeqObs::Rec { err: *ra, out: d.as_ref().map(|b| b.to_vec()).unwrap_or_default() });
                }
                SeqOp::Ed { .. } => obs.push(SeqObs::Ed { err: *ra }),
                SeqOp::PresetErr => obs.push(SeqObs::Preset { err: *ra }),
            }
        }
        Ok(Some((obs, before)))
    }
    /// bytes placed after the message: ED19 with msg_len = 0 reads 32 bytes ("Backwards compatibility
    /// with old contracts", opcodes_impl.rs), so for an empty message these are what gets verified
    pub const ED19_FILLER: [u8; 32] = [0xA5; 32];
    /// ED19: returns $err
    pub fn ed19(pk: &[u8; 32], sig: &[u8; 64], msg: &[u8]) -> Result<Option<u64>, String> {
        let script = vec![
            op::gtf_args(0x20, 0x00, GTFArgs::ScriptData),
            op::addi(0x21, 0x20, 32),
            op::addi(0x22, 0x21, 64),
            op::movi(0x23, msg.len() as u32),
            op::ed19(0x20, 0x21, 0x22, 0x23),
            op::log(RegId::ERR, RegId::ZERO, RegId::ZERO, RegId::ZERO),
            op::ret(RegId::ONE),
        ];
        let mut data = pk.to_vec();
        data.extend_from_slice(sig);
        data.extend_from_slice(msg);
        data.extend_from_slice(&ED19_FILLER);
        let rs = run(script, data)?;
        let mut err = None;
        let mut ok = false;
        for r in &rs {
            match r {
                Receipt::Log { ra, .. } => err = Some(*ra),
                Receipt::Return { .. } => ok = true,
                _ => {}
            }
        }
        Ok(if ok { err } else { None })
    }
}
fn c17_vm_recover(out: &mut Out, r1: bool, sig: &[u8; 64], msg: &[u8; 32], class: &str) {
    out.oracle_evaluations += 1;
    let lib = if r1 { r1_recover(sig, msg) } else { api_recover(sig, msg) };
    let name = if r1 { "ECR1" } else { "ECK1" };
    let rp = json!({"kind": if r1 {"vm-ecr1"} else {"vm-eck1"}, "sig":h64(sig), "msg":hexs(msg)});
    let desc = format!("{name} class={class} sig={} msg={} library={}", h64(sig), hexs(msg), lib.js());
    match vm::recover(r1, sig, msg) {
        Err(e) => out.oracle_fail("vm-host-panic", &format!("{desc}: VM panicked: {e}"), rp),
        Ok(None) => out.oracle_fail("vm-script-did-not-return", &desc, rp),
        Ok(Some((err, data))) => {
            let expect: (u64, Vec<u8>) = match lib {
                Rec::Key(k) => (0, k.to_vec()),
                _ => (1, vec![0u8; 64]),
            };
            if (err, data.clone()) != expect {
                let cls = if r1 { "vm-ecr1-differs-from-library" } else { "vm-eck1-differs-from-library" };
                out.oracle_fail(cls, &format!("{desc}: VM err={err} out={}", hexs(&data)), rp);
            }
        }
    }
}
fn c17_vm_ed(out: &mut Out, i: &EdIn, lib: bool) {
    out.oracle_evaluations += 1;
    // msg_len = 0 is specified to mean 32 bytes: the instruction then checks the 32 bytes at msg_ptr
    let lib = if i.msg.is_empty() {
        out.count("vm-ed19-empty-message-read-as-32-bytes");
        ed_fuel(&i.pk, &i.sig, &vm::ED19_FILLER).unwrap_or(false)
    } else {
        lib
    };
    let rp = json!({"kind":"vm-ed19","pk":hexs(&i.pk),"sig":h64(&i.sig),"msg":hexs(&i.msg)});
    let desc = format!("ED19 class={} pk={} sig={} msg={} library_ok={}", i.class, hexs(&i.pk), h64(&i.sig), hexs(&i.msg), lib);
    match vm::ed19(&i.pk, &i.sig, &i.msg) {
        Err(e) => out.oracle_fail("vm-host-panic", &format!("{desc}: VM panicked: {e}"), rp),
        Ok(None) => out.oracle_fail("vm-script-did-not-return", &desc, rp),
        Ok(Some(err)) => {
            if (err == 0) != lib || err > 1 {
                out.oracle_fail("vm-ed19-differs-from-library", &format!("{desc}: VM err={err}"), rp);
            }
        }
    }
}

/// what the library says about one op, independent of any history
fn seq_expect(o: &vm::SeqOp) -> Option<vm::SeqObs> {
    match o {
        vm::SeqOp::Rec { r1, sig, msg } => {
            let lib = if *r1 { r1_recover(sig, msg) } else { api_recover(sig, msg) };
            Some(match lib {
                Rec::Key(k) => vm::SeqObs::Rec { err: 0, out: k.to_vec() },
                _ => vm::SeqObs::Rec { err: 1, out: vec![0u8; 64] },
            })
        }
        vm::SeqOp::Ed { pk, sig, msg } => {
            let ok = ed_fuel(pk, sig, msg).unwrap_or(false);
            Some(vm::SeqObs::Ed { err: if ok { 0 } else { 1 } })
        }
        vm::SeqOp::PresetErr => Some(vm::SeqObs::Preset { err: 1 }),
    }
}
fn seq_op_js(o: &vm::SeqOp) -> Value {
    match o {
        vm::SeqOp::Rec { r1, sig, msg } => json!({"op": if *r1 {"ECR1"} else {"ECK1"}, "sig": h64(sig), "msg": hexs(msg)}),
        vm::SeqOp::Ed { pk, sig, msg } => json!({"op":"ED19","pk":hexs(pk),"sig":h64(sig),"msg":hexs(msg)}),
        vm::SeqOp::PresetErr => json!({"op":"PRESET_ERR"}),
    }
}
fn seq_op_of_js(v: &Value) -> Option<vm::SeqOp> {
    Some(match v["op"].as_str()? {
        "ECK1" => vm::SeqOp::Rec { r1: false, sig: parse64(&v["sig"])?, msg: parse32(&v["msg"])? },
        "ECR1" => vm::SeqOp::Rec { r1: true, sig: parse64(&v["sig"])?, msg: parse32(&v["msg"])? },
        "ED19" => vm::SeqOp::Ed { pk: parse32(&v["pk"])?, sig: parse64(&v["sig"])?, msg: hex::decode(v["msg"].as_str()?).ok()? },
        "PRESET_ERR" => vm::SeqOp::PresetErr,
        _ => return None,
    })
}
/// Run a script of several crypto instructions; after EVERY op `$err` and the output must be what the
/// library says for that op alone.  Returns the model case (library results + observations).
fn c17_vm_seq(out: &mut Out, ops: &[vm::SeqOp], class: &str) -> Option<MCase> {
    out.oracle_evaluations += 1;
    let rp = json!({"kind":"vm-seq","class":class,"ops": ops.iter().map(seq_op_js).collect::<Vec<_>>()});
    let names: Vec<String> = ops.iter().map(|o| seq_op_js(o)["op"].as_str().unwrap().to_string()).collect();
    let obs = match vm::run_seq(ops) {
        Err(e) => {
            out.oracle_fail("vm-host-panic", &format!("VM panicked on the sequence {names:?} ({class}): {e}"), rp);
            return None;
        }
        Ok(None) => {
            out.oracle_fail("vm-script-did-not-return", &format!("sequence {names:?} ({class}) did not return / receipts missing"), rp);
            return None;
        }
        Ok(Some(o)) => o,
    };
    let (obs, before) = obs;
    // harness self-check: the $err left by op k-1 must still be there immediately before op k
    // (otherwise the script wiped it and a history-dependence bug would be invisible)
    let err_of = |x: &vm::SeqObs| match x {
        vm::SeqObs::Rec { err, .. } | vm::SeqObs::Ed { err } | vm::SeqObs::Preset { err } => *err,
    };
    for k in 0..ops.len() {
        let carried = if k == 0 { 0 } else { err_of(&obs[k - 1]) };
        if before[k] != carried {
            out.oracle_fail(
                "vm-seq-harness-err-not-carried",
                &format!("script {names:?} ({class}): $err was {carried} after op #{} but {} immediately before op #{k}: the harness script does not carry $err between the ops", k.wrapping_sub(1), before[k]),
                rp.clone(),
            );
        }
    }
    if ops.len() >= 2 && err_of(&obs[0]) == 1 {
        out.count("vm-seq-second-op-entered-with-err=1");
    }
    let mut coq_ops = vec![];
    for (k, (o, got)) in ops.iter().zip(obs.iter()).enumerate() {
        let want = seq_expect(o).unwrap();
        if *got != want {
            // does the same op agree with the library when it runs alone? then the history is the cause
            let alone = vm::run_seq(std::slice::from_ref(o)).ok().flatten().map(|v| v.0[0].clone());
            let cls = if matches!(o, vm::SeqOp::PresetErr) {
                "vm-seq-preset-err-not-set"
            } else if alone.as_ref() == Some(&want) && err_of(got) != err_of(&want) {
                "vm-crypto-instruction-err-flag-depends-on-history"
            } else if alone.as_ref() == Some(&want) {
                "vm-crypto-instruction-output-depends-on-history"
            } else {
                match o {
                    vm::SeqOp::Rec { r1: false, .. } => "vm-eck1-differs-from-library",
                    vm::SeqOp::Rec { r1: true, .. } => "vm-ecr1-differs-from-library",
                    _ => "vm-ed19-differs-from-library",
                }
            };
            out.oracle_fail(
                cls,
                &format!("script {names:?} ({class}): after op #{k} ({}) the VM shows {:?} but the library result for that op alone means {:?} (the same op run alone gives {:?})",
                    names[k], got, want, alone),
                rp.clone(),
            );
        }
        coq_ops.push(match (o, got) {
            (vm::SeqOp::Rec { r1, sig, msg }, vm::SeqObs::Rec { err, out: o2 }) => {
                let lib = if *r1 { r1_recover(sig, msg) } else { api_recover(sig, msg) };
                format!("(VRec {} {} {})", lib.coq(), err, coq_bytes(o2))
            }
            (vm::SeqOp::Ed { pk, sig, msg }, vm::SeqObs::Ed { err }) => {
                format!("(VEd {} {})", coq_bool(ed_fuel(pk, sig, msg).unwrap_or(false)), err)
            }
            (_, vm::SeqObs::Preset { err }) => format!("(VPre {})", err),
            _ => "(VPre 99)".to_string(),
        });
    }
    Some(MCase {
        case: Case {
            coq: format!("(EVm {})", coq_list(&coq_ops)),
            json: json!({"case":"vm-sequence","class":class,"ops":names,"observed":format!("{obs:?}")}),
            key: format!("vmseq/{}/{:?}", class, names),
            nontrivial: ops.len() >= 2,
            class: format!("vm-seq:{class}"),
        },
        weight: 1,
    })
}
/// every ordered pair (first op, second op) + some longer random sequences
fn c17_vm_sequences(out: &mut Out, rng: &mut Rng, pick: &mut Picker, args: &Args) {
    use ed25519_dalek::{Signer, SigningKey};
    use p256::ecdsa::SigningKey as PKey;
    let reps = args.scale(2, 12);
    for rep in 0..reps {
        // fresh valid inputs for each kind
        let d = rand_scalar(rng, n_k1());
        let kmsg = rng.bytes32();
        let ksig = *Signature::sign(&secret_of(d), &Message::from_bytes(kmsg));
        let (rsig, rmsg) = loop {
            let Ok(sk) = PKey::from_slice(&be(rand_scalar(rng, n_r1()))) else { continue };
            let m = rng.bytes32();
            let Ok(sg) = fuel_crypto::secp256r1::sign_prehashed(&sk, &Message::from_bytes(m)) else { continue };
            break (*sg, m);
        };
        let esk = SigningKey::from_bytes(&rng.bytes32());
        let emsg = { let mut m = rng.bytes_upto(60); m.push(7); m };
        let esig = esk.sign(&emsg).to_bytes();
        let epk = esk.verifying_key().to_bytes();
        let ok_k = vm::SeqOp::Rec { r1: false, sig: ksig, msg: kmsg };
        let ok_r = vm::SeqOp::Rec { r1: true, sig: rsig, msg: rmsg };
        let ok_e = vm::SeqOp::Ed { pk: epk, sig: esig, msg: emsg.clone() };
        // failing variants: r = 0 / r = n (never recovers), damaged ed25519 signature
        let mut bad_ksig = ksig;
        bad_ksig[..32].copy_from_slice(&[0u8; 32]);
        let mut bad_rsig = rsig;
        bad_rsig[..32].copy_from_slice(&be(n_r1()));
        let mut bad_esig = esig;
        bad_esig[5] ^= 0x40;
        let bad_k = vm::SeqOp::Rec { r1: false, sig: bad_ksig, msg: kmsg };
        let bad_r = vm::SeqOp::Rec { r1: true, sig: bad_rsig, msg: rmsg };
        let bad_e = vm::SeqOp::Ed { pk: epk, sig: bad_esig, msg: emsg.clone() };
        let firsts: Vec<(&str, vm::SeqOp)> = vec![
            ("failing-ECK1", bad_k.clone()), ("failing-ECR1", bad_r.clone()), ("failing-ED19", bad_e.clone()),
            ("err-preset-by-DIV", vm::SeqOp::PresetErr),
            ("succeeding-ECK1", ok_k.clone()), ("succeeding-ECR1", ok_r.clone()), ("succeeding-ED19", ok_e.clone()),
        ];
        let seconds: Vec<(&str, vm::SeqOp)> = vec![
            ("succeeding-ECK1", ok_k.clone()), ("succeeding-ECR1", ok_r.clone()), ("succeeding-ED19", ok_e.clone()),
            ("failing-ECK1", bad_k.clone()), ("failing-ECR1", bad_r.clone()), ("failing-ED19", bad_e.clone()),
        ];
        for (fname, f) in &firsts {
            for (sname, sop) in &seconds {
                let class = format!("{fname}-then-{sname}");
                let m = c17_vm_seq(out, &[f.clone(), sop.clone()], &class);
                out.count("vm-seq-pairs");
                if let (Some(m), false, 0) = (m, args.oracle_only, rep) {
                    pick.offer(m);
                }
            }
        }
        // longer random sequences
        let pool: Vec<vm::SeqOp> = firsts.iter().map(|x| x.1.clone()).collect();
        for j in 0..args.scale(6, 40) {
            let len = rng.range(3, 7) as usize;
            let ops: Vec<vm::SeqOp> = (0..len).map(|_| rng.pick(&pool).clone()).collect();
            let m = c17_vm_seq(out, &ops, "random-sequence");
            out.count("vm-seq-random");
            if let (Some(mut m), false, true) = (m, args.oracle_only, rep == 0 && j < 4) {
                m.case.class = format!("vm-seq:random-{j}");
                pick.offer(m);
            }
        }
    }
}

fn pair_cases(pick: &mut Picker, sig: &[u8; 64], msg: &[u8; 32], m2: &[u8; 32]) {
    for (m, c) in [(msg, "m"), (m2, "m+n")] {
        let i = Inp { class: format!("msg-pair-{c}"), sig: *sig, msg: *m, pk: [0u8; 64], expect: None };
        let o = Obs { rk: k_recover(sig, m), rs: s_recover(sig, m), vk: Ver::BadKey, vs: Ver::BadKey };
        pick.offer(erec_case(&i, &o));
    }
}

fn run_c17(args: &Args, out: &mut Out) {
    let mut rng = Rng::new(args.seed);
    let n = n_k1();
    let mut pick = Picker::new(if args.thorough() { 2400 } else { 200 }, if args.thorough() { 48 } else { 4 });
    // F6 witness first: m = 1, m' = 1 + n
    {
        let d = U256::from(0x1234_5678u64);
        let mut msg = [0u8; 32];
        msg[31] = 1;
        if let Some(sig) = c17_roundtrip(out, &mut rng, d, msg, false) {
            if !args.oracle_only {
                pair_cases(&mut pick, &sig, &msg, &be(U256::one() + n));
            }
        }
    }
    let nvalid = args.scale(300, 6000);
    let (nsig, npub) = if args.thorough() { (48, 24) } else { (6, 4) };
    for it in 0..nvalid {
        let d = match it % 50 {
            0 => U256::one(),
            1 => n - U256::one(),
            2 => n >> 1,
            _ => rand_scalar(&mut rng, n),
        };
        // a fifth of the messages are small integers so that m + n is representable (F6)
        let msg = match it % 5 {
            0 => be(rand_u256(&mut rng) >> 130),
            1 => *Message::new(rng.bytes_upto(64)),
            _ => rng.bytes32(),
        };
        let flips = it % (nvalid / 6).max(1) == 3;
        let sig = c17_roundtrip(out, &mut rng, d, msg, flips);
        out.count(if it % 5 == 0 { "k1-roundtrip-small-msg" } else { "k1-roundtrip" });
        if let (Some(sig), false) = (sig, args.oracle_only) {
            if it < nsig {
                let pk = pubkey_of(d);
                pick.offer(MCase {
                    case: Case {
                        coq: format!("(ESign {} {} {})", coq_bytes(&be(d)), coq_bytes(&msg), coq_bytes(&sig)),
                        json: json!({"case":"sign","d":hexs(&be(d)),"msg":hexs(&msg),"sig":h64(&sig),"pk":h64(&pk)}),
                        key: format!("sign/{}/{}", hexs(&be(d)), hexs(&msg)),
                        nontrivial: true,
                        class: "sign-consistency".into(),
                    },
                    weight: 17,
                });
            }
            if (nsig..nsig + npub).contains(&it) {
                let pk = pubkey_of(d);
                pick.offer(MCase {
                    case: Case {
                        coq: format!("(EPub {} {})", coq_bytes(&be(d)), coq_bytes(&pk)),
                        json: json!({"case":"public-key","d":hexs(&be(d)),"pk":h64(&pk)}),
                        key: format!("pub/{}", hexs(&be(d))),
                        nontrivial: true,
                        class: "public-key".into(),
                    },
                    weight: 6,
                });
            }
            if it < 24 {
                let mut raw = sig;
                if it % 2 == 0 {
                    raw.copy_from_slice(&rng.bytes(64));
                }
                let stripped = Signature::from_bytes(raw).remove_recovery_id();
                pick.offer(MCase {
                    case: Case {
                        coq: format!("(EFmt {} {})", coq_bytes(&raw), coq_bytes(&stripped)),
                        json: json!({"case":"format","sig":h64(&raw),"stripped":h64(&stripped)}),
                        key: format!("fmt/{}", h64(&raw)),
                        nontrivial: true,
                        class: format!("format-{}", it % 6),
                    },
                    weight: 1,
                });
            }
            // the VM instruction on the produced signature and on damaged copies
            if it % 3 == 0 {
                c17_vm_recover(out, false, &sig, &msg, "valid");
                let mut f = sig;
                f[(rng.below(64)) as usize] ^= 1 << rng.below(8);
                c17_vm_recover(out, false, &f, &msg, "bitflip");
            }
        }
    }
    // boundary / malformed k1 inputs through the VM
    let small = Args { extra: [("scale".to_string(), "0.2".to_string())].into_iter().collect(), ..args.clone() };
    for i in gen_inputs(&mut rng, &small) {
        c17_vm_recover(out, false, &i.sig, &i.msg, &i.class);
        out.count("vm-eck1");
        // model: the public API result on malformed input (cheap cases only)
        if !args.oracle_only {
            let o = observe(&i);
            let m = erec_case(&i, &o);
            if m.weight == 1 {
                pick.per_class.entry(m.case.class.clone()).or_insert(0);
                pick.quota = 1;
                pick.offer(m);
                pick.quota = if args.thorough() { 48 } else { 4 };
            }
        }
    }
    // the three instructions in sequences inside one script ($err must not depend on history)
    c17_vm_sequences(out, &mut rng, &mut pick, args);
    // secp256r1
    c17_r1(out, &mut rng, &mut pick, args);
    {
        // r1 through the VM
        use p256::ecdsa::SigningKey;
        for it in 0..args.scale(60, 600) {
            let d = rand_scalar(&mut rng, n_r1());
            let Ok(sk) = SigningKey::from_slice(&be(d)) else { continue };
            let msg = rng.bytes32();
            let Ok(sig) = fuel_crypto::secp256r1::sign_prehashed(&sk, &Message::from_bytes(msg)) else { continue };
            let mut sg = *sig;
            match it % 4 {
                1 => sg[(rng.below(64)) as usize] ^= 1 << rng.below(8),
                2 => sg[..32].copy_from_slice(&be(n_r1())),
                _ => {}
            }
            c17_vm_recover(out, true, &sg, &msg, "r1");
            out.count("vm-ecr1");
        }
    }
    // ed25519
    let eds = ed_inputs(&mut rng, args);
    for (k, i) in eds.iter().enumerate() {
        let lib = c17_ed(out, i);
        out.count(&format!("ed25519-{}", i.class));
        if k % 5 == 0 || i.class == "valid" {
            c17_vm_ed(out, i, lib);
            out.count("vm-ed19");
        }
    }
    out.notes.push("ED19 with msg_len = 0 verifies the 32 bytes at msg_ptr (documented compatibility rule in opcodes_impl.rs); the oracle follows that rule, so a signature over the empty message cannot be checked by the instruction".into());
    out.notes.push("VM sequences: every ordered pair (failing/succeeding ECK1, ECR1, ED19 or $err pre-set by DIV-by-zero under F_UNSAFEMATH; then succeeding/failing ECK1, ECR1, ED19) and random longer scripts run in ONE script; after each op $err and the output must equal what the library gives for that op alone".into());
    out.notes.push("verify ignores the recovery-id bit (bit 255 of s) by design: flipping it keeps verify = Ok and makes recover return a different key".into());
    let cases = balance(pick.picked, args.shards);
    for c in cases {
        out.push(c);
    }
}

// ------------------------------------------------------------------ replay
fn replay(args: &Args, out: &mut Out, v: &Value) {
    let kind = v["kind"].as_str().unwrap_or("");
    let mut rng = Rng::new(args.seed);
    match kind {
        "k1" => {
            let sig = parse64(&v["sig"]).expect("sig");
            let msg = parse32(&v["msg"]).expect("msg");
            let pk = parse64(&v["pk"]).unwrap_or([0u8; 64]);
            let i = Inp { class: v["class"].as_str().unwrap_or("replay").to_string(), sig, msg, pk, expect: parse64(&v["expect"]) };
            let o = c16_oracle(out, &i);
            out.push(erec_case(&i, &o).case);
            out.push(ever_case(&i, &o).case);
            c17_vm_recover(out, false, &sig, &msg, "replay");
        }
        "k1-sign" => {
            let d = from_be(&parse32(&v["d"]).expect("d"));
            let msg = parse32(&v["msg"]).expect("msg");
            if args.prop == "C17" {
                c17_roundtrip(out, &mut rng, d, msg, true);
            } else {
                c16_sign_oracle(out, d, &msg);
            }
        }
        "k1-msg-pair" => {
            let sig = parse64(&v["sig"]).expect("sig");
            let msg = parse32(&v["msg"]).expect("msg");
            let m2 = parse32(&v["msg2"]).expect("msg2");
            let pk = parse64(&v["pk"]).expect("pk");
            c17_other_message(out, &sig, &pk, &msg, &m2);
            let mut p = Picker::new(1000, 10);
            pair_cases(&mut p, &sig, &msg, &m2);
            for m in p.picked {
                out.push(m.case);
            }
        }
        "r1" | "r1-msg-pair" | "vm-ecr1" => {
            let sig = parse64(&v["sig"]).expect("sig");
            let msg = parse32(&v["msg"]).expect("msg");
            let a = r1_recover(&sig, &msg);
            let b = r1_reference(&sig, &msg);
            out.oracle_evaluations += 1;
            if a != b {
                out.oracle_fail("r1-differs-from-p256-crate", &format!("sig={} msg={}", h64(&sig), hexs(&msg)), v.clone());
            }
            if let (Some(m2), Some(pk)) = (parse32(&v["msg2"]), parse64(&v["pk"])) {
                if r1_recover(&sig, &m2) == Rec::Key(pk) && a == Rec::Key(pk) && m2 != msg {
                    out.oracle_fail("r1-message-plus-n-same-key", &format!("sig={} msg={} msg2={}", h64(&sig), hexs(&msg), hexs(&m2)), v.clone());
                }
            }
            c17_vm_recover(out, true, &sig, &msg, "replay");
            out.push(r1_case(&sig, &msg, &a, "replay").case);
        }
        "vm-eck1" => {
            let sig = parse64(&v["sig"]).expect("sig");
            let msg = parse32(&v["msg"]).expect("msg");
            c17_vm_recover(out, false, &sig, &msg, "replay");
        }
        "ed" | "vm-ed19" => {
            let pk = parse32(&v["pk"]).expect("pk");
            let sig = parse64(&v["sig"]).expect("sig");
            let msg = hex::decode(v["msg"].as_str().unwrap_or("")).unwrap_or_default();
            let class: &'static str = match v["class"].as_str().unwrap_or("") {
                "valid" => "valid",
                "small-order" => "small-order",
                "random" => "random",
                c if c.starts_with("mutated") => "mutated-sig",
                _ => "replay",
            };
            let i = EdIn { pk, sig, msg, class };
            let lib = c17_ed(out, &i);
            c17_vm_ed(out, &i, lib);
        }
        "vm-seq" => {
            let ops: Vec<vm::SeqOp> = v["ops"].as_array().map(|a| a.iter().filter_map(seq_op_of_js).collect()).unwrap_or_default();
            if let Some(m) = c17_vm_seq(out, &ops, v["class"].as_str().unwrap_or("replay")) {
                out.push(m.case);
            }
        }
        "r1-sign" => {
            out.notes.push("r1-sign replay: re-run the r1 stream with the same seed".into());
        }
        other => out.notes.push(format!("unknown replay kind {other}")),
    }
}

fn main() {
    let args = Args::parse();
    quiet_panics();
    let mut out = Out::new();
    if let Some(f) = &args.replay {
        let v = read_replay(f);
        replay(&args, &mut out, &v);
    } else {
        match args.prop.as_str() {
            "C16" => run_c16(&args, &mut out),
            "C17" => run_c17(&args, &mut out),
            p => panic!("ecdsa harness serves C16 and C17, not {p}"),
        }
    }
    // vcheck reports one VIOLATION per failing class (first / smallest input); keep at most 25 inputs
    // per class in meta.json, the total number per class goes to the distribution
    let mut kept: std::collections::BTreeMap<String, usize> = Default::default();
    let all = std::mem::take(&mut out.oracle_failures);
    for (c, w, r) in all {
        *out.dist.entry(format!("oracle-failing-inputs:{c}")).or_insert(0) += 1;
        let k = kept.entry(c.clone()).or_insert(0);
        if *k < 25 {
            *k += 1;
            out.oracle_failures.push((c, w, r));
        }
    }
    out.write(&args, HEADER, "ecase", "bad_ecases");
}
