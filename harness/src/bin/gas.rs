//! Gas family (C26): traces generated and directed programs under default / unit / randomised
//! schedules and gas limits that run out mid-instruction (also exactly inside multi-charge
//! instructions: cost-1, cost, cost+1); prints one Coq case per trace (replayed by the state
//! machine of coq/Vm/GasModel.v, which recomputes the EXACT total charge of every step from the
//! opcode, its operands and the sizes observed before the step) and checks the property
//! directly on the implementation with an independent per-mnemonic schedule evaluator.
use fuel_asm::{op, GTFArgs, PanicReason, RegId};
use fuel_storage::StorageSize;
use fuel_tx::ContractIdExt;
use fuel_types::{AssetId, BlobId, Bytes32, ContractId, SubAssetId};
use fuel_vm::prelude::Call;
use fuel_vm::storage::{BlobData, ContractsAssetsStorage, InterpreterStorage};
use fvh::vmtrace::*;
use fvh::*;
use serde_json::json;
use std::collections::{BTreeMap, BTreeSet};
use fuel_types::canonical::Serialize as _;

fn outcome_code(o: &Outcome) -> (u64, u64) {
    match o {
        Outcome::Proceed => (0, 0), Outcome::Return(_) => (1, 0), Outcome::ReturnData => (2, 0), Outcome::Revert(_) => (3, 0),
        Outcome::Panic(r) => (4, *r as u8 as u64), Outcome::Error(_) => (5, 0),
    }
}

// ------------------------------------------------------------------ observations before a step
#[derive(Clone, Debug, PartialEq)]
enum Micro { Read { hot: bool, len: u64 }, Write { new_len: u64, old_len: u64 }, Clear(u64) }
#[derive(Clone, Debug, Default)]
struct Obs { code_size: Option<u64>, blob_size: Option<u64>, new_entry: bool, micro: Vec<Micro> }

fn key_add(key: &[u8; 32], i: u64) -> Option<[u8; 32]> {
    let mut k = *key;
    let mut carry = i as u128;
    for b in (0..32).rev() {
        let v = k[b] as u128 + (carry & 0xff);
        k[b] = v as u8;
        carry = (carry >> 8) + (v >> 8);
    }
    if carry != 0 { None } else { Some(k) }
}

/// What the instruction about to execute will read: sizes of the contract/blob it names,
/// whether the balance entry it credits exists, and (storage instructions) the slot
/// operations it attempts with hot/cold state and value lengths.  Written from the
/// instruction descriptions; reads VM memory, the storage and the VM's slot cache.
fn observe(vm: &Vm, h: &StepHeader) -> Obs {
    let mut o = Obs::default();
    let raw = h.raw;
    let opc = (raw >> 24) as u8;
    let r = &h.regs_before;
    let f = [((raw >> 18) & 63) as usize, ((raw >> 12) & 63) as usize, ((raw >> 6) & 63) as usize, (raw & 63) as usize];
    let (ra, rb, rc, rd) = (r[f[0]], r[f[1]], r[f[2]], r[f[3]]);
    let mem32 = |p: u64| -> Option<[u8; 32]> { vm.memory().read(p, 32usize).ok().map(|b| { let mut a = [0u8; 32]; a.copy_from_slice(b); a }) };
    let st = &vm.as_ref().inner;
    let code = |id: Option<[u8; 32]>| id.and_then(|i| st.storage_contract_size(&ContractId::from(i)).ok().flatten()).map(|x| x as u64);
    let blob = |id: Option<[u8; 32]>| id.and_then(|i| StorageSize::<BlobData>::size_of_value(st, &BlobId::from(i)).ok().flatten()).map(|x| x as u64);
    let fp = r[6];
    let me = if fp == 0 { None } else { mem32(fp) };
    let absent = |c: [u8; 32], a: [u8; 32]| st.contract_asset_id_balance(&ContractId::from(c), &AssetId::from(a)).ok().flatten().is_none();
    match opc {
        0x30 | 0x2f | 0x2e => o.code_size = code(mem32(rb)),                 // CSIZ CROO CCP
        0x32 => match raw & 63 { 0 => o.code_size = code(mem32(ra)), 1 => o.blob_size = blob(mem32(ra)), _ => {} },   // LDC
        0xba | 0xbb => o.blob_size = blob(mem32(rb)),                       // BSIZ BLDD
        0x2d => {                                                           // CALL
            let to = mem32(ra);
            o.code_size = code(to);
            if let (Some(to), Some(asset)) = (to, mem32(rc)) { o.new_entry = rb > 0 && absent(to, asset); }
        }
        0x3c => if let (Some(to), Some(asset)) = (mem32(ra), mem32(rc)) { o.new_entry = rb > 0 && absent(to, asset); },   // TR
        0x35 => if let (Some(me), Some(sub)) = (me, mem32(rb)) {             // MINT
            let asset = ContractId::from(me).asset_id(&SubAssetId::from(sub));
            o.new_entry = absent(me, *asset);
        },
        0x37..=0x3b | 0xc0..=0xc7 => if let Some(me) = me {
            let cache = vm.bench_storage_slot_cache();
            let cid = ContractId::from(me);
            let mut overlay: BTreeMap<[u8; 32], Option<u64>> = BTreeMap::new();
            let mut view = |k: &[u8; 32], overlay: &BTreeMap<[u8; 32], Option<u64>>| -> (bool, Option<u64>) {
                if let Some(v) = overlay.get(k) { return (true, *v); }
                if let Some(v) = cache.get(&(cid, Bytes32::from(*k))) { return (true, v.as_ref().map(|d| d.len() as u64)); }
                (false, st.contract_state(&cid, &Bytes32::from(*k)).ok().flatten().map(|d| d.as_ref().as_ref().len() as u64))
            };
            let mut micro = vec![];
            let mut read = |k: &[u8; 32], overlay: &mut BTreeMap<[u8; 32], Option<u64>>, micro: &mut Vec<Micro>| -> Option<u64> {
                let (hot, len) = view(k, overlay);
                micro.push(Micro::Read { hot, len: len.unwrap_or(0) });
                overlay.insert(*k, len);
                len
            };
            let (kp, n): (u64, u64) = match opc {
                0x38 => (rc, 1), 0x39 => (rc, rd), 0x3a => (ra, 1), 0x3b => (ra, rd), 0x37 => (ra, rc),
                0xc0 => (ra, rb), 0xc1 | 0xc2 | 0xc7 => (rb, 1), _ => (ra, 1),
            };
            if let Some(key) = mem32(kp) {
                let n = n.min(4096);
                match opc {
                    0x38 | 0xc1 | 0xc2 | 0xc7 => { read(&key, &mut overlay, &mut micro); }
                    0x39 => for i in 0..n { match key_add(&key, i) { Some(k) => { read(&k, &mut overlay, &mut micro); } None => break } },
                    0x3a | 0x3b => for i in 0..n { match key_add(&key, i) {
                        Some(k) => { let old = read(&k, &mut overlay, &mut micro).unwrap_or(0); micro.push(Micro::Write { new_len: 32, old_len: old }); overlay.insert(k, Some(32)); }
                        None => break } },
                    0x37 => { for i in 0..n { match key_add(&key, i) { Some(k) => { read(&k, &mut overlay, &mut micro); } None => break } } micro.push(Micro::Clear(rc)); }
                    0xc0 => micro.push(Micro::Clear(rb)),
                    0xc3 | 0xc4 => { let len = if opc == 0xc3 { rc } else { (raw & 0xfff) as u64 };
                        let (_, old) = { let v = |k: &[u8; 32]| -> (bool, Option<u64>) {
                            if let Some(v) = cache.get(&(cid, Bytes32::from(*k))) { return (true, v.as_ref().map(|d| d.len() as u64)); }
                            (false, st.contract_state(&cid, &Bytes32::from(*k)).ok().flatten().map(|d| d.as_ref().as_ref().len() as u64)) }; v(&key) };
                        micro.push(Micro::Write { new_len: len, old_len: old.unwrap_or(0) }); }
                    _ => { // SUPD / SUPI
                        let wlen = if opc == 0xc5 { rd } else { (raw & 63) as u64 };
                        let old = read(&key, &mut overlay, &mut micro).unwrap_or(0);
                        let off = if rc == u64::MAX { old } else { rc };
                        micro.push(Micro::Write { new_len: old.max(off.saturating_add(wlen)), old_len: old });
                    }
                }
            }
            o.micro = micro;
        },
        _ => {}
    }
    o
}

// ------------------------------------------------------------------ independent schedule evaluator
fn ref_field(m: &str) -> Option<(String, Option<char>)> {
    let special: &[(&str, &str)] = &[("EQ", "eq"), ("MOD", "mod_op"), ("MOVE", "move_op"), ("LQW", "lw"), ("LHW", "lw"), ("SQW", "sw"), ("SHW", "sw"),
        ("JAL", "jmp"), ("CFS", "cfsi"), ("SCWQ", "noop"), ("SRW", "noop"), ("SRWQ", "noop"), ("SWW", "noop"), ("SWWQ", "noop"), ("SCLR", "noop"),
        ("SRDD", "noop"), ("SRDI", "noop"), ("SWRD", "noop"), ("SWRI", "noop"), ("SUPD", "noop"), ("SUPI", "noop"), ("SPLD", "noop")];
    let dep: &[(&str, char)] = &[("RETD", 'b'), ("ALOC", 'a'), ("MCL", 'b'), ("MCP", 'c'), ("MEQ", 'd'), ("LOGD", 'd'), ("ED19", 'e'), ("K256", 'c'), ("S256", 'c'),
        ("SMO", 'c'), ("MCPI", 'i'), ("MCLI", 'i'), ("CFEI", 'i'), ("CFE", 'a'), ("EPAR", 'c')];
    if m == "?" || m == "ECAL" { return None; }
    let f = special.iter().find(|(k, _)| *k == m).map(|(_, v)| v.to_string()).unwrap_or_else(|| m.to_lowercase());
    Some((f, dep.iter().find(|(k, _)| *k == m).map(|(_, c)| *c)))
}
fn pad8(x: u64) -> Option<u64> { x.checked_add(7).map(|y| y / 8 * 8) }

/// all charges of the step in order (known prefix) + whether the list is complete;
/// hand-written per mnemonic from the gas-cost description
fn ref_charges(s: &Step, o: &Obs, costs: &BTreeMap<String, CostVal>) -> Option<(Vec<u64>, bool)> {
    let (f, unit) = ref_field(&s.mnemonic)?;
    let c = costs.get(&f)?;
    let v = s.field_values();
    let pb = costs.get("new_storage_per_byte").map(|c| c.base()).unwrap_or(0);
    let two = |u: Option<u64>| -> (Vec<u64>, bool) { match u { Some(u) => (vec![c.base(), c.resolve_without_base(u)], true), None => (vec![c.base()], false) } };
    let with_entry = |mut l: Vec<u64>| -> (Vec<u64>, bool) { if o.new_entry { l.push(40u64.saturating_mul(pb)); } (l, true) };
    Some(match s.mnemonic.as_str() {
        "CSIZ" | "CROO" => two(o.code_size),
        "CCP" => two(o.code_size.map(|x| x.max(v[3]))),
        "BSIZ" => two(o.blob_size),
        "BLDD" => two(o.blob_size.map(|x| x.max(v[3]))),
        "LDC" => match s.raw & 63 {
            0 => two(o.code_size.and_then(|x| pad8(v[2]).map(|p| x.max(p)))),
            1 => two(o.blob_size.map(|x| x.max(pad8(v[2]).unwrap_or(u64::MAX)))),
            2 => if v[2] == 0 { (vec![c.base()], true) } else { two(Some(pad8(v[2]).unwrap_or(u64::MAX))) },
            _ => (vec![c.base()], true),
        },
        "CALL" => match o.code_size.and_then(pad8) {
            Some(sz) => with_entry(vec![c.base(), c.resolve_without_base(sz)]),
            None => (vec![c.base()], false),
        },
        "TR" | "MINT" => with_entry(vec![c.base()]),
        m if f == "noop" && m != "NOOP" => {
            let mut l = vec![c.base()];
            for mi in &o.micro {
                match mi {
                    Micro::Read { hot, len } => l.push(costs.get(if *hot { "storage_read_hot" } else { "storage_read_cold" })?.resolve(*len)),
                    Micro::Write { new_len, old_len } => { l.push(costs.get("storage_write")?.resolve(*new_len)); l.push(pb.saturating_mul(new_len.saturating_sub(*old_len))); }
                    Micro::Clear(n) => l.push(costs.get("storage_clear")?.resolve(*n)),
                }
            }
            (l, true)
        }
        _ => {
            let units = match unit { None => return Some((vec![c.base()], true)), Some('a') => v[0], Some('b') => v[1], Some('c') => v[2], Some('d') => v[3],
                Some('e') => if v[3] == 0 { 32 } else { v[3] }, Some('i') => s.imm as u64, _ => 0 };
            (vec![c.resolve(units)], true)
        }
    })
}

fn oog_justified(mut cg: u64, l: &[u64]) -> bool {
    for x in l { if cg < *x { return true; } cg -= x; }
    false
}

fn trace_oracle(out: &mut Out, t: &Trace, obs: &BTreeMap<usize, Obs>, costs: &BTreeMap<String, CostVal>, replay: &serde_json::Value) {
    let fail = |out: &mut Out, class: &str, what: String| out.oracle_fail(class, &what, replay.clone());
    if let Some(s0) = t.steps.first() {
        if s0.regs_before[9] != t.gas_limit || s0.regs_before[10] != t.gas_limit {
            fail(out, "initial-gas-not-limit", format!("initial (cgas, ggas) = ({}, {}), limit {}", s0.regs_before[10], s0.regs_before[9], t.gas_limit));
        }
    }
    let none = Obs::default();
    for s in &t.steps {
        out.oracle_evaluations += 1;
        let ((c0, c1), (g0, g1)) = (s.cgas(), s.ggas());
        if c0 > g0 || c1 > g1 { fail(out, "cgas-exceeds-ggas", format!("step {} {}: cgas {}->{} ggas {}->{}", s.index, s.mnemonic, c0, c1, g0, g1)); }
        if g1 > g0 { fail(out, "ggas-increased", format!("step {} {}: ggas {} -> {}", s.index, s.mnemonic, g0, g1)); }
        let sum_after: u128 = s.frames_after.iter().map(|f| f.saved_cgas as u128).sum();
        if c1 as u128 + sum_after > g1 as u128 { fail(out, "frame-gas-exceeds-ggas", format!("step {} {}: cgas {} + saved {} > ggas {}", s.index, s.mnemonic, c1, sum_after, g1)); }
        if s.kind == StepKind::FetchFault || s.instr.is_none() {
            if c0 != c1 || g0 != g1 { fail(out, "gas-changed-without-execution", format!("step {}: gas changed on a fetch fault / undecodable word", s.index)); }
            continue;
        }
        let o = obs.get(&s.index).unwrap_or(&none);
        let oog = s.outcome.panic_reason() == Some(PanicReason::OutOfGas);
        let charges = ref_charges(s, o, costs);
        if oog {
            if c1 != 0 || g1 != g0 - c0 { fail(out, "out-of-gas-state", format!("step {} {}: after OutOfGas cgas {} ggas {} (before {} / {})", s.index, s.mnemonic, c1, g1, c0, g0)); }
            if let Some((l, true)) = &charges { if !oog_justified(c0, l) { fail(out, "spurious-out-of-gas", format!("step {} {}: charges {:?} all affordable with cgas {} but OutOfGas", s.index, s.mnemonic, l, c0)); } }
            continue;
        }
        let delta = g0 - g1;
        match &charges {
            Some((l, complete)) => {
                if s.outcome.panic_reason().is_some() {
                    let mut acc = 0u64; let mut ok = false;
                    for x in l { acc = acc.saturating_add(*x); if acc == delta { ok = true; } }
                    if !ok { fail(out, "charge-differs-from-schedule", format!("step {} {} (panicked {:?}): charged {} is no prefix of {:?}", s.index, s.mnemonic, s.outcome.panic_reason(), delta, l)); }
                } else {
                    let total = l.iter().fold(0u64, |a, x| a.saturating_add(*x));
                    if !complete { fail(out, "charge-quantity-unobserved", format!("step {} {}: succeeded but its size operand was not observable", s.index, s.mnemonic)); }
                    else if delta != total { fail(out, "charge-differs-from-schedule", format!("step {} {}: charged {} schedule says {:?} = {} (code {:?} blob {:?} new entry {} micro {:?})", s.index, s.mnemonic, delta, l, total, o.code_size, o.blob_size, o.new_entry, o.micro)); }
                }
            }
            None => if s.mnemonic != "ECAL" { fail(out, "schedule-field-missing", format!("step {} {}: no schedule entry", s.index, s.mnemonic)); },
        }
        let is_call_ok = s.mnemonic == "CALL" && matches!(s.outcome, Outcome::Proceed);
        let is_ret_ok = (s.mnemonic == "RET" || s.mnemonic == "RETD") && matches!(s.outcome, Outcome::Return(_) | Outcome::ReturnData) && !s.frames_before.is_empty();
        if is_call_ok {
            let rem = c0 - delta.min(c0);
            let want = rem.min(s.field_values()[3]);
            let saved = s.frames_after.last().map(|f| f.saved_cgas).unwrap_or(u64::MAX);
            if c1 != want || saved != rem - want { fail(out, "call-forwarding", format!("step {}: forwarded {} (want {}), caller keeps {} (want {})", s.index, c1, want, saved, rem - want)); }
            if c1 > c0 { fail(out, "forwarded-more-than-cgas", format!("step {}: forwarded {} > cgas {}", s.index, c1, c0)); }
        } else if is_ret_ok {
            let saved = s.frames_before.last().map(|f| f.saved_cgas).unwrap_or(0);
            if c1 != c0 - delta + saved { fail(out, "return-credit", format!("step {}: cgas after return {} want {}", s.index, c1, c0 - delta + saved)); }
        } else if c0 - c1 != delta {
            fail(out, "cgas-ggas-charged-differently", format!("step {} {}: cgas -{} ggas -{}", s.index, s.mnemonic, c0 - c1, delta));
        }
    }
    if t.final_state != FinalState::StepLimit {
        match t.gas_used {
            Some(u) => if u != t.gas_limit - t.final_ggas() { fail(out, "gas-used-formula", format!("gas_used {} != limit {} - ggas {}", u, t.gas_limit, t.final_ggas())); },
            None => if !matches!(t.final_state, FinalState::Error(_)) { fail(out, "no-script-result", "no ScriptResult receipt".into()); },
        }
    }
}

fn gstep_coq(s: &Step, o: &Obs) -> String {
    let v = s.field_values();
    let (oc, reason) = outcome_code(&s.outcome);
    let micro: Vec<String> = o.micro.iter().map(|m| match m {
        Micro::Read { hot, len } => format!("MRead {} {}", coq_bool(*hot), len),
        Micro::Write { new_len, old_len } => format!("MWrite {} {}", new_len, old_len),
        Micro::Clear(n) => format!("MClear {}", n),
    }).collect();
    format!("{{| gs_kind := {}; gs_raw := {}; gs_decoded := {}; gs_va := {}; gs_vb := {}; gs_vc := {}; gs_vd := {}; gs_c0 := {}; gs_g0 := {}; gs_c1 := {}; gs_g1 := {}; gs_outcome := {}; gs_reason := {}; gs_depth1 := {}; gs_saved_top1 := {}; gs_code_size := {}; gs_blob_size := {}; gs_new_entry := {}; gs_micro := {} |}}",
        if s.kind == StepKind::Exec { 0 } else { 1 }, s.raw, coq_bool(s.instr.is_some()), v[0], v[1], v[2], v[3],
        s.cgas().0, s.ggas().0, s.cgas().1, s.ggas().1, oc, reason, s.frames_after.len(), s.frames_after.last().map(|f| f.saved_cgas).unwrap_or(0),
        coq_opt(o.code_size.map(|x| x.to_string())), coq_opt(o.blob_size.map(|x| x.to_string())), coq_bool(o.new_entry), coq_list(&micro))
}

const MULTI: [&str; 22] = ["CALL", "CCP", "CROO", "CSIZ", "LDC", "MINT", "SCWQ", "SRW", "SRWQ", "SWW", "SWWQ", "TR", "BSIZ", "BLDD", "SCLR", "SRDD", "SRDI", "SWRD", "SWRI", "SUPD", "SUPI", "SPLD"];

/// trace, check, push; returns (gas used, for each multi-charge step: gas consumed before it and its total charge)
fn gcase_push(out: &mut Out, scn: &Scenario, class: &str, with_model: bool) -> Option<(u64, Vec<(u64, u64)>)> {
    let replay = json!({"kind": "g", "scenario": scn.to_json()});
    let opts = TraceOpts { max_steps: 2500, mem_diff: false, storage: false, frames: true };
    let (t, hk) = match guarded(|| trace_hooked(&scn.world, &scn.tx, &opts, |vm, h| observe(vm, h), |_, _, o| o)) {
        Ok(Ok(t)) => t,
        Ok(Err(e)) => { out.count(&format!("tx-rejected:{}", e.split(':').next().unwrap_or(""))); return None; }
        Err(p) => { out.oracle_fail("host-panic", &format!("trace panicked the host: {p}"), replay); return None; }
    };
    let obs: BTreeMap<usize, Obs> = hk.into_iter().collect();
    let costs = scn.world.costs();
    trace_oracle(out, &t, &obs, &costs, &replay);
    let oog = t.panic_reason() == Some(PanicReason::OutOfGas);
    out.count(&format!("final:{}{}", format!("{:?}", t.final_state).split('(').next().unwrap(), if oog { ":OutOfGas" } else { "" }));
    out.count(&format!("schedule:{}", scn.world.schedule.name().split(':').next().unwrap()));
    let mut calls = 0;
    let mut sig = 0u64;
    let mut targets = vec![];
    for s in &t.steps {
        if s.mnemonic == "CALL" && matches!(s.outcome, Outcome::Proceed) { calls += 1; }
        sig = sig.wrapping_mul(1099511628211).wrapping_add(s.ggas().1 ^ ((s.opcode as u64) << 40));
        if s.outcome.panic_reason() == Some(PanicReason::OutOfGas) { out.count(&format!("oog-at:{}", s.mnemonic)); }
        if MULTI.contains(&s.mnemonic.as_str()) && s.kind == StepKind::Exec {
            out.count(&format!("multi:{}:{}", s.mnemonic, s.outcome.name()));
            if s.outcome.panic_reason().is_none() { targets.push((t.gas_limit - s.ggas().0, s.gas_charged())); }
        }
    }
    out.count(&format!("calls:{}", calls.min(3)));
    let ret = t.gas_used.map(|g| (g, targets));
    if !with_model || t.final_state == FinalState::StepLimit { return ret; }
    // only the schedule fields this trace needs
    let mut need: BTreeSet<String> = ["new_storage_per_byte", "storage_read_hot", "storage_read_cold", "storage_write", "storage_clear"].iter().map(|s| s.to_string()).collect();
    for s in &t.steps { if let Some((f, _)) = ref_field(&s.mnemonic) { need.insert(f); } }
    let cs: Vec<String> = need.iter().filter_map(|f| costs.get(f).map(|c| format!("(\"{}\", {})", f, c.to_coq().trim_start_matches('(').trim_end_matches(')')))).collect();
    let none = Obs::default();
    let coq = format!("{{| gc_costs := {}; gc_default := {}; gc_limit := {}; gc_gas_used := {}; gc_final_ggas := {}; gc_steps := {} |}}",
        coq_list(&cs), coq_bool(scn.world.schedule == GasSchedule::Default), t.gas_limit, coq_opt(t.gas_used.map(|g| g.to_string())), t.final_ggas(),
        coq_list(&t.steps.iter().map(|s| gstep_coq(s, obs.get(&s.index).unwrap_or(&none))).collect::<Vec<_>>()));
    out.push(Case { coq, json: replay, key: format!("g:{}:{}:{:x}", scn.world.schedule.name(), t.steps.len(), sig), nontrivial: t.steps.len() >= 5, class: class.to_string() });
    ret
}

// ------------------------------------------------------------------ directed scenarios
const CODE_SIZES: [usize; 7] = [0, 4, 13, 20, 100, 1000, 4096];
const BLOB_SIZES: [usize; 5] = [0, 5, 64, 300, 2048];

/// World with contracts of fixed code sizes (first word `ret $one`), blobs, a "worker" contract
/// whose code is given, and a script; script data = contract ids ‖ blob ids ‖ asset ids ‖ Call structs ‖ keys
struct Directed { scn: Scenario, id_off: Vec<usize>, blob_off: Vec<usize>, asset_off: Vec<usize>, call_off: Vec<usize>, key_off: usize }

fn directed_world(rng: &mut Rng, schedule: GasSchedule, worker: &[u32]) -> Directed {
    let assets: Vec<AssetId> = (0..3).map(|_| AssetId::from(rng.bytes32())).collect();
    let mut world = World::new(schedule, 5, assets.clone());
    let mut ids = vec![];
    for (i, sz) in CODE_SIZES.iter().enumerate() {
        let mut code = words_to_bytes(&vec![u32::from_be_bytes(op::noop().into()); sz.div_ceil(4)]);
        if code.len() >= 4 { code[..4].copy_from_slice(&<[u8; 4]>::from(op::ret(RegId::ONE))); }
        code.truncate(*sz);
        let id = ContractId::from(rng.bytes32());
        // even contracts own asset 1 already, odd ones do not (first-time balance entry)
        let balances = if i % 2 == 0 { vec![(assets[1], 1000)] } else { vec![] };
        world.deploy(ContractDef { id, code, balances, slots: vec![] });
        ids.push(id);
    }
    let wid = ContractId::from(rng.bytes32());
    let mut key0 = rng.bytes32();
    key0[31] = 0x20;
    let slots: Vec<([u8; 32], Vec<u8>)> = vec![(key0, rng.bytes(32)), (key_add(&key0, 1).unwrap(), rng.bytes(32)), (key_add(&key0, 3).unwrap(), rng.bytes(40)), (key_add(&key0, 4).unwrap(), vec![])];
    world.deploy(ContractDef { id: wid, code: words_to_bytes(worker), balances: vec![(assets[0], 5000), (assets[1], 5000)], slots });
    ids.push(wid);
    let mut blob_ids = vec![];
    for sz in BLOB_SIZES { let id = rng.bytes32(); world.deploy_blob(id, rng.bytes(sz)); blob_ids.push(id); }
    blob_ids.push([0xBB; 32]); // not deployed
    let mut data = vec![];
    let mut id_off = vec![];
    for id in &ids { id_off.push(data.len()); data.extend_from_slice(id.as_ref()); }
    id_off.push(data.len()); data.extend([0xEE; 32]); // not deployed
    let mut blob_off = vec![];
    for b in &blob_ids { blob_off.push(data.len()); data.extend_from_slice(b); }
    let mut asset_off = vec![];
    for a in &assets { asset_off.push(data.len()); data.extend_from_slice(a.as_ref()); }
    let mut call_off = vec![];
    for id in &ids { call_off.push(data.len()); data.extend(Call::new(*id, 0, 0).to_bytes()); }
    let key_off = data.len();
    for i in 0..8 { data.extend(key_add(&key0, i).unwrap()); }
    data.extend(rng.bytes(128));
    let mut tx = TxSpec::new(vec![], data, 3_000_000);
    tx.key_seed = rng.next();
    for a in &assets { tx.coins.push((*a, 100_000)); }
    tx.contract_inputs = ids.clone();
    tx.outputs.push(OutSpec::Change(assets[0]));
    let layout = DataLayout::new(&mut Rng::new(0), &ids, &assets, 0);
    Directed { scn: Scenario { world, tx, layout, units: vec![], seed_note: "directed".into() }, id_off, blob_off, asset_off, call_off, key_off }
}

fn load64(items: &mut Vec<Asm>, r: u8, v: u64) {
    if v < (1 << 18) { items.push(Asm::I(op::movi(r, v as u32))); return; }
    items.push(Asm::I(op::movi(r, (v >> 46) as u32 & 0x3ffff)));
    items.push(Asm::I(op::slli(r, r, 18)));
    items.push(Asm::I(op::ori(r, r, ((v >> 34) & 0xfff) as u16)));
    items.push(Asm::I(op::slli(r, r, 12)));
    items.push(Asm::I(op::ori(r, r, ((v >> 22) & 0xfff) as u16)));
    items.push(Asm::I(op::slli(r, r, 12)));
    items.push(Asm::I(op::ori(r, r, ((v >> 10) & 0xfff) as u16)));
    items.push(Asm::I(op::slli(r, r, 10)));
    items.push(Asm::I(op::ori(r, r, (v & 0x3ff) as u16)));
}
fn dptr(items: &mut Vec<Asm>, r: u8, off: usize) {
    items.push(Asm::I(op::movi(r, off as u32)));
    items.push(Asm::I(op::add(r, r, R_DATA)));
}
/// requested lengths around the stored value's length; `slot` walks through the list so that
/// every boundary (much larger first) is hit for every kind of instruction
fn boundary_len(rng: &mut Rng, size: u64, slot: u64) -> u64 {
    match slot % 12 {
        0 => 60_000, 1 => size + 9, 2 => 0, 3 => size, 4 => size + 1, 5 => 7, 6 => size.saturating_sub(1), 7 => 8, 8 => 1,
        9 => 5000, 10 => size / 2, _ => rng.below(2 * size + 20),
    }
}

/// one directed script (or worker contract) exercising a multi-charge instruction with boundary operands
fn directed_case(rng: &mut Rng, schedule: GasSchedule, kind: u64) -> Scenario {
    let slot = kind / 10;
    let gtf = Asm::I(op::gtf(R_DATA, 0u8, GTFArgs::ScriptData as u16));
    let (a, b, c, d, e) = (0x20u8, 0x21u8, 0x22u8, 0x23u8, 0x24u8);
    // worker contract: storage / mint / tr sequences
    let mut worker: Vec<Asm> = vec![gtf.clone(), Asm::I(op::cfei(512)), Asm::I(op::movi(a, 3)), Asm::I(op::flag(a))];
    let mut script: Vec<Asm> = vec![gtf.clone()];
    // placeholders: build the world first to know offsets (they do not depend on the code)
    let probe = directed_world(&mut rng.clone(), schedule.clone(), &[0]);
    let (id_off, blob_off, asset_off, call_off, key_off) = (probe.id_off.clone(), probe.blob_off.clone(), probe.asset_off.clone(), probe.call_off.clone(), probe.key_off);
    let n_c = CODE_SIZES.len();
    let widx = n_c; // worker index
    let ci = if rng.chance(1, 8) { n_c } else { rng.below(n_c as u64) as usize }; // n_c = the undeployed id
    let csize = if ci < n_c { CODE_SIZES[ci] as u64 } else { 0 };
    let coff = if ci < n_c { id_off[ci] } else { id_off[n_c + 1] };
    let bi = if rng.chance(1, 8) { BLOB_SIZES.len() } else { rng.below(BLOB_SIZES.len() as u64) as usize };
    let bsize = if bi < BLOB_SIZES.len() { BLOB_SIZES[bi] as u64 } else { 0 };
    let mut call_worker = false;
    match kind % 10 {
        0 => { // LDC mode 0
            dptr(&mut script, a, coff);
            load64(&mut script, b, *rng.pick(&[0u64, 4, csize, csize + 100]));
            let len = boundary_len(rng, csize, slot);
            load64(&mut script, c, len);
            script.push(Asm::I(op::ldc(a, b, c, 0)));
        }
        1 => { // LDC mode 1 (blob) / mode 2 (memory)
            if rng.bool() {
                dptr(&mut script, a, blob_off[bi]);
                load64(&mut script, b, *rng.pick(&[0u64, 3, bsize, bsize + 50]));
                let len = boundary_len(rng, bsize, slot);
                load64(&mut script, c, len);
                script.push(Asm::I(op::ldc(a, b, c, 1)));
            } else {
                script.push(Asm::I(op::move_(a, R_DATA)));
                load64(&mut script, b, rng.below(64));
                let len = *rng.pick(&[0u64, 1, 7, 8, 9, 100, 300]);
                load64(&mut script, c, len);
                script.push(Asm::I(op::ldc(a, b, c, 2)));
            }
        }
        2 => { // CCP
            let len = boundary_len(rng, csize, slot);
            load64(&mut script, d, len);
            load64(&mut script, e, len + 8);
            script.push(Asm::I(op::aloc(e)));
            dptr(&mut script, b, coff);
            load64(&mut script, c, *rng.pick(&[0u64, 4, csize, csize + 100]));
            script.push(Asm::I(op::ccp(RegId::HP, b, c, d)));
        }
        3 => { // CSIZ / CROO
            dptr(&mut script, b, coff);
            if rng.bool() { script.push(Asm::I(op::csiz(a, b))); }
            else { script.push(Asm::I(op::movi(e, 32))); script.push(Asm::I(op::aloc(e))); script.push(Asm::I(op::croo(RegId::HP, b))); }
        }
        4 => { // BSIZ / BLDD
            dptr(&mut script, b, blob_off[bi]);
            if rng.chance(1, 3) { script.push(Asm::I(op::bsiz(a, b))); }
            else {
                let len = boundary_len(rng, bsize, slot);
                load64(&mut script, d, len);
                load64(&mut script, e, len + 8);
                script.push(Asm::I(op::aloc(e)));
                load64(&mut script, c, *rng.pick(&[0u64, 3, bsize, bsize + 50]));
                script.push(Asm::I(op::bldd(RegId::HP, b, c, d)));
            }
        }
        5 => { // CALL: code sizes x first-time / existing balance entry x coins
            let k = if ci < n_c { ci } else { 1 };
            dptr(&mut script, a, call_off[k]);
            script.push(Asm::I(op::movi(b, *rng.pick(&[0u32, 1, 7]))));
            dptr(&mut script, c, asset_off[rng.below(3) as usize]);
            match rng.below(3) { 0 => script.push(Asm::I(op::move_(d, RegId::CGAS))), 1 => script.push(Asm::I(op::movi(d, rng.below(200) as u32))), _ => script.push(Asm::I(op::not(d, RegId::ZERO))) }
            script.push(Asm::I(op::call(a, b, c, d)));
            // a second call to the same contract with the same asset: the entry exists now
            script.push(Asm::I(op::call(a, b, c, d)));
        }
        6 => { // TR from the script: first-time vs existing entry
            let k = if ci < n_c { ci } else { 2 };
            dptr(&mut script, a, id_off[k]);
            script.push(Asm::I(op::movi(b, rng.range(1, 9) as u32)));
            dptr(&mut script, c, asset_off[rng.below(3) as usize]);
            script.push(Asm::I(op::tr(a, b, c)));
            script.push(Asm::I(op::tr(a, b, c)));
        }
        7 => { // MINT / TR / BURN inside the worker
            call_worker = true;
            dptr(&mut worker, a, key_off + 32 * rng.below(3) as usize);
            worker.push(Asm::I(op::movi(b, rng.range(0, 9) as u32)));
            worker.push(Asm::I(op::mint(b, a)));
            worker.push(Asm::I(op::mint(b, a)));
            worker.push(Asm::I(op::burn(b, a)));
            dptr(&mut worker, c, id_off[rng.below(n_c as u64) as usize]);
            dptr(&mut worker, d, asset_off[rng.below(2) as usize]);
            worker.push(Asm::I(op::movi(e, 3)));
            worker.push(Asm::I(op::tr(c, e, d)));
        }
        _ => { // storage instructions inside the worker, boundary lengths / hot and cold / ranges
            call_worker = true;
            let n_ops = rng.range(4, 9);
            for _ in 0..n_ops {
                let k = rng.below(6) as usize;
                dptr(&mut worker, a, key_off + 32 * k);
                worker.push(Asm::I(op::addi(b, RegId::SSP, 64)));   // local buffer
                let (s1, s2) = (0x28u8, 0x29u8);
                match rng.below(13) {
                    0 => worker.push(Asm::I(op::sww(a, s1, 0x2a))),
                    1 => worker.push(Asm::I(op::srw(s2, s1, a, *rng.pick(&[0u8, 0, 3, 4])))),
                    2 => { worker.push(Asm::I(op::movi(c, rng.below(4) as u32))); worker.push(Asm::I(op::swwq(a, s1, b, c))) }
                    3 => { worker.push(Asm::I(op::movi(c, rng.below(3) as u32))); worker.push(Asm::I(op::srwq(b, s1, a, c))) }
                    4 => { worker.push(Asm::I(op::movi(c, rng.below(4) as u32))); worker.push(Asm::I(op::scwq(a, s1, c))) }
                    5 => { let l = *rng.pick(&[0u32, 1, 31, 32, 33, 100, 300]); worker.push(Asm::I(op::movi(c, l))); worker.push(Asm::I(op::swrd(a, b, c))) }
                    6 => worker.push(Asm::I(op::swri(a, b, *rng.pick(&[0u16, 1, 32, 40, 200])))),
                    7 => { worker.push(Asm::I(op::movi(c, rng.below(9) as u32))); worker.push(Asm::I(op::movi(d, rng.below(24) as u32))); worker.push(Asm::I(op::srdd(b, a, c, d))) }
                    8 => { worker.push(Asm::I(op::movi(c, rng.below(9) as u32))); worker.push(Asm::I(op::srdi(b, a, c, rng.below(24) as u8))) }
                    9 => { if rng.bool() { worker.push(Asm::I(op::not(c, RegId::ZERO))) } else { worker.push(Asm::I(op::movi(c, rng.below(33) as u32))) }
                           worker.push(Asm::I(op::movi(d, rng.below(60) as u32))); worker.push(Asm::I(op::supd(a, b, c, d))) }
                    10 => { worker.push(Asm::I(op::movi(c, rng.below(33) as u32))); worker.push(Asm::I(op::supi(a, b, c, rng.below(40) as u8))) }
                    11 => { worker.push(Asm::I(op::movi(c, rng.below(4) as u32))); worker.push(Asm::I(op::sclr(a, c))) }
                    _ => worker.push(Asm::I(op::spld(s2, a))),
                }
            }
        }
    }
    worker.push(Asm::I(op::ret(RegId::ONE)));
    if call_worker {
        dptr(&mut script, a, call_off[widx]);
        dptr(&mut script, c, asset_off[0]);
        script.push(Asm::I(op::call(a, RegId::ZERO, c, RegId::CGAS)));
    }
    script.push(Asm::I(op::ret(RegId::ONE)));
    let wwords = assemble(&worker).expect("worker");
    let mut dw = directed_world(rng, schedule, &wwords);
    let swords = assemble(&script).expect("directed script");
    dw.scn.tx.script = words_to_bytes(&swords);
    dw.scn.units = vec![swords, wwords];
    dw.scn.seed_note = format!("directed:{}", kind % 10);
    dw.scn
}

fn run_c26(args: &Args, out: &mut Out) {
    let mut rng = Rng::new(args.seed);
    if let Some(p) = &args.replay {
        let v = read_replay(p);
        match Scenario::from_json(&v["scenario"]) { Ok(s) => { gcase_push(out, &s, "replay", true); } Err(e) => out.notes.push(format!("bad replay: {e}")) }
        return;
    }
    let with_model = !args.oracle_only;
    // (1) directed: multi-charge / size-dependent instructions with boundary operands, then
    // limits that run out exactly inside them
    let nd = args.scale(44, 600);
    let nd_oracle = args.scale(400, 8000);
    for i in 0..(nd + nd_oracle) {
        let model = with_model && i < nd;
        let schedule = match (i / 10) % 4 { 0 | 2 => GasSchedule::Default, 1 => GasSchedule::Random(rng.next()), _ => if i % 2 == 0 { GasSchedule::Unit } else { GasSchedule::Random(rng.next()) } };
        let mut scn = directed_case(&mut rng, schedule, i as u64);
        let ample = scn.tx.gas_limit;
        if let Some((_, targets)) = gcase_push(out, &scn, "directed", model) {
            if let Some((before, cost)) = targets.last().copied().or(None) {
                for dl in [-1i64, 0, 1] {
                    if !model && dl == 1 { continue; }
                    let l = (before + cost) as i64 + dl;
                    if l < 0 || l as u64 >= ample { continue; }
                    scn.tx.gas_limit = l as u64;
                    gcase_push(out, &scn, "directed-exact-limit", model && (dl != 1 || i % 2 == 0));
                }
                // somewhere inside the instruction's charges
                if cost > 2 { scn.tx.gas_limit = before + rng.range(1, cost - 1); gcase_push(out, &scn, "directed-inside", false); }
            }
        }
    }
    // (2) generated programs
    let n = args.scale(16, 700);
    let n_oracle = args.scale(200, 6000);
    for i in 0..(n + n_oracle) {
        let model = with_model && i < n;
        let mut cfg = GenCfg::default();
        cfg.n_contracts = rng.range(0, 3) as usize;
        cfg.unit_items = rng.range(5, 18) as usize;
        cfg.features = match rng.below(5) { 0 => F_ALU | F_MEM | F_CALL, 1 => F_ALL & !F_GARBAGE & !F_CRYPTO, _ => F_ALL & !F_GARBAGE };
        cfg.schedule = match i % 3 { 0 => GasSchedule::Default, 1 => GasSchedule::Unit, _ => GasSchedule::Random(rng.next()) };
        cfg.recursion_depth = rng.below(4);
        cfg.gas_limit = 5_000_000;
        let mut scn = gen_scenario(&mut rng, &cfg);
        let used = gcase_push(out, &scn, "ample", model);
        if let Some((u, targets)) = used {
            let k = if model { 2 } else { 3 };
            for j in 0..k {
                scn.tx.gas_limit = match (j, targets.first()) {
                    (0, Some((before, cost))) => before + cost - 1.min(*cost),
                    _ => match rng.below(5) { 0 => u, 1 => u.saturating_sub(1), 2 => rng.below(40), _ => rng.below(u + 1) },
                };
                gcase_push(out, &scn, "tight", model);
            }
        }
    }
    for _ in 0..args.scale(4, 100) {
        let (sd, gl) = (rng.next(), rng.below(5000));
        let scn = gen_garbage_scenario(&mut rng, GasSchedule::Random(sd), 30, gl);
        gcase_push(out, &scn, "garbage", with_model);
    }
}

fn main() {
    quiet_panics();
    let args = Args::parse();
    let mut out = Out::new();
    let header = "From FV Require Import Base.Bytes Vm.GasTypes Run.Gas.\nOpen Scope string_scope.\nOpen Scope N_scope.";
    match args.prop.as_str() {
        "C26" => {
            run_c26(&args, &mut out);
            out.write(&args, header, "gcase", "bad_gcases");
        }
        p => { eprintln!("gas: unknown property {p}"); std::process::exit(2); }
    }
}
