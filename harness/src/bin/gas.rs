//! Gas family (C26): traces generated programs under default / unit / randomised schedules and
//! gas limits that run out mid-instruction; prints one Coq case per trace (replayed by the
//! state machine of coq/Vm/GasModel.v) and checks the property directly on the implementation.
use fuel_asm::PanicReason;
use fvh::vmtrace::*;
use fvh::*;
use serde_json::json;
use std::collections::{BTreeMap, BTreeSet};

fn outcome_code(o: &Outcome) -> (u64, u64) {
    match o {
        Outcome::Proceed => (0, 0), Outcome::Return(_) => (1, 0), Outcome::ReturnData => (2, 0), Outcome::Revert(_) => (3, 0),
        Outcome::Panic(r) => (4, *r as u8 as u64), Outcome::Error(_) => (5, 0),
    }
}

/// independent table: mnemonic -> (schedule field, unit source) for instructions whose whole
/// charge is the first charge (hand-written from the gas schedule documentation; instructions
/// with further internal charges are listed in MORE and only bounded from below)
fn ref_field(m: &str) -> Option<(String, Option<char>)> {
    let special: &[(&str, &str)] = &[("EQ", "eq"), ("MOD", "mod_op"), ("MOVE", "move_op"), ("LQW", "lw"), ("LHW", "lw"), ("SQW", "sw"), ("SHW", "sw"),
        ("JAL", "jmp"), ("CFS", "cfsi"), ("SCWQ", "noop"), ("SRW", "noop"), ("SRWQ", "noop"), ("SWW", "noop"), ("SWWQ", "noop"), ("SCLR", "noop"),
        ("SRDD", "noop"), ("SRDI", "noop"), ("SWRD", "noop"), ("SWRI", "noop"), ("SUPD", "noop"), ("SUPI", "noop"), ("SPLD", "noop")];
    let dep: &[(&str, char)] = &[("RETD", 'b'), ("ALOC", 'a'), ("MCL", 'b'), ("MCP", 'c'), ("MEQ", 'd'), ("LOGD", 'd'), ("ED19", 'e'), ("K256", 'c'), ("S256", 'c'),
        ("SMO", 'c'), ("MCPI", 'i'), ("MCLI", 'i'), ("CFEI", 'i'), ("CFE", 'a'), ("EPAR", 'c')];
    if m == "?" || m == "ECAL" { return None; }
    let f = special.iter().find(|(k, _)| *k == m).map(|(_, v)| v.to_string()).unwrap_or_else(|| m.to_lowercase());
    Some((f, dep.iter().find(|(k, _)| *k == m).map(|(_, c)| *c)))
}
const MORE: [&str; 22] = ["CALL", "CCP", "CROO", "CSIZ", "LDC", "MINT", "SCWQ", "SRW", "SRWQ", "SWW", "SWWQ", "TR", "BSIZ", "BLDD", "SCLR", "SRDD", "SRDI", "SWRD", "SWRI", "SUPD", "SUPI", "SPLD"];

fn ref_first_charge(s: &Step, costs: &BTreeMap<String, CostVal>) -> Option<(u64, bool)> {
    let (f, unit) = ref_field(&s.mnemonic)?;
    let c = costs.get(&f)?;
    let more = MORE.contains(&s.mnemonic.as_str());
    if more { return Some((c.base(), false)); }
    let v = s.field_values();
    let units = match unit {
        None => return Some((c.base(), true)),
        Some('a') => v[0], Some('b') => v[1], Some('c') => v[2], Some('d') => v[3],
        Some('e') => if v[3] == 0 { 32 } else { v[3] },
        Some('i') => s.imm as u64,
        _ => 0,
    };
    Some((c.resolve(units), true))
}

fn trace_oracle(out: &mut Out, t: &Trace, costs: &BTreeMap<String, CostVal>, replay: &serde_json::Value) {
    let fail = |out: &mut Out, class: &str, what: String| out.oracle_fail(class, &what, replay.clone());
    if let Some(s0) = t.steps.first() {
        if s0.regs_before[9] != t.gas_limit || s0.regs_before[10] != t.gas_limit {
            fail(out, "initial-gas-not-limit", format!("initial (cgas, ggas) = ({}, {}), limit {}", s0.regs_before[10], s0.regs_before[9], t.gas_limit));
        }
    }
    for s in &t.steps {
        out.oracle_evaluations += 1;
        let ((c0, c1), (g0, g1)) = (s.cgas(), s.ggas());
        if c0 > g0 || c1 > g1 { fail(out, "cgas-exceeds-ggas", format!("step {} {}: cgas {}->{} ggas {}->{}", s.index, s.mnemonic, c0, c1, g0, g1)); }
        if g1 > g0 { fail(out, "ggas-increased", format!("step {} {}: ggas {} -> {}", s.index, s.mnemonic, g0, g1)); }
        // frames: cgas + sum(saved) <= ggas
        let sum_after: u128 = s.frames_after.iter().map(|f| f.saved_cgas as u128).sum();
        if c1 as u128 + sum_after > g1 as u128 { fail(out, "frame-gas-exceeds-ggas", format!("step {} {}: cgas {} + saved {} > ggas {}", s.index, s.mnemonic, c1, sum_after, g1)); }
        if s.kind == StepKind::FetchFault || s.instr.is_none() {
            if c0 != c1 || g0 != g1 { fail(out, "gas-changed-without-execution", format!("step {}: gas changed on a fetch fault / undecodable word", s.index)); }
            continue;
        }
        let oog = s.outcome.panic_reason() == Some(PanicReason::OutOfGas);
        let first = ref_first_charge(s, costs);
        if oog {
            if c1 != 0 || g1 != g0 - c0 { fail(out, "out-of-gas-state", format!("step {} {}: after OutOfGas cgas {} ggas {} (before {} / {})", s.index, s.mnemonic, c1, g1, c0, g0)); }
            if let Some((amt, true)) = first { if amt <= c0 { fail(out, "spurious-out-of-gas", format!("step {} {}: cost {} <= cgas {} but OutOfGas", s.index, s.mnemonic, amt, c0)); } }
            continue;
        }
        let delta = g0 - g1;
        match first {
            Some((amt, true)) => if delta != amt { fail(out, "charge-differs-from-schedule", format!("step {} {}: charged {} schedule says {}", s.index, s.mnemonic, delta, amt)); },
            Some((amt, false)) => if delta < amt { fail(out, "charge-below-base", format!("step {} {}: charged {} < base {}", s.index, s.mnemonic, delta, amt)); },
            None => if s.mnemonic != "ECAL" { fail(out, "schedule-field-missing", format!("step {} {}: no schedule entry", s.index, s.mnemonic)); },
        }
        let is_call_ok = s.mnemonic == "CALL" && matches!(s.outcome, Outcome::Proceed);
        let is_ret_ok = (s.mnemonic == "RET" || s.mnemonic == "RETD") && matches!(s.outcome, Outcome::Return(_) | Outcome::ReturnData) && !s.frames_before.is_empty();
        if is_call_ok {
            let rem = c0 - delta.min(c0);
            let want = rem.min(s.field_values()[3]);
            let saved = s.frames_after.last().map(|f| f.saved_cgas).unwrap_or(u64::MAX);
            if c1 != want || saved != rem - want { fail(out, "call-forwarding", format!("step {}: forwarded {} (want {}), caller keeps {} (want {})", s.index, c1, want, saved, rem - want)); }
            if c1 > c0 { fail(out, "forwarded-more-than-cgas", format!("step {}: forwarded {} > cgas {}", s.index, c1, c0)); }
        } else if is_ret_ok {
            let saved = s.frames_before.last().map(|f| f.saved_cgas).unwrap_or(0);
            if c1 != c0 - delta + saved { fail(out, "return-credit", format!("step {}: cgas after return {} want {}", s.index, c1, c0 - delta + saved)); }
        } else if c0 - c1 != delta {
            fail(out, "cgas-ggas-charged-differently", format!("step {} {}: cgas -{} ggas -{}", s.index, s.mnemonic, c0 - c1, delta));
        }
    }
    if t.final_state != FinalState::StepLimit {
        match t.gas_used {
            Some(u) => if u != t.gas_limit - t.final_ggas() { fail(out, "gas-used-formula", format!("gas_used {} != limit {} - ggas {}", u, t.gas_limit, t.final_ggas())); },
            None => if !matches!(t.final_state, FinalState::Error(_)) { fail(out, "no-script-result", "no ScriptResult receipt".into()); },
        }
    }
}

fn gstep_coq(s: &Step) -> String {
    let v = s.field_values();
    let (oc, reason) = outcome_code(&s.outcome);
    format!("{{| gs_kind := {}; gs_raw := {}; gs_decoded := {}; gs_va := {}; gs_vb := {}; gs_vc := {}; gs_vd := {}; gs_c0 := {}; gs_g0 := {}; gs_c1 := {}; gs_g1 := {}; gs_outcome := {}; gs_reason := {}; gs_depth1 := {}; gs_saved_top1 := {} |}}",
        if s.kind == StepKind::Exec { 0 } else { 1 }, s.raw, coq_bool(s.instr.is_some()), v[0], v[1], v[2], v[3],
        s.cgas().0, s.ggas().0, s.cgas().1, s.ggas().1, oc, reason, s.frames_after.len(), s.frames_after.last().map(|f| f.saved_cgas).unwrap_or(0))
}

/// trace, check, push; returns gas used (for choosing tight limits)
fn gcase_push(out: &mut Out, scn: &Scenario, class: &str, with_model: bool) -> Option<u64> {
    let replay = json!({"kind": "g", "scenario": scn.to_json()});
    let opts = TraceOpts { max_steps: 2500, mem_diff: false, storage: false, frames: true };
    let t = match guarded(|| trace(&scn.world, &scn.tx, &opts)) {
        Ok(Ok(t)) => t,
        Ok(Err(e)) => { out.count(&format!("tx-rejected:{}", e.split(':').next().unwrap_or(""))); return None; }
        Err(p) => { out.oracle_fail("host-panic", &format!("trace panicked the host: {p}"), replay); return None; }
    };
    let costs = scn.world.costs();
    trace_oracle(out, &t, &costs, &replay);
    let oog = t.panic_reason() == Some(PanicReason::OutOfGas);
    out.count(&format!("final:{}{}", format!("{:?}", t.final_state).split('(').next().unwrap(), if oog { ":OutOfGas" } else { "" }));
    out.count(&format!("schedule:{}", scn.world.schedule.name().split(':').next().unwrap()));
    let mut calls = 0;
    let mut sig = 0u64;
    for s in &t.steps {
        if s.mnemonic == "CALL" && matches!(s.outcome, Outcome::Proceed) { calls += 1; }
        sig = sig.wrapping_mul(1099511628211).wrapping_add(s.ggas().1 ^ ((s.opcode as u64) << 40));
        if s.outcome.panic_reason() == Some(PanicReason::OutOfGas) { out.count(&format!("oog-at:{}", s.mnemonic)); }
    }
    out.count(&format!("calls:{}", calls.min(3)));
    if !with_model || t.final_state == FinalState::StepLimit { return t.gas_used; }
    // only the schedule fields this trace needs
    let mut need: BTreeSet<String> = BTreeSet::new();
    for s in &t.steps { if let Some((f, _)) = ref_field(&s.mnemonic) { need.insert(f); } }
    let cs: Vec<String> = need.iter().filter_map(|f| costs.get(f).map(|c| format!("(\"{}\", {})", f, c.to_coq().trim_start_matches('(').trim_end_matches(')')))).collect();
    let coq = format!("{{| gc_costs := {}; gc_default := {}; gc_limit := {}; gc_gas_used := {}; gc_final_ggas := {}; gc_steps := {} |}}",
        coq_list(&cs), coq_bool(scn.world.schedule == GasSchedule::Default), t.gas_limit, coq_opt(t.gas_used.map(|g| g.to_string())), t.final_ggas(),
        coq_list(&t.steps.iter().map(gstep_coq).collect::<Vec<_>>()));
    out.push(Case { coq, json: replay, key: format!("g:{}:{}:{:x}", scn.world.schedule.name(), t.steps.len(), sig), nontrivial: t.steps.len() >= 5, class: class.to_string() });
    t.gas_used
}

fn run_c26(args: &Args, out: &mut Out) {
    let mut rng = Rng::new(args.seed);
    if let Some(p) = &args.replay {
        let v = read_replay(p);
        match Scenario::from_json(&v["scenario"]) { Ok(s) => { gcase_push(out, &s, "replay", true); } Err(e) => out.notes.push(format!("bad replay: {e}")) }
        return;
    }
    let with_model = !args.oracle_only;
    let n = args.scale(30, 700);
    let n_oracle = args.scale(250, 6000);
    for i in 0..(n + n_oracle) {
        let model = with_model && i < n;
        let mut cfg = GenCfg::default();
        cfg.n_contracts = rng.range(0, 3) as usize;
        cfg.unit_items = rng.range(5, 18) as usize;
        cfg.features = match rng.below(5) { 0 => F_ALU | F_MEM | F_CALL, 1 => F_ALL & !F_GARBAGE & !F_CRYPTO, _ => F_ALL & !F_GARBAGE };
        cfg.schedule = match i % 3 { 0 => GasSchedule::Default, 1 => GasSchedule::Unit, _ => GasSchedule::Random(rng.next()) };
        cfg.recursion_depth = rng.below(4);
        cfg.gas_limit = 5_000_000;
        let mut scn = gen_scenario(&mut rng, &cfg);
        let used = gcase_push(out, &scn, "ample", model);
        // the same program with limits that run out somewhere in the middle
        if let Some(u) = used {
            let k = if model { 2 } else { 3 };
            for _ in 0..k {
                scn.tx.gas_limit = match rng.below(5) { 0 => u, 1 => u.saturating_sub(1), 2 => rng.below(40), _ => rng.below(u + 1) };
                gcase_push(out, &scn, "tight", model);
            }
        }
    }
    for _ in 0..args.scale(6, 100) {
        let (sd, gl) = (rng.next(), rng.below(5000));
        let scn = gen_garbage_scenario(&mut rng, GasSchedule::Random(sd), 30, gl);
        gcase_push(out, &scn, "garbage", with_model);
    }
}

fn main() {
    quiet_panics();
    let args = Args::parse();
    let mut out = Out::new();
    let header = "From FV Require Import Base.Bytes Vm.GasTypes Run.Gas.\nOpen Scope string_scope.\nOpen Scope N_scope.";
    match args.prop.as_str() {
        "C26" => {
            run_c26(&args, &mut out);
            out.write(&args, header, "gcase", "bad_gcases");
        }
        p => { eprintln!("gas: unknown property {p}"); std::process::exit(2); }
    }
}
