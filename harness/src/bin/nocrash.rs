//! No-crash family (C29): no input makes the VM crash, report an internal bug or run forever.
//!
//! Streams (all through the crate's own TransactionBuilder / into_checked / into_ready, then the
//! real Interpreter):
//!   bytes      scripts of uniformly random bytes (any length), random script data
//!   words      random words biased towards defined opcodes with random operands, NOOP padding
//!   garbage    vmtrace::gen_garbage_scenario
//!   grammar    vmtrace::gen_scenario with a high fault rate and garbage items, 0-3 contracts
//!   callee     a script calling a contract whose code is random words (arbitrary deployed code)
//!   mutated    a valid grammar script with random byte flips
//!   predicates transactions with 1-3 predicates of random bytes / words: estimate + check
//! under the default schedule (most), the unit schedule and randomised schedules (costs may be 0).
//! Directed streams run first (see `directed_arith`, `directed_opcodes`, `directed_receipts`): every
//! arithmetic / wide-integer opcode over the full cross product of boundary operands, every opcode
//! with adversarial registers and immediates, exact receipt counts 65530..65535 at top level and
//! through a CALL.
//! Every run is single-stepped by vmtrace under `guarded` with a step budget, and repeated with a
//! plain `transact` when the traced run terminated.
//! Oracle (property text): no host panic; no InterpreterError::Bug; the only errors are panics
//! turned into receipts (and storage errors, impossible with MemoryStorage); under the default
//! schedule the run terminates within gas_limit + 1 instructions and every completed instruction
//! consumed gas; $ggas never increases and $cgas <= $ggas under every schedule.
//! Coq case (Run/NoCrash.v): the gas trace; the checker validates per step that the $ggas drop is
//! at least the base cost Gen/GasTable.v records for the opcode, and the bound on the step count.
use fuel_asm::{op, GTFArgs, Instruction, RegId};
use fuel_tx::{ConsensusParameters, Input, TransactionBuilder, TxPointer, UtxoId};
use fuel_types::{AssetId, BlockHeight, ContractId};
use fuel_vm::checked_transaction::{CheckPredicateParams, EstimatePredicates, IntoChecked};
use fuel_vm::interpreter::{MemoryInstance, NotSupportedEcal};
use fuel_vm::storage::predicate::EmptyStorage;
#[allow(unused_imports)]
use fuel_tx::Receipt;
use fvh::vmtrace::*;
use fvh::*;
use serde_json::json;
use std::collections::BTreeMap;

fn w32(i: Instruction) -> u32 { u32::from_be_bytes(i.into()) }

const DEFINED: [u8; 60] = [
    0x10, 0x11, 0x12, 0x13, 0x14, 0x15, 0x16, 0x17, 0x18, 0x19, 0x1a, 0x1b, 0x1c, 0x1d, 0x1e, 0x1f, 0x20, 0x21, 0x22, 0x24,
    0x25, 0x26, 0x27, 0x28, 0x29, 0x2a, 0x2b, 0x2c, 0x2d, 0x2e, 0x2f, 0x30, 0x32, 0x33, 0x34, 0x35, 0x36, 0x37, 0x38, 0x39,
    0x3a, 0x3b, 0x3c, 0x3d, 0x3e, 0x3f, 0x40, 0x41, 0x42, 0x43, 0x44, 0x45, 0x47, 0x50, 0x5d, 0x5f, 0x72, 0x90, 0x91, 0xb0,
];

fn random_words(rng: &mut Rng, n: usize) -> Vec<u32> {
    (0..n).map(|_| match rng.below(10) {
        0 | 1 => rng.next() as u32,
        2 => w32(op::noop()),
        3 => w32(op::movi(rng.range(16, 63) as u8, rng.below(1 << 18) as u32)),
        4 => ((rng.below(256) as u32) << 24) | (rng.next() as u32 & 0xff_ffff),
        _ => {
            // a defined opcode (first byte from the whole defined range) with random operands, reserved bits mostly clear
            let b = if rng.bool() { *rng.pick(&DEFINED) } else { rng.range(0x10, 0xbf) as u8 };
            let args = rng.next() as u32 & 0xff_ffff;
            let args = match rng.below(4) { 0 => args, 1 => args & 0xfff_000, 2 => args & 0xfc0_000, _ => args & 0xfff_fc0 };
            ((b as u32) << 24) | args
        }
    }).collect()
}

fn base_world(rng: &mut Rng, schedule: GasSchedule) -> (World, Vec<AssetId>) {
    let assets = vec![AssetId::from(rng.bytes32()), AssetId::from(rng.bytes32())];
    (World::new(schedule, rng.range(1, 40) as u32, assets.clone()), assets)
}

fn pick_schedule(rng: &mut Rng) -> GasSchedule {
    match rng.below(10) { 0 => GasSchedule::Unit, 1 | 2 => GasSchedule::Random(rng.next()), _ => GasSchedule::Default }
}

fn gen_case(rng: &mut Rng, i: usize) -> (String, Scenario) {
    let schedule = pick_schedule(rng);
    let gas_limit = match rng.below(6) { 0 => rng.below(30), 1 => rng.below(400), 2 | 3 => rng.below(4000), _ => rng.below(12_000) };
    match i % 8 {
        0 => {
            let (mut world, assets) = base_world(rng, schedule);
            let id = ContractId::from(rng.bytes32());
            world.deploy_code(id, &[w32(op::ret(RegId::ONE))]);
            let n = rng.below(200) as usize;
            let mut tx = TxSpec::new(rng.bytes(n), rng.bytes_upto(200), gas_limit);
            tx.key_seed = rng.next();
            tx.coins.push((assets[0], rng.range(1, 10_000)));
            if rng.bool() { tx.contract_inputs.push(id); }
            if rng.bool() { tx.outputs.push(OutSpec::Variable); tx.outputs.push(OutSpec::Change(assets[0])); }
            ("bytes".into(), Scenario { world, tx, layout: DataLayout::new(&mut Rng::new(0), &[], &assets, 0), units: vec![], seed_note: "bytes".into() })
        }
        1 | 2 => {
            let (mut world, assets) = base_world(rng, schedule);
            let id = ContractId::from(rng.bytes32());
            let cw = random_words(rng, 6);
            world.deploy(ContractDef { id, code: words_to_bytes(&cw), balances: vec![(assets[0], 100)], slots: vec![(rng.bytes32(), rng.bytes(32))] });
            let layout = DataLayout::new(rng, &[id], &assets, 0);
            let n = rng.range(1, 60) as usize;
            let mut ws = vec![w32(op::gtf(R_DATA, 0u8, GTFArgs::ScriptData as u16))];
            ws.extend(random_words(rng, n));
            let mut tx = TxSpec::new(words_to_bytes(&ws), layout.bytes.clone(), gas_limit);
            tx.key_seed = rng.next();
            tx.coins.push((assets[0], rng.range(1, 10_000)));
            tx.contract_inputs.push(id);
            tx.outputs.push(OutSpec::Variable);
            ("words".into(), Scenario { world, tx, layout, units: vec![], seed_note: "words".into() })
        }
        3 => {
            let words = rng.range(1, 80) as usize;
            ("garbage".into(), gen_garbage_scenario(rng, schedule, words, gas_limit))
        }
        4 => {
            // arbitrary deployed code: the script calls a contract of random words
            let (mut world, assets) = base_world(rng, schedule);
            let id = ContractId::from(rng.bytes32());
            let n = rng.range(1, 50) as usize;
            let cw = random_words(rng, n);
            world.deploy(ContractDef { id, code: words_to_bytes(&cw), balances: vec![(assets[0], 500)], slots: vec![(rng.bytes32(), rng.bytes(32))] });
            let layout = DataLayout::new(rng, &[id], &assets, 0);
            let ws = vec![
                w32(op::gtf(R_DATA, 0u8, GTFArgs::ScriptData as u16)),
                w32(op::addi(0x30, R_DATA, layout.call_off[0] as u16)),
                w32(op::addi(0x31, R_DATA, layout.asset_off[0] as u16)),
                w32(op::movi(0x32, rng.below(20) as u32)),
                w32(op::call(0x30, 0x32, 0x31, RegId::CGAS)),
                w32(op::ret(RegId::RET)),
            ];
            let mut tx = TxSpec::new(words_to_bytes(&ws), layout.bytes.clone(), gas_limit.max(200));
            tx.key_seed = rng.next();
            tx.coins.push((assets[0], rng.range(50, 10_000)));
            tx.contract_inputs.push(id);
            ("callee".into(), Scenario { world, tx, layout, units: vec![], seed_note: "callee".into() })
        }
        5 | 6 => {
            let mut cfg = GenCfg::default();
            cfg.n_contracts = rng.below(4) as usize;
            cfg.unit_items = rng.range(3, 16) as usize;
            cfg.schedule = schedule;
            cfg.features = F_ALL;
            cfg.fault_per_mille = *rng.pick(&[30u64, 100, 300]);
            cfg.gas_limit = if rng.bool() { gas_limit } else { 20_000 };
            ("grammar".into(), gen_scenario(rng, &cfg))
        }
        _ => {
            let mut cfg = GenCfg::default();
            cfg.n_contracts = rng.below(3) as usize;
            cfg.unit_items = rng.range(3, 12) as usize;
            cfg.schedule = schedule;
            cfg.gas_limit = gas_limit.max(500);
            let mut s = gen_scenario(rng, &cfg);
            for _ in 0..rng.range(1, 6) {
                if s.tx.script.is_empty() { break; }
                let k = rng.below(s.tx.script.len() as u64) as usize;
                s.tx.script[k] ^= 1 << rng.below(8);
            }
            if rng.chance(1, 3) && !s.tx.script_data.is_empty() { let k = rng.below(s.tx.script_data.len() as u64) as usize; s.tx.script_data[k] = rng.next() as u8; }
            ("mutated".into(), s)
        }
    }
}

fn bug_class(text: &str) -> Option<String> {
    if text.contains("Bug") {
        let v = text.split("variant: ").nth(1).map(|x| x.split([',', ' ', '}', ')']).next().unwrap_or("?")).unwrap_or("?");
        Some(format!("interpreter-bug:{v}"))
    } else { None }
}

struct Stats { cases: usize, steps: usize, skipped: usize, model_steps: usize }

fn do_case(kind: &str, scn: &Scenario, idx: usize, out: &mut Out, st: &mut Stats, with_model: bool) {
    let default = scn.world.schedule == GasSchedule::Default;
    let gas_limit = scn.tx.gas_limit;
    let budget = if default { gas_limit as usize + 8 } else { 20_000 };
    let opts = TraceOpts { max_steps: budget, mem_diff: false, storage: false, frames: false };
    let replay = json!({"kind": kind, "scenario": scn.to_json()});
    out.oracle_evaluations += 1;
    let tr = match guarded(|| trace(&scn.world, &scn.tx, &opts)) {
        Ok(Ok(t)) => t,
        Ok(Err(_)) => { st.skipped += 1; out.count(&format!("{kind}:not-buildable")); return; }
        Err(p) => { out.oracle_fail(&format!("host-panic:{}", p.split([':', '(']).next().unwrap_or("").trim().chars().take(60).collect::<String>()), &format!("{kind}: host panic in the single-stepped run: {p}"), replay); return; }
    };
    st.cases += 1;
    st.steps += tr.steps.len();
    let terminated = tr.final_state != FinalState::StepLimit;
    // errors
    if let FinalState::Error(text) = &tr.final_state {
        match bug_class(text) {
            Some(c) => out.oracle_fail(&c, &format!("{kind}: transact/resume returned {text}"), replay.clone()),
            None => out.oracle_fail("unexpected-interpreter-error", &format!("{kind}: neither a program state nor a storage error: {text}"), replay.clone()),
        }
    }
    for s in &tr.steps {
        if let Outcome::Error(text) = &s.outcome {
            if let Some(c) = bug_class(text) { out.oracle_fail(&c, &format!("{kind}: step {} ({}) returned {text}", s.index, s.mnemonic), replay.clone()); }
        }
    }
    // gas discipline
    let exec: Vec<&Step> = tr.steps.iter().filter(|s| s.kind == StepKind::Exec).collect();
    let mut ggas = tr.regs_initial[9];
    if tr.regs_initial[9] != gas_limit || tr.regs_initial[10] != gas_limit {
        out.oracle_fail("initial-gas-not-the-limit", &format!("{kind}: $ggas/$cgas after initialisation {} / {} for gas limit {gas_limit}", tr.regs_initial[9], tr.regs_initial[10]), replay.clone());
    }
    for s in &tr.steps {
        let (gb, ga) = s.ggas();
        let (_, ca) = s.cgas();
        if gb != ggas || ga > gb { out.oracle_fail("ggas-increased", &format!("{kind}: step {} {}: $ggas {gb} -> {ga}", s.index, s.mnemonic), replay.clone()); break; }
        if ca > ga { out.oracle_fail("cgas-exceeds-ggas", &format!("{kind}: step {} {}: $cgas {ca} > $ggas {ga}", s.index, s.mnemonic), replay.clone()); break; }
        if default && s.kind == StepKind::Exec && s.outcome.panic_reason().is_none() && !matches!(s.outcome, Outcome::Error(_)) && gb - ga < 1 {
            out.oracle_fail("instruction-executed-for-free-under-default-schedule", &format!("{kind}: step {} {} completed without consuming gas", s.index, s.mnemonic), replay.clone());
            break;
        }
        ggas = ga;
    }
    if default {
        if !terminated { out.oracle_fail("does-not-terminate-within-gas-limit", &format!("{kind}: still running after {} instructions with gas limit {gas_limit}", exec.len()), replay.clone()); }
        else if exec.len() as u64 > gas_limit + 1 { out.oracle_fail("more-instructions-than-gas", &format!("{kind}: {} instructions executed with gas limit {gas_limit}", exec.len()), replay.clone()); }
    }
    // the same through a plain transact (what the property is about), when it is known to end
    if terminated {
        match guarded(|| run_plain(&scn.world, &scn.tx)) {
            Ok(Ok(p)) => {
                if let FinalState::Error(text) = &p.final_state {
                    if let Some(c) = bug_class(text) { out.oracle_fail(&c, &format!("{kind}: plain transact returned {text}"), replay.clone()); }
                }
                let d = tr.compare_plain(&p);
                if !d.is_empty() { out.oracle_fail("single-stepped-run-differs-from-plain-run", &format!("{kind}: {d:?}"), replay.clone()); }
            }
            Ok(Err(_)) => {}
            Err(p) => out.oracle_fail(&format!("host-panic:{}", p.split([':', '(']).next().unwrap_or("").trim().chars().take(60).collect::<String>()), &format!("{kind}: host panic in plain transact: {p}"), replay.clone()),
        }
    }
    let fin = match &tr.final_state { FinalState::Error(_) => "Error".to_string(), f => format!("{f:?}").split('(').next().unwrap_or("").to_string() };
    out.count(&format!("{kind}:{}{}", fin, tr.panic_reason().map(|r| format!(":{r:?}")).unwrap_or_default()));
    out.count(&format!("schedule:{}", scn.world.schedule.name().split(':').next().unwrap_or("")));
    if !with_model || tr.steps.len() > 400 { return; }
    st.model_steps += tr.steps.len();
    let steps: Vec<String> = tr.steps.iter().map(|s| {
        let (gb, ga) = s.ggas();
        let kind = if s.kind == StepKind::FetchFault { 3 } else {
            match &s.outcome { Outcome::Proceed => 0, Outcome::Panic(_) | Outcome::Error(_) => 2,
                _ => if s.frames_before.is_empty() && s.regs_before[6] == 0 { 1 } else { 0 } } };
        format!("({},{},{},{},{})", s.opcode, gb.saturating_sub(ga), s.cgas().1, ga, kind)
    }).collect();
    let mut ops: BTreeMap<u8, u64> = BTreeMap::new();
    for s in &exec { *ops.entry(s.opcode).or_insert(0) += 1; }
    out.push(Case {
        coq: format!("{{| nc_default := {}; nc_gas_limit := {}; nc_raw := {}; nc_terminated := {} |}}", coq_bool(default), gas_limit, coq_list(&steps), coq_bool(terminated)),
        json: json!({"case": idx, "kind": kind, "schedule": scn.world.schedule.name(), "gas_limit": gas_limit, "steps": tr.steps.len(), "final": fin,
                     "panic": tr.panic_reason().map(|r| format!("{r:?}")), "distinct_opcodes": ops.len()}),
        key: format!("{}:{}:{}", hex::encode(&scn.tx.script[..scn.tx.script.len().min(48)]), gas_limit, tr.steps.len()),
        nontrivial: exec.len() >= 2,
        class: format!("{kind}:{}", if default { "default" } else { "other-schedule" }),
    });
}

fn predicate_case(rng: &mut Rng, params: &ConsensusParameters, out: &mut Out) {
    use rand::{rngs::StdRng, Rng as _, SeedableRng};
    let mut r = StdRng::seed_from_u64(rng.next());
    let mut b = TransactionBuilder::script(words_to_bytes(&[w32(op::ret(RegId::ONE))]), vec![]);
    b.with_params(params.clone());
    b.script_gas_limit(1000).max_fee_limit(0);
    let mut codes = vec![];
    for i in 0..rng.range(1, 3) {
        let code = match rng.below(3) { 0 => rng.bytes_upto(120), 1 => { let n = rng.range(1, 40) as usize; words_to_bytes(&random_words(rng, n)) }
            _ => { let n = rng.range(1, 20) as usize; let mut w = random_words(rng, n); w.push(w32(op::ret(RegId::ONE))); words_to_bytes(&w) } };
        if code.is_empty() { continue; }
        let owner = Input::predicate_owner(&code);
        b.add_input(Input::coin_predicate(UtxoId::new(r.r#gen(), i as u16), owner, 1000, *params.base_asset_id(), TxPointer::default(), rng.below(3) * rng.below(5000), code.clone(), rng.bytes_upto(40)));
        codes.push(hex::encode(&code));
    }
    if codes.is_empty() { return; }
    use fuel_tx::Finalizable;
    let mut tx = b.finalize();
    let cpp: CheckPredicateParams = params.into();
    let replay = json!({"kind": "predicates", "predicates": codes});
    out.oracle_evaluations += 1;
    use fuel_vm::interpreter::predicates::check_predicates;
    // check with the (random) declared gas first, then estimate and check again
    for round in 0..2 {
        if round == 1 {
            match guarded(|| tx.estimate_predicates(&cpp, MemoryInstance::new(), &EmptyStorage)) {
                Ok(Ok(())) => out.count("predicates:estimated"),
                Ok(Err(e)) => { let t = format!("{e:?}"); if let Some(c) = bug_class(&t) { out.oracle_fail(&c, &format!("predicate estimation: {t}"), replay.clone()); } out.count("predicates:estimation-failed"); }
                Err(p) => { out.oracle_fail(&format!("host-panic:{}", p.chars().take(60).collect::<String>()), &format!("predicate estimation: host panic {p}"), replay.clone()); return; }
            }
        }
        let Ok(checked) = tx.clone().into_checked_basic(BlockHeight::from(1u32), params) else { out.count("predicates:tx-not-checkable"); continue; };
        match guarded(|| check_predicates(&checked, &cpp, MemoryInstance::new(), &EmptyStorage, NotSupportedEcal)) {
            Ok(Ok(_)) => out.count("predicates:accepted"),
            Ok(Err(e)) => { let t = format!("{e:?}"); if let Some(c) = bug_class(&t) { out.oracle_fail(&c, &format!("predicate check: {t}"), replay.clone()); }
                            out.count(&format!("predicates:rejected:{}", t.split([' ', '(', '{']).next().unwrap_or(""))); }
            Err(p) => { out.oracle_fail(&format!("host-panic:{}", p.chars().take(60).collect::<String>()), &format!("predicate check: host panic {p}"), replay.clone()); return; }
        }
    }
}

// ====================================================================== directed streams
// (added after seeded changes that only adversarial OPERANDS or exact receipt counts expose)

/// 64-bit boundary operands (superset of Rng::u64_biased's table and of alu.rs's)
const B64: [u64; 24] = [
    0, 1, 2, 3, 7, 8, 63, 64, 65, 255, 256, 1 << 31, (1 << 32) - 1, 1 << 32, (1 << 32) + 1, 1 << 62,
    (1 << 63) - 1, 1 << 63, (1 << 63) + 1, (1 << 63) + 2, 3 << 62, u64::MAX - 2, u64::MAX - 1, u64::MAX,
];

/// boundary values of an n-byte big-endian integer: 0,1,2,3, 2^64-1,2^64,2^64+1, around the half
/// width, around half the RANGE (2^(N-1)-1, 2^(N-1), +1, +2), 3*2^(N-2), MAX-2, MAX-1, MAX
fn wide_table(n: usize) -> Vec<Vec<u8>> {
    let be = |f: &dyn Fn(&mut Vec<u8>)| { let mut v = vec![0u8; n]; f(&mut v); v };
    let add_small = |v: &Vec<u8>, k: u8| { let mut v = v.clone(); let mut c = k as u16; for x in v.iter_mut().rev() { let t = *x as u16 + c; *x = t as u8; c = t >> 8; } v };
    let sub_small = |v: &Vec<u8>, k: u8| { let mut v = v.clone(); let mut b = k as i16; for x in v.iter_mut().rev() { let t = *x as i16 - b; if t < 0 { *x = (t + 256) as u8; b = 1; } else { *x = t as u8; b = 0; } } v };
    let zero = vec![0u8; n];
    let max = vec![0xffu8; n];
    let p64 = be(&|v| v[n - 9] = 1);
    let phalf = be(&|v| v[n / 2 - 1] = 1);       // 2^(N/2)
    let top = be(&|v| v[0] = 0x80);              // 2^(N-1)
    let three_q = be(&|v| v[0] = 0xc0);          // 3 * 2^(N-2)
    vec![zero.clone(), add_small(&zero, 1), add_small(&zero, 2), add_small(&zero, 3),
         sub_small(&p64, 1), p64.clone(), add_small(&p64, 1),
         sub_small(&phalf, 1), phalf.clone(), add_small(&phalf, 1),
         sub_small(&top, 1), top.clone(), add_small(&top, 1), add_small(&top, 2), three_q,
         sub_small(&max, 2), sub_small(&max, 1), max]
}

fn raw4(opc: u8, a: u8, b: u8, c: u8, d: u8) -> u32 { ((opc as u32) << 24) | ((a as u32 & 63) << 18) | ((b as u32 & 63) << 12) | ((c as u32 & 63) << 6) | (d as u32 & 63) }

/// nested loops over `arity` indices into a table of `k` entries of `width` bytes in the script data;
/// per iteration: pointer registers PA/PB/PC to the entries, VA/VB/VC their last 8 bytes as values,
/// then `body`.  $flag = `flags` (3: arithmetic errors do not panic, so the loops complete).
const PA: u8 = 0x24; const PB: u8 = 0x25; const PC: u8 = 0x26; const VA: u8 = 0x29; const VB: u8 = 0x2a; const VC: u8 = 0x2b; const DST: u8 = 0x28; const RES: u8 = 0x2c;
fn loop_script(arity: usize, width: u32, k: u32, flags: u32, body: &[u32]) -> Vec<u32> {
    let (ri, rj, rk, rkk, t) = (0x20u8, 0x21u8, 0x22u8, 0x23u8, 0x27u8);
    let idx = [ri, rj, rk];
    let ptr = [PA, PB, PC];
    let val = [VA, VB, VC];
    let mut a: Vec<Asm> = vec![
        Asm::I(op::gtf(R_DATA, 0u8, GTFArgs::ScriptData as u16)),
        Asm::I(op::movi(t, flags)), Asm::I(op::flag(t)),
        Asm::I(op::cfei(128)), Asm::I(op::move_(DST, RegId::SSP)),
        Asm::I(op::movi(rkk, k)),
    ];
    for lvl in 0..arity {
        a.push(Asm::I(op::movi(idx[lvl], 0)));
        a.push(Asm::Label(lvl as u32 + 1));
    }
    for lvl in 0..arity {
        a.push(Asm::I(op::muli(t, idx[lvl], width as u16)));
        a.push(Asm::I(op::add(ptr[lvl], R_DATA, t)));
        a.push(Asm::I(op::lw(val[lvl], ptr[lvl], (width / 8 - 1) as u16)));
    }
    for w in body { a.push(Asm::Raw(*w)); }
    for lvl in (0..arity).rev() {
        a.push(Asm::I(op::addi(idx[lvl], idx[lvl], 1)));
        a.push(Asm::Jnei(idx[lvl], rkk, lvl as u32 + 1));
    }
    a.push(Asm::I(op::ret(RegId::ONE)));
    assemble(&a).expect("loop script")
}

fn small_world(rng: &mut Rng, schedule: GasSchedule) -> (World, AssetId, ContractId, DataLayout) {
    let assets = vec![AssetId::from(rng.bytes32()), AssetId::from(rng.bytes32())];
    let mut world = World::new(schedule, 3, assets.clone());
    let id = ContractId::from(rng.bytes32());
    world.deploy(ContractDef { id, code: words_to_bytes(&[w32(op::ret(RegId::ONE))]), balances: vec![(assets[0], 100)], slots: vec![(rng.bytes32(), rng.bytes(32))] });
    let layout = DataLayout::new(rng, &[id], &assets, 0);
    (world, assets[0], id, layout)
}

/// run one directed script through a plain transact; oracle: no host panic, no Bug
fn run_directed(class: &str, what: &str, world: &World, tx: &TxSpec, out: &mut Out) -> Option<PlainRun> {
    out.oracle_evaluations += 1;
    out.count(&format!("directed:{class}"));
    let replay = json!({"kind": format!("directed:{class}"), "what": what, "script": hex::encode(&tx.script), "script_data": hex::encode(&tx.script_data), "gas_limit": tx.gas_limit, "schedule": world.schedule.name()});
    match guarded(|| run_plain(world, tx)) {
        Ok(Ok(p)) => {
            if let FinalState::Error(text) = &p.final_state {
                match bug_class(text) {
                    Some(c) => out.oracle_fail(&c, &format!("{class} {what}: transact returned {text}"), replay),
                    None => out.oracle_fail("unexpected-interpreter-error", &format!("{class} {what}: {text}"), replay),
                }
            }
            let fin = match &p.final_state { FinalState::Error(_) => "Error".to_string(), f => format!("{f:?}").split('(').next().unwrap_or("").to_string() };
            out.count(&format!("directed:{class}:{fin}"));
            Some(p)
        }
        Ok(Err(e)) => { out.count(&format!("directed:{class}:not-buildable")); let _ = e; None }
        Err(p) => { out.oracle_fail(&format!("host-panic:{}", p.split([':', '(']).next().unwrap_or("").trim().chars().take(60).collect::<String>()),
                                   &format!("{class} {what}: host panic: {p}"), replay); None }
    }
}

/// (i) every ALU / narrow-int / wide-int opcode over the full cross product of boundary operands
fn directed_arith(rng: &mut Rng, out: &mut Out, thorough: bool) {
    let (world, base, _id, _l) = small_world(rng, GasSchedule::Default);
    let mk = |script: Vec<u32>, data: Vec<u8>| { let mut tx = TxSpec::new(words_to_bytes(&script), data, 60_000_000); tx.coins.push((base, 10)); tx };
    let data64: Vec<u8> = B64.iter().flat_map(|v| v.to_be_bytes()).collect();
    let flags_list: &[u32] = if thorough { &[3, 0, 1, 2] } else { &[3, 0] };
    // 3-register ALU ops: dst, a, b
    for opc in 0x10u8..=0x21 {
        if fuel_asm::Opcode::try_from(opc).is_err() { continue; }
        for &fl in flags_list {
            let body = [if opc == 0x1a || opc == 0x1c { raw4(opc, RES, VA, 0, 0) } else { raw4(opc, RES, VA, VB, 0) }];
            let r = run_directed("alu", &format!("opcode {opc:#x} flags {fl}"), &world, &mk(loop_script(2, 8, 24, fl, &body), data64.clone()), out);
            if let Some(p) = r { if fl == 3 && p.final_state != FinalState::Return(1) {
                out.oracle_fail("directed-loop-did-not-complete", &format!("opcode {opc:#x}: {:?}", p.final_state), json!({"kind": "self-check"})); } }
        }
    }
    // MLDV dst a b c
    for &fl in flags_list { run_directed("alu", &format!("MLDV flags {fl}"), &world, &mk(loop_script(3, 8, 24, fl, &[raw4(0x22, RES, VA, VB, VC as u8)]), data64.clone()), out); }
    // immediate ALU ops with boundary 12-bit immediates
    for opc in 0x50u8..=0x5a {
        if fuel_asm::Opcode::try_from(opc).is_err() { continue; }
        for imm in [0u32, 1, 2, 63, 64, 65, 4094, 4095] {
            let w = ((opc as u32) << 24) | ((RES as u32) << 18) | ((VA as u32) << 12) | imm;
            run_directed("alu-imm", &format!("opcode {opc:#x} imm {imm}"), &world, &mk(loop_script(1, 8, 24, 3, &[w]), data64.clone()), out);
        }
    }
    // NIOP: every 6-bit immediate (operation, width, flags)
    for imm in 0u8..64 { run_directed("niop", &format!("imm {imm}"), &world, &mk(loop_script(2, 8, 24, 3, &[raw4(0x23, RES, VA, VB, imm)]), data64.clone()), out); }
    // wide integers: 128-bit (0xa0,a2,..) and 256-bit (0xa1,a3,..)
    // self-check of the operand table: it contains add-mod operands whose residues overflow the native width
    {
        let t: Vec<u128> = wide_table(16).iter().map(|v| u128::from_be_bytes(v.clone().try_into().unwrap())).collect();
        let mut n = 0usize;
        for a in &t { for b in &t { for d in &t { if *d > (1u128 << 127) && (a % d).checked_add(b % d).is_none() { n += 1; } } } }
        out.notes.push(format!("directed wide operands: {n} of {} 128-bit (a, b, modulus) triples have modulus > 2^127 and residues summing past 2^128; every triple is executed by WDAM/WDMM/WDMD and the 256-bit analogues", t.len().pow(3)));
        if n == 0 { out.oracle_fail("directed-operand-table-lost-its-adversarial-triples", "no overflowing add-mod triple in the table", json!({"kind": "self-check"})); }
    }
    for (wide, width) in [(0u8, 16u32), (1u8, 32u32)] {
        let tab = wide_table(width as usize);
        let data: Vec<u8> = tab.iter().flatten().cloned().collect();
        let k = tab.len() as u32;
        // compare / op / mul / div: dst, lhs ptr, rhs (pointer when indirect, else the register VALUE), all immediates
        for fam in [0xa0u8, 0xa2, 0xa4, 0xa6] {
            for imm in 0u8..64 {
                // rhs register: pointer and value variants
                for rhs in [PB, VB] {
                    let d = if fam == 0xa0 { RES } else { DST };
                    run_directed("wide", &format!("opcode {:#x} imm {imm} rhs {}", fam + wide, if rhs == PB { "ptr" } else { "value" }), &world,
                        &mk(loop_script(2, width, k, 3, &[raw4(fam + wide, d, PA, rhs, imm)]), data.clone()), out);
                }
            }
        }
        // muldiv / addmod / mulmod: dst, a, b, c pointers — full cube
        for fam in [0xa8u8, 0xaa, 0xac] {
            for &fl in flags_list {
                let r = run_directed("wide", &format!("opcode {:#x} flags {fl}", fam + wide), &world,
                    &mk(loop_script(3, width, k, fl, &[raw4(fam + wide, DST, PA, PB, PC)]), data.clone()), out);
                // coverage self-check: with $flag = 3 nothing panics, so the whole cube of operands was executed
                if let Some(p) = r { if fl == 3 && p.final_state != FinalState::Return(1) {
                    out.oracle_fail("directed-loop-did-not-complete", &format!("opcode {:#x}: {:?}", fam + wide, p.final_state), json!({"kind": "self-check"})); } }
            }
        }
    }
}

/// (ii) every defined opcode with adversarial register operands (numbers, valid / invalid pointers) and immediates
fn directed_opcodes(rng: &mut Rng, out: &mut Out, per_opcode: usize) {
    let (world, base, id, layout) = small_world(rng, GasSchedule::Default);
    // script data: the scenario layout (call struct, asset ids, keys, ...) ++ B64 ++ 256-bit boundary values
    let mut data = layout.bytes.clone();
    while data.len() % 8 != 0 { data.push(0); }
    let off64 = data.len();
    data.extend(B64.iter().flat_map(|v| v.to_be_bytes()));
    let offw = data.len();
    let wt = wide_table(32);
    for v in &wt { data.extend(v); }
    for opc in 0u16..=255 {
        let opc = opc as u8;
        let Ok(_) = fuel_asm::Opcode::try_from(opc) else { continue; };
        let nregs = Instruction::try_from([opc, 0, 0, 0]).map(|i| i.reg_ids().iter().flatten().count()).unwrap_or(0);
        for _ in 0..per_opcode {
            let mut w: Vec<u32> = vec![w32(op::gtf(R_DATA, 0u8, GTFArgs::ScriptData as u16)), w32(op::cfei(256)), w32(op::movi(0x30, 64)), w32(op::aloc(0x30)),
                                       w32(op::movi(0x30, rng.below(4) as u32)), w32(op::flag(0x30))];
            let regs = [0x20u8, 0x21, 0x22, 0x23];
            for r in regs.iter().take(nregs) {
                match rng.below(10) {
                    0 | 1 | 2 => { let i = rng.below(24) as usize; w.push(w32(op::lw(*r, R_DATA, ((off64 + 8 * i) / 8) as u16))); }
                    3 | 4 => { let i = rng.below(wt.len() as u64) as usize; let o = offw + 32 * i; w.push(w32(op::movi(*r, o as u32))); w.push(w32(op::add(*r, *r, R_DATA))); }
                    5 => { let o = rng.below(layout.bytes.len() as u64 / 8) * 8; w.push(w32(op::movi(*r, o as u32))); w.push(w32(op::add(*r, *r, R_DATA))); }
                    6 => w.push(w32(op::addi(*r, RegId::SSP, (rng.below(24) * 8) as u16))),
                    7 => w.push(w32(op::addi(*r, RegId::HP, (rng.below(8) * 8) as u16))),
                    8 => w.push(w32(op::move_(*r, *rng.pick(&[RegId::HP, RegId::SP, RegId::SSP, RegId::IS, RegId::PC, RegId::GGAS, RegId::ZERO, RegId::ONE])))),
                    _ => { w.push(w32(op::movi(*r, rng.below(1 << 18) as u32))); }
                }
            }
            let immbits = 24 - 6 * nregs as u32;
            let rnd = rng.next() as u32;
            let imm = if immbits == 0 { 0 } else { let m = (1u32 << immbits) - 1; *rng.pick(&[0u32, 1, 2, 8, 32, m, m - 1, m >> 1, (m >> 1) + 1, rnd & m]) & m };
            let mut word = (opc as u32) << 24;
            for (i, r) in regs.iter().take(nregs).enumerate() { word |= (*r as u32) << (18 - 6 * i as u32); }
            word |= imm;
            w.push(word);
            w.push(w32(op::ret(RegId::ONE)));
            let mut tx = TxSpec::new(words_to_bytes(&w), data.clone(), 3000);
            tx.coins.push((base, 1000));
            tx.contract_inputs.push(id);
            tx.outputs = vec![OutSpec::Variable, OutSpec::Change(base)];
            run_directed("opcode", &format!("opcode {opc:#x} word {word:#010x}"), &world, &tx, out);
        }
    }
}

/// (iii) exact receipt counts around the limit, at top level and through a CALL
fn directed_receipts(rng: &mut Rng, out: &mut Out, thorough: bool) {
    #[derive(Clone)]
    struct Job { what: String, world: World, tx: TxSpec }
    let mut jobs: Vec<Job> = vec![];
    let logs = |count: u32| -> Vec<Instruction> {
        if count == 0 { return vec![]; }
        vec![op::movi(0x20, count), op::log(0x20, RegId::ZERO, RegId::ZERO, RegId::ZERO), op::subi(0x20, 0x20, 1), op::jnzb(0x20, RegId::ZERO, 1)]
    };
    let tails: Vec<(&str, Vec<Instruction>)> = vec![
        ("ret", vec![op::ret(RegId::ONE)]),
        ("rvrt", vec![op::rvrt(RegId::ONE)]),
        ("panic", vec![op::div(0x10, RegId::ONE, RegId::ZERO)]),
        ("log-then-ret", vec![op::log(RegId::ONE, RegId::ONE, RegId::ONE, RegId::ONE), op::ret(RegId::ONE)]),
        ("retd", vec![op::retd(RegId::ZERO, RegId::ZERO)]),
    ];
    let ends: Vec<(&str, Instruction)> = vec![("RET", op::ret(RegId::ONE)), ("RETD", op::retd(RegId::ZERO, RegId::ZERO)), ("RVRT", op::rvrt(RegId::ONE))];
    let schedule = if rng.bool() { GasSchedule::Free } else { GasSchedule::Unit };
    for t in 65_530u32..=65_535 {
        // top level: exactly t LOG receipts, then the tail
        for (tn, tail) in &tails {
            let (world, base, _id, layout) = small_world(rng, schedule.clone());
            let mut s = logs(t); s.extend(tail.clone());
            let mut tx = TxSpec::new(words_to_bytes(&instrs_to_words(&s)), layout.bytes.clone(), 50_000_000);
            tx.coins.push((base, 10));
            jobs.push(Job { what: format!("top-level {t} logs then {tn}"), world, tx });
        }
        // through a call: p logs in the script, the Call receipt, m logs in the callee (p + 1 + m = t), callee end, caller tail
        let ps: Vec<u32> = if thorough { vec![0, 1, 30_000, t - 1] } else { vec![0] };
        for p in ps {
            let m = t - 1 - p;
            for (en, end) in &ends {
                for (tn, tail) in &tails {
                    let assets = vec![AssetId::from(rng.bytes32()), AssetId::from(rng.bytes32())];
                    let mut world = World::new(schedule.clone(), 3, assets.clone());
                    let id = ContractId::from(rng.bytes32());
                    let mut callee = logs(m); callee.push(*end);
                    world.deploy(ContractDef { id, code: words_to_bytes(&instrs_to_words(&callee)), balances: vec![], slots: vec![] });
                    let layout = DataLayout::new(rng, &[id], &assets, 0);
                    let mut s = vec![op::gtf(R_DATA, RegId::ZERO, GTFArgs::ScriptData as u16)];
                    s.extend(logs(p));
                    s.extend([op::addi(0x30, R_DATA, layout.call_off[0] as u16), op::addi(0x32, R_DATA, layout.asset_off[0] as u16), op::call(0x30, RegId::ZERO, 0x32, RegId::CGAS)]);
                    s.extend(tail.clone());
                    let mut tx = TxSpec::new(words_to_bytes(&instrs_to_words(&s)), layout.bytes.clone(), 50_000_000);
                    tx.coins.push((assets[0], 10));
                    tx.contract_inputs.push(id);
                    jobs.push(Job { what: format!("{p} logs, CALL, {m} logs in the callee, callee {en} (receipt slot {t}), caller {tn}"), world, tx });
                }
            }
        }
    }
    // the runs are independent and ~0.2 s each: spread them over threads
    let n_threads = 8usize;
    let chunks: Vec<Vec<Job>> = (0..n_threads).map(|k| jobs.iter().enumerate().filter(|(i, _)| i % n_threads == k).map(|(_, j)| j.clone()).collect()).collect();
    let results: Vec<Vec<(String, Result<Result<PlainRun, String>, String>)>> = std::thread::scope(|sc| {
        let hs: Vec<_> = chunks.iter().map(|c| sc.spawn(move || c.iter().map(|j| (j.what.clone(), guarded(|| run_plain(&j.world, &j.tx)))).collect::<Vec<_>>())).collect();
        hs.into_iter().map(|h| h.join().unwrap_or_default()).collect()
    });
    let by_what: BTreeMap<String, &Job> = jobs.iter().map(|j| (j.what.clone(), j)).collect();
    for (what, r) in results.into_iter().flatten() {
        out.oracle_evaluations += 1;
        out.count("directed:receipt-limit");
        let j = by_what[&what];
        let replay = json!({"kind": "directed:receipt-limit", "what": what, "script": hex::encode(&j.tx.script), "contracts": j.world.contracts.iter().map(|c| hex::encode(&c.code)).collect::<Vec<_>>(), "schedule": j.world.schedule.name()});
        match r {
            Err(p) => out.oracle_fail(&format!("host-panic:{}", p.split([':', '(']).next().unwrap_or("").trim().chars().take(60).collect::<String>()), &format!("receipt limit, {what}: host panic: {p}"), replay),
            Ok(Err(_)) => out.count("directed:receipt-limit:not-buildable"),
            Ok(Ok(p)) => {
                if let FinalState::Error(text) = &p.final_state {
                    let c = bug_class(text).unwrap_or_else(|| "unexpected-interpreter-error".into());
                    out.oracle_fail(&c, &format!("receipt limit, {what}: {text}"), replay.clone());
                } else {
                    if p.receipts.len() > 65_535 { out.oracle_fail("more-than-65535-receipts", &format!("receipt limit, {what}: {} receipts", p.receipts.len()), replay.clone()); }
                    if !matches!(p.receipts.last(), Some(fuel_tx::Receipt::ScriptResult { .. })) { out.oracle_fail("receipts-do-not-end-with-script-result", &format!("receipt limit, {what}"), replay.clone()); }
                    out.count(&format!("directed:receipt-limit:{}-receipts", p.receipts.len()));
                }
            }
        }
    }
}

fn run_c29(args: &Args, out: &mut Out) {
    let mut rng = Rng::new(args.seed ^ 0xC29);
    let mut st = Stats { cases: 0, steps: 0, skipped: 0, model_steps: 0 };
    if let Some(f) = &args.replay {
        let v = read_replay(f);
        if v["kind"] == "predicates" { out.notes.push("predicate replays: re-run with the recorded seed".into()); return; }
        let scn = Scenario::from_json(&v["scenario"]).expect("scenario");
        do_case(v["kind"].as_str().unwrap_or("replay"), &scn, 0, out, &mut st, true);
        return;
    }
    // directed streams first (oracle only)
    {
        let mut drng = Rng::new(args.seed ^ 0xD1);
        directed_arith(&mut drng, out, args.thorough());
        directed_opcodes(&mut drng, out, args.scale(40, 1500));
        directed_receipts(&mut drng, out, args.thorough());
    }
    let n = args.scale(2000, 200_000);
    // the Coq side replays a bounded number of steps; the oracle sees every run
    let model_budget = if args.thorough() { 600_000 } else { 45_000 };
    for i in 0..n {
        let (kind, scn) = gen_case(&mut rng, i);
        let with_model = !args.oracle_only && st.model_steps < model_budget;
        do_case(&kind, &scn, i, out, &mut st, with_model);
        if i % 10 == 0 {
            let p = ConsensusParameters::standard();
            predicate_case(&mut rng, &p, out);
        }
    }
    out.notes.push(format!("{} runs ({} not buildable), {} instructions single-stepped, {} replayed by the Coq checker", st.cases, st.skipped, st.steps, st.model_steps));
}

fn main() {
    if std::env::var("VERIF_LOUD").is_err() { quiet_panics(); }
    let args = Args::parse();
    let mut out = Out::new();
    let header = "From Coq Require Import List NArith.\nFrom FV Require Import Run.NoCrash.\nImport ListNotations.\nOpen Scope N_scope.";
    match args.prop.as_str() {
        "C29" => {
            run_c29(&args, &mut out);
            out.write(&args, header, "nocrash_case", "bad_nocrash");
        }
        p => { eprintln!("nocrash: unknown property {p}"); std::process::exit(2); }
    }
}
