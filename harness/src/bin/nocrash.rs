//! No-crash family (C29): no input makes the VM crash, report an internal bug or run forever.
//!
//! Streams (all through the crate's own TransactionBuilder / into_checked / into_ready, then the
//! real Interpreter):
//!   bytes      scripts of uniformly random bytes (any length), random script data
//!   words      random words biased towards defined opcodes with random operands, NOOP padding
//!   garbage    vmtrace::gen_garbage_scenario
//!   grammar    vmtrace::gen_scenario with a high fault rate and garbage items, 0-3 contracts
//!   callee     a script calling a contract whose code is random words (arbitrary deployed code)
//!   mutated    a valid grammar script with random byte flips
//!   predicates transactions with 1-3 predicates of random bytes / words: estimate + check
//! under the default schedule (most), the unit schedule and randomised schedules (costs may be 0).
//! Every run is single-stepped by vmtrace under `guarded` with a step budget, and repeated with a
//! plain `transact` when the traced run terminated.
//! Oracle (property text): no host panic; no InterpreterError::Bug; the only errors are panics
//! turned into receipts (and storage errors, impossible with MemoryStorage); under the default
//! schedule the run terminates within gas_limit + 1 instructions and every completed instruction
//! consumed gas; $ggas never increases and $cgas <= $ggas under every schedule.
//! Coq case (Run/NoCrash.v): the gas trace; the checker validates per step that the $ggas drop is
//! at least the base cost Gen/GasTable.v records for the opcode, and the bound on the step count.
use fuel_asm::{op, GTFArgs, Instruction, RegId};
use fuel_tx::{ConsensusParameters, Input, TransactionBuilder, TxPointer, UtxoId};
use fuel_types::{AssetId, BlockHeight, ContractId};
use fuel_vm::checked_transaction::{CheckPredicateParams, EstimatePredicates, IntoChecked};
use fuel_vm::interpreter::{MemoryInstance, NotSupportedEcal};
use fuel_vm::storage::predicate::EmptyStorage;
use fvh::vmtrace::*;
use fvh::*;
use serde_json::json;
use std::collections::BTreeMap;

fn w32(i: Instruction) -> u32 { u32::from_be_bytes(i.into()) }

const DEFINED: [u8; 60] = [
    0x10, 0x11, 0x12, 0x13, 0x14, 0x15, 0x16, 0x17, 0x18, 0x19, 0x1a, 0x1b, 0x1c, 0x1d, 0x1e, 0x1f, 0x20, 0x21, 0x22, 0x24,
    0x25, 0x26, 0x27, 0x28, 0x29, 0x2a, 0x2b, 0x2c, 0x2d, 0x2e, 0x2f, 0x30, 0x32, 0x33, 0x34, 0x35, 0x36, 0x37, 0x38, 0x39,
    0x3a, 0x3b, 0x3c, 0x3d, 0x3e, 0x3f, 0x40, 0x41, 0x42, 0x43, 0x44, 0x45, 0x47, 0x50, 0x5d, 0x5f, 0x72, 0x90, 0x91, 0xb0,
];

fn random_words(rng: &mut Rng, n: usize) -> Vec<u32> {
    (0..n).map(|_| match rng.below(10) {
        0 | 1 => rng.next() as u32,
        2 => w32(op::noop()),
        3 => w32(op::movi(rng.range(16, 63) as u8, rng.below(1 << 18) as u32)),
        4 => ((rng.below(256) as u32) << 24) | (rng.next() as u32 & 0xff_ffff),
        _ => {
            // a defined opcode (first byte from the whole defined range) with random operands, reserved bits mostly clear
            let b = if rng.bool() { *rng.pick(&DEFINED) } else { rng.range(0x10, 0xbf) as u8 };
            let args = rng.next() as u32 & 0xff_ffff;
            let args = match rng.below(4) { 0 => args, 1 => args & 0xfff_000, 2 => args & 0xfc0_000, _ => args & 0xfff_fc0 };
            ((b as u32) << 24) | args
        }
    }).collect()
}

fn base_world(rng: &mut Rng, schedule: GasSchedule) -> (World, Vec<AssetId>) {
    let assets = vec![AssetId::from(rng.bytes32()), AssetId::from(rng.bytes32())];
    (World::new(schedule, rng.range(1, 40) as u32, assets.clone()), assets)
}

fn pick_schedule(rng: &mut Rng) -> GasSchedule {
    match rng.below(10) { 0 => GasSchedule::Unit, 1 | 2 => GasSchedule::Random(rng.next()), _ => GasSchedule::Default }
}

fn gen_case(rng: &mut Rng, i: usize) -> (String, Scenario) {
    let schedule = pick_schedule(rng);
    let gas_limit = match rng.below(6) { 0 => rng.below(30), 1 => rng.below(400), 2 | 3 => rng.below(4000), _ => rng.below(12_000) };
    match i % 8 {
        0 => {
            let (mut world, assets) = base_world(rng, schedule);
            let id = ContractId::from(rng.bytes32());
            world.deploy_code(id, &[w32(op::ret(RegId::ONE))]);
            let n = rng.below(200) as usize;
            let mut tx = TxSpec::new(rng.bytes(n), rng.bytes_upto(200), gas_limit);
            tx.key_seed = rng.next();
            tx.coins.push((assets[0], rng.range(1, 10_000)));
            if rng.bool() { tx.contract_inputs.push(id); }
            if rng.bool() { tx.outputs.push(OutSpec::Variable); tx.outputs.push(OutSpec::Change(assets[0])); }
            ("bytes".into(), Scenario { world, tx, layout: DataLayout::new(&mut Rng::new(0), &[], &assets, 0), units: vec![], seed_note: "bytes".into() })
        }
        1 | 2 => {
            let (mut world, assets) = base_world(rng, schedule);
            let id = ContractId::from(rng.bytes32());
            let cw = random_words(rng, 6);
            world.deploy(ContractDef { id, code: words_to_bytes(&cw), balances: vec![(assets[0], 100)], slots: vec![(rng.bytes32(), rng.bytes(32))] });
            let layout = DataLayout::new(rng, &[id], &assets, 0);
            let n = rng.range(1, 60) as usize;
            let mut ws = vec![w32(op::gtf(R_DATA, 0u8, GTFArgs::ScriptData as u16))];
            ws.extend(random_words(rng, n));
            let mut tx = TxSpec::new(words_to_bytes(&ws), layout.bytes.clone(), gas_limit);
            tx.key_seed = rng.next();
            tx.coins.push((assets[0], rng.range(1, 10_000)));
            tx.contract_inputs.push(id);
            tx.outputs.push(OutSpec::Variable);
            ("words".into(), Scenario { world, tx, layout, units: vec![], seed_note: "words".into() })
        }
        3 => {
            let words = rng.range(1, 80) as usize;
            ("garbage".into(), gen_garbage_scenario(rng, schedule, words, gas_limit))
        }
        4 => {
            // arbitrary deployed code: the script calls a contract of random words
            let (mut world, assets) = base_world(rng, schedule);
            let id = ContractId::from(rng.bytes32());
            let n = rng.range(1, 50) as usize;
            let cw = random_words(rng, n);
            world.deploy(ContractDef { id, code: words_to_bytes(&cw), balances: vec![(assets[0], 500)], slots: vec![(rng.bytes32(), rng.bytes(32))] });
            let layout = DataLayout::new(rng, &[id], &assets, 0);
            let ws = vec![
                w32(op::gtf(R_DATA, 0u8, GTFArgs::ScriptData as u16)),
                w32(op::addi(0x30, R_DATA, layout.call_off[0] as u16)),
                w32(op::addi(0x31, R_DATA, layout.asset_off[0] as u16)),
                w32(op::movi(0x32, rng.below(20) as u32)),
                w32(op::call(0x30, 0x32, 0x31, RegId::CGAS)),
                w32(op::ret(RegId::RET)),
            ];
            let mut tx = TxSpec::new(words_to_bytes(&ws), layout.bytes.clone(), gas_limit.max(200));
            tx.key_seed = rng.next();
            tx.coins.push((assets[0], rng.range(50, 10_000)));
            tx.contract_inputs.push(id);
            ("callee".into(), Scenario { world, tx, layout, units: vec![], seed_note: "callee".into() })
        }
        5 | 6 => {
            let mut cfg = GenCfg::default();
            cfg.n_contracts = rng.below(4) as usize;
            cfg.unit_items = rng.range(3, 16) as usize;
            cfg.schedule = schedule;
            cfg.features = F_ALL;
            cfg.fault_per_mille = *rng.pick(&[30u64, 100, 300]);
            cfg.gas_limit = if rng.bool() { gas_limit } else { 20_000 };
            ("grammar".into(), gen_scenario(rng, &cfg))
        }
        _ => {
            let mut cfg = GenCfg::default();
            cfg.n_contracts = rng.below(3) as usize;
            cfg.unit_items = rng.range(3, 12) as usize;
            cfg.schedule = schedule;
            cfg.gas_limit = gas_limit.max(500);
            let mut s = gen_scenario(rng, &cfg);
            for _ in 0..rng.range(1, 6) {
                if s.tx.script.is_empty() { break; }
                let k = rng.below(s.tx.script.len() as u64) as usize;
                s.tx.script[k] ^= 1 << rng.below(8);
            }
            if rng.chance(1, 3) && !s.tx.script_data.is_empty() { let k = rng.below(s.tx.script_data.len() as u64) as usize; s.tx.script_data[k] = rng.next() as u8; }
            ("mutated".into(), s)
        }
    }
}

fn bug_class(text: &str) -> Option<String> {
    if text.contains("Bug") {
        let v = text.split("variant: ").nth(1).map(|x| x.split([',', ' ', '}', ')']).next().unwrap_or("?")).unwrap_or("?");
        Some(format!("interpreter-bug:{v}"))
    } else { None }
}

struct Stats { cases: usize, steps: usize, skipped: usize, model_steps: usize }

fn do_case(kind: &str, scn: &Scenario, idx: usize, out: &mut Out, st: &mut Stats, with_model: bool) {
    let default = scn.world.schedule == GasSchedule::Default;
    let gas_limit = scn.tx.gas_limit;
    let budget = if default { gas_limit as usize + 8 } else { 20_000 };
    let opts = TraceOpts { max_steps: budget, mem_diff: false, storage: false, frames: false };
    let replay = json!({"kind": kind, "scenario": scn.to_json()});
    out.oracle_evaluations += 1;
    let tr = match guarded(|| trace(&scn.world, &scn.tx, &opts)) {
        Ok(Ok(t)) => t,
        Ok(Err(_)) => { st.skipped += 1; out.count(&format!("{kind}:not-buildable")); return; }
        Err(p) => { out.oracle_fail(&format!("host-panic:{}", p.split([':', '(']).next().unwrap_or("").trim().chars().take(60).collect::<String>()), &format!("{kind}: host panic in the single-stepped run: {p}"), replay); return; }
    };
    st.cases += 1;
    st.steps += tr.steps.len();
    let terminated = tr.final_state != FinalState::StepLimit;
    // errors
    if let FinalState::Error(text) = &tr.final_state {
        match bug_class(text) {
            Some(c) => out.oracle_fail(&c, &format!("{kind}: transact/resume returned {text}"), replay.clone()),
            None => out.oracle_fail("unexpected-interpreter-error", &format!("{kind}: neither a program state nor a storage error: {text}"), replay.clone()),
        }
    }
    for s in &tr.steps {
        if let Outcome::Error(text) = &s.outcome {
            if let Some(c) = bug_class(text) { out.oracle_fail(&c, &format!("{kind}: step {} ({}) returned {text}", s.index, s.mnemonic), replay.clone()); }
        }
    }
    // gas discipline
    let exec: Vec<&Step> = tr.steps.iter().filter(|s| s.kind == StepKind::Exec).collect();
    let mut ggas = tr.regs_initial[9];
    if tr.regs_initial[9] != gas_limit || tr.regs_initial[10] != gas_limit {
        out.oracle_fail("initial-gas-not-the-limit", &format!("{kind}: $ggas/$cgas after initialisation {} / {} for gas limit {gas_limit}", tr.regs_initial[9], tr.regs_initial[10]), replay.clone());
    }
    for s in &tr.steps {
        let (gb, ga) = s.ggas();
        let (_, ca) = s.cgas();
        if gb != ggas || ga > gb { out.oracle_fail("ggas-increased", &format!("{kind}: step {} {}: $ggas {gb} -> {ga}", s.index, s.mnemonic), replay.clone()); break; }
        if ca > ga { out.oracle_fail("cgas-exceeds-ggas", &format!("{kind}: step {} {}: $cgas {ca} > $ggas {ga}", s.index, s.mnemonic), replay.clone()); break; }
        if default && s.kind == StepKind::Exec && s.outcome.panic_reason().is_none() && !matches!(s.outcome, Outcome::Error(_)) && gb - ga < 1 {
            out.oracle_fail("instruction-executed-for-free-under-default-schedule", &format!("{kind}: step {} {} completed without consuming gas", s.index, s.mnemonic), replay.clone());
            break;
        }
        ggas = ga;
    }
    if default {
        if !terminated { out.oracle_fail("does-not-terminate-within-gas-limit", &format!("{kind}: still running after {} instructions with gas limit {gas_limit}", exec.len()), replay.clone()); }
        else if exec.len() as u64 > gas_limit + 1 { out.oracle_fail("more-instructions-than-gas", &format!("{kind}: {} instructions executed with gas limit {gas_limit}", exec.len()), replay.clone()); }
    }
    // the same through a plain transact (what the property is about), when it is known to end
    if terminated {
        match guarded(|| run_plain(&scn.world, &scn.tx)) {
            Ok(Ok(p)) => {
                if let FinalState::Error(text) = &p.final_state {
                    if let Some(c) = bug_class(text) { out.oracle_fail(&c, &format!("{kind}: plain transact returned {text}"), replay.clone()); }
                }
                let d = tr.compare_plain(&p);
                if !d.is_empty() { out.oracle_fail("single-stepped-run-differs-from-plain-run", &format!("{kind}: {d:?}"), replay.clone()); }
            }
            Ok(Err(_)) => {}
            Err(p) => out.oracle_fail(&format!("host-panic:{}", p.split([':', '(']).next().unwrap_or("").trim().chars().take(60).collect::<String>()), &format!("{kind}: host panic in plain transact: {p}"), replay.clone()),
        }
    }
    let fin = match &tr.final_state { FinalState::Error(_) => "Error".to_string(), f => format!("{f:?}").split('(').next().unwrap_or("").to_string() };
    out.count(&format!("{kind}:{}{}", fin, tr.panic_reason().map(|r| format!(":{r:?}")).unwrap_or_default()));
    out.count(&format!("schedule:{}", scn.world.schedule.name().split(':').next().unwrap_or("")));
    if !with_model || tr.steps.len() > 400 { return; }
    st.model_steps += tr.steps.len();
    let steps: Vec<String> = tr.steps.iter().map(|s| {
        let (gb, ga) = s.ggas();
        let kind = if s.kind == StepKind::FetchFault { 3 } else {
            match &s.outcome { Outcome::Proceed => 0, Outcome::Panic(_) | Outcome::Error(_) => 2,
                _ => if s.frames_before.is_empty() && s.regs_before[6] == 0 { 1 } else { 0 } } };
        format!("({},{},{},{},{})", s.opcode, gb.saturating_sub(ga), s.cgas().1, ga, kind)
    }).collect();
    let mut ops: BTreeMap<u8, u64> = BTreeMap::new();
    for s in &exec { *ops.entry(s.opcode).or_insert(0) += 1; }
    out.push(Case {
        coq: format!("{{| nc_default := {}; nc_gas_limit := {}; nc_raw := {}; nc_terminated := {} |}}", coq_bool(default), gas_limit, coq_list(&steps), coq_bool(terminated)),
        json: json!({"case": idx, "kind": kind, "schedule": scn.world.schedule.name(), "gas_limit": gas_limit, "steps": tr.steps.len(), "final": fin,
                     "panic": tr.panic_reason().map(|r| format!("{r:?}")), "distinct_opcodes": ops.len()}),
        key: format!("{}:{}:{}", hex::encode(&scn.tx.script[..scn.tx.script.len().min(48)]), gas_limit, tr.steps.len()),
        nontrivial: exec.len() >= 2,
        class: format!("{kind}:{}", if default { "default" } else { "other-schedule" }),
    });
}

fn predicate_case(rng: &mut Rng, params: &ConsensusParameters, out: &mut Out) {
    use rand::{rngs::StdRng, Rng as _, SeedableRng};
    let mut r = StdRng::seed_from_u64(rng.next());
    let mut b = TransactionBuilder::script(words_to_bytes(&[w32(op::ret(RegId::ONE))]), vec![]);
    b.with_params(params.clone());
    b.script_gas_limit(1000).max_fee_limit(0);
    let mut codes = vec![];
    for i in 0..rng.range(1, 3) {
        let code = match rng.below(3) { 0 => rng.bytes_upto(120), 1 => { let n = rng.range(1, 40) as usize; words_to_bytes(&random_words(rng, n)) }
            _ => { let n = rng.range(1, 20) as usize; let mut w = random_words(rng, n); w.push(w32(op::ret(RegId::ONE))); words_to_bytes(&w) } };
        if code.is_empty() { continue; }
        let owner = Input::predicate_owner(&code);
        b.add_input(Input::coin_predicate(UtxoId::new(r.r#gen(), i as u16), owner, 1000, *params.base_asset_id(), TxPointer::default(), rng.below(3) * rng.below(5000), code.clone(), rng.bytes_upto(40)));
        codes.push(hex::encode(&code));
    }
    if codes.is_empty() { return; }
    use fuel_tx::Finalizable;
    let mut tx = b.finalize();
    let cpp: CheckPredicateParams = params.into();
    let replay = json!({"kind": "predicates", "predicates": codes});
    out.oracle_evaluations += 1;
    use fuel_vm::interpreter::predicates::check_predicates;
    // check with the (random) declared gas first, then estimate and check again
    for round in 0..2 {
        if round == 1 {
            match guarded(|| tx.estimate_predicates(&cpp, MemoryInstance::new(), &EmptyStorage)) {
                Ok(Ok(())) => out.count("predicates:estimated"),
                Ok(Err(e)) => { let t = format!("{e:?}"); if let Some(c) = bug_class(&t) { out.oracle_fail(&c, &format!("predicate estimation: {t}"), replay.clone()); } out.count("predicates:estimation-failed"); }
                Err(p) => { out.oracle_fail(&format!("host-panic:{}", p.chars().take(60).collect::<String>()), &format!("predicate estimation: host panic {p}"), replay.clone()); return; }
            }
        }
        let Ok(checked) = tx.clone().into_checked_basic(BlockHeight::from(1u32), params) else { out.count("predicates:tx-not-checkable"); continue; };
        match guarded(|| check_predicates(&checked, &cpp, MemoryInstance::new(), &EmptyStorage, NotSupportedEcal)) {
            Ok(Ok(_)) => out.count("predicates:accepted"),
            Ok(Err(e)) => { let t = format!("{e:?}"); if let Some(c) = bug_class(&t) { out.oracle_fail(&c, &format!("predicate check: {t}"), replay.clone()); }
                            out.count(&format!("predicates:rejected:{}", t.split([' ', '(', '{']).next().unwrap_or(""))); }
            Err(p) => { out.oracle_fail(&format!("host-panic:{}", p.chars().take(60).collect::<String>()), &format!("predicate check: host panic {p}"), replay.clone()); return; }
        }
    }
}

fn run_c29(args: &Args, out: &mut Out) {
    let mut rng = Rng::new(args.seed ^ 0xC29);
    let mut st = Stats { cases: 0, steps: 0, skipped: 0, model_steps: 0 };
    if let Some(f) = &args.replay {
        let v = read_replay(f);
        if v["kind"] == "predicates" { out.notes.push("predicate replays: re-run with the recorded seed".into()); return; }
        let scn = Scenario::from_json(&v["scenario"]).expect("scenario");
        do_case(v["kind"].as_str().unwrap_or("replay"), &scn, 0, out, &mut st, true);
        return;
    }
    let n = args.scale(2000, 200_000);
    // the Coq side replays a bounded number of steps; the oracle sees every run
    let model_budget = if args.thorough() { 600_000 } else { 45_000 };
    for i in 0..n {
        let (kind, scn) = gen_case(&mut rng, i);
        let with_model = !args.oracle_only && st.model_steps < model_budget;
        do_case(&kind, &scn, i, out, &mut st, with_model);
        if i % 10 == 0 {
            let p = ConsensusParameters::standard();
            predicate_case(&mut rng, &p, out);
        }
    }
    out.notes.push(format!("{} runs ({} not buildable), {} instructions single-stepped, {} replayed by the Coq checker", st.cases, st.skipped, st.steps, st.model_steps));
}

fn main() {
    if std::env::var("VERIF_LOUD").is_err() { quiet_panics(); }
    let args = Args::parse();
    let mut out = Out::new();
    let header = "From Coq Require Import List NArith.\nFrom FV Require Import Run.NoCrash.\nImport ListNotations.\nOpen Scope N_scope.";
    match args.prop.as_str() {
        "C29" => {
            run_c29(&args, &mut out);
            out.write(&args, header, "nocrash_case", "bad_nocrash");
        }
        p => { eprintln!("nocrash: unknown property {p}"); std::process::exit(2); }
    }
}
