//! C05 — in-VM transaction introspection (GTF / GM) returns the executed transaction's data.
//!
//! A real `Interpreter` is initialised with generated transactions:
//!   * predicate context (`init_predicate`) for all five executable kinds — script, create, upgrade,
//!     upload, blob — with 1-5 inputs of mixed variants (at least one predicate), outputs, witnesses,
//!     storage slots / proof sets, all policy masks, with and without cached metadata;
//!   * script context (`init_script`) for valid scripts built by `vmtrace::TxSpec` (signed coins,
//!     messages, contract inputs + outputs, change / variable / coin outputs).
//! EVERY GTF selector of `GTFArgs` (table regenerated from args.rs) and a few invalid ones are
//! executed as single instructions with $rB in {0..n, n+1, 2^16, 2^64-1}, and all GM selectors.
//!   * correspondence: neutral value + configured parameters + the VM memory [0, tx end) + every
//!     (selector, $rB, result-or-panic) are printed; coq/Run/Gtf.v recomputes them with the Gallina
//!     model and checks the spec (value = field; memory at the pointer = the field's canonical bytes);
//!   * oracle (real code only): for every answer the reference below (written from the selector
//!     descriptions, on the typed transaction) gives the expected value, the expected bytes at the
//!     pointer (read from the real VM memory), or the expected panic reason.
#[path = "../txval.rs"]
mod txval;
#[path = "../gen/gtf_table.rs"]
mod gtf_table;
use fuel_asm::{op, PanicReason, RegId};
use fuel_tx::field::*;
use fuel_tx::field::{Script as _, UpgradePurpose as _};
use fuel_tx::policies::PolicyType;
use fuel_tx::{Cacheable, ConsensusParameters, Input, Output, StorageSlot, Transaction, TxParameters, UniqueIdentifier, UpgradePurpose, UploadBody, Witness};
use fuel_types::canonical::Serialize;
use fuel_types::{AssetId, ChainId};
use fuel_vm::error::InterpreterError;
use fuel_vm::interpreter::{ExecutableTransaction, Interpreter, InterpreterParams, MemoryInstance};
use fuel_vm::prelude::{Context, MemoryStorage, RuntimePredicate};
use fuel_vm::state::ExecuteState;
use fvh::vmtrace::{GasSchedule, OutSpec, TxSpec, World};
use fvh::*;
use gtf_table::{GM_ARGS, GTF_ARGS};
use serde_json::json;
use txval::*;

#[derive(Clone, Debug, PartialEq)]
enum Res {
    Ok(u64),
    Panic(u8),
    /// not a PanicInstruction: other error / host panic (never expected)
    Other(String),
}
impl Res {
    fn coq(&self) -> String {
        match self {
            Res::Ok(v) => format!("(GOk {})", v),
            Res::Panic(r) => format!("(GPanic {})", r),
            Res::Other(_) => "(GPanic 255)".into(),
        }
    }
}
const RA: u8 = 0x10;
const RB: u8 = 0x11;

fn exec<S, Tx>(vm: &mut Interpreter<MemoryInstance, S, Tx>, predicate: bool, instr: fuel_asm::Instruction) -> Res
where
    S: fuel_vm::storage::InterpreterStorage,
    Tx: ExecutableTransaction,
{
    // plenty of gas for one instruction, whatever was consumed before
    vm.registers_mut()[RegId::CGAS.to_u8() as usize] = 1_000_000;
    vm.registers_mut()[RegId::GGAS.to_u8() as usize] = 1_000_000;
    vm.registers_mut()[RA as usize] = 0xDEAD_BEEF;
    let r = guarded(|| if predicate { vm.instruction::<_, true>(instr) } else { vm.instruction::<_, false>(instr) });
    match r {
        Ok(Ok(ExecuteState::Proceed)) => Res::Ok(vm.registers()[RA as usize]),
        Ok(Ok(s)) => Res::Other(format!("{:?}", s)),
        Ok(Err(InterpreterError::PanicInstruction(p))) => Res::Panic(*p.reason() as u8),
        Ok(Err(e)) => Res::Other(format!("{:?}", e)),
        Err(p) => Res::Other(format!("host panic: {}", p)),
    }
}

struct Obs {
    is_gm: bool,
    imm: u32,
    b: u64,
    res: Res,
}

/// everything observed on one initialised VM
struct Run {
    kind: usize,
    /// the transaction handed to the VM (before prepare_sign)
    raw: Transaction,
    /// `vm.transaction()` after initialisation
    prepared: Transaction,
    precomputed: bool,
    chain_id: u64,
    gas_price: u64,
    base_asset: [u8; 32],
    max_inputs: u16,
    tx_offset: usize,
    /// None = script context, Some(i) = predicate verification of input i
    predicate: Option<usize>,
    mem: Vec<u8>,
    obs: Vec<Obs>,
}

fn index_set(n: usize) -> Vec<u64> {
    let mut v: Vec<u64> = (0..n as u64).collect();
    v.extend([n as u64, n as u64 + 1, 1 << 16, u32::MAX as u64, 1 << 32, u64::MAX]);
    v
}

fn observe<S, Tx>(vm: &mut Interpreter<MemoryInstance, S, Tx>, predicate: bool, counts: (usize, usize, usize, usize, usize)) -> Vec<Obs>
where
    S: fuel_vm::storage::InterpreterStorage,
    Tx: ExecutableTransaction,
{
    let (ni, no, nw, ns, np) = counts;
    let mut obs = vec![];
    // $rB values: every index any vector of this transaction has, one past, and the far ones
    let n = ni.max(no).max(nw).max(ns).max(np);
    let bs = index_set(n);
    let mut imms: Vec<u16> = GTF_ARGS.iter().map(|(_, c)| *c).collect();
    imms.extend([0u16, 0x008, 0x208, 0x305, 0xFFF]); // not selectors
    for imm in imms {
        for b in &bs {
            vm.registers_mut()[RB as usize] = *b;
            let r = exec(vm, predicate, op::gtf(RA, RB, imm));
            obs.push(Obs { is_gm: false, imm: imm as u32, b: *b, res: r });
        }
    }
    let mut gms: Vec<u32> = GM_ARGS.iter().map(|(_, c)| *c).collect();
    gms.extend([0u32, 9, 0x3FFFF]);
    for imm in gms {
        let r = exec(vm, predicate, op::gm(RA, imm));
        obs.push(Obs { is_gm: true, imm, b: 0, res: r });
    }
    obs
}

fn counts_of(tx: &Transaction) -> (usize, usize, usize, usize, usize) {
    match tx {
        Transaction::Script(t) => (t.inputs().len(), t.outputs().len(), t.witnesses().len(), 0, 0),
        Transaction::Create(t) => (t.inputs().len(), t.outputs().len(), t.witnesses().len(), t.storage_slots().len(), 0),
        Transaction::Upgrade(t) => (t.inputs().len(), t.outputs().len(), t.witnesses().len(), 0, 0),
        Transaction::Upload(t) => (t.inputs().len(), t.outputs().len(), t.witnesses().len(), 0, t.proof_set().len()),
        Transaction::Blob(t) => (t.inputs().len(), t.outputs().len(), t.witnesses().len(), 0, 0),
        Transaction::Mint(_) => (0, 0, 0, 0, 0),
    }
}

fn params_for(chain_id: u64, gas_price: u64, base_asset: [u8; 32], max_inputs: u16) -> InterpreterParams {
    let mut cp = ConsensusParameters::standard();
    cp.set_chain_id(ChainId::new(chain_id));
    cp.set_base_asset_id(AssetId::from(base_asset));
    let txp = TxParameters::DEFAULT.with_max_inputs(max_inputs);
    cp.set_tx_params(txp);
    InterpreterParams::new(gas_price, &cp)
}

/// predicate context for a transaction of concrete type Tx
fn run_predicate<Tx>(tx: Tx, as_tx: Transaction, idx: usize, precomputed: bool, chain_id: u64, gas_price: u64, base_asset: [u8; 32], max_inputs: u16) -> Result<Run, String>
where
    Tx: ExecutableTransaction + Clone + fuel_tx::field::Inputs,
    Transaction: From<Tx>,
{
    let ip = params_for(chain_id, gas_price, base_asset, max_inputs);
    let tx_offset = ip.tx_offset;
    let mut vm: Interpreter<MemoryInstance, MemoryStorage, Tx> = Interpreter::with_storage(MemoryInstance::new(), MemoryStorage::default(), ip);
    let program = RuntimePredicate::from_tx(&tx, tx_offset, idx).ok_or("not a predicate input")?;
    let r = guarded(|| vm.init_predicate(Context::PredicateVerification { program }, tx.clone(), 10_000_000));
    match r {
        Ok(Ok(())) => {}
        Ok(Err(e)) => return Err(format!("init error: {:?}", e)),
        Err(p) => return Err(format!("init host panic: {}", p)),
    }
    let prepared: Transaction = vm.transaction().clone().into();
    let size = prepared.size();
    let mem = vm.memory().read(0usize, tx_offset + size).map_err(|e| format!("memory: {:?}", e))?.to_vec();
    let obs = observe(&mut vm, true, counts_of(&as_tx));
    Ok(Run { kind: kind_index(&as_tx), raw: as_tx, prepared, precomputed, chain_id, gas_price, base_asset, max_inputs, tx_offset, predicate: Some(idx), mem, obs })
}

fn run_script(rng: &mut Rng) -> Result<Run, String> {
    let assets: Vec<AssetId> = (0..3).map(|_| AssetId::from(rng.bytes32())).collect();
    let mut w = World::new(GasSchedule::Default, 1 + rng.below(50) as u32, assets.clone());
    w.gas_price = rng.below(5);
    let chain_id = rng.next();
    w.params.set_chain_id(ChainId::new(chain_id));
    let sl = 4 * (1 + rng.below(6) as usize);
    let mut spec = TxSpec::new(rng.bytes(sl), rng.bytes_upto(40), 100_000);
    for _ in 0..rng.below(3) {
        spec.contract_inputs.push(rng.bytes32().into());
    }
    for _ in 0..1 + rng.below(3) {
        spec.coins.push((*rng.pick(&assets), 1_000 + rng.below(1_000_000)));
    }
    for _ in 0..rng.below(3) {
        spec.messages.push((10 + rng.below(1000), if rng.bool() { vec![] } else { rng.bytes_upto(20) }));
    }
    // the fee is paid from a base-asset coin; change only for assets that have an input
    spec.coins.push((assets[0], 10_000_000));
    spec.max_fee = 5_000_000;
    let have: Vec<AssetId> = spec.coins.iter().map(|(a, _)| *a).collect();
    for a in &assets {
        if have.contains(a) && rng.bool() { spec.outputs.push(OutSpec::Change(*a)); }
    }
    for _ in 0..rng.below(3) {
        spec.outputs.push(if rng.bool() { OutSpec::Variable } else { OutSpec::Coin(assets[0], 1 + rng.below(100)) });
    }
    spec.key_seed = rng.next();
    let ready = spec.build(&w)?;
    let ip = w.interpreter_params();
    let tx_offset = ip.tx_offset;
    let max_inputs = ip.max_inputs;
    let base_asset: [u8; 32] = *ip.base_asset_id;
    let gas_price = ip.gas_price;
    let mut vm: Interpreter<MemoryInstance, MemoryStorage, fuel_tx::Script> = Interpreter::with_storage(MemoryInstance::new(), w.storage.clone(), ip);
    match guarded(|| vm.init_script(ready)) {
        Ok(Ok(())) => {}
        Ok(Err(e)) => return Err(format!("init error: {:?}", e)),
        Err(p) => return Err(format!("init host panic: {}", p)),
    }
    let prepared: Transaction = vm.transaction().clone().into();
    let size = prepared.size();
    let mem = vm.memory().read(0usize, tx_offset + size).map_err(|e| format!("memory: {:?}", e))?.to_vec();
    // the checked transaction is not reachable from `Ready`; prepare_sign is idempotent, so the prepared one stands for it
    let raw = prepared.clone();
    let obs = observe(&mut vm, false, counts_of(&raw));
    Ok(Run { kind: 0, raw, prepared, precomputed: true, chain_id, gas_price, base_asset, max_inputs, tx_offset, predicate: None, mem, obs })
}

// ---------------------------------------------------------------- reference (oracle)
enum Exp {
    Value(u64),
    /// pointer to these bytes (canonical bytes of the field, from the typed value)
    Ptr(Vec<u8>),
    Panic(PanicReason),
    /// not judged by the reference
    Skip,
}
fn pad(b: &[u8]) -> Vec<u8> {
    let mut v = b.to_vec();
    while v.len() % 8 != 0 { v.push(0); }
    v
}
fn tx_parts(tx: &Transaction) -> (&[Input], &[Output], &[Witness], &fuel_tx::policies::Policies) {
    match tx {
        Transaction::Script(t) => (t.inputs(), t.outputs(), t.witnesses(), t.policies()),
        Transaction::Create(t) => (t.inputs(), t.outputs(), t.witnesses(), t.policies()),
        Transaction::Upgrade(t) => (t.inputs(), t.outputs(), t.witnesses(), t.policies()),
        Transaction::Upload(t) => (t.inputs(), t.outputs(), t.witnesses(), t.policies()),
        Transaction::Blob(t) => (t.inputs(), t.outputs(), t.witnesses(), t.policies()),
        Transaction::Mint(_) => unreachable!(),
    }
}
/// what selector `name` with index b denotes on the (prepared) transaction — written from the
/// selector descriptions in args.rs
fn expected(tx: &Transaction, name: &str, b: u64, tx_size: u64) -> Exp {
    use PanicReason::*;
    let (ins, outs, wits, pol) = tx_parts(tx);
    let bi = usize::try_from(b).ok();
    let input = bi.and_then(|i| ins.get(i));
    let output = bi.and_then(|i| outs.get(i));
    let witness = bi.and_then(|i| wits.get(i));
    let kind = kind_index(tx);
    let only = |k: usize, e: Exp| if kind == k { e } else { Exp::Panic(InvalidMetadataIdentifier) };
    let val = |o: Option<u64>, r: PanicReason| o.map(Exp::Value).unwrap_or(Exp::Panic(r));
    let ptr = |o: Option<Vec<u8>>, r: PanicReason| o.map(Exp::Ptr).unwrap_or(Exp::Panic(r));
    let pol_get = |t: PolicyType| val(pol.get(t), PolicyIsNotSet);
    // field extraction per input variant
    let coin = |f: &dyn Fn(&Input) -> Option<Vec<u8>>| input.filter(|i| i.is_coin()).and_then(f);
    let msg = |f: &dyn Fn(&Input) -> Option<Vec<u8>>| input.filter(|i| i.is_message()).and_then(f);
    let contract = |f: &dyn Fn(&Input) -> Option<Vec<u8>>| input.filter(|i| i.is_contract()).and_then(f);
    let b32 = |x: &[u8]| Some(x.to_vec());
    match name {
        "Type" => Exp::Value(kind as u64),
        "ScriptGasLimit" => Exp::Value(match tx { Transaction::Script(s) => *s.script_gas_limit(), _ => 0 }),
        "ScriptLength" => only(0, match tx { Transaction::Script(s) => Exp::Value(s.script().len() as u64), _ => Exp::Skip }),
        "ScriptDataLength" => only(0, match tx { Transaction::Script(s) => Exp::Value(s.script_data().len() as u64), _ => Exp::Skip }),
        "Script" => only(0, match tx { Transaction::Script(s) => Exp::Ptr(pad(s.script())), _ => Exp::Skip }),
        "ScriptData" => only(0, match tx { Transaction::Script(s) => Exp::Ptr(pad(s.script_data())), _ => Exp::Skip }),
        "ScriptInputsCount" | "CreateInputsCount" | "TxInputsCount" => Exp::Value(ins.len() as u64),
        "ScriptOutputsCount" | "CreateOutputsCount" | "TxOutputsCount" => Exp::Value(outs.len() as u64),
        "ScriptWitnessesCount" | "CreateWitnessesCount" | "TxWitnessesCount" => Exp::Value(wits.len() as u64),
        "ScriptInputAtIndex" | "CreateInputAtIndex" | "TxInputAtIndex" => ptr(input.map(|i| i.to_bytes()), InputNotFound),
        "ScriptOutputAtIndex" | "CreateOutputAtIndex" | "TxOutputAtIndex" => ptr(output.map(|o| o.to_bytes()), OutputNotFound),
        "ScriptWitnessAtIndex" | "CreateWitnessAtIndex" | "TxWitnessAtIndex" => ptr(witness.map(|w| w.to_bytes()), WitnessNotFound),
        "TxLength" => Exp::Value(tx_size),
        "CreateBytecodeWitnessIndex" => only(1, match tx { Transaction::Create(c) => Exp::Value(*c.bytecode_witness_index() as u64), _ => Exp::Skip }),
        "CreateStorageSlotsCount" => only(1, match tx { Transaction::Create(c) => Exp::Value(c.storage_slots().len() as u64), _ => Exp::Skip }),
        "CreateSalt" => only(1, match tx { Transaction::Create(c) => Exp::Ptr(c.salt().to_vec()), _ => Exp::Skip }),
        "CreateStorageSlotAtIndex" => only(1, match tx { Transaction::Create(c) => ptr(bi.and_then(|i| c.storage_slots().get(i)).map(|s| s.to_bytes()), StorageSlotsNotFound), _ => Exp::Skip }),
        "InputType" => val(input.map(|i| match i { Input::CoinSigned(_) | Input::CoinPredicate(_) => 0, Input::Contract(_) => 1, _ => 2 }), InputNotFound),
        "InputCoinTxId" => ptr(coin(&|i| i.utxo_id().map(|u| u.tx_id().to_vec())), InputNotFound),
        "InputCoinOutputIndex" => val(input.filter(|i| i.is_coin()).and_then(|i| i.utxo_id()).map(|u| u.output_index() as u64), InputNotFound),
        "InputCoinOwner" => ptr(coin(&|i| i.input_owner().map(|a| a.to_vec())), InputNotFound),
        "InputCoinAmount" => val(input.filter(|i| i.is_coin()).and_then(|i| i.amount()), InputNotFound),
        "InputCoinAssetId" => ptr(coin(&|i| match i { Input::CoinSigned(c) => b32(c.asset_id.as_ref()), Input::CoinPredicate(c) => b32(c.asset_id.as_ref()), _ => None }), InputNotFound),
        "InputCoinTxPointer" => ptr(coin(&|i| i.tx_pointer().map(|t| t.to_bytes())), InputNotFound),
        "InputCoinWitnessIndex" => val(input.and_then(|i| match i { Input::CoinSigned(c) => Some(c.witness_index as u64), _ => None }), InputNotFound),
        "InputCoinPredicateLength" => val(input.and_then(|i| match i { Input::CoinSigned(_) => Some(0), Input::CoinPredicate(c) => Some(c.predicate.len() as u64), _ => None }), InputNotFound),
        "InputCoinPredicateDataLength" => val(input.and_then(|i| match i { Input::CoinSigned(_) => Some(0), Input::CoinPredicate(c) => Some(c.predicate_data.len() as u64), _ => None }), InputNotFound),
        "InputCoinPredicate" => ptr(input.and_then(|i| match i { Input::CoinPredicate(c) => Some(pad(&c.predicate)), _ => None }), InputNotFound),
        "InputCoinPredicateData" => ptr(input.and_then(|i| match i { Input::CoinPredicate(c) => Some(pad(&c.predicate_data)), _ => None }), InputNotFound),
        "InputCoinPredicateGasUsed" => val(input.and_then(|i| match i { Input::CoinPredicate(c) => Some(c.predicate_gas_used), _ => None }), InputNotFound),
        "InputContractTxId" => ptr(contract(&|i| i.utxo_id().map(|u| u.tx_id().to_vec())), InputNotFound),
        "InputContractOutputIndex" => {
            if b > u16::MAX as u64 { Exp::Panic(InvalidMetadataIdentifier) } else {
                // the Output::Contract whose input_index is b (the last one, if several)
                let j = outs.iter().enumerate().filter_map(|(j, o)| match o { Output::Contract(c) if c.input_index as u64 == b => Some(j as u64), _ => None }).last();
                val(j, InputNotFound)
            }
        }
        "InputContractId" => ptr(contract(&|i| i.contract_id().map(|c| c.to_vec())), InputNotFound),
        "InputMessageSender" => ptr(msg(&|i| i.sender().map(|a| a.to_vec())), InputNotFound),
        "InputMessageRecipient" => ptr(msg(&|i| i.recipient().map(|a| a.to_vec())), InputNotFound),
        "InputMessageAmount" => val(input.filter(|i| i.is_message()).and_then(|i| i.amount()), InputNotFound),
        "InputMessageNonce" => ptr(msg(&|i| i.nonce().map(|a| a.to_vec())), InputNotFound),
        "InputMessageWitnessIndex" => val(input.and_then(|i| match i { Input::MessageCoinSigned(m) => Some(m.witness_index as u64), Input::MessageDataSigned(m) => Some(m.witness_index as u64), _ => None }), InputNotFound),
        "InputMessageDataLength" => val(input.filter(|i| i.is_message()).map(|i| i.input_data().map(|d| d.len() as u64).unwrap_or(0)), InputNotFound),
        "InputMessagePredicateLength" => val(input.filter(|i| i.is_message()).map(|i| i.input_predicate().map(|d| d.len() as u64).unwrap_or(0)), InputNotFound),
        "InputMessagePredicateDataLength" => val(input.filter(|i| i.is_message()).map(|i| i.input_predicate_data().map(|d| d.len() as u64).unwrap_or(0)), InputNotFound),
        "InputMessageData" => ptr(msg(&|i| Some(pad(i.input_data().unwrap_or(&[])))), InputNotFound),
        "InputMessagePredicate" => ptr(msg(&|i| i.input_predicate().map(pad)), InputNotFound),
        "InputMessagePredicateData" => ptr(msg(&|i| if i.is_message_coin_predicate() || i.is_message_data_predicate() { i.input_predicate_data().map(pad) } else { None }), InputNotFound),
        "InputMessagePredicateGasUsed" => val(input.filter(|i| i.is_message()).and_then(|i| i.predicate_gas_used()), InputNotFound),
        "OutputType" => val(output.map(|o| match o { Output::Coin { .. } => 0, Output::Contract(_) => 1, Output::Change { .. } => 2, Output::Variable { .. } => 3, Output::ContractCreated { .. } => 4 }), OutputNotFound),
        "OutputCoinTo" => ptr(output.and_then(|o| match o { Output::Coin { to, .. } | Output::Change { to, .. } => Some(to.to_vec()), _ => None }), OutputNotFound),
        "OutputCoinAmount" => val(output.and_then(|o| match o { Output::Coin { amount, .. } => Some(*amount), _ => None }), OutputNotFound),
        "OutputCoinAssetId" => ptr(output.and_then(|o| match o { Output::Coin { asset_id, .. } | Output::Change { asset_id, .. } => Some(asset_id.to_vec()), _ => None }), OutputNotFound),
        "OutputContractInputIndex" => val(output.and_then(|o| match o { Output::Contract(c) => Some(c.input_index as u64), _ => None }), InputNotFound),
        "OutputContractCreatedContractId" => ptr(output.and_then(|o| match o { Output::ContractCreated { contract_id, .. } => Some(contract_id.to_vec()), _ => None }), OutputNotFound),
        "OutputContractCreatedStateRoot" => ptr(output.and_then(|o| match o { Output::ContractCreated { state_root, .. } => Some(state_root.to_vec()), _ => None }), OutputNotFound),
        "WitnessDataLength" => val(witness.map(|w| w.as_ref().len() as u64), WitnessNotFound),
        "WitnessData" => ptr(witness.map(|w| pad(w.as_ref())), WitnessNotFound),
        "PolicyTypes" => Exp::Value(pol.bits() as u64),
        "PolicyTip" => pol_get(PolicyType::Tip),
        "PolicyWitnessLimit" => pol_get(PolicyType::WitnessLimit),
        "PolicyMaturity" => pol_get(PolicyType::Maturity),
        "PolicyMaxFee" => pol_get(PolicyType::MaxFee),
        "PolicyExpiration" => pol_get(PolicyType::Expiration),
        "PolicyOwner" => pol_get(PolicyType::Owner),
        "UploadRoot" => only(4, match tx { Transaction::Upload(u) => Exp::Ptr(u.bytecode_root().to_vec()), _ => Exp::Skip }),
        "UploadWitnessIndex" => only(4, match tx { Transaction::Upload(u) => Exp::Value(*u.bytecode_witness_index() as u64), _ => Exp::Skip }),
        "UploadSubsectionIndex" => only(4, match tx { Transaction::Upload(u) => Exp::Value(*u.subsection_index() as u64), _ => Exp::Skip }),
        "UploadSubsectionsCount" => only(4, match tx { Transaction::Upload(u) => Exp::Value(*u.subsections_number() as u64), _ => Exp::Skip }),
        "UploadProofSetCount" => only(4, match tx { Transaction::Upload(u) => Exp::Value(u.proof_set().len() as u64), _ => Exp::Skip }),
        "UploadProofSetAtIndex" => only(4, match tx { Transaction::Upload(u) => ptr(bi.and_then(|i| u.proof_set().get(i)).map(|p| p.to_vec()), ProofInUploadNotFound), _ => Exp::Skip }),
        "BlobId" => only(5, match tx { Transaction::Blob(t) => Exp::Ptr(t.blob_id().to_vec()), _ => Exp::Skip }),
        "BlobWitnessIndex" => only(5, match tx { Transaction::Blob(t) => Exp::Value(*t.bytecode_witness_index() as u64), _ => Exp::Skip }),
        "UpgradePurpose" => only(3, match tx { Transaction::Upgrade(t) => Exp::Ptr(t.upgrade_purpose().to_bytes()), _ => Exp::Skip }),
        _ => Exp::Skip,
    }
}

/// the owner rule of GM GetOwner: the policy's input if the Owner policy is set, else the owner all
/// owner-bearing inputs share (None if they differ or there is none)
fn expected_owner(tx: &Transaction) -> Option<Vec<u8>> {
    let (ins, _, _, pol) = tx_parts(tx);
    if let Some(i) = pol.get(PolicyType::Owner) {
        return ins.get(i as usize).and_then(|x| x.input_owner()).map(|a| a.to_vec());
    }
    let owners: Vec<Vec<u8>> = ins.iter().filter_map(|x| x.input_owner().map(|a| a.to_vec())).collect();
    let first = owners.first()?.clone();
    if owners.iter().all(|o| *o == first) { Some(first) } else { None }
}

fn oracle(out: &mut Out, run: &Run) {
    let tx = &run.prepared;
    let kind = run.kind;
    let tx_size = tx.size() as u64;
    let ctx = if run.predicate.is_some() { "predicate" } else { "script" };
    let replay = || json!({"kind": "c05", "tx_kind": kind, "val": kind_val(&run.raw).json(), "context": ctx, "chain_id": run.chain_id.to_string(),
                           "gas_price": run.gas_price.to_string(), "max_inputs": run.max_inputs, "precomputed": run.precomputed, "predicate": run.predicate});
    // memory layout: id ‖ base asset ‖ balances ‖ size ‖ tx bytes at tx_offset
    out.oracle_evaluations += 1;
    let bytes = tx.to_bytes();
    let id = run.raw.id(&ChainId::new(run.chain_id));
    let layout_ok = run.mem.len() == run.tx_offset + bytes.len()
        && run.mem[..32] == id[..]
        && run.mem[32..64] == run.base_asset[..]
        && run.mem[run.tx_offset - 8..run.tx_offset] == tx_size.to_be_bytes()[..]
        && run.mem[run.tx_offset..] == bytes[..]
        && run.tx_offset == 64 + run.max_inputs as usize * 40 + 8;
    if !layout_ok {
        out.oracle_fail(&format!("initial-memory-layout/{}", ctx), &format!("{}: VM memory is not id ‖ base asset ‖ balances ‖ size ‖ tx bytes at tx_offset {}", KIND_NAMES[kind], run.tx_offset), replay());
    }
    // the prepared transaction is the raw one with exactly the malleable fields zeroed (C03's strip, witnesses kept)
    let name_of = |imm: u32| GTF_ARGS.iter().find(|(_, c)| *c as u32 == imm).map(|(n, _)| *n);
    for o in &run.obs {
        out.oracle_evaluations += 1;
        if let Res::Other(e) = &o.res {
            out.oracle_fail("introspection-not-a-panic-instruction", &format!("{} imm {:#x} b {}: {}", if o.is_gm { "GM" } else { "GTF" }, o.imm, o.b, e), replay());
            continue;
        }
        if o.is_gm {
            let name = GM_ARGS.iter().find(|(_, c)| *c == o.imm).map(|(n, _)| *n);
            let exp: Exp = match name {
                None => Exp::Panic(PanicReason::InvalidMetadataIdentifier),
                Some("GetChainId") => Exp::Value(run.chain_id),
                Some("BaseAssetId") => Exp::Ptr(run.base_asset.to_vec()),
                Some("TxStart") => Exp::Ptr(bytes.clone()),
                Some("GetGasPrice") => if run.predicate.is_some() { Exp::Panic(PanicReason::CanNotGetGasPriceInPredicate) } else { Exp::Value(run.gas_price) },
                Some("GetOwner") => match expected_owner(tx) { Some(o) => Exp::Ptr(o), None => Exp::Panic(PanicReason::OwnerIsUnknown) },
                Some("GetVerifyingPredicate") => match run.predicate { Some(i) => Exp::Value(i as u64), None => Exp::Panic(PanicReason::TransactionValidity) },
                Some("IsCallerExternal") | Some("GetCaller") => Exp::Panic(PanicReason::ExpectedInternalContext),
                _ => Exp::Skip,
            };
            judge(out, run, &format!("GM/{}", name.unwrap_or("invalid")), o, exp, &replay);
        } else {
            let name = name_of(o.imm);
            let exp = match name {
                None => Exp::Panic(PanicReason::InvalidMetadataIdentifier),
                // fuel-vm convert::to_usize: $rB must fit in u32 on every platform, for EVERY selector
                // (also those that do not use $rB); reported as an observation, see the C05 report
                Some(_) if o.b > u32::MAX as u64 => { out.count("observed/rb-above-u32-max-is-invalid-metadata-identifier"); Exp::Panic(PanicReason::InvalidMetadataIdentifier) }
                Some(n) => expected(tx, n, o.b, tx_size),
            };
            judge(out, run, &format!("GTF/{}", name.unwrap_or("invalid")), o, exp, &replay);
        }
    }
}
fn judge(out: &mut Out, run: &Run, what: &str, o: &Obs, exp: Exp, replay: &dyn Fn() -> serde_json::Value) {
    let ctx = if run.predicate.is_some() { "predicate" } else { "script" };
    let kind = KIND_NAMES[run.kind];
    match (exp, &o.res) {
        (Exp::Skip, _) => {}
        (Exp::Value(v), Res::Ok(r)) if v == *r => {}
        (Exp::Value(v), r) => out.oracle_fail(&format!("wrong-value/{}/{}", what, ctx), &format!("{} {} b={}: returned {:?}, the field is {}", kind, what, o.b, r, v), replay()),
        (Exp::Panic(p), Res::Panic(r)) if p as u8 == *r => {}
        (Exp::Panic(p), r) => out.oracle_fail(&format!("wrong-panic/{}/{}", what, ctx), &format!("{} {} b={}: returned {:?}, specified panic {:?}", kind, what, o.b, r, p), replay()),
        (Exp::Ptr(bytes), Res::Ok(p)) => {
            let p = *p as usize;
            let ok = p.checked_add(bytes.len()).map(|e| e <= run.mem.len() && run.mem[p..e] == bytes[..]).unwrap_or(false);
            if !ok {
                out.oracle_fail(&format!("pointer-does-not-hold-field/{}/{}", what, ctx), &format!("{} {} b={}: memory at the returned pointer {} is not the field's {} canonical bytes", kind, what, o.b, p, bytes.len()), replay());
            }
        }
        (Exp::Ptr(_), r) => out.oracle_fail(&format!("no-pointer-for-present-field/{}/{}", what, ctx), &format!("{} {} b={}: returned {:?} for a present field", kind, what, o.b, r), replay()),
    }
}

// ---------------------------------------------------------------- generators
fn gen_pred_tx(rng: &mut Rng, kind: usize) -> (Transaction, usize) {
    // 1-5 inputs, at least one predicate-carrying
    let n = 1 + rng.below(5) as usize;
    let pidx = rng.below(n as u64) as usize;
    let inputs: Vec<Input> = (0..n).map(|i| {
        let (a, b, c) = (blen(rng, false, true), blen(rng, false, false), blen(rng, false, true));
        let k = if i == pidx { *rng.pick(&[1usize, 4, 6]) } else { rng.below(7) as usize };
        gen_input_kind(rng, k, a, b, c)
    }).collect();
    let no = rng.below(5) as usize;
    let mut outputs: Vec<Output> = (0..no).map(|_| gen_output(rng)).collect();
    // make some Output::Contract point at existing inputs
    for o in outputs.iter_mut() {
        if let Output::Contract(c) = o { if rng.bool() { c.input_index = rng.below(n as u64 + 1) as u16; } }
    }
    let nw = 1 + rng.below(3) as usize;
    let witnesses: Vec<Witness> = (0..nw).map(|_| gen_witness(rng, false)).collect();
    let mut policies = gen_policies(rng);
    // Owner policy: mostly a valid owner-bearing input, sometimes absent / out of range (init must then fail)
    match rng.below(4) {
        0 => policies.set(PolicyType::Owner, None),
        1 => policies.set(PolicyType::Owner, Some(rng.below(n as u64 + 2))),
        2 => policies.set(PolicyType::Owner, Some(pidx as u64)),
        _ => {}
    }
    let tx: Transaction = match kind {
        0 => {
            let (sl, dl) = (blen(rng, false, false), blen(rng, false, false));
            let mut t = Transaction::script(rng.u64_biased(), rng.bytes(sl), rng.bytes(dl), policies, inputs, outputs, witnesses);
            *t.receipts_root_mut() = b32(rng).into();
            t.into()
        }
        1 => {
            let ns = rng.below(4) as usize;
            let slots = (0..ns).map(|_| StorageSlot::new(b32(rng).into(), b32(rng).into())).collect();
            Transaction::create(rng.below(nw as u64) as u16, policies, b32(rng).into(), slots, inputs, outputs, witnesses).into()
        }
        3 => Transaction::upgrade(UpgradePurpose::StateTransition { root: b32(rng).into() }, policies, inputs, outputs, witnesses).into(),
        4 => {
            let np = rng.below(5) as usize;
            let body = UploadBody { root: b32(rng).into(), witness_index: rng.u64_biased() as u16, subsection_index: rng.u64_biased() as u16,
                                    subsections_number: rng.u64_biased() as u16, proof_set: (0..np).map(|_| b32(rng).into()).collect() };
            Transaction::upload(body, policies, inputs, outputs, witnesses).into()
        }
        _ => Transaction::blob(fuel_tx::BlobBody { id: b32(rng).into(), witness_index: rng.u64_biased() as u16 }, policies, inputs, outputs, witnesses).into(),
    };
    (tx, pidx)
}

fn run_pred_case(rng: &mut Rng, kind: usize) -> Result<Run, String> {
    let (mut tx, pidx) = gen_pred_tx(rng, kind);
    let chain_id = match rng.below(3) { 0 => 0, 1 => rng.below(1000), _ => rng.next() };
    let gas_price = rng.u64_biased();
    let base_asset = rng.bytes32();
    let max_inputs = *rng.pick(&[8u16, 8, 16, 255]);
    let precomputed = rng.bool() && tx.precompute(&ChainId::new(chain_id)).is_ok();
    let as_tx = tx.clone();
    match tx {
        Transaction::Script(t) => run_predicate(t, as_tx, pidx, precomputed, chain_id, gas_price, base_asset, max_inputs),
        Transaction::Create(t) => run_predicate(t, as_tx, pidx, precomputed, chain_id, gas_price, base_asset, max_inputs),
        Transaction::Upgrade(t) => run_predicate(t, as_tx, pidx, precomputed, chain_id, gas_price, base_asset, max_inputs),
        Transaction::Upload(t) => run_predicate(t, as_tx, pidx, precomputed, chain_id, gas_price, base_asset, max_inputs),
        Transaction::Blob(t) => run_predicate(t, as_tx, pidx, precomputed, chain_id, gas_price, base_asset, max_inputs),
        Transaction::Mint(_) => Err("mint".into()),
    }
}

/// one interpreter REUSED for several transactions: state computed by an earlier init (owner
/// pointer, Output::Contract map, cached offsets) must not survive into the next one.
/// tx A: a single owner, the contract output first; tx B: two different owners and a coin output
/// before the contract output; tx C: single owner again, no contract at all.
fn run_reuse(rng: &mut Rng) -> Vec<Run> {
    let chain_id = rng.below(1000);
    let gas_price = rng.below(10);
    let base_asset = rng.bytes32();
    let max_inputs = 8u16;
    let ip = params_for(chain_id, gas_price, base_asset, max_inputs);
    let tx_offset = ip.tx_offset;
    let mut vm: Interpreter<MemoryInstance, MemoryStorage, fuel_tx::Script> = Interpreter::with_storage(MemoryInstance::new(), MemoryStorage::default(), ip);
    let owner_x: [u8; 32] = rng.bytes32();
    let owner_y: [u8; 32] = rng.bytes32();
    let pred = |rng: &mut Rng, owner: [u8; 32]| Input::coin_predicate(gen_utxo(rng), owner.into(), rng.below(1000), b32(rng).into(), gen_txptr(rng), 0, { let n = 1 + rng.below(20) as usize; rng.bytes(n) }, rng.bytes_upto(9));
    let signed = |rng: &mut Rng, owner: [u8; 32]| Input::coin_signed(gen_utxo(rng), owner.into(), rng.below(1000), b32(rng).into(), gen_txptr(rng), 0);
    let contract = |rng: &mut Rng| Input::contract(gen_utxo(rng), b32(rng).into(), b32(rng).into(), gen_txptr(rng), b32(rng).into());
    let mk = |rng: &mut Rng, inputs: Vec<Input>, outputs: Vec<Output>| -> fuel_tx::Script {
        let mut pol = fuel_tx::policies::Policies::new();
        pol.set(PolicyType::MaxFee, Some(rng.below(1000)));
        Transaction::script(rng.below(1 << 20), rng.bytes_upto(12), rng.bytes_upto(12), pol, inputs, outputs, vec![rng.bytes_upto(9).into()])
    };
    let (i1, i2, i3) = (pred(rng, owner_x), contract(rng), signed(rng, owner_x));
    let oa = vec![Output::contract(1, b32(rng).into(), b32(rng).into()), Output::coin(b32(rng).into(), 5, b32(rng).into())];
    let a = mk(rng, vec![i1, i2, i3], oa);
    let (j1, j2, j3, j4) = (pred(rng, owner_x), signed(rng, owner_y), contract(rng), contract(rng));
    let ob = vec![Output::coin(b32(rng).into(), 7, b32(rng).into()), Output::contract(3, b32(rng).into(), b32(rng).into()), Output::change(b32(rng).into(), 0, b32(rng).into())];
    let b = mk(rng, vec![j1, j2, j3, j4], ob);
    let k1 = pred(rng, owner_y);
    let oc = vec![Output::variable(b32(rng).into(), 0, b32(rng).into())];
    let c = mk(rng, vec![k1], oc);
    let mut runs = vec![];
    for (n, mut tx) in [a, b, c].into_iter().enumerate() {
        let precomputed = n != 1 && tx.precompute(&ChainId::new(chain_id)).is_ok();
        let Some(program) = RuntimePredicate::from_tx(&tx, tx_offset, 0) else { continue };
        match guarded(|| vm.init_predicate(Context::PredicateVerification { program }, tx.clone(), 10_000_000)) {
            Ok(Ok(())) => {}
            _ => continue,
        }
        let as_tx: Transaction = tx.clone().into();
        let prepared: Transaction = vm.transaction().clone().into();
        let size = prepared.size();
        let Ok(mem) = vm.memory().read(0usize, tx_offset + size).map(|m| m.to_vec()) else { continue };
        let obs = observe(&mut vm, true, counts_of(&as_tx));
        runs.push(Run { kind: 0, raw: as_tx, prepared, precomputed, chain_id, gas_price, base_asset, max_inputs, tx_offset, predicate: Some(0), mem, obs });
    }
    runs
}

fn push_case(out: &mut Out, run: &Run, label: &str) {
    let v = kind_val(&run.raw);
    let ctx = match run.predicate { Some(i) => format!("(CtxPredicateVerification {})", i), None => "CtxScript".into() };
    let obs: Vec<String> = run.obs.iter().map(|o| if o.is_gm { format!("(OGm {} {})", o.imm, o.res.coq()) } else { format!("(OGtf {} {} {})", o.imm, o.b, o.res.coq()) }).collect();
    let coq = format!("(gc {} {} {} {} {} {} {} {} {} {})", run.kind, v.coq(), coq_bool(run.precomputed), run.chain_id, run.gas_price, coq_pk(&run.base_asset),
                      run.max_inputs, ctx, coq_pk(&run.mem), coq_list(&obs));
    let panics = run.obs.iter().filter(|o| matches!(o.res, Res::Panic(_))).count();
    out.push(Case {
        coq,
        json: json!({"kind": "c05", "tx_kind": KIND_NAMES[run.kind], "context": if run.predicate.is_some() { "predicate" } else { "script" }, "precomputed": run.precomputed,
                     "max_inputs": run.max_inputs, "observations": run.obs.len(), "panics": panics, "memory_len": run.mem.len(), "val": v.json()}),
        key: format!("{}:{}:{}", run.kind, run.chain_id, hexs(&run.mem[..32])),
        nontrivial: run.obs.len() > 50,
        class: format!("{}/{}", KIND_NAMES[run.kind], label),
    });
}

fn run_all(args: &Args, out: &mut Out) {
    let mut rng = Rng::new(args.seed);
    let n_model = args.scale(3, 24);        // per kind (predicate context) ; script context: 2x
    let n_oracle = args.scale(30, 600);
    let mut init_failed = 0u64;
    for kind in [0usize, 1, 3, 4, 5] {
        let mut pushed = 0;
        for _ in 0..n_oracle.max(n_model) {
            match run_pred_case(&mut rng, kind) {
                Ok(run) => {
                    oracle(out, &run);
                    if pushed < n_model && !args.oracle_only { pushed += 1; push_case(out, &run, "predicate"); } else { out.count(&format!("oracle/{}/predicate", KIND_NAMES[kind])); }
                }
                Err(e) => {
                    init_failed += 1;
                    out.count(&format!("init-failed/{}", if e.contains("Owner") { "owner-policy-invalid" } else { "other" }));
                }
            }
        }
    }
    // a reused interpreter: owner pointer / contract-output map / cached offsets of an earlier transaction must not leak
    for i in 0..n_oracle {
        let runs = run_reuse(&mut rng);
        if runs.len() != 3 { out.count("init-failed/reuse"); }
        for (n, run) in runs.iter().enumerate() {
            oracle(out, run);
            if i == 0 && !args.oracle_only { push_case(out, run, &format!("reused-vm-{}", n)); } else { out.count("oracle/Script/reused-vm"); }
        }
    }
    let mut pushed = 0;
    for _ in 0..(2 * n_oracle).max(2 * n_model) {
        match run_script(&mut rng) {
            Ok(run) => {
                oracle(out, &run);
                if pushed < n_model + 1 && !args.oracle_only { pushed += 1; push_case(out, &run, "script"); } else { out.count("oracle/Script/script"); }
            }
            Err(e) => { init_failed += 1; out.count("init-failed/script"); if out.notes.len() < 3 { out.notes.push(format!("script build/init failed: {}", e)); } }
        }
    }
    out.notes.push(format!("{} generated transactions could not be initialised (invalid Owner policy: the VM reports a Bug error by design; or the builder refused the script)", init_failed));
}

fn main() {
    quiet_panics();
    let args = Args::parse();
    let mut out = Out::new();
    let header = "From Coq Require Import Uint63.\nFrom FV Require Import Base.Bytes Codec.Schema Gtf.GtfModel Run.Codec Run.Gtf.\nOpen Scope N_scope.";
    match args.prop.as_str() {
        "C05" => {
            if args.replay.is_some() {
                out.notes.push("replay: C05 cases are regenerated from the seed; the replay file names the failing class".into());
            }
            run_all(&args, &mut out);
            out.write(&args, header, "gtf_case", "bad_gtf");
        }
        p => {
            eprintln!("gtf: unknown property {p}");
            std::process::exit(2);
        }
    }
}
