//! C30 — execution touches only the state of contracts listed as inputs.
//!
//! Script transactions (hand-built programs on vmtrace's World / TxSpec / assembler, and vmtrace's
//! generated scenarios) run step by step over a recording storage (RecStorage).  The worlds hold
//! contracts that are inputs, contracts that are deployed but NOT listed, and ids that are not
//! deployed at all; scripts and contracts CALL / TR / BAL / CCP / CSIZ / CROO / LDC all of them,
//! MINT / BURN / SMO / TRO and use storage instructions inside and outside contracts.
//! Predicates: transactions with a predicate input whose code runs one probe instruction of every
//! contract-related class, through `check_predicates` and `estimate_predicates` with a recording
//! predicate storage.
//! Coq side (Run/Inputs.v): the model says what each instruction may touch and what its guard
//! answers; every step must be explained.
//! Oracle (directly on the implementation): every recorded access to ContractsRawCode /
//! ContractsState / ContractsAssets concerns a contract id among the transaction's contract
//! inputs; the executing contract is always an input; predicates make no such access and every
//! contract instruction is refused with ContractInstructionNotAllowed.
#[path = "../kvprobe.rs"]
mod kvprobe;
use fuel_asm::{op, GTFArgs, Instruction, PanicReason, RegId};
use fuel_storage::{Mappable, StorageInspect, StorageRead, StorageReadError, StorageSize};
use fuel_tx::{ConsensusParameters, Finalizable, Input, TransactionBuilder};
use fuel_types::canonical::Serialize as _;
use fuel_types::{AssetId, BlobId, BlockHeight, ContractId};
use fuel_vm::checked_transaction::{CheckPredicateParams, IntoChecked};
use fuel_vm::error::PredicateVerificationFailed;
use fuel_vm::interpreter::{predicates, MemoryInstance, NotSupportedEcal};
use fuel_vm::prelude::Call;
use fuel_vm::storage::predicate::PredicateStorageRequirements;
use fuel_vm::storage::{BlobBytes, BlobData, MemoryStorage};
use fvh::vmtrace::*;
use fvh::*;
use kvprobe::*;
use serde_json::{json, Value};
use std::borrow::Cow;
use std::cell::RefCell;
use std::collections::{BTreeMap, BTreeSet};

const T: [u8; 7] = R_TMP;
const CONTRACT_OPS: [&str; 26] = ["CALL", "LDC", "CCP", "CSIZ", "CROO", "BAL", "TR", "TRO", "MINT", "BURN", "SMO", "RET", "RETD",
    "SCWQ", "SRW", "SRWQ", "SWW", "SWWQ", "SCLR", "SRDD", "SRDI", "SWRD", "SWRI", "SUPD", "SUPI", "SPLD"];

// ------------------------------------------------------------------------------------------------
// scenario
// ------------------------------------------------------------------------------------------------
struct Scn { world: World, tx: TxSpec, note: String }

struct Lay { call_off: Vec<usize>, asset_off: usize, key_off: usize, addr_off: usize, blob_off: usize }

fn addr(out: &mut Vec<Asm>, t: u8, off: usize) {
    if off < 4096 { out.push(Asm::I(op::addi(t, R_DATA, off as u16))); }
    else { out.push(Asm::I(op::movi(t, off as u32))); out.push(Asm::I(op::add(t, t, R_DATA))); }
}

/// one contract-related item aimed at id slot `j` of the layout (any of: input, deployed-not-listed, undeployed)
fn item(rng: &mut Rng, out: &mut Vec<Asm>, lay: &Lay, j: usize, internal: bool, fault: bool) {
    let d = rng.range(0x10, 0x2F) as u8;
    let idp = |out: &mut Vec<Asm>, t: u8, rng: &mut Rng| {
        if fault && rng.chance(1, 3) { out.push(Asm::I(op::subi(t, RegId::HP, 64))); } else { addr(out, t, lay.call_off[j]); }
    };
    match rng.below(if internal { 16 } else { 12 }) {
        0 | 1 => { // CALL with coins 0 / small
            idp(out, T[0], rng);
            let coins = if rng.chance(1, 3) { rng.below(30) as u32 } else { 0 };
            out.push(Asm::I(op::movi(T[1], coins))); addr(out, T[2], lay.asset_off);
            out.push(Asm::I(op::call(T[0], T[1], T[2], RegId::CGAS)));
        }
        2 => { idp(out, T[1], rng); out.push(Asm::I(op::csiz(d, T[1]))); }
        3 => { idp(out, T[1], rng); out.push(Asm::I(op::addi(T[0], RegId::SSP, 64))); out.push(Asm::I(op::croo(T[0], T[1]))); }
        4 => { idp(out, T[1], rng); out.push(Asm::I(op::addi(T[0], RegId::SSP, 128))); out.push(Asm::I(op::movi(T[2], (rng.below(4) * 4) as u32)));
               out.push(Asm::I(op::movi(T[3], rng.below(40) as u32))); out.push(Asm::I(op::ccp(T[0], T[1], T[2], T[3]))); }
        5 | 6 => { addr(out, T[0], lay.asset_off); idp(out, T[1], rng); out.push(Asm::I(op::bal(d, T[0], T[1]))); }
        7 | 8 => { idp(out, T[0], rng); out.push(Asm::I(op::movi(T[1], if fault && rng.bool() { 0 } else { rng.range(1, 20) as u32 }))); addr(out, T[2], lay.asset_off);
                   out.push(Asm::I(op::tr(T[0], T[1], T[2]))); }
        9 if rng.chance(1, 3) => { addr(out, T[0], lay.addr_off); out.push(Asm::I(op::movi(T[1], 77))); out.push(Asm::I(op::movi(T[2], 3))); addr(out, T[3], lay.asset_off);
               out.push(Asm::I(op::tro(T[0], T[1], T[2], T[3]))); }     // output 77 does not exist: the debit is attempted first
        10 => { addr(out, T[0], lay.addr_off); addr(out, T[1], lay.blob_off); out.push(Asm::I(op::movi(T[2], rng.below(16) as u32))); out.push(Asm::I(op::movi(T[3], rng.below(5) as u32)));
                out.push(Asm::I(op::smo(T[0], T[1], T[2], T[3]))); }
        9 => out.push(Asm::I(op::noop())),
        11 => { // storage instruction (refused outside a contract)
                addr(out, T[0], lay.key_off + 32 * rng.below(3) as usize);
                match rng.below(4) { 0 => out.push(Asm::I(op::sww(T[0], d, RegId::ONE))), 1 => out.push(Asm::I(op::srw(d, d + 1, T[0], 0))),
                    2 => { out.push(Asm::I(op::movi(T[2], 2))); out.push(Asm::I(op::sclr(T[0], T[2]))) } _ => out.push(Asm::I(op::spld(d, T[0]))) } }
        12 | 13 => { addr(out, T[0], lay.key_off); out.push(Asm::I(op::movi(T[1], rng.range(1, 9) as u32))); out.push(Asm::I(if rng.chance(3, 4) { op::mint(T[1], T[0]) } else { op::burn(T[1], T[0]) })); }
        14 => { addr(out, T[0], lay.key_off + 32); addr(out, T[1], lay.blob_off); out.push(Asm::I(op::swri(T[0], T[1], 40))); }
        _ => { addr(out, T[0], lay.key_off + 32 * rng.below(3) as usize); out.push(Asm::I(op::addi(T[1], RegId::SSP, 256))); out.push(Asm::I(op::movi(T[2], 0)));
               out.push(Asm::I(op::srdi(T[1], T[0], T[2], 8))); }
    }
}

fn unit(rng: &mut Rng, lay: &Lay, n_ids: usize, floor: usize, good: &[usize], internal: bool, n_items: usize, risky_pm: u64) -> Vec<u32> {
    // risky targets: any id above `floor` (a contract never names itself or a lower id: no unbounded recursion)
    let pool: Vec<usize> = (floor..n_ids).collect();
    let mut out = vec![];
    out.push(Asm::I(op::gtf(R_DATA, 0u8, GTFArgs::ScriptData as u16)));
    // LDC needs an unallocated stack: before the frame is extended
    if rng.chance(1, 3) {
        let j = if rng.chance(risky_pm, 1000) && !pool.is_empty() { *rng.pick(&pool) } else { *rng.pick(good) };
        match rng.below(4) {
            0 | 1 => { addr(&mut out, T[0], lay.call_off[j]); out.push(Asm::I(op::movi(T[1], 0))); out.push(Asm::I(op::movi(T[2], rng.below(24) as u32))); out.push(Asm::I(op::ldc(T[0], T[1], T[2], 0))); }
            2 => { addr(&mut out, T[0], lay.blob_off); out.push(Asm::I(op::movi(T[1], 0))); out.push(Asm::I(op::movi(T[2], 8))); out.push(Asm::I(op::ldc(T[0], T[1], T[2], 1))); }   // blob id unknown: BlobNotFound
            _ => { addr(&mut out, T[0], lay.blob_off); out.push(Asm::I(op::movi(T[1], 0))); out.push(Asm::I(op::movi(T[2], 16))); out.push(Asm::I(op::ldc(T[0], T[1], T[2], 2))); }
        }
    }
    out.push(Asm::I(op::cfei(LOCAL)));
    out.push(Asm::I(op::movi(T[0], HEAPSZ)));
    out.push(Asm::I(op::aloc(T[0])));
    for _ in 0..n_items {
        let risky = rng.chance(risky_pm, 1000) && !pool.is_empty();
        let j = if risky { *rng.pick(&pool) } else { *rng.pick(good) };
        let flt = risky && rng.chance(1, 4);
        item(rng, &mut out, lay, j, internal, flt);
    }
    out.push(Asm::I(match rng.below(8) { 0 => op::retd(RegId::SSP, RegId::ONE), _ => op::ret(RegId::ONE) }));
    assemble(&out).expect("assemble")
}

fn hand_scn(rng: &mut Rng) -> Scn {
    let base = AssetId::from(rng.bytes32());
    let mut world = World::new(GasSchedule::Default, 9, vec![base]);
    // ids: 0..n_in inputs (deployed), then n_dep deployed-but-not-listed, then n_un undeployed
    let n_in = rng.range(1, 3) as usize; let n_dep = rng.range(1, 2) as usize; let n_un = 1usize;
    let n_ids = n_in + n_dep + n_un;
    let ids: Vec<ContractId> = (0..n_ids).map(|_| ContractId::from(rng.bytes32())).collect();
    let mut data = vec![]; let mut call_off = vec![];
    for c in &ids { call_off.push(data.len()); data.extend(Call::new(*c, 0, 0).to_bytes()); }
    let asset_off = data.len(); data.extend_from_slice(base.as_ref());
    let key_off = data.len(); for i in 0..3u8 { let mut k = [7u8; 32]; k[31] = i; data.extend(k); }
    let addr_off = data.len(); data.extend(rng.bytes32());
    let blob_off = data.len(); data.extend(rng.bytes(128));
    let lay = Lay { call_off, asset_off, key_off, addr_off, blob_off };
    let risky_pm = *rng.pick(&[0u64, 60, 150, 300]);
    let good: Vec<usize> = (0..n_in).collect();
    for i in 0..(n_in + n_dep) {
        // contracts call only higher-numbered ids (no unbounded recursion): restrict their good targets
        let g: Vec<usize> = good.iter().copied().filter(|&j| j > i).collect();
        let g = if g.is_empty() { vec![i] } else { g };
        let n_items = rng.range(2, 7) as usize;
        // a contract must not CALL itself: item() picks CALL with probability 1/8 per item; use ids > i only
        let mut words = unit(rng, &lay, n_ids, i + 1, &g, true, n_items, risky_pm);
        if g == vec![i] { // leaf: drop calls by regenerating without CALL (replace CALL words with NOOP)
            for w in words.iter_mut() { if (*w >> 24) as u8 == 0x2D { *w = u32::from_be_bytes(op::noop().into()); } }
        }
        world.deploy(ContractDef { id: ids[i], code: words_to_bytes(&words), balances: vec![(base, rng.range(50, 500))], slots: vec![([7u8; 32], rng.bytes(32))] });
    }
    let n_s = rng.range(3, 9) as usize;
    let swords = unit(rng, &lay, n_ids, 0, &good, false, n_s, risky_pm);
    let mut tx = TxSpec::new(words_to_bytes(&swords), data, 1_000_000);
    tx.key_seed = rng.next();
    tx.coins.push((base, 10_000));
    tx.contract_inputs = ids[..n_in].to_vec();
    tx.outputs.push(OutSpec::Change(base));
    Scn { world, tx, note: format!("hand in={n_in} dep={n_dep} risky={risky_pm}") }
}

/// Deterministic witnesses of the known finding (CALL reads the callee's code size before the input
/// check): a script calling (0) a deployed contract that is not listed, (1) an id that is not deployed.
fn witness_scn(which: usize) -> Scn {
    let base = AssetId::from([0x11; 32]);
    let mut world = World::new(GasSchedule::Default, 9, vec![base]);
    let listed = ContractId::from([0xA1; 32]); let unlisted = ContractId::from([0xB2; 32]); let undeployed = ContractId::from([0xC3; 32]);
    let ret = words_to_bytes(&[u32::from_be_bytes(op::ret(RegId::ONE).into())]);
    world.deploy(ContractDef { id: listed, code: ret.clone(), balances: vec![], slots: vec![] });
    world.deploy(ContractDef { id: unlisted, code: [ret.clone(), vec![0u8; 4 * 97]].concat(), balances: vec![], slots: vec![] });
    let mut data = vec![];
    data.extend(Call::new(if which == 0 { unlisted } else { undeployed }, 0, 0).to_bytes());
    let asset_off = data.len(); data.extend_from_slice(base.as_ref());
    let mut items = vec![Asm::I(op::gtf(R_DATA, 0u8, GTFArgs::ScriptData as u16))];
    addr(&mut items, T[0], 0); addr(&mut items, T[2], asset_off);
    items.push(Asm::I(op::call(T[0], RegId::ZERO, T[2], RegId::CGAS)));
    items.push(Asm::I(op::ret(RegId::ONE)));
    let mut tx = TxSpec::new(words_to_bytes(&assemble(&items).expect("assemble")), data, 1_000_000);
    tx.coins.push((base, 1000));
    tx.contract_inputs = vec![listed];
    Scn { world, tx, note: format!("hand witness call-{}", if which == 0 { "deployed-not-listed" } else { "undeployed" }) }
}

fn generated_scn(rng: &mut Rng) -> Scn {
    let mut cfg = GenCfg::default();
    cfg.n_contracts = rng.range(1, 3) as usize;
    cfg.unit_items = rng.range(8, 20) as usize;
    cfg.fault_per_mille = *rng.pick(&[3u64, 10, 30]);
    cfg.schedule = if rng.chance(1, 3) { GasSchedule::Unit } else { GasSchedule::Default };
    let mut scn = gen_scenario(rng, &cfg);
    if rng.chance(1, 3) && !scn.tx.contract_inputs.is_empty() { scn.tx.contract_inputs.pop(); }   // a deployed callee that is not listed
    Scn { world: scn.world, tx: scn.tx, note: "generated".into() }
}

// ------------------------------------------------------------------------------------------------
// probing
// ------------------------------------------------------------------------------------------------
#[derive(Clone, Debug, Default)]
struct Peek { relevant: bool, target: Option<[u8; 32]>, mode: u64 }

fn peek(vm: &Vm, pre: &Pre) -> Peek {
    let mut p = Peek::default();
    if pre.instr.is_none() { return p; }
    p.relevant = CONTRACT_OPS.contains(&pre.mnemonic.as_str());
    let v = pre.field_values(); let f = pre.fields();
    let ptr = match pre.mnemonic.as_str() { "CALL" | "LDC" | "TR" => Some(v[0]), "CCP" | "CSIZ" | "CROO" => Some(v[1]), "BAL" => Some(v[2]), _ => None };
    if pre.mnemonic == "LDC" { p.mode = f[3] as u64; }
    if let Some(a) = ptr { p.target = mem_read(vm.memory(), a, 32).ok().map(|b| b.try_into().unwrap()); }
    p
}

fn touch_of(e: &StorageEvent) -> Option<(u64, ContractId, u64)> {
    let t = match e.table { "ContractsRawCode" => 0, "ContractsState" => 1, "ContractsAssets" => 2, _ => return None };
    let c = e.contract()?;
    Some((t, c, if e.op == StorageOp::Read { 0 } else { 1 }))
}

fn run_scn(s: &Scn) -> Result<ProbeRun<Peek, ()>, String> {
    let ready = s.tx.build(&s.world)?;
    Ok(probe_run(&s.world, s.world.storage.clone(), ready, 20_000, |vm, pre| peek(vm, pre), |_, _, _, _| ()))
}

/// The same transaction on an interpreter that first executed a transaction listing EVERY deployed
/// contract of the world as an input (and doing nothing): the earlier transaction's input set must
/// not widen what this one may touch.
fn run_scn_reused(s: &Scn) -> Result<ProbeRun<Peek, ()>, String> {
    let mut warm = TxSpec::new(words_to_bytes(&instrs_to_words(&[op::ret(RegId::ONE)])), vec![], 100_000);
    warm.contract_inputs = s.world.contracts.iter().map(|c| c.id).collect();
    warm.key_seed = s.tx.key_seed ^ 0x5eed;
    let warm = warm.build(&s.world)?;
    let ready = s.tx.build(&s.world)?;
    Ok(probe_run_warm(&s.world, s.world.storage.clone(), vec![warm], ready, 20_000, |vm, pre| peek(vm, pre), |_, _, _, _| ()))
}

fn coq_touches(l: &mut Lits, ev: &[StorageEvent]) -> String {
    let mut seen = BTreeSet::new(); let mut out = vec![];
    for e in ev { if let Some((t, c, a)) = touch_of(e) { if seen.insert((t, c, a)) { out.push(format!("({t}, {}, {a})", l.k(c.as_ref()))); } } }
    coq_list(&out)
}
fn coq_ids(l: &mut Lits, ids: &[ContractId]) -> String { coq_list(&ids.iter().map(|c| l.k(c.as_ref())).collect::<Vec<_>>()) }

fn coq_tx(s: &Scn, r: &ProbeRun<Peek, ()>) -> String {
    let mut l = Lits::new();
    let mut steps = vec![]; let mut other = 0u64;
    for (pre, p, post, _) in &r.steps {
        let has_touch = post.storage.iter().any(|e| touch_of(e).is_some());
        if !(p.relevant || has_touch) { other += 1; continue; }
        let (oc, reason) = outcome_code(&post.outcome);
        let mut fr = pre.frames.clone(); fr.reverse();
        let mut fr2 = post.frames.clone(); fr2.reverse();
        let tgt = p.target.map(|t| l.k(&t));
        steps.push(format!("{{| is_op := {}; is_frames := {}; is_target := {}; is_mode := {}; is_outcome := {}; is_reason := {}; is_touches := {}; is_frames' := {} |}}",
            pre.opcode, coq_ids(&mut l, &fr), coq_opt(tgt), p.mode, oc, reason, coq_touches(&mut l, &post.storage), coq_ids(&mut l, &fr2)));
    }
    let init = coq_touches(&mut l, &r.init_events);
    let inputs = coq_ids(&mut l, &s.tx.contract_inputs);
    l.wrap(&format!("ITx {{| it_inputs := {}; it_init := {}; it_steps := {}; it_other_steps := {} |}}", inputs, init, coq_list(&steps), other))
}

fn oracle_tx(out: &mut Out, s: &Scn, r: &ProbeRun<Peek, ()>, replay: &Value) -> (u64, u64) {
    let inputs: BTreeSet<ContractId> = s.tx.contract_inputs.iter().copied().collect();
    let (mut foreign_targets, mut refusals) = (0u64, 0u64);
    for e in &r.init_events { if let Some((_, c, _)) = touch_of(e) { out.oracle_evaluations += 1;
        if !inputs.contains(&c) { out.oracle_fail("contract-state-access-outside-inputs-before-execution", &format!("{} {} on {}", e.table, e.method, hex::encode(c)), replay.clone()); } } }
    for (pre, p, post, _) in &r.steps {
        out.oracle_evaluations += 1;
        for c in pre.frames.iter().chain(post.frames.iter()) {
            if !inputs.contains(c) { out.oracle_fail("active-contract-not-in-inputs", &format!("step {} {}: contract {} executes but is not an input", pre.index, pre.mnemonic, hex::encode(c)), replay.clone()); }
        }
        if let Some(t) = p.target { if !inputs.contains(&ContractId::from(t)) { foreign_targets += 1; } }
        if post.outcome.panic_reason() == Some(PanicReason::ContractNotInInputs) { refusals += 1; }
        for e in &post.storage {
            let Some((_, c, _)) = touch_of(e) else { continue };
            if inputs.contains(&c) { continue; }
            let class = if pre.mnemonic == "CALL" && e.table == "ContractsRawCode" && e.method == "size_of_value" { "call-reads-code-size-of-contract-not-in-inputs" }
                        else { "contract-state-access-outside-inputs" };
            out.oracle_fail(class, &format!("step {} {}: {} {:?} {} on contract {} which is not among the contract inputs (outcome {})",
                pre.index, pre.mnemonic, e.table, e.op, e.method, hex::encode(c), post.outcome.name()), replay.clone());
        }
        // an instruction naming a non-input contract must not complete
        if let Some(t) = p.target { if !inputs.contains(&ContractId::from(t)) && !(pre.mnemonic == "LDC" && p.mode != 0) && post.outcome.panic_reason().is_none() {
            out.oracle_fail("instruction-on-non-input-contract-completed", &format!("step {} {} on {} completed", pre.index, pre.mnemonic, hex::encode(t)), replay.clone()); } }
    }
    (foreign_targets, refusals)
}

// ------------------------------------------------------------------------------------------------
// predicates
// ------------------------------------------------------------------------------------------------
/// Recording storage for predicates: by its type it can only ever be asked for blobs.
struct PredRec { inner: MemoryStorage, log: RefCell<Vec<String>> }
impl StorageInspect<BlobData> for PredRec {
    type Error = core::convert::Infallible;
    fn get(&self, key: &BlobId) -> Result<Option<Cow<'_, BlobBytes>>, Self::Error> { self.log.borrow_mut().push("BlobData.get".into()); StorageInspect::<BlobData>::get(&self.inner, key) }
    fn contains_key(&self, key: &BlobId) -> Result<bool, Self::Error> { self.log.borrow_mut().push("BlobData.contains_key".into()); StorageInspect::<BlobData>::contains_key(&self.inner, key) }
}
impl StorageSize<BlobData> for PredRec {
    fn size_of_value(&self, key: &BlobId) -> Result<Option<usize>, Self::Error> { self.log.borrow_mut().push("BlobData.size_of_value".into()); StorageSize::<BlobData>::size_of_value(&self.inner, key) }
}
impl StorageRead<BlobData> for PredRec {
    fn read_exact(&self, key: &<BlobData as Mappable>::Key, offset: usize, buf: &mut [u8]) -> Result<Result<usize, StorageReadError>, Self::Error> {
        self.log.borrow_mut().push("BlobData.read_exact".into()); StorageRead::<BlobData>::read_exact(&self.inner, key, offset, buf) }
    fn read_zerofill(&self, key: &<BlobData as Mappable>::Key, offset: usize, buf: &mut [u8]) -> Result<Result<usize, StorageReadError>, Self::Error> {
        self.log.borrow_mut().push("BlobData.read_zerofill".into()); StorageRead::<BlobData>::read_zerofill(&self.inner, key, offset, buf) }
    fn read_alloc(&self, key: &<BlobData as Mappable>::Key) -> Result<Option<Vec<u8>>, Self::Error> { self.log.borrow_mut().push("BlobData.read_alloc".into()); StorageRead::<BlobData>::read_alloc(&self.inner, key) }
}
impl PredicateStorageRequirements for PredRec {
    fn storage_error_to_string(error: Self::Error) -> String { format!("{error:?}") }
}

/// (mnemonic, probe instruction, LDC mode)
fn predicate_probes() -> Vec<(&'static str, Instruction, u64)> {
    let (a, b, c, d) = (0x10u8, 0x11u8, 0x12u8, 0x13u8);
    vec![
        ("CALL", op::call(a, RegId::ZERO, a, RegId::CGAS), 0), ("LDC", op::ldc(a, RegId::ZERO, b, 0), 0), ("LDC", op::ldc(a, RegId::ZERO, b, 1), 1), ("LDC", op::ldc(a, RegId::ZERO, b, 2), 2),
        ("CCP", op::ccp(c, a, RegId::ZERO, b), 0), ("CSIZ", op::csiz(d, a), 0), ("CROO", op::croo(c, a), 0), ("BAL", op::bal(d, a, a), 0),
        ("TR", op::tr(a, RegId::ONE, a), 0), ("TRO", op::tro(a, RegId::ZERO, RegId::ONE, a), 0), ("MINT", op::mint(RegId::ONE, a), 0), ("BURN", op::burn(RegId::ONE, a), 0),
        ("SMO", op::smo(a, a, RegId::ZERO, RegId::ZERO), 0), ("RETD", op::retd(a, RegId::ONE), 0),
        ("SCWQ", op::scwq(a, d, RegId::ONE), 0), ("SRW", op::srw(d, 0x14, a, 0), 0), ("SRWQ", op::srwq(c, d, a, RegId::ONE), 0), ("SWW", op::sww(a, d, RegId::ONE), 0),
        ("SWWQ", op::swwq(a, d, a, RegId::ONE), 0), ("SCLR", op::sclr(a, RegId::ONE), 0), ("SRDD", op::srdd(c, a, RegId::ZERO, RegId::ONE), 0), ("SRDI", op::srdi(c, a, RegId::ZERO, 1), 0),
        ("SWRD", op::swrd(a, a, RegId::ONE), 0), ("SWRI", op::swri(a, a, 1), 0), ("SUPD", op::supd(a, a, RegId::ZERO, RegId::ONE), 0), ("SUPI", op::supi(a, a, RegId::ZERO, 1), 0),
        ("SPLD", op::spld(d, a), 0),
        // instructions a predicate may run (no contract state): must NOT be refused as contract instructions
        ("BSIZ", op::bsiz(d, a), 0), ("ADD", op::add(d, a, b), 0), ("GTF", op::gtf(d, RegId::ZERO, GTFArgs::ScriptGasLimit as u16), 0), ("RET", op::ret(RegId::ONE), 0),
        // other contract-world instructions a predicate may not run
        ("LOG", op::log(a, a, a, a), 0), ("BHEI", op::bhei(d), 0), ("TIME", op::time(d, RegId::ZERO), 0), ("CB", op::cb(c), 0),
    ]
}

struct PredObs { entry: u64, verdict: u64, reason: u64, instr_op: u64, calls: u64, text: String }

fn run_predicate(world: &World, probe: Instruction, entry: u64) -> Result<PredObs, String> {
    use rand::{rngs::StdRng, Rng as _, SeedableRng};
    let mut r = StdRng::seed_from_u64(7);
    // a = pointer to 32 readable bytes (tx id at address 0), b = 8, c = writable local address
    let code: Vec<Instruction> = vec![op::movi(0x10, 0), op::movi(0x11, 8), op::cfei(64), op::move_(0x12, RegId::SSP), op::cfsi(0), probe, op::ret(RegId::ONE)];
    let bytes: Vec<u8> = code.iter().flat_map(|i| { let w: [u8; 4] = (*i).into(); w }).collect();
    let owner = Input::predicate_owner(&bytes);
    let asset: AssetId = *world.params.base_asset_id();
    let input = Input::coin_predicate(r.r#gen(), owner, 1000, asset, r.r#gen(), 100_000, bytes, vec![]);
    let mut b = TransactionBuilder::script(vec![], vec![]);
    b.with_params(world.params.clone());
    b.script_gas_limit(1000).max_fee_limit(0).add_input(input);
    let mut tx = b.finalize();
    let params: CheckPredicateParams = (&world.params).into();
    let st = PredRec { inner: world.storage.clone(), log: RefCell::new(vec![]) };
    let res: Result<(), PredicateVerificationFailed> = if entry == 0 {
        let checked = tx.into_checked_basic(BlockHeight::from(world.block_height), &world.params).map_err(|e| format!("{e:?}"))?;
        predicates::check_predicates(&checked, &params, MemoryInstance::new(), &st, NotSupportedEcal).map(|_| ())
    } else {
        predicates::estimate_predicates(&mut tx, &params, MemoryInstance::new(), &st, NotSupportedEcal).map(|_| ())
    };
    let calls = st.log.borrow().iter().filter(|x| !x.starts_with("BlobData")).count() as u64;
    let (verdict, reason, instr_op) = match &res {
        Ok(()) => (0, 0, 0),
        Err(PredicateVerificationFailed::PanicInstruction { instruction, .. }) => (1, *instruction.reason() as u8 as u64, (*instruction.instruction() >> 24) as u64),
        Err(PredicateVerificationFailed::Panic { reason, .. }) => (2, *reason as u8 as u64, 0),
        Err(PredicateVerificationFailed::Storage { .. }) => (3, 0, 0),
        Err(_) => (4, 0, 0),
    };
    Ok(PredObs { entry, verdict, reason, instr_op, calls, text: format!("{res:?}") })
}

// ------------------------------------------------------------------------------------------------
fn scn_json(s: &Scn) -> Value {
    json!({"kind": "inputs-tx", "note": s.note,
           "scenario": Scenario { world: s.world.clone(), tx: s.tx.clone(), layout: DataLayout::new(&mut Rng::new(0), &[], &[], 0), units: vec![], seed_note: String::new() }.to_json()})
}

fn process_tx(out: &mut Out, s: &Scn, idx: usize) {
    let replay = scn_json(s);
    let r = match guarded(|| run_scn(s)) {
        Ok(Ok(r)) => r,
        Ok(Err(e)) => { out.count("build-error"); if out.notes.len() < 3 { out.notes.push(format!("tx {idx}: {e}")); } return; }
        Err(p) => { out.oracle_fail("host-panic", &format!("tx {idx}: host panic {p}"), replay); return; }
    };
    // the same transaction through vmtrace::trace: the two steppers must agree
    match guarded(|| trace(&s.world, &s.tx, &TraceOpts { max_steps: 20_000, mem_diff: false, storage: true, frames: false })) {
        Ok(Ok(t)) => { let d = cross_check(&t, &r); if !d.is_empty() { out.count("probe-differs-from-vmtrace"); if out.notes.len() < 5 { out.notes.push(format!("tx {idx}: probe vs vmtrace::trace: {d:?}")); } } else { out.count("probe-agrees-with-vmtrace"); } }
        _ => out.count("vmtrace-trace-failed"),
    }
    let (foreign, refusals) = oracle_tx(out, s, &r, &replay);
    // the same transaction on a reused interpreter whose previous transaction listed every deployed contract
    match guarded(|| run_scn_reused(s)) {
        Ok(Ok(r2)) => {
            let mut rj = replay.clone(); rj["reused_after_all_contracts_warmup"] = json!(true);
            let _ = oracle_tx(out, s, &r2, &rj);
            let sig = |r: &ProbeRun<Peek, ()>| r.steps.iter().map(|(pre, _, post, _)| (pre.pc, pre.raw, post.outcome.name())).collect::<Vec<_>>();
            out.oracle_evaluations += 1;
            if sig(&r) != sig(&r2) {
                let (a, b) = (sig(&r), sig(&r2));
                let k = a.iter().zip(b.iter()).position(|(x, y)| x != y).unwrap_or(a.len().min(b.len()));
                out.oracle_fail("reused-vm-run-differs-from-fresh-vm", &format!("tx {idx}: first difference at step {k}: fresh {:?} / reused {:?}", a.get(k), b.get(k)), rj);
            }
            out.count("reused-vm-runs");
        }
        Ok(Err(e)) => { out.count("reused-build-error"); if out.notes.len() < 5 { out.notes.push(format!("tx {idx} (reused): {e}")); } }
        Err(p) => { out.oracle_fail("host-panic", &format!("tx {idx} (reused vm): host panic {p}"), replay.clone()); }
    }
    let mut ops: BTreeMap<String, u64> = BTreeMap::new();
    let mut touches = 0u64;
    for (pre, p, post, _) in &r.steps {
        if p.relevant { *ops.entry(pre.mnemonic.clone()).or_insert(0) += 1; }
        touches += post.storage.iter().filter(|e| touch_of(e).is_some()).count() as u64;
        if let Some(reason) = post.outcome.panic_reason() { if p.relevant { *out.dist.entry(format!("panic:{reason:?}@{}", pre.mnemonic)).or_insert(0) += 1; } }
    }
    for (k, v) in &ops { *out.dist.entry(format!("op:{k}")).or_insert(0) += v; }
    *out.dist.entry("steps".into()).or_insert(0) += r.steps.len() as u64;
    *out.dist.entry("contract-table-accesses".into()).or_insert(0) += touches;
    *out.dist.entry("instructions-naming-a-non-input-contract".into()).or_insert(0) += foreign;
    *out.dist.entry("ContractNotInInputs-refusals".into()).or_insert(0) += refusals;
    let coq = coq_tx(s, &r);
    let key = format!("{:x}", { use sha2::Digest; sha2::Sha256::digest(coq.as_bytes()) });
    out.push(Case { coq, json: json!({"note": s.note, "steps": r.steps.len(), "ops": ops, "foreign_targets": foreign, "refusals": refusals, "final": format!("{:?}", r.final_state)}),
                    key, nontrivial: touches >= 2 && ops.len() >= 2, class: if s.note.starts_with("hand") { "tx-hand-built".into() } else { "tx-generated".into() } });
}

fn process_predicates(out: &mut Out, rng: &mut Rng) {
    let base = AssetId::from(rng.bytes32());
    let mut world = World::new(GasSchedule::Default, 3, vec![base]);
    world.deploy(ContractDef { id: ContractId::zeroed(), code: vec![0u8; 8], balances: vec![(base, 5)], slots: vec![([0u8; 32], vec![1u8; 32])] });
    let _ = ConsensusParameters::standard();
    for (name, probe, mode) in predicate_probes() {
        for entry in 0..2u64 {
            out.oracle_evaluations += 1;
            let raw = u32::from_be_bytes(probe.into());
            let replay = json!({"kind": "inputs-predicate", "probe": raw, "entry": entry});
            let obs = match guarded(|| run_predicate(&world, probe, entry)) {
                Ok(Ok(o)) => o,
                Ok(Err(e)) => { out.count("predicate-build-error"); if out.notes.len() < 5 { out.notes.push(format!("predicate {name}: {e}")); } continue; }
                Err(p) => { out.oracle_fail("host-panic", &format!("predicate {name}: host panic {p}"), replay); continue; }
            };
            if obs.calls > 0 { out.oracle_fail("predicate-touches-contract-state", &format!("predicate probe {name}: {} storage calls on contract tables", obs.calls), replay.clone()); }
            let allowed = fuel_asm::Opcode::try_from((raw >> 24) as u8).map(|o| o.is_predicate_allowed()).unwrap_or(false);
            let contract_instr = !allowed || (name == "LDC" && mode == 0);
            // estimate_predicates measures gas and does not report a failing predicate: only verification must refuse
            if entry == 0 && contract_instr && !(obs.verdict == 1 && obs.reason == PanicReason::ContractInstructionNotAllowed as u8 as u64) {
                out.oracle_fail("predicate-executes-contract-instruction", &format!("predicate probe {name} (entry {entry}): {}", obs.text), replay.clone());
            }
            *out.dist.entry(format!("predicate:{}", if obs.reason == PanicReason::ContractInstructionNotAllowed as u8 as u64 { "refused" } else { "not-refused" })).or_insert(0) += 1;
            let coq = format!("IPred {{| ip_op := {}; ip_mode := {}; ip_entry := {}; ip_verdict := {}; ip_reason := {}; ip_instr_op := {}; ip_storage_calls := {} |}}",
                raw >> 24, mode, obs.entry, obs.verdict, obs.reason, obs.instr_op, obs.calls);
            out.push(Case { coq, json: json!({"predicate_probe": name, "mode": mode, "entry": entry, "result": obs.text}), key: format!("pred-{name}-{mode}-{entry}"), nontrivial: true, class: "predicate".into() });
        }
    }
}

fn main() {
    quiet_panics();
    let args = Args::parse();
    if args.prop != "C30" { eprintln!("inputs: unknown property {}", args.prop); std::process::exit(2); }
    let mut out = Out::new();
    if let Some(f) = &args.replay {
        let v = read_replay(f);
        if v["kind"] == "inputs-predicate" {
            let raw = v["probe"].as_u64().unwrap_or(0) as u32;
            let mut rng = Rng::new(1);
            let base = AssetId::from(rng.bytes32());
            let world = World::new(GasSchedule::Default, 3, vec![base]);
            if let Ok(i) = Instruction::try_from(raw.to_be_bytes()) { let o = run_predicate(&world, i, v["entry"].as_u64().unwrap_or(0)); println!("{:?}", o.map(|o| o.text)); }
        } else {
            let scn = Scenario::from_json(&v["scenario"]).expect("replay scenario");
            process_tx(&mut out, &Scn { world: scn.world, tx: scn.tx, note: v["note"].as_str().unwrap_or("replay").into() }, 0);
        }
    } else {
        let mut rng = Rng::new(args.seed ^ 0x30);
        process_predicates(&mut out, &mut rng);
        for w in 0..2 { let s = witness_scn(w); process_tx(&mut out, &s, w); }
        let n_hand = args.scale(140, 2000);
        let n_gen = args.scale(50, 600);
        for i in 0..n_hand { let s = hand_scn(&mut rng); process_tx(&mut out, &s, i); }
        for i in 0..n_gen { let s = generated_scn(&mut rng); process_tx(&mut out, &s, n_hand + i); }
    }
    out.write(&args, "From Coq Require Import Uint63.\nFrom FV Require Import Base.Bytes Vm.InputsModel Run.KvLit Run.Inputs.\nOpen Scope N_scope.", "icase", "bad_icases");
}
