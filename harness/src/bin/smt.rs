//! Sparse Merkle family (C12, C13, C14): run the real fuel-merkle sparse tree, print cases
//! for the Gallina L1 model (Run/Smt.v), and check the properties directly on the
//! implementation with independent reference computations (oracles).
use fuel_merkle::common::{Bytes32, StorageMap};
use fuel_merkle::sparse::proof::{ExclusionLeaf, ExclusionLeafData, ExclusionProof, InclusionProof, Proof};
use fuel_merkle::sparse::{in_memory, MerkleTree, MerkleTreeError, MerkleTreeKey, Primitive};
use fuel_merkle::storage::{Mappable, StorageMutate};
use fvh::*;
use serde_json::{json, Value};
use sha2::{Digest, Sha256};
use std::collections::BTreeMap;

#[derive(Debug, Clone)]
struct Tbl;
impl Mappable for Tbl {
    type Key = Self::OwnedKey;
    type OwnedKey = Bytes32;
    type OwnedValue = Primitive;
    type Value = Self::OwnedValue;
}
type Store = StorageMap<Tbl>;
type Tree = MerkleTree<Tbl, Store>;
type K = [u8; 32];
const ZERO: K = [0u8; 32];

fn mk(k: &K) -> MerkleTreeKey {
    // the un-hashed constructor: the adversarial key clusters are the point of the check
    unsafe { MerkleTreeKey::convert(*k) }
}

// ------------------------------------------------------------------ independent reference
fn sha(parts: &[&[u8]]) -> K {
    let mut h = Sha256::new();
    for p in parts {
        h.update(p);
    }
    h.finalize().into()
}
fn h_leaf(k: &K, vh: &K) -> K {
    sha(&[&[0u8], k, vh])
}
fn h_node(l: &K, r: &K) -> K {
    sha(&[&[1u8], l, r])
}
fn bit(k: &K, i: usize) -> bool {
    (k[i / 8] >> (7 - (i % 8))) & 1 == 1
}
/// compact sparse Merkle root of `es` (sorted by key, distinct keys sharing their first `depth` bits)
fn ref_root(es: &[(K, K)], depth: usize) -> K {
    match es.len() {
        0 => ZERO,
        1 => h_leaf(&es[0].0, &es[0].1),
        _ => {
            let split = es.partition_point(|e| !bit(&e.0, depth));
            h_node(&ref_root(&es[..split], depth + 1), &ref_root(&es[split..], depth + 1))
        }
    }
}
type RefMap = BTreeMap<K, K>; // key -> H(value)
fn ref_root_of(m: &RefMap) -> K {
    let es: Vec<(K, K)> = m.iter().map(|(k, v)| (*k, *v)).collect();
    ref_root(&es, 0)
}
/// reference proof: side nodes TOP-DOWN along `key` until the subtree has <= 1 entry, and what is there
fn ref_proof(es: &[(K, K)], key: &K, depth: usize, sides: &mut Vec<K>) -> Option<(K, K)> {
    match es.len() {
        0 => None,
        1 => Some(es[0]),
        _ => {
            let split = es.partition_point(|e| !bit(&e.0, depth));
            let (l, r) = (&es[..split], &es[split..]);
            if bit(key, depth) {
                sides.push(ref_root(l, depth + 1));
                ref_proof(r, key, depth + 1, sides)
            } else {
                sides.push(ref_root(r, depth + 1));
                ref_proof(l, key, depth + 1, sides)
            }
        }
    }
}
/// recomputation of the root from the digest at the end of the path; sides TOP-DOWN
fn ref_path_root(key: &K, depth: usize, sides_td: &[K], cur: K) -> Option<K> {
    match sides_td.split_first() {
        None => Some(cur),
        Some((s, rest)) => {
            if depth >= 256 {
                return None;
            }
            let sub = ref_path_root(key, depth + 1, rest, cur)?;
            Some(if bit(key, depth) { h_node(s, &sub) } else { h_node(&sub, s) })
        }
    }
}

// ------------------------------------------------------------------ operations
#[derive(Clone, Debug)]
enum Op {
    Upd(K, Vec<u8>),
    Del(K),
    Load,
    LoadAt(K),
    Prove(K),
    Remove(K),
    Put(K, u32, u8, K, K),
    FromSet(Vec<(K, Vec<u8>)>),
    FromNodes(Vec<(K, Vec<u8>)>),
}
#[derive(Clone, Debug, PartialEq, Eq)]
enum Res {
    Root(K),
    Err(u64, K),
    Incl(Vec<K>),
    Excl(Vec<K>, Option<(K, K)>),
}

fn err_code<E: std::fmt::Debug>(e: &MerkleTreeError<E>) -> u64 {
    let s = format!("{:?}", e);
    if s.starts_with("LoadError") {
        1
    } else if s.starts_with("ChildError(ChildNotFound") {
        2
    } else if s.starts_with("ChildError(NodeIsLeaf") {
        3
    } else if s.starts_with("DeserializeError") || s.starts_with("ChildError(Error(DeserializeError") {
        4
    } else {
        9
    }
}

fn kv_json(s: &[(K, Vec<u8>)]) -> Value {
    json!(s.iter().map(|(k, v)| json!([hexs(k), hexs(v)])).collect::<Vec<_>>())
}
fn op_json(o: &Op) -> Value {
    match o {
        Op::Upd(k, v) => json!(["U", hexs(k), hexs(v)]),
        Op::Del(k) => json!(["D", hexs(k)]),
        Op::Load => json!(["L"]),
        Op::LoadAt(r) => json!(["LA", hexs(r)]),
        Op::Prove(k) => json!(["P", hexs(k)]),
        Op::Remove(d) => json!(["R", hexs(d)]),
        Op::Put(d, h, p, lo, hi) => json!(["PUT", hexs(d), h, p, hexs(lo), hexs(hi)]),
        Op::FromSet(s) => json!(["FS", kv_json(s)]),
        Op::FromNodes(s) => json!(["FN", kv_json(s)]),
    }
}
fn k_of(v: &Value) -> K {
    let b = hex::decode(v.as_str().unwrap()).unwrap();
    let mut k = [0u8; 32];
    k.copy_from_slice(&b);
    k
}
fn kv_of(v: &Value) -> Vec<(K, Vec<u8>)> {
    v.as_array().unwrap().iter().map(|e| (k_of(&e[0]), hex::decode(e[1].as_str().unwrap()).unwrap())).collect()
}
fn op_of(v: &Value) -> Op {
    match v[0].as_str().unwrap() {
        "U" => Op::Upd(k_of(&v[1]), hex::decode(v[2].as_str().unwrap()).unwrap()),
        "D" => Op::Del(k_of(&v[1])),
        "L" => Op::Load,
        "LA" => Op::LoadAt(k_of(&v[1])),
        "P" => Op::Prove(k_of(&v[1])),
        "R" => Op::Remove(k_of(&v[1])),
        "PUT" => Op::Put(k_of(&v[1]), v[2].as_u64().unwrap() as u32, v[3].as_u64().unwrap() as u8, k_of(&v[4]), k_of(&v[5])),
        "FS" => Op::FromSet(kv_of(&v[1])),
        "FN" => Op::FromNodes(kv_of(&v[1])),
        x => panic!("unknown op {x}"),
    }
}
fn ops_json(ops: &[Op]) -> Value {
    json!(ops.iter().map(op_json).collect::<Vec<_>>())
}

fn coq_k(k: &K) -> String {
    coq_bytes(k)
}
fn coq_ks(ks: &[K]) -> String {
    coq_list(&ks.iter().map(coq_k).collect::<Vec<_>>())
}
fn coq_kvs(s: &[(K, Vec<u8>)]) -> String {
    coq_list(&s.iter().map(|(k, v)| coq_pair(&coq_k(k), &coq_bytes(v))).collect::<Vec<_>>())
}
fn coq_leaf(l: &Option<(K, K)>) -> String {
    match l {
        Some((k, v)) => format!("(Some ({}, {}))", coq_k(k), coq_k(v)),
        None => "None".into(),
    }
}
fn coq_op(o: &Op) -> String {
    match o {
        Op::Upd(k, v) => format!("OUpd {} {}", coq_k(k), coq_bytes(v)),
        Op::Del(k) => format!("ODel {}", coq_k(k)),
        Op::Load => "OLoad".into(),
        Op::LoadAt(r) => format!("OLoadAt {}", coq_k(r)),
        Op::Prove(k) => format!("OProve {}", coq_k(k)),
        Op::Remove(d) => format!("ORemove {}", coq_k(d)),
        Op::Put(d, h, p, lo, hi) => format!("OPut {} {} {} {} {}", coq_k(d), h, p, coq_k(lo), coq_k(hi)),
        Op::FromSet(s) => format!("OFromSet {}", coq_kvs(s)),
        Op::FromNodes(s) => format!("OFromNodes {}", coq_kvs(s)),
    }
}
fn coq_res(r: &Res) -> String {
    match r {
        Res::Root(r) => format!("RRoot {}", coq_k(r)),
        Res::Err(c, r) => format!("RErr {} {}", c, coq_k(r)),
        Res::Incl(ps) => format!("RIncl {}", coq_ks(ps)),
        Res::Excl(ps, l) => format!("RExcl {} {}", coq_ks(ps), coq_leaf(l)),
    }
}

fn proof_res(p: &Proof) -> Res {
    match p {
        Proof::Inclusion(ip) => Res::Incl(ip.proof_set.clone()),
        Proof::Exclusion(ep) => Res::Excl(
            ep.proof_set.clone(),
            match &ep.leaf {
                ExclusionLeaf::Leaf(d) => Some((d.leaf_key, d.leaf_value)),
                ExclusionLeaf::Placeholder => None,
            },
        ),
    }
}

fn load_or_new(st: Store, r: &K) -> (Tree, Res) {
    // MerkleTree::load consumes the storage; keep a copy to continue after an error
    let keep = st.clone();
    match Tree::load(st, r) {
        Ok(t) => {
            let root = t.root();
            (t, Res::Root(root))
        }
        Err(e) => (Tree::new(keep), Res::Err(err_code(&e), ZERO)),
    }
}

/// apply one operation to the real tree
fn apply(mut t: Tree, op: &Op) -> (Tree, Res) {
    match op {
        Op::Upd(k, v) => {
            let r = t.insert(mk(k), v);
            let root = t.root();
            match r {
                Ok(()) => (t, Res::Root(root)),
                Err(e) => (t, Res::Err(err_code(&e), root)),
            }
        }
        Op::Del(k) => {
            let r = t.delete(mk(k));
            let root = t.root();
            match r {
                Ok(()) => (t, Res::Root(root)),
                Err(e) => (t, Res::Err(err_code(&e), root)),
            }
        }
        Op::Load => {
            let root = t.root();
            load_or_new(t.into_storage(), &root)
        }
        Op::LoadAt(r) => load_or_new(t.into_storage(), r),
        Op::Prove(k) => {
            let root = t.root();
            match t.generate_proof(&mk(k)) {
                Ok(p) => {
                    let r = proof_res(&p);
                    (t, r)
                }
                Err(e) => (t, Res::Err(err_code(&e), root)),
            }
        }
        Op::Remove(d) => {
            // tamper with the persisted nodes, then restart from them (load at the old root)
            let root = t.root();
            let mut st = t.into_storage();
            StorageMutate::<Tbl>::remove(&mut st, d).unwrap();
            load_or_new(st, &root)
        }
        Op::Put(d, h, p, lo, hi) => {
            let root = t.root();
            let mut st = t.into_storage();
            StorageMutate::<Tbl>::insert(&mut st, d, &(*h, *p, *lo, *hi)).unwrap();
            load_or_new(st, &root)
        }
        Op::FromSet(s) => {
            drop(t);
            let t2 = Tree::from_set(Store::new(), s.iter().map(|(k, v)| (*k, v.clone()))).unwrap();
            let root = t2.root();
            (t2, Res::Root(root))
        }
        Op::FromNodes(s) => {
            drop(t);
            let (root, nodes) = in_memory::MerkleTree::nodes_from_set(s.iter().map(|(k, v)| (mk(k), v.clone())));
            let mut st = Store::new();
            for (k, p) in nodes.iter() {
                StorageMutate::<Tbl>::insert(&mut st, k, p).unwrap();
            }
            load_or_new(st, &root)
        }
    }
}

struct Run {
    results: Vec<Res>,
    store_len: usize,
    tree: Tree,
}

/// run a history on the real storage-backed tree; Err = a host panic (reported by the caller)
fn run_hist(ops: &[Op]) -> Result<Run, String> {
    guarded(|| {
        let mut t = Tree::new(Store::new());
        let mut results = vec![];
        for op in ops {
            let (t2, r) = apply(t, op);
            t = t2;
            results.push(r);
        }
        let n = t.storage().len();
        Run { results, store_len: n, tree: t }
    })
}

fn tamper_free(ops: &[Op]) -> bool {
    !ops.iter().any(|o| matches!(o, Op::Remove(_) | Op::Put(..) | Op::LoadAt(_)))
}

/// the reference map after each op (only for tamper-free histories)
fn ref_maps(ops: &[Op]) -> Vec<RefMap> {
    let mut m = RefMap::new();
    let mut out = vec![];
    for op in ops {
        match op {
            Op::Upd(k, v) => {
                m.insert(*k, sha(&[v]));
            }
            Op::Del(k) => {
                m.remove(k);
            }
            Op::FromSet(s) | Op::FromNodes(s) => {
                m.clear();
                for (k, v) in s {
                    m.insert(*k, sha(&[v]));
                }
            }
            _ => {}
        }
        out.push(m.clone());
    }
    out
}

fn hist_replay(ops: &[Op]) -> Value {
    json!({"kind":"hist","ops":ops_json(ops)})
}

/// C12 oracle: after every op the root equals the independent compact-SMT root of the map the
/// history has left behind; the in-memory wrapper agrees.
fn oracle_roots(out: &mut Out, ops: &[Op], run: &Run) {
    if !tamper_free(ops) {
        return;
    }
    out.oracle_evaluations += 1;
    let maps = ref_maps(ops);
    for (i, (r, m)) in run.results.iter().zip(maps.iter()).enumerate() {
        let want = ref_root_of(m);
        match r {
            Res::Root(got) if *got == want => {}
            Res::Incl(_) | Res::Excl(..) => {}
            other => {
                out.oracle_fail(
                    "root-differs-from-reference-map-root",
                    &format!("after op {} ({:?}) the tree reports {:?}, the compact sparse Merkle root of the resulting map is {}", i, ops[i], other, hexs(&want)),
                    hist_replay(ops),
                );
                return;
            }
        }
    }
    // in_memory::MerkleTree (update/delete ignore errors) must agree when there is no reload op
    if ops.iter().all(|o| matches!(o, Op::Upd(..) | Op::Del(_) | Op::Prove(_))) {
        let im = guarded(|| {
            let mut im = in_memory::MerkleTree::new();
            let mut roots = vec![];
            for op in ops {
                match op {
                    Op::Upd(k, v) => im.update(mk(k), v),
                    Op::Del(k) => im.delete(mk(k)),
                    _ => {}
                }
                roots.push(im.root());
            }
            roots
        });
        match im {
            Err(p) => out.oracle_fail("panic", &format!("in_memory tree panicked: {p}"), hist_replay(ops)),
            Ok(roots) => {
                for (i, m) in maps.iter().enumerate() {
                    if roots[i] != ref_root_of(m) {
                        out.oracle_fail("in-memory-root-differs-from-reference-map-root", &format!("in_memory root after op {}", i), hist_replay(ops));
                        return;
                    }
                }
            }
        }
    }
}

/// C14 oracle on one tree: generated proof kind == membership, equals the reference proof,
/// verifies; the stored value is the only one accepted.
fn oracle_proofs(out: &mut Out, t: &Tree, m: &RefMap, keys: &[K], values: &BTreeMap<K, Vec<u8>>, ctx: &Value) {
    let es: Vec<(K, K)> = m.iter().map(|(k, v)| (*k, *v)).collect();
    let root = t.root();
    for k in keys {
        out.oracle_evaluations += 1;
        let p = match guarded(|| t.generate_proof(&mk(k))) {
            Err(pn) => {
                out.oracle_fail("panic", &format!("generate_proof panicked: {pn}"), ctx.clone());
                continue;
            }
            Ok(Err(e)) => {
                out.oracle_fail("generate-proof-fails-on-consistent-tree", &format!("generate_proof({}) = {:?}", hexs(k), e), ctx.clone());
                continue;
            }
            Ok(Ok(p)) => p,
        };
        let mut sides = vec![];
        let term = ref_proof(&es, k, 0, &mut sides);
        sides.reverse(); // leaf-to-root like the wire format
        let present = m.contains_key(k);
        if p.is_inclusion() != present {
            out.oracle_fail("proof-kind-differs-from-membership", &format!("key {} present={} but proof is_inclusion={}", hexs(k), present, p.is_inclusion()), ctx.clone());
            continue;
        }
        if *p.proof_set() != sides {
            out.oracle_fail("proof-set-differs-from-reference", &format!("proof set for {} differs from the siblings in the compact tree", hexs(k)), ctx.clone());
            continue;
        }
        match &p {
            Proof::Inclusion(ip) => {
                let v = values.get(k).cloned().unwrap_or_default();
                if !ip.verify(&root, &mk(k), &v) {
                    out.oracle_fail("generated-inclusion-proof-rejected", &format!("inclusion proof for {} does not verify with the stored value", hexs(k)), ctx.clone());
                }
                let mut w = v.clone();
                w.push(0x5a);
                if ip.verify(&root, &mk(k), &w) {
                    out.oracle_fail("inclusion-proof-accepts-wrong-value", &format!("inclusion proof for {} verifies with a value that is not stored", hexs(k)), ctx.clone());
                }
            }
            Proof::Exclusion(ep) => {
                let leaf = match &ep.leaf {
                    ExclusionLeaf::Leaf(d) => Some((d.leaf_key, d.leaf_value)),
                    ExclusionLeaf::Placeholder => None,
                };
                if leaf != term {
                    out.oracle_fail("exclusion-leaf-differs-from-reference", &format!("exclusion leaf for {}", hexs(k)), ctx.clone());
                }
                if !ep.verify(&root, &mk(k)) {
                    out.oracle_fail("generated-exclusion-proof-rejected", &format!("exclusion proof for absent key {} does not verify", hexs(k)), ctx.clone());
                }
            }
        }
    }
}

/// C13 oracle: reload (into_storage + load at the current root) placed at EVERY index of the
/// history; the continued tree must give the same roots and, at the end, the same proofs.
fn oracle_reload(out: &mut Out, ops: &[Op], run: &Run, probe: &[K]) {
    if !tamper_free(ops) {
        return;
    }
    let base_proofs: Vec<Option<Res>> = probe.iter().map(|k| run.tree.generate_proof(&mk(k)).ok().map(|p| proof_res(&p))).collect();
    for i in 0..=ops.len() {
        out.oracle_evaluations += 1;
        let r = guarded(|| {
            let mut t = Tree::new(Store::new());
            let mut results = vec![];
            for (j, op) in ops.iter().enumerate() {
                if j == i {
                    let root = t.root();
                    let st = t.into_storage();
                    t = match Tree::load(st, &root) {
                        Ok(t) => t,
                        Err(e) => return Err(format!("load at index {} failed: {:?}", i, e)),
                    };
                    if t.root() != root {
                        return Err(format!("root after load at index {} differs", i));
                    }
                }
                let (t2, r) = apply(t, op);
                t = t2;
                results.push(r);
            }
            if i == ops.len() {
                let root = t.root();
                let st = t.into_storage();
                t = match Tree::load(st, &root) {
                    Ok(t) => t,
                    Err(e) => return Err(format!("load at the end failed: {:?}", e)),
                };
            }
            let proofs: Vec<Option<Res>> = probe.iter().map(|k| t.generate_proof(&mk(k)).ok().map(|p| proof_res(&p))).collect();
            Ok((results, proofs))
        });
        let replay = json!({"kind":"hist","ops":ops_json(ops),"reload_at":i});
        match r {
            Err(p) => {
                out.oracle_fail("panic", &format!("history with reload at {} panicked: {p}", i), replay);
                return;
            }
            Ok(Err(what)) => {
                out.oracle_fail("reload-fails", &what, replay);
                return;
            }
            Ok(Ok((results, proofs))) => {
                if results != run.results {
                    let j = results.iter().zip(run.results.iter()).position(|(a, b)| a != b).unwrap_or(0);
                    out.oracle_fail("reloaded-tree-diverges", &format!("with a reload before op {} the result of op {} ({:?}) differs from the never-reloaded tree", i, j, ops[j]), replay);
                    return;
                }
                if proofs != base_proofs {
                    out.oracle_fail("reloaded-tree-proofs-differ", &format!("with a reload before op {} the final proofs differ from the never-reloaded tree", i), replay);
                    return;
                }
            }
        }
    }
}

// ------------------------------------------------------------------ generators
fn flip(k: &K, i: usize) -> K {
    let mut r = *k;
    r[i / 8] ^= 1 << (7 - (i % 8));
    r
}
/// a key sharing exactly the first `l` bits with `base`; the rest random or equal
fn share_prefix(rng: &mut Rng, base: &K, l: usize, random_tail: bool) -> K {
    let mut k = flip(base, l);
    if random_tail {
        let r = rng.bytes32();
        for i in (l + 1)..256 {
            if bit(&r, i) != bit(&k, i) {
                k = flip(&k, i);
            }
        }
    }
    k
}
const PREFIXES: [usize; 8] = [0, 1, 7, 8, 9, 127, 254, 255];

fn key_pool(rng: &mut Rng, style: u64) -> (Vec<K>, &'static str) {
    let mut pool: Vec<K> = vec![];
    let name;
    match style {
        0 => {
            name = "random-keys";
            for _ in 0..rng.range(3, 10) {
                pool.push(rng.bytes32());
            }
        }
        1 => {
            name = "shared-prefix-cluster";
            let base = rng.bytes32();
            pool.push(base);
            for l in PREFIXES {
                if rng.chance(2, 3) {
                    let tail = rng.bool();
                    pool.push(share_prefix(rng, &base, l, tail));
                }
            }
        }
        2 => {
            name = "zero-one-extremes";
            let z = ZERO;
            let o = [0xffu8; 32];
            pool.extend([z, o, flip(&z, 255), flip(&o, 255), flip(&z, 0), flip(&o, 0), flip(&z, 254), flip(&z, 128)]);
            pool.push(rng.bytes32());
        }
        3 => {
            name = "last-bit-siblings";
            for _ in 0..rng.range(2, 4) {
                let b = rng.bytes32();
                pool.push(b);
                pool.push(flip(&b, 255));
                if rng.bool() {
                    pool.push(flip(&b, 254));
                }
            }
        }
        4 => {
            name = "nested-deep-chain";
            let base = if rng.bool() { rng.bytes32() } else { ZERO };
            pool.push(base);
            for i in 0..rng.range(2, 6) as usize {
                pool.push(flip(&base, 255 - i));
            }
            pool.push(flip(&base, 127));
            pool.push(flip(&base, 8));
        }
        _ => {
            name = "shallow-cluster";
            // prefixes <= 9 only: cheap for the model, still exercises placeholder chains
            let base = rng.bytes32();
            pool.push(base);
            for l in [0usize, 1, 7, 8, 9, 3] {
                let tail = rng.bool();
                pool.push(share_prefix(rng, &base, l, tail));
            }
            pool.push(ZERO);
            pool.push([0xffu8; 32]);
        }
    }
    rng.shuffle(&mut pool);
    (pool, name)
}

fn gen_value(rng: &mut Rng) -> Vec<u8> {
    match rng.below(8) {
        0 => vec![],
        1 => vec![0],
        _ => {
            let n = rng.range(1, 6) as usize;
            rng.bytes(n)
        }
    }
}

/// update/delete history over a pool (overwrite with same value, delete absent, empty values)
fn gen_updates(rng: &mut Rng, pool: &[K], n: usize) -> Vec<Op> {
    let mut cur: BTreeMap<K, Vec<u8>> = BTreeMap::new();
    let mut ops = vec![];
    for _ in 0..n {
        let k = *rng.pick(pool);
        match rng.below(10) {
            0..=5 => {
                let v = match cur.get(&k) {
                    Some(old) if rng.chance(1, 4) => old.clone(), // overwrite with the same value
                    _ => gen_value(rng),
                };
                cur.insert(k, v.clone());
                ops.push(Op::Upd(k, v));
            }
            6..=8 => {
                // mostly present keys; pool keys that are absent give delete-absent
                let k = if !cur.is_empty() && rng.chance(2, 3) { *cur.keys().nth(rng.below(cur.len() as u64) as usize).unwrap() } else { k };
                cur.remove(&k);
                ops.push(Op::Del(k));
            }
            _ => {
                // delete a key that is not in the pool at all (neighbour of a pool key)
                let k2 = if rng.bool() { flip(&k, 255) } else { rng.bytes32() };
                cur.remove(&k2);
                ops.push(Op::Del(k2));
            }
        }
    }
    ops
}

fn final_values(ops: &[Op]) -> BTreeMap<K, Vec<u8>> {
    let mut cur = BTreeMap::new();
    for op in ops {
        match op {
            Op::Upd(k, v) => {
                cur.insert(*k, v.clone());
            }
            Op::Del(k) => {
                cur.remove(k);
            }
            Op::FromSet(s) | Op::FromNodes(s) => {
                cur.clear();
                for (k, v) in s {
                    cur.insert(*k, v.clone());
                }
            }
            _ => {}
        }
    }
    cur
}

/// keys worth querying on a tree built from `pool`: the pool, last-bit siblings, prefix sharers, extremes
fn probe_keys(rng: &mut Rng, pool: &[K], extra: usize) -> Vec<K> {
    let mut ks: Vec<K> = pool.to_vec();
    for _ in 0..extra {
        let k = *rng.pick(pool);
        ks.push(match rng.below(5) {
            0 => flip(&k, 255),
            1 => {
                let l = *rng.pick(&PREFIXES);
                share_prefix(rng, &k, l, true)
            }
            2 => ZERO,
            3 => [0xffu8; 32],
            _ => rng.bytes32(),
        });
    }
    ks.sort();
    ks.dedup();
    ks
}

fn depth_class(ops: &[Op]) -> usize {
    // the deepest pairwise common prefix among the keys of the history (cost driver for the model)
    let mut ks: Vec<K> = ops
        .iter()
        .filter_map(|o| match o {
            Op::Upd(k, _) | Op::Del(k) => Some(*k),
            _ => None,
        })
        .collect();
    ks.sort();
    ks.dedup();
    let mut best = 0;
    for w in ks.windows(2) {
        let mut c = 0;
        while c < 256 && bit(&w[0], c) == bit(&w[1], c) {
            c += 1;
        }
        best = best.max(c);
    }
    best
}

// ------------------------------------------------------------------ emitting cases
fn emit_hist(out: &mut Out, ops: &[Op], run: &Run, class: &str) {
    let coq = format!(
        "CHist {} {} {}",
        coq_list(&ops.iter().map(coq_op).collect::<Vec<_>>()),
        coq_list(&run.results.iter().map(coq_res).collect::<Vec<_>>()),
        run.store_len
    );
    let last = run.results.iter().rev().find_map(|r| match r {
        Res::Root(r) => Some(hexs(r)),
        Res::Err(c, r) => Some(format!("err{}:{}", c, hexs(r))),
        _ => None,
    });
    let distinct_keys = {
        let mut ks: Vec<K> = ops.iter().filter_map(|o| match o { Op::Upd(k, _) | Op::Del(k) | Op::Prove(k) => Some(*k), _ => None }).collect();
        ks.sort();
        ks.dedup();
        ks.len()
    };
    out.push(Case {
        coq,
        json: json!({"kind":"hist","class":class,"n_ops":ops.len(),"deepest_shared_prefix":depth_class(ops),"final":last,"ops":ops_json(ops)}),
        key: format!("h:{}:{:?}", ops.len(), last),
        nontrivial: distinct_keys >= 2 && ops.len() >= 3,
        class: class.to_string(),
    });
}

/// run + all oracles + emit; `probe`: keys for the reload/proof oracles
fn hist_case(out: &mut Out, args: &Args, ops: Vec<Op>, probe: &[K], class: &str, emit: bool) {
    match run_hist(&ops) {
        Err(p) => out.oracle_fail("panic", &format!("history panicked: {p}"), hist_replay(&ops)),
        Ok(run) => {
            oracle_roots(out, &ops, &run);
            if args.prop == "C13" || args.replay.is_some() {
                oracle_reload(out, &ops, &run, probe);
            }
            if (args.prop == "C14" || args.replay.is_some()) && tamper_free(&ops) {
                let m = ref_maps(&ops).pop().unwrap_or_default();
                oracle_proofs(out, &run.tree, &m, probe, &final_values(&ops), &hist_replay(&ops));
            }
            if emit && !args.oracle_only {
                emit_hist(out, &ops, &run, class);
            } else {
                out.count(&format!("oracle-only:{class}"));
            }
        }
    }
}

fn set_case(out: &mut Out, args: &Args, s: Vec<(K, Vec<u8>)>, class: &str, emit: bool) {
    out.oracle_evaluations += 1;
    let replay = json!({"kind":"set","set":kv_json(&s)});
    let r = guarded(|| {
        let t = Tree::from_set(Store::new(), s.iter().map(|(k, v)| (*k, v.clone()))).unwrap();
        let r1 = t.root();
        let n1 = t.storage().len();
        let r2 = in_memory::MerkleTree::root_from_set(s.iter().map(|(k, v)| (mk(k), v.clone())));
        let (r3, nodes) = in_memory::MerkleTree::nodes_from_set(s.iter().map(|(k, v)| (mk(k), v.clone())));
        let r4 = in_memory::MerkleTree::from_set(s.iter().map(|(k, v)| (mk(k), v.clone()))).root();
        // sequential inserts
        let mut t5 = Tree::new(Store::new());
        for (k, v) in &s {
            t5.insert(mk(k), v).unwrap();
        }
        (r1, n1, r2, r3, nodes, r4, t5.root(), t)
    });
    match r {
        Err(p) => out.oracle_fail("panic", &format!("from_set panicked: {p}"), replay),
        Ok((r1, n1, r2, r3, nodes, r4, r5, t)) => {
            let mut m = RefMap::new();
            let mut vals = BTreeMap::new();
            for (k, v) in &s {
                m.insert(*k, sha(&[v]));
                vals.insert(*k, v.clone());
            }
            let want = ref_root_of(&m);
            for (name, got) in [("from_set", r1), ("root_from_set", r2), ("nodes_from_set", r3), ("in_memory::from_set", r4), ("sequential inserts", r5)] {
                if got != want {
                    out.oracle_fail("set-root-differs-from-reference-map-root", &format!("{} root {} != compact sparse Merkle root {} of the set ({} pairs)", name, hexs(&got), hexs(&want), s.len()), replay.clone());
                }
            }
            // C13: the nodes returned for a set are a complete persisted state
            let ks: Vec<K> = m.keys().cloned().collect();
            let loaded = guarded(|| {
                let mut st = Store::new();
                for (k, p) in nodes.iter() {
                    StorageMutate::<Tbl>::insert(&mut st, k, p).unwrap();
                }
                Tree::load(st, &r3).map(|t2| {
                    let a: Vec<_> = ks.iter().map(|k| t2.generate_proof(&mk(k)).ok().map(|p| proof_res(&p))).collect();
                    a
                })
            });
            let base: Vec<_> = ks.iter().map(|k| t.generate_proof(&mk(k)).ok().map(|p| proof_res(&p))).collect();
            match loaded {
                Ok(Ok(a)) if a == base && base.iter().all(|x| x.is_some()) => {}
                other => out.oracle_fail("nodes-from-set-not-loadable", &format!("tree loaded from nodes_from_set differs from from_set: {:?}", other.map(|x| x.map(|_| "proofs differ"))), replay.clone()),
            }
            if args.prop == "C14" {
                oracle_proofs(out, &t, &m, &ks, &vals, &replay);
            }
            if emit && !args.oracle_only {
                let small = nodes.len() <= 400;
                let nodes_coq = if small {
                    format!(
                        "(Some {})",
                        coq_list(&nodes.iter().map(|(k, p)| format!("({}, ({}, {}, {}, {}))", coq_k(k), p.0, p.1, coq_k(&p.2), coq_k(&p.3))).collect::<Vec<_>>())
                    )
                } else {
                    "None".to_string()
                };
                let coq = format!("CSet {} {} {} {} {} {} {}", coq_kvs(&s), coq_k(&r1), coq_k(&r2), coq_k(&r3), n1, nodes.len(), nodes_coq);
                out.push(Case {
                    coq,
                    json: json!({"kind":"set","class":class,"pairs":s.len(),"distinct_keys":m.len(),"nodes":nodes.len(),"root":hexs(&r1),"set":kv_json(&s)}),
                    key: format!("s:{}:{}", m.len(), hexs(&r1)),
                    nontrivial: m.len() >= 2,
                    class: class.to_string(),
                });
            } else {
                out.count(&format!("oracle-only:{class}"));
            }
        }
    }
}

// ------------------------------------------------------------------ C14 verification cases
#[derive(Clone, Debug)]
enum Claim {
    Incl(Vec<u8>, Vec<K>),
    Excl(Vec<K>, Option<(K, K)>),
}
fn claim_json(c: &Claim) -> Value {
    match c {
        Claim::Incl(v, ps) => json!({"incl":hexs(v),"ps":ps.iter().map(|k| hexs(k)).collect::<Vec<_>>()}),
        Claim::Excl(ps, l) => json!({"excl":l.map(|(k, v)| json!([hexs(&k), hexs(&v)])),"ps":ps.iter().map(|k| hexs(k)).collect::<Vec<_>>()}),
    }
}
fn claim_of(v: &Value) -> Claim {
    let ps: Vec<K> = v["ps"].as_array().unwrap().iter().map(k_of).collect();
    if let Some(x) = v.get("incl") {
        Claim::Incl(hex::decode(x.as_str().unwrap()).unwrap(), ps)
    } else {
        let l = if v["excl"].is_null() { None } else { Some((k_of(&v["excl"][0]), k_of(&v["excl"][1]))) };
        Claim::Excl(ps, l)
    }
}

/// verdict of the real verifier, of the independent recomputation, and the membership oracle
fn verify_case(out: &mut Out, args: &Args, root: &K, key: &K, claim: &Claim, m: Option<&RefMap>, class: &str) {
    out.oracle_evaluations += 1;
    let replay = json!({"kind":"verify","root":hexs(root),"key":hexs(key),"claim":claim_json(claim),
                        "map": m.map(|m| m.iter().map(|(k,v)| json!([hexs(k),hexs(v)])).collect::<Vec<_>>())});
    let verdict = guarded(|| match claim {
        Claim::Incl(v, ps) => InclusionProof { proof_set: ps.clone() }.verify(root, &mk(key), v),
        Claim::Excl(ps, l) => ExclusionProof {
            proof_set: ps.clone(),
            leaf: match l {
                Some((k, v)) => ExclusionLeaf::Leaf(ExclusionLeafData { leaf_key: *k, leaf_value: *v }),
                None => ExclusionLeaf::Placeholder,
            },
        }
        .verify(root, &mk(key)),
    });
    let verdict = match verdict {
        Err(p) => {
            out.oracle_fail("panic", &format!("verify panicked: {p}"), replay);
            return;
        }
        Ok(v) => v,
    };
    // independent recomputation (top-down recursion, own hashing)
    let (ps, cur, leaf_ok) = match claim {
        Claim::Incl(v, ps) => (ps, h_leaf(key, &sha(&[v])), true),
        Claim::Excl(ps, Some((k, v))) => (ps, h_leaf(k, v), k != key),
        Claim::Excl(ps, None) => (ps, ZERO, true),
    };
    let mut td = ps.clone();
    td.reverse();
    let want = leaf_ok && ps.len() <= 256 && ref_path_root(key, 0, &td, cur) == Some(*root);
    if verdict != want {
        out.oracle_fail("verifier-verdict-differs-from-recomputation", &format!("verify = {} but the compact-tree recomputation from (key, leaf, side nodes) {} the root", verdict, if want { "reaches" } else { "does not reach" }), replay.clone());
    }
    // membership: an accepted proof against the root of map m proves (non-)membership
    if let Some(m) = m {
        if verdict && ref_root_of(m) == *root {
            match claim {
                Claim::Incl(v, _) => {
                    if m.get(key) != Some(&sha(&[v])) {
                        out.oracle_fail("accepted-inclusion-proof-for-non-member", &format!("inclusion proof accepted for key {} with a value the map does not hold", hexs(key)), replay.clone());
                    }
                }
                Claim::Excl(..) => {
                    if m.contains_key(key) {
                        out.oracle_fail("accepted-exclusion-proof-for-member", &format!("exclusion proof accepted for key {} which the map holds", hexs(key)), replay.clone());
                    }
                }
            }
        }
    }
    if !args.oracle_only {
        let cq = match claim {
            Claim::Incl(v, ps) => format!("VIncl {} {}", coq_bytes(v), coq_ks(ps)),
            Claim::Excl(ps, l) => format!("VExcl {} {}", coq_ks(ps), coq_leaf(l)),
        };
        out.push(Case {
            coq: format!("CVerify {} {} ({}) {}", coq_k(root), coq_k(key), cq, coq_bool(verdict)),
            json: json!({"kind":"verify","class":class,"verdict":verdict,"proof_len":ps.len(),"root":hexs(root),"key":hexs(key),"claim":claim_json(claim)}),
            key: format!("v:{}:{}:{}:{}", class, hexs(key), ps.len(), verdict),
            nontrivial: !ps.is_empty(),
            class: format!("verify:{class}:{}", if verdict { "accept" } else { "reject" }),
        });
    }
}

/// the mutation stream on one real proof
fn mutations(out: &mut Out, args: &Args, rng: &mut Rng, root: &K, key: &K, res: &Res, value: Option<&Vec<u8>>, m: &RefMap, pool: &[K], budget: usize) {
    let base: Claim = match res {
        Res::Incl(ps) => Claim::Incl(value.cloned().unwrap_or_default(), ps.clone()),
        Res::Excl(ps, l) => Claim::Excl(ps.clone(), *l),
        _ => return,
    };
    verify_case(out, args, root, key, &base, Some(m), "genuine");
    let with_ps = |c: &Claim, ps: Vec<K>| match c {
        Claim::Incl(v, _) => Claim::Incl(v.clone(), ps),
        Claim::Excl(_, l) => Claim::Excl(ps, *l),
    };
    let ps0: Vec<K> = match &base {
        Claim::Incl(_, ps) | Claim::Excl(ps, _) => ps.clone(),
    };
    let mut muts: Vec<(&'static str, K, Claim)> = vec![];
    let n = ps0.len();
    if n > 0 {
        let mut a = ps0.clone();
        a.remove(0);
        muts.push(("drop-first-side-node", *key, with_ps(&base, a)));
        let mut a = ps0.clone();
        a.pop();
        muts.push(("drop-last-side-node", *key, with_ps(&base, a)));
        let mut a = ps0.clone();
        let i = rng.below(n as u64) as usize;
        a[i] = rng.bytes32();
        muts.push(("replace-side-node", *key, with_ps(&base, a)));
        let mut a = ps0.clone();
        let i = rng.below(n as u64) as usize;
        a[i] = if a[i] == ZERO { h_leaf(key, &ZERO) } else { ZERO };
        muts.push(("zero-side-node", *key, with_ps(&base, a)));
    }
    if n > 1 {
        let mut a = ps0.clone();
        let i = rng.below((n - 1) as u64) as usize;
        a.swap(i, i + 1);
        muts.push(("swap-side-nodes", *key, with_ps(&base, a)));
    }
    {
        let mut a = ps0.clone();
        a.push(if rng.bool() { ZERO } else { rng.bytes32() });
        muts.push(("append-side-node", *key, with_ps(&base, a)));
        let mut a = ps0.clone();
        a.insert(0, ZERO);
        muts.push(("prepend-placeholder-side-node", *key, with_ps(&base, a)));
    }
    // a different key: last-bit sibling, prefix sharer, another pool key
    muts.push(("different-key-last-bit", flip(key, 255), base.clone()));
    if n > 0 {
        // flipping a bit below the proof depth keeps the path: must still be judged by recomputation
        muts.push(("different-key-below-path", flip(key, (n.min(255)).max(1)), base.clone()));
        muts.push(("different-key-on-path", flip(key, n - 1), base.clone()));
    }
    muts.push(("different-key-pool", *rng.pick(pool), base.clone()));
    match &base {
        Claim::Incl(v, ps) => {
            let mut w = v.clone();
            w.push(1);
            muts.push(("wrong-value", *key, Claim::Incl(w, ps.clone())));
            muts.push(("empty-value", *key, Claim::Incl(vec![], ps.clone())));
            // the inclusion proof replayed as an exclusion proof whose leaf claims the queried key
            muts.push(("exclusion-leaf-claims-queried-key", *key, Claim::Excl(ps.clone(), Some((*key, sha(&[v]))))));
            muts.push(("exclusion-placeholder-for-member", *key, Claim::Excl(ps.clone(), None)));
            // exclusion proof for the last-bit sibling built from this member's path (genuinely valid if sibling absent)
            muts.push(("exclusion-for-sibling-from-member-path", flip(key, 255), Claim::Excl(ps.clone(), Some((*key, sha(&[v]))))));
        }
        Claim::Excl(ps, l) => {
            muts.push(("exclusion-leaf-claims-queried-key", *key, Claim::Excl(ps.clone(), Some((*key, l.map(|x| x.1).unwrap_or(sha(&[&[]])))))));
            muts.push(("exclusion-leaf-to-placeholder", *key, Claim::Excl(ps.clone(), if l.is_some() { None } else { Some((flip(key, 255), sha(&[&[]]))) })));
            if let Some((lk, lv)) = l {
                muts.push(("exclusion-leaf-wrong-value", *key, Claim::Excl(ps.clone(), Some((*lk, flip(lv, 0))))));
                muts.push(("exclusion-leaf-wrong-key", *key, Claim::Excl(ps.clone(), Some((flip(lk, 255), *lv)))));
                // the closest leaf's own inclusion claim via this path
                muts.push(("inclusion-of-absent-key", *key, Claim::Incl(vec![], ps.clone())));
            }
        }
    }
    if rng.chance(1, 6) {
        let a = vec![ZERO; 257];
        muts.push(("proof-set-257", *key, with_ps(&base, a)));
        let mut a = ps0.clone();
        while a.len() < 256 {
            a.insert(0, ZERO);
        }
        muts.push(("proof-set-padded-to-256", *key, with_ps(&base, a)));
    }
    rng.shuffle(&mut muts);
    for (name, k, c) in muts.into_iter().take(budget) {
        verify_case(out, args, root, &k, &c, Some(m), name);
    }
}

// ------------------------------------------------------------------ per-property streams
fn styles_for(i: usize) -> u64 {
    // deep clusters are expensive for the model (256 hashes per touched level): 2 of 6 styles
    (i % 6) as u64
}

fn run_replay(args: &Args, out: &mut Out) {
    let v = read_replay(args.replay.as_ref().unwrap());
    match v["kind"].as_str().unwrap_or("") {
        "hist" => {
            let ops: Vec<Op> = v["ops"].as_array().unwrap().iter().map(op_of).collect();
            let mut probe: Vec<K> = ops.iter().filter_map(|o| match o { Op::Upd(k, _) | Op::Del(k) | Op::Prove(k) => Some(*k), _ => None }).collect();
            probe.sort();
            probe.dedup();
            hist_case(out, args, ops, &probe, "replay", true);
        }
        "set" => set_case(out, args, kv_of(&v["set"]), "replay", true),
        "verify" => {
            let m: Option<RefMap> = v.get("map").and_then(|x| x.as_array()).map(|a| a.iter().map(|e| (k_of(&e[0]), k_of(&e[1]))).collect());
            verify_case(out, args, &k_of(&v["root"]), &k_of(&v["key"]), &claim_of(&v["claim"]), m.as_ref(), "replay");
        }
        k => panic!("unknown replay kind {k}"),
    }
}

fn final_set(rng: &mut Rng, ops: &[Op], dup: bool) -> Vec<(K, Vec<u8>)> {
    let mut s: Vec<(K, Vec<u8>)> = final_values(ops).into_iter().collect();
    rng.shuffle(&mut s);
    if dup && !s.is_empty() {
        // duplicates: BTreeMap::collect keeps the LAST value of a key
        let n = s.len();
        for _ in 0..rng.range(1, 3) {
            let (k, v) = s[rng.below(n as u64) as usize].clone();
            let mut w = v.clone();
            w.push(7);
            s.insert(0, (k, w)); // an earlier, overridden occurrence
        }
    }
    s
}

fn run_c12(args: &Args, out: &mut Out) {
    let mut rng = Rng::new(args.seed ^ 0xC12);
    // directed small cases first
    let z = ZERO;
    let o = [0xffu8; 32];
    let directed: Vec<Vec<Op>> = vec![
        vec![],
        vec![Op::Del(z)],
        vec![Op::Upd(z, vec![]), Op::Del(z)],
        vec![Op::Upd(z, b"a".to_vec()), Op::Upd(flip(&z, 255), b"b".to_vec()), Op::Del(z), Op::Del(flip(&z, 255))],
        vec![Op::Upd(o, b"a".to_vec()), Op::Upd(flip(&o, 255), b"b".to_vec()), Op::Upd(flip(&o, 0), b"c".to_vec()), Op::Del(flip(&o, 255)), Op::Del(z)],
        vec![Op::Upd(flip(&z, 0), b"a".to_vec()), Op::Upd(flip(&flip(&z, 0), 1), b"b".to_vec()), Op::Del(z), Op::Upd(z, vec![]), Op::Del(z)],
        vec![Op::Upd(z, b"a".to_vec()), Op::Upd(z, b"a".to_vec()), Op::Upd(z, b"b".to_vec()), Op::Del(o), Op::Upd(o, vec![]), Op::Upd(o, vec![])],
    ];
    for ops in directed {
        let probe = vec![z, o];
        let s = final_set(&mut rng, &ops, false);
        hist_case(out, args, ops, &probe, "directed", true);
        set_case(out, args, s, "directed-final-set", true);
    }
    let n_model = args.scale(24, 300);
    for i in 0..n_model {
        let (pool, name) = key_pool(&mut rng, styles_for(i));
        let deep = matches!(styles_for(i), 1 | 3 | 4 | 2);
        let n = if deep { rng.range(8, 24) } else { rng.range(20, 60) } as usize;
        let ops = gen_updates(&mut rng, &pool, n);
        let s = final_set(&mut rng, &ops, i % 2 == 0);
        hist_case(out, args, ops, &pool, name, true);
        set_case(out, args, s, &format!("final-set:{name}"), true);
    }
    // implementation-only volume (oracle): long histories over every pool style
    let n_oracle = args.scale(300, 6000);
    for i in 0..n_oracle {
        let (pool, name) = key_pool(&mut rng, (i % 6) as u64);
        let n = rng.range(1, 60) as usize;
        let ops = gen_updates(&mut rng, &pool, n);
        let s = final_set(&mut rng, &ops, true);
        hist_case(out, args, ops, &pool, name, false);
        set_case(out, args, s, name, false);
    }
}

fn sprinkle(rng: &mut Rng, ops: Vec<Op>, what: impl Fn(&mut Rng) -> Op, every: u64) -> Vec<Op> {
    let mut r = vec![];
    for op in ops {
        if rng.below(every) == 0 {
            r.push(what(rng));
        }
        r.push(op);
    }
    r.push(what(rng));
    r
}

fn run_c13(args: &Args, out: &mut Out) {
    let mut rng = Rng::new(args.seed ^ 0xC13);
    let z = ZERO;
    let o = [0xffu8; 32];
    // load at the empty root; load at a root that is not in storage; root node removed
    let a = flip(&z, 0);
    let b = flip(&a, 1);
    let directed: Vec<Vec<Op>> = vec![
        vec![Op::Load, Op::LoadAt(z), Op::Upd(z, b"x".to_vec()), Op::Load, Op::Del(z), Op::Load],
        vec![Op::LoadAt(o), Op::Upd(a, b"x".to_vec()), Op::LoadAt(z), Op::Prove(a)],
        vec![Op::Upd(a, b"x".to_vec()), Op::Upd(b, b"y".to_vec()), Op::LoadAt(rng.bytes32()), Op::Prove(a), Op::Upd(z, vec![]), Op::Load],
        vec![Op::Upd(a, b"x".to_vec()), Op::Upd(b, b"y".to_vec()), Op::Upd(z, b"z".to_vec()), Op::Load, Op::Del(b), Op::Load, Op::Prove(a), Op::Prove(b), Op::Del(a), Op::Load, Op::Del(z), Op::Load],
    ];
    for ops in directed {
        hist_case(out, args, ops, &[z, o, a, b], "directed-load", true);
    }
    // node removed from storage: load at the root must fail when the root node is the one removed;
    // removing an inner node / leaf makes the operations that need it fail (never a wrong result)
    for i in 0..args.scale(8, 60) {
        let (pool, _) = key_pool(&mut rng, 5);
        let n0 = rng.range(4, 14) as usize;
        let ops0 = gen_updates(&mut rng, &pool, n0);
        if let Ok(run) = run_hist(&ops0) {
            let root = run.tree.root();
            if root == ZERO {
                continue;
            }
            // pick a victim: the root, or a side node / path node of some key's proof
            let victim = if i % 3 == 0 {
                root
            } else {
                let k = *rng.pick(&pool);
                match run.tree.generate_proof(&mk(&k)).ok().map(|p| p.proof_set().clone()) {
                    Some(ps) if !ps.is_empty() => {
                        let c: Vec<K> = ps.into_iter().filter(|x| *x != ZERO).collect();
                        if c.is_empty() { root } else { *rng.pick(&c) }
                    }
                    _ => root,
                }
            };
            let mut ops = ops0.clone();
            ops.push(Op::Remove(victim));
            for k in pool.iter().take(5) {
                ops.push(Op::Prove(*k));
            }
            ops.push(Op::Upd(*rng.pick(&pool), b"w".to_vec()));
            ops.push(Op::Del(*rng.pick(&pool)));
            ops.push(Op::Del(*rng.pick(&pool)));
            // oracle: a load at a root whose node is missing fails; no operation returns a wrong answer
            match run_hist(&ops) {
                Err(p) => out.oracle_fail("panic", &format!("tampered history panicked: {p}"), hist_replay(&ops)),
                Ok(run2) => {
                    out.oracle_evaluations += 1;
                    let load_res = &run2.results[ops0.len()];
                    if victim == root && !matches!(load_res, Res::Err(1, _)) {
                        out.oracle_fail("load-at-missing-root-succeeds", &format!("root node {} removed from storage, load returned {:?}", hexs(&root), load_res), hist_replay(&ops));
                    }
                    // proofs after the tamper (when the restart succeeded): either an error or the same
                    // proof as the untampered tree
                    let restarted = matches!(load_res, Res::Root(r) if *r == root);
                    for (j, k) in pool.iter().take(5).enumerate().filter(|_| restarted) {
                        let got = &run2.results[ops0.len() + 1 + j];
                        let want = run.tree.generate_proof(&mk(k)).ok().map(|p| proof_res(&p));
                        let ok = matches!(got, Res::Err(..)) || Some(got.clone()) == want;
                        if !ok {
                            out.oracle_fail("wrong-proof-from-incomplete-storage", &format!("after removing node {} generate_proof({}) returned a different proof instead of failing", hexs(&victim), hexs(k)), hist_replay(&ops));
                        }
                    }
                    if !args.oracle_only {
                        emit_hist(out, &ops, &run2, if victim == root { "root-node-removed" } else { "inner-node-removed" });
                    }
                }
            }
        }
    }
    // a stored primitive with an invalid prefix byte: DeserializeError, not a wrong tree
    {
        let ops0 = vec![Op::Upd(a, b"x".to_vec()), Op::Upd(b, b"y".to_vec())];
        if let Ok(run) = run_hist(&ops0) {
            let root = run.tree.root();
            let mut ops = ops0.clone();
            ops.push(Op::Put(root, 256, 2, a, b));
            ops.push(Op::Prove(a));
            ops.push(Op::Put(root, 256, 1, h_leaf(&a, &sha(&[b"x"])), ZERO));
            ops.push(Op::Prove(a));
            ops.push(Op::Prove(b));
            if let Ok(run2) = run_hist(&ops) {
                if !args.oracle_only {
                    emit_hist(out, &ops, &run2, "tampered-primitive");
                }
            }
        }
    }
    // histories with reloads sprinkled in (model) + reload at EVERY index (oracle)
    let n_model = args.scale(24, 300);
    for i in 0..n_model {
        let (pool, name) = key_pool(&mut rng, styles_for(i));
        let deep = matches!(styles_for(i), 1 | 2 | 3 | 4);
        let n = if deep { rng.range(6, 20) } else { rng.range(15, 50) } as usize;
        let base = gen_updates(&mut rng, &pool, n);
        let mut ops = sprinkle(&mut rng, base, |_| Op::Load, 4);
        if i % 5 == 0 {
            // start from a set / from the nodes returned for a set, then continue
            let s = final_set(&mut rng, &ops[..ops.len() / 2], true);
            ops.insert(0, if i % 10 == 0 { Op::FromSet(s) } else { Op::FromNodes(s) });
        }
        let probe = probe_keys(&mut rng, &pool, 2);
        for k in probe.iter().take(3) {
            ops.push(Op::Prove(*k));
        }
        hist_case(out, args, ops, &probe, name, true);
    }
    let n_oracle = args.scale(120, 3000);
    for i in 0..n_oracle {
        let (pool, name) = key_pool(&mut rng, (i % 6) as u64);
        let n = rng.range(1, 60) as usize;
        let mut ops = gen_updates(&mut rng, &pool, n);
        if i % 7 == 0 {
            let s = final_set(&mut rng, &ops[..ops.len() / 2], true);
            ops.insert(0, if i % 14 == 0 { Op::FromSet(s) } else { Op::FromNodes(s) });
        }
        let probe = probe_keys(&mut rng, &pool, 3);
        hist_case(out, args, ops, &probe, name, false);
    }
}

fn run_c14(args: &Args, out: &mut Out) {
    let mut rng = Rng::new(args.seed ^ 0xC14);
    let n_model = args.scale(18, 240);
    for i in 0..n_model {
        let (pool, name) = key_pool(&mut rng, styles_for(i));
        let deep = matches!(styles_for(i), 1 | 2 | 3 | 4);
        let n = if deep { rng.range(4, 14) } else { rng.range(10, 40) } as usize;
        let mut ops = gen_updates(&mut rng, &pool, n);
        if i % 4 == 3 {
            // trees built by deletes only from a set
            let s: Vec<(K, Vec<u8>)> = pool.iter().map(|k| (*k, gen_value(&mut rng))).collect();
            ops = vec![Op::FromSet(s)];
            for _ in 0..rng.range(1, pool.len() as u64) {
                ops.push(Op::Del(*rng.pick(&pool)));
            }
        }
        let probe = probe_keys(&mut rng, &pool, 4);
        let n_probe = if deep { 3 } else { 7 };
        let mut probe_model = probe.clone();
        rng.shuffle(&mut probe_model);
        probe_model.truncate(n_probe);
        let prefix_len = ops.len();
        for k in &probe_model {
            ops.push(Op::Prove(*k));
        }
        match run_hist(&ops) {
            Err(p) => out.oracle_fail("panic", &format!("history panicked: {p}"), hist_replay(&ops)),
            Ok(run) => {
                oracle_roots(out, &ops, &run);
                let m = ref_maps(&ops).pop().unwrap_or_default();
                let vals = final_values(&ops);
                oracle_proofs(out, &run.tree, &m, &probe, &vals, &hist_replay(&ops));
                if !args.oracle_only {
                    emit_hist(out, &ops, &run, name);
                }
                let root = run.tree.root();
                for (j, k) in probe_model.iter().enumerate() {
                    let res = &run.results[prefix_len + j];
                    let budget = if deep { 2 } else { 5 };
                    mutations(out, args, &mut rng, &root, k, res, vals.get(k), &m, &pool, budget);
                }
            }
        }
    }
    // implementation-only volume: all probe keys, all mutations, every pool style
    let n_oracle = args.scale(150, 3000);
    let oargs = Args { oracle_only: true, ..args.clone() };
    for i in 0..n_oracle {
        let (pool, _name) = key_pool(&mut rng, (i % 6) as u64);
        let n = rng.range(1, 50) as usize;
        let ops = gen_updates(&mut rng, &pool, n);
        let probe = probe_keys(&mut rng, &pool, 6);
        match run_hist(&ops) {
            Err(p) => out.oracle_fail("panic", &format!("history panicked: {p}"), hist_replay(&ops)),
            Ok(run) => {
                let m = ref_maps(&ops).pop().unwrap_or_default();
                let vals = final_values(&ops);
                oracle_proofs(out, &run.tree, &m, &probe, &vals, &hist_replay(&ops));
                let root = run.tree.root();
                for k in &probe {
                    if let Ok(p) = run.tree.generate_proof(&mk(k)) {
                        mutations(out, &oargs, &mut rng, &root, k, &proof_res(&p), vals.get(k), &m, &pool, 100);
                    }
                }
                out.count("oracle-only:proof-mutations");
            }
        }
    }
}

fn main() {
    quiet_panics();
    let args = Args::parse();
    let mut out = Out::new();
    let header = "From FV Require Import Base.Bytes Run.Smt.\nOpen Scope N_scope.";
    if args.replay.is_some() {
        run_replay(&args, &mut out);
    } else {
        match args.prop.as_str() {
            "C12" => run_c12(&args, &mut out),
            "C13" => run_c13(&args, &mut out),
            "C14" => run_c14(&args, &mut out),
            p => {
                eprintln!("smt: unknown property {p}");
                std::process::exit(2);
            }
        }
    }
    balance(&mut out, args.shards.max(1));
    out.write(&args, header, "smt_case", "bad_smt");
}

/// Out::write cuts the case list into contiguous shards; deal the cases (most expensive first,
/// size of the Coq term as the cost proxy) round-robin so that the shards cost about the same.
fn balance(out: &mut Out, k: usize) {
    let mut cases: Vec<Case> = std::mem::take(&mut out.cases);
    cases.sort_by_key(|c| std::cmp::Reverse(c.coq.len()));
    let mut buckets: Vec<Vec<Case>> = (0..k).map(|_| vec![]).collect();
    for (i, c) in cases.into_iter().enumerate() {
        let r = i / k;
        let j = if r % 2 == 0 { i % k } else { k - 1 - i % k };
        buckets[j].push(c);
    }
    out.cases = buckets.into_iter().flatten().collect();
}
