//! C04 — reported field offsets locate the field's bytes in the encoding.
//!
//! For generated transactions of all six kinds (0-4 inputs of mixed variants — including the
//! "message-data predicate after a contract input after a 7-byte script" layout —, outputs,
//! witnesses, storage slots, proof sets, all byte-vector length classes) every offset function
//! fuel-tx exposes is called, without and with cached metadata (`precompute`):
//!   * correspondence: the answers are printed next to the neutral value; coq/Run/Offsets.v
//!     recomputes them with the Gallina model and executes the C04 statement on each;
//!   * oracle (on the real code only): the slice of `to_bytes()` at every reported offset must be
//!     the field's own canonical bytes (obtained from the typed field, not from the encoding);
//!     elements are additionally decoded from the slice; `None` must be reported exactly for
//!     absent fields / out-of-range indices; cached answers == uncached answers.
#[path = "../txval.rs"]
mod txval;
use fuel_tx::field::*;
use fuel_tx::field::UpgradePurpose as _;
use fuel_tx::input::InputRepr;
use fuel_tx::output::OutputRepr;
use fuel_tx::{Cacheable, ConsensusParameters, Input, Output, StorageSlot, Transaction, UpgradePurpose, UploadBody, Witness};
use fuel_types::canonical::{Deserialize, Serialize};
use fuel_types::ChainId;
use fvh::*;
use serde_json::json;
use txval::*;

#[derive(Clone, Debug, PartialEq)]
enum Ans {
    None,
    N(u64),
    P(u64, u64),
}
impl Ans {
    fn coq(&self) -> String {
        match self {
            Ans::None => "ANone".into(),
            Ans::N(n) => format!("(AN {})", n),
            Ans::P(a, b) => format!("(AP {} {})", a, b),
        }
    }
    fn of(o: Option<usize>) -> Ans {
        match o {
            Some(n) => Ans::N(n as u64),
            None => Ans::None,
        }
    }
}
/// one offset query: its Coq form, a readable name, the answer, and the bytes the field really
/// has (reference, from the typed value): Some(bytes) = present, None = absent; `rel` = the
/// encoding the offset is relative to
struct QA {
    coq: String,
    name: String,
    ans: Ans,
    expect: Expect,
}
enum Expect {
    /// field absent: the function must answer None
    Absent,
    /// field present with these canonical bytes inside this encoding
    Bytes { field: Vec<u8>, within: Within },
    /// not an offset (a length): expected value
    Len(Option<u64>),
}
#[derive(Clone)]
enum Within {
    Tx,
    Input(usize),
    Output(usize),
}

fn pad(b: &[u8]) -> Vec<u8> {
    let mut v = b.to_vec();
    while v.len() % 8 != 0 {
        v.push(0);
    }
    v
}
fn cat<T: Serialize>(xs: &[T]) -> Vec<u8> {
    xs.iter().flat_map(|x| x.to_bytes()).collect()
}
fn idxs(n: usize) -> Vec<usize> {
    let mut v: Vec<usize> = (0..n).collect();
    v.extend([n, n + 1, 1 << 16, usize::MAX]);
    v
}
fn present(b: Vec<u8>, w: Within) -> Expect {
    Expect::Bytes { field: b, within: w }
}

const IN_FNS: [&str; 17] = [
    "UtxoIdOffset", "OwnerOffset", "AssetIdOffset", "DataOffset", "CoinPredicateOffset", "ContractBalanceRootOffset",
    "ContractStateRootOffset", "ContractIdOffset", "MessageSenderOffset", "MessageRecipientOffset", "MessageNonceOffset",
    "TxPointerOffsetI", "PredicateOffset", "PredicateDataOffset", "PredicateLen", "PredicateDataLen", "InputDataLen",
];

/// reference: the bytes of the field that input-level function `f` is documented to locate
fn input_expect(f: &str, i: usize, input: &Input) -> Expect {
    use Input::*;
    let w = Within::Input(i);
    let none = Expect::Absent;
    // (utxo, owner, asset, txptr, sender, recipient, nonce, data, predicate, predicate_data, balance_root, state_root, contract_id)
    let b32 = |x: &[u8]| x.to_vec();
    match (f, input) {
        ("UtxoIdOffset", CoinSigned(c)) => present(c.utxo_id.to_bytes(), w),
        ("UtxoIdOffset", CoinPredicate(c)) => present(c.utxo_id.to_bytes(), w),
        ("UtxoIdOffset", Contract(c)) => present(c.utxo_id.to_bytes(), w),
        ("OwnerOffset", CoinSigned(c)) => present(b32(c.owner.as_ref()), w),
        ("OwnerOffset", CoinPredicate(c)) => present(b32(c.owner.as_ref()), w),
        ("OwnerOffset", MessageCoinSigned(m)) => present(b32(m.recipient.as_ref()), w),
        ("OwnerOffset", MessageCoinPredicate(m)) => present(b32(m.recipient.as_ref()), w),
        ("OwnerOffset", MessageDataSigned(m)) => present(b32(m.recipient.as_ref()), w),
        ("OwnerOffset", MessageDataPredicate(m)) => present(b32(m.recipient.as_ref()), w),
        ("AssetIdOffset", CoinSigned(c)) => present(b32(c.asset_id.as_ref()), w),
        ("AssetIdOffset", CoinPredicate(c)) => present(b32(c.asset_id.as_ref()), w),
        ("DataOffset", MessageCoinSigned(_)) | ("DataOffset", MessageCoinPredicate(_)) => present(vec![], w),
        ("DataOffset", MessageDataSigned(m)) => present(pad(&m.data), w),
        ("DataOffset", MessageDataPredicate(m)) => present(pad(&m.data), w),
        ("CoinPredicateOffset", CoinSigned(_)) => present(vec![], w),
        ("CoinPredicateOffset", CoinPredicate(c)) => present(pad(&c.predicate), w),
        ("ContractBalanceRootOffset", Contract(c)) => present(b32(c.balance_root.as_ref()), w),
        ("ContractStateRootOffset", Contract(c)) => present(b32(c.state_root.as_ref()), w),
        ("ContractIdOffset", Contract(c)) => present(b32(c.contract_id.as_ref()), w),
        ("MessageSenderOffset", MessageCoinSigned(m)) => present(b32(m.sender.as_ref()), w),
        ("MessageSenderOffset", MessageCoinPredicate(m)) => present(b32(m.sender.as_ref()), w),
        ("MessageSenderOffset", MessageDataSigned(m)) => present(b32(m.sender.as_ref()), w),
        ("MessageSenderOffset", MessageDataPredicate(m)) => present(b32(m.sender.as_ref()), w),
        ("MessageRecipientOffset", MessageCoinSigned(m)) => present(b32(m.recipient.as_ref()), w),
        ("MessageRecipientOffset", MessageCoinPredicate(m)) => present(b32(m.recipient.as_ref()), w),
        ("MessageRecipientOffset", MessageDataSigned(m)) => present(b32(m.recipient.as_ref()), w),
        ("MessageRecipientOffset", MessageDataPredicate(m)) => present(b32(m.recipient.as_ref()), w),
        ("MessageNonceOffset", MessageCoinSigned(m)) => present(b32(m.nonce.as_ref()), w),
        ("MessageNonceOffset", MessageCoinPredicate(m)) => present(b32(m.nonce.as_ref()), w),
        ("MessageNonceOffset", MessageDataSigned(m)) => present(b32(m.nonce.as_ref()), w),
        ("MessageNonceOffset", MessageDataPredicate(m)) => present(b32(m.nonce.as_ref()), w),
        ("TxPointerOffsetI", CoinSigned(c)) => present(c.tx_pointer.to_bytes(), w),
        ("TxPointerOffsetI", CoinPredicate(c)) => present(c.tx_pointer.to_bytes(), w),
        ("TxPointerOffsetI", Contract(c)) => present(c.tx_pointer.to_bytes(), w),
        ("PredicateOffset", CoinPredicate(c)) => present(pad(&c.predicate), w),
        ("PredicateOffset", MessageCoinPredicate(m)) => present(pad(&m.predicate), w),
        ("PredicateOffset", MessageDataPredicate(m)) => present(pad(&m.predicate), w),
        ("PredicateDataOffset", CoinPredicate(c)) => present(pad(&c.predicate_data), w),
        ("PredicateDataOffset", MessageCoinPredicate(m)) => present(pad(&m.predicate_data), w),
        ("PredicateDataOffset", MessageDataPredicate(m)) => present(pad(&m.predicate_data), w),
        ("PredicateLen", CoinPredicate(c)) => Expect::Len(Some(c.predicate.len() as u64)),
        ("PredicateLen", MessageCoinPredicate(m)) => Expect::Len(Some(m.predicate.len() as u64)),
        ("PredicateLen", MessageDataPredicate(m)) => Expect::Len(Some(m.predicate.len() as u64)),
        ("PredicateLen", Contract(_)) => Expect::Len(None),
        ("PredicateLen", _) => Expect::Len(Some(0)),
        ("PredicateDataLen", CoinPredicate(c)) => Expect::Len(Some(c.predicate_data.len() as u64)),
        ("PredicateDataLen", MessageCoinPredicate(m)) => Expect::Len(Some(m.predicate_data.len() as u64)),
        ("PredicateDataLen", MessageDataPredicate(m)) => Expect::Len(Some(m.predicate_data.len() as u64)),
        ("PredicateDataLen", Contract(_)) => Expect::Len(None),
        ("PredicateDataLen", _) => Expect::Len(Some(0)),
        ("InputDataLen", MessageDataSigned(m)) => Expect::Len(Some(m.data.len() as u64)),
        ("InputDataLen", MessageDataPredicate(m)) => Expect::Len(Some(m.data.len() as u64)),
        ("InputDataLen", MessageCoinSigned(_)) | ("InputDataLen", MessageCoinPredicate(_)) => Expect::Len(Some(0)),
        ("InputDataLen", _) => Expect::Len(None),
        _ => none,
    }
}
fn input_answer(f: &str, input: &Input) -> Ans {
    let r = InputRepr::from(input);
    Ans::of(match f {
        "UtxoIdOffset" => r.utxo_id_offset(),
        "OwnerOffset" => r.owner_offset(),
        "AssetIdOffset" => r.asset_id_offset(),
        "DataOffset" => r.data_offset(),
        "CoinPredicateOffset" => r.coin_predicate_offset(),
        "ContractBalanceRootOffset" => r.contract_balance_root_offset(),
        "ContractStateRootOffset" => r.contract_state_root_offset(),
        "ContractIdOffset" => r.contract_id_offset(),
        "MessageSenderOffset" => r.message_sender_offset(),
        "MessageRecipientOffset" => r.message_recipient_offset(),
        "MessageNonceOffset" => r.message_nonce_offset(),
        "TxPointerOffsetI" => r.tx_pointer_offset(),
        "PredicateOffset" => input.predicate_offset(),
        "PredicateDataOffset" => input.predicate_data_offset(),
        "PredicateLen" => input.predicate_len(),
        "PredicateDataLen" => input.predicate_data_len(),
        "InputDataLen" => input.input_data_len(),
        _ => unreachable!(),
    })
}
const OUT_FNS: [&str; 6] = ["ToOffset", "AssetIdOffsetO", "ContractBalanceRootOffsetO", "ContractStateRootOffsetO", "ContractCreatedStateRootOffset", "ContractIdOffsetO"];
fn output_answer(f: &str, o: &Output) -> Ans {
    let r = OutputRepr::from(o);
    Ans::of(match f {
        "ToOffset" => r.to_offset(),
        "AssetIdOffsetO" => r.asset_id_offset(),
        "ContractBalanceRootOffsetO" => r.contract_balance_root_offset(),
        "ContractStateRootOffsetO" => r.contract_state_root_offset(),
        "ContractCreatedStateRootOffset" => r.contract_created_state_root_offset(),
        "ContractIdOffsetO" => r.contract_id_offset(),
        _ => unreachable!(),
    })
}
fn output_expect(f: &str, i: usize, o: &Output) -> Expect {
    let w = Within::Output(i);
    match (f, o) {
        ("ToOffset", Output::Coin { to, .. }) | ("ToOffset", Output::Change { to, .. }) | ("ToOffset", Output::Variable { to, .. }) => present(to.to_vec(), w),
        ("AssetIdOffsetO", Output::Coin { asset_id, .. }) | ("AssetIdOffsetO", Output::Change { asset_id, .. }) | ("AssetIdOffsetO", Output::Variable { asset_id, .. }) => present(asset_id.to_vec(), w),
        ("ContractBalanceRootOffsetO", Output::Contract(c)) => present(c.balance_root.to_vec(), w),
        ("ContractStateRootOffsetO", Output::Contract(c)) => present(c.state_root.to_vec(), w),
        ("ContractCreatedStateRootOffset", Output::ContractCreated { state_root, .. }) => present(state_root.to_vec(), w),
        ("ContractIdOffsetO", Output::ContractCreated { contract_id, .. }) => present(contract_id.to_vec(), w),
        _ => Expect::Absent,
    }
}

fn policies_dynamic(p: &fuel_tx::policies::Policies) -> Vec<u8> {
    let mut v = Vec::new();
    p.encode_dynamic(&mut v).unwrap();
    v
}

macro_rules! qt {
    ($qs:expr, $name:expr, $ans:expr, $exp:expr) => {
        $qs.push(QA { coq: format!("(QT {})", $name), name: $name.to_string(), ans: Ans::of(Some($ans)), expect: $exp })
    };
}
/// queries every chargeable kind answers (inputs / outputs / witnesses / policies)
macro_rules! chargeable_queries {
    ($qs:expr, $tx:expr) => {{
        let tx = $tx;
        let pd = policies_dynamic(tx.policies());
        qt!($qs, "BodyOffsetEnd", tx.body_offset_end(), present(pd.clone(), Within::Tx));
        qt!($qs, "PoliciesOffset", tx.policies_offset(), present(pd, Within::Tx));
        qt!($qs, "InputsOffset", tx.inputs_offset(), present(cat(tx.inputs()), Within::Tx));
        qt!($qs, "OutputsOffset", tx.outputs_offset(), present(cat(tx.outputs()), Within::Tx));
        qt!($qs, "WitnessesOffset", tx.witnesses_offset(), present(cat(tx.witnesses()), Within::Tx));
        for i in idxs(tx.inputs().len()) {
            let e = tx.inputs().get(i).map(|x| present(x.to_bytes(), Within::Tx)).unwrap_or(Expect::Absent);
            $qs.push(QA { coq: format!("(QAt InputsOffsetAt {})", i), name: "InputsOffsetAt".into(), ans: Ans::of(tx.inputs_offset_at(i)), expect: e });
            let e = match tx.inputs().get(i).and_then(|x| x.input_predicate()) {
                Some(p) => present(pad(p), Within::Tx),
                None => Expect::Absent,
            };
            let a = match tx.inputs_predicate_offset_at(i) { Some((a, b)) => Ans::P(a as u64, b as u64), None => Ans::None };
            $qs.push(QA { coq: format!("(QPred {})", i), name: "InputsPredicateOffsetAt".into(), ans: a, expect: e });
        }
        for i in idxs(tx.outputs().len()) {
            let e = tx.outputs().get(i).map(|x| present(x.to_bytes(), Within::Tx)).unwrap_or(Expect::Absent);
            $qs.push(QA { coq: format!("(QAt OutputsOffsetAt {})", i), name: "OutputsOffsetAt".into(), ans: Ans::of(tx.outputs_offset_at(i)), expect: e });
        }
        for i in idxs(tx.witnesses().len()) {
            let e = tx.witnesses().get(i).map(|x| present(x.to_bytes(), Within::Tx)).unwrap_or(Expect::Absent);
            $qs.push(QA { coq: format!("(QAt WitnessesOffsetAt {})", i), name: "WitnessesOffsetAt".into(), ans: Ans::of(tx.witnesses_offset_at(i)), expect: e });
        }
        for (i, input) in tx.inputs().iter().enumerate() {
            for f in IN_FNS {
                $qs.push(QA { coq: format!("(QIn {} {})", f, i), name: format!("Input::{}", f), ans: input_answer(f, input), expect: input_expect(f, i, input) });
            }
        }
        for (i, o) in tx.outputs().iter().enumerate() {
            for f in OUT_FNS {
                $qs.push(QA { coq: format!("(QOut {} {})", f, i), name: format!("Output::{}", f), ans: output_answer(f, o), expect: output_expect(f, i, o) });
            }
        }
    }};
}
fn w16(x: u16) -> Vec<u8> {
    x.to_bytes()
}

fn queries(tx: &Transaction) -> Vec<QA> {
    let mut qs = vec![];
    let t = Within::Tx;
    match tx {
        Transaction::Script(s) => {
            qt!(qs, "ScriptGasLimitOffset", s.script_gas_limit_offset(), present(s.script_gas_limit().to_bytes(), t.clone()));
            qt!(qs, "ReceiptsRootOffset", s.receipts_root_offset(), present(s.receipts_root().to_vec(), t.clone()));
            qt!(qs, "ScriptOffset", s.script_offset(), present(pad(s.script()), t.clone()));
            qt!(qs, "ScriptDataOffset", s.script_data_offset(), present(pad(s.script_data()), t.clone()));
            chargeable_queries!(qs, s);
        }
        Transaction::Create(c) => {
            qt!(qs, "BytecodeWitnessIndexOffset", c.bytecode_witness_index_offset(), present(w16(*c.bytecode_witness_index()), t.clone()));
            qt!(qs, "SaltOffset", c.salt_offset(), present(c.salt().to_vec(), t.clone()));
            qt!(qs, "StorageSlotsOffsetStatic", fuel_tx::Create::storage_slots_offset_static(), present(cat(c.storage_slots()), t.clone()));
            for i in idxs(c.storage_slots().len()) {
                let e = c.storage_slots().get(i).map(|x| present(x.to_bytes(), t.clone())).unwrap_or(Expect::Absent);
                qs.push(QA { coq: format!("(QAt StorageSlotsOffsetAt {})", i), name: "StorageSlotsOffsetAt".into(), ans: Ans::of(c.storage_slots_offset_at(i)), expect: e });
            }
            chargeable_queries!(qs, c);
        }
        Transaction::Upgrade(u) => {
            qt!(qs, "UpgradePurposeOffset", u.upgrade_purpose_offset(), present(u.upgrade_purpose().to_bytes(), t.clone()));
            chargeable_queries!(qs, u);
        }
        Transaction::Upload(u) => {
            qt!(qs, "BytecodeRootOffset", u.bytecode_root_offset(), present(u.bytecode_root().to_vec(), t.clone()));
            qt!(qs, "BytecodeWitnessIndexOffset", u.bytecode_witness_index_offset(), present(w16(*u.bytecode_witness_index()), t.clone()));
            qt!(qs, "SubsectionIndexOffset", u.subsection_index_offset(), present(w16(*u.subsection_index()), t.clone()));
            qt!(qs, "SubsectionsNumberOffset", u.subsections_number_offset(), present(w16(*u.subsections_number()), t.clone()));
            qt!(qs, "ProofSetOffset", u.proof_set_offset(), present(u.proof_set().iter().flat_map(|p| p.to_vec()).collect(), t.clone()));
            for i in idxs(u.proof_set().len()) {
                let e = u.proof_set().get(i).map(|x| present(x.to_vec(), t.clone())).unwrap_or(Expect::Absent);
                qs.push(QA { coq: format!("(QAt ProofSetOffsetAt {})", i), name: "ProofSetOffsetAt".into(), ans: Ans::of(u.proof_set_offset_at(i)), expect: e });
            }
            chargeable_queries!(qs, u);
        }
        Transaction::Blob(b) => {
            qt!(qs, "BlobIdOffset", b.blob_id_offset(), present(b.blob_id().to_vec(), t.clone()));
            qt!(qs, "BytecodeWitnessIndexOffset", b.bytecode_witness_index_offset(), present(w16(*b.bytecode_witness_index()), t.clone()));
            chargeable_queries!(qs, b);
        }
        Transaction::Mint(m) => {
            qt!(qs, "MintTxPointerOffset", m.tx_pointer_offset(), present(m.tx_pointer().to_bytes(), t.clone()));
            qt!(qs, "InputContractOffset", m.input_contract_offset(), present(m.input_contract().to_bytes(), t.clone()));
            qt!(qs, "OutputContractOffset", m.output_contract_offset(), present(m.output_contract().to_bytes(), t.clone()));
            qt!(qs, "MintAmountOffset", m.mint_amount_offset(), present(m.mint_amount().to_bytes(), t.clone()));
            qt!(qs, "MintAssetIdOffset", m.mint_asset_id_offset(), present(m.mint_asset_id().to_vec(), t.clone()));
            qt!(qs, "GasPriceOffset", m.gas_price_offset(), present(m.gas_price().to_bytes(), t.clone()));
        }
    }
    qs
}
fn tx_inputs(tx: &Transaction) -> &[Input] {
    match tx {
        Transaction::Script(t) => t.inputs(),
        Transaction::Create(t) => t.inputs(),
        Transaction::Upgrade(t) => t.inputs(),
        Transaction::Upload(t) => t.inputs(),
        Transaction::Blob(t) => t.inputs(),
        Transaction::Mint(_) => &[],
    }
}
fn tx_outputs(tx: &Transaction) -> &[Output] {
    match tx {
        Transaction::Script(t) => t.outputs(),
        Transaction::Create(t) => t.outputs(),
        Transaction::Upgrade(t) => t.outputs(),
        Transaction::Upload(t) => t.outputs(),
        Transaction::Blob(t) => t.outputs(),
        Transaction::Mint(_) => &[],
    }
}
fn tx_witnesses(tx: &Transaction) -> &[Witness] {
    match tx {
        Transaction::Script(t) => t.witnesses(),
        Transaction::Create(t) => t.witnesses(),
        Transaction::Upgrade(t) => t.witnesses(),
        Transaction::Upload(t) => t.witnesses(),
        Transaction::Blob(t) => t.witnesses(),
        Transaction::Mint(_) => &[],
    }
}
fn input_variant_name(i: &Input) -> &'static str {
    match i {
        Input::CoinSigned(_) => "coin-signed",
        Input::CoinPredicate(_) => "coin-predicate",
        Input::Contract(_) => "contract",
        Input::MessageCoinSigned(_) => "message-coin-signed",
        Input::MessageCoinPredicate(_) => "message-coin-predicate",
        Input::MessageDataSigned(_) => "message-data-signed",
        Input::MessageDataPredicate(_) => "message-data-predicate",
    }
}

/// the property itself on the real code
fn oracle(out: &mut Out, tx: &Transaction, label: &str, qs: &[QA], cached: bool) {
    let kind = kind_index(tx);
    let bytes = tx.to_bytes();
    let replay = || json!({"kind": "c04", "tx_kind": kind, "val": kind_val(tx).json(), "cached": cached});
    for q in qs {
        out.oracle_evaluations += 1;
        let (enc, who): (Vec<u8>, String) = match &q.expect {
            Expect::Bytes { within: Within::Input(i), .. } => (tx_inputs(tx)[*i].to_bytes(), format!("/{}", input_variant_name(&tx_inputs(tx)[*i]))),
            Expect::Bytes { within: Within::Output(i), .. } => (tx_outputs(tx)[*i].to_bytes(), String::new()),
            _ => (vec![], String::new()),
        };
        let enc: &[u8] = if enc.is_empty() { &bytes } else { &enc };
        let class = format!("{}{}{}", q.name, who, if cached { "/cached" } else { "" });
        match (&q.expect, &q.ans) {
            (Expect::Absent, Ans::None) => {}
            (Expect::Absent, a) => out.oracle_fail(&format!("offset-for-absent-field/{}", class), &format!("{} {}: {} answered {:?} for an absent field / out-of-range index", KIND_NAMES[kind], label, q.coq, a), replay()),
            (Expect::Len(e), a) => {
                if Ans::of(e.map(|x| x as usize)) != *a {
                    out.oracle_fail(&format!("wrong-length/{}", class), &format!("{} {}: {} = {:?}, expected {:?}", KIND_NAMES[kind], label, q.coq, a, e), replay());
                }
            }
            (Expect::Bytes { .. }, Ans::None) => out.oracle_fail(&format!("no-offset-for-present-field/{}", class), &format!("{} {}: {} answered None for a present field", KIND_NAMES[kind], label, q.coq), replay()),
            (Expect::Bytes { field, .. }, Ans::N(o)) | (Expect::Bytes { field, .. }, Ans::P(o, _)) => {
                let o = *o as usize;
                let ok = o.checked_add(field.len()).map(|e| e <= enc.len() && enc[o..e] == field[..]).unwrap_or(false);
                if !ok {
                    out.oracle_fail(&format!("offset-does-not-locate-field/{}", class),
                        &format!("{} {}: {} = {}: the {} bytes there are not the field's canonical bytes (encoding length {})", KIND_NAMES[kind], label, q.coq, o, field.len(), enc.len()), replay());
                }
                if let Ans::P(_, len) = &q.ans {
                    if *len as usize != field.len() {
                        out.oracle_fail(&format!("predicate-length-not-padded-length/{}", class), &format!("{} {}: {} reports length {}, padded length is {}", KIND_NAMES[kind], label, q.coq, len, field.len()), replay());
                    }
                }
            }
        }
    }
    // elements decode from the slice at their offset
    let dec_check = |out: &mut Out, what: &str, off: Option<usize>, ok: &dyn Fn(&[u8]) -> bool| {
        out.oracle_evaluations += 1;
        if let Some(o) = off {
            if o > bytes.len() || !ok(&bytes[o..]) {
                out.oracle_fail(&format!("element-does-not-decode-at-offset/{}{}", what, if cached { "/cached" } else { "" }), &format!("{} {}: decoding {} at its offset {} does not give the element back", KIND_NAMES[kind], label, what, o), replay());
            }
        }
    };
    macro_rules! elems {
        ($t:expr) => {{
            for (i, x) in $t.inputs().iter().enumerate() {
                dec_check(out, "input", $t.inputs_offset_at(i), &|b| Input::decode(&mut &b[..]).map(|y| &y == x).unwrap_or(false));
            }
            for (i, x) in $t.outputs().iter().enumerate() {
                dec_check(out, "output", $t.outputs_offset_at(i), &|b| Output::decode(&mut &b[..]).map(|y| &y == x).unwrap_or(false));
            }
            for (i, x) in $t.witnesses().iter().enumerate() {
                dec_check(out, "witness", $t.witnesses_offset_at(i), &|b| Witness::decode(&mut &b[..]).map(|y| &y == x).unwrap_or(false));
            }
        }};
    }
    match tx {
        Transaction::Script(t) => elems!(t),
        Transaction::Create(t) => {
            elems!(t);
            for (i, x) in t.storage_slots().iter().enumerate() {
                dec_check(out, "storage-slot", t.storage_slots_offset_at(i), &|b| StorageSlot::decode(&mut &b[..]).map(|y| &y == x).unwrap_or(false));
            }
        }
        Transaction::Upgrade(t) => elems!(t),
        Transaction::Upload(t) => elems!(t),
        Transaction::Blob(t) => elems!(t),
        Transaction::Mint(_) => {}
    }
}

// ---------------------------------------------------------------- generators
fn gen_layout_inputs(rng: &mut Rng, shape: usize, thorough: bool) -> Vec<Input> {
    let l = |rng: &mut Rng, ne: bool| blen(rng, thorough, ne);
    match shape {
        // the layout named in the property: message-data predicate after a contract input
        0 => vec![gen_input_kind(rng, 2, 0, 0, 0), { let (a, b, c) = (l(rng, true), l(rng, false), l(rng, true)); gen_input_kind(rng, 6, a, b, c) }],
        // every variant once, in order
        1 => (0..7).map(|k| { let (a, b, c) = (l(rng, true), l(rng, false), l(rng, true)); gen_input_kind(rng, k, a, b, c) }).collect(),
        // predicates only, unaligned lengths
        2 => vec![gen_input_kind(rng, 1, 7, 3, 0), gen_input_kind(rng, 4, 9, 0, 0), gen_input_kind(rng, 6, 1, 15, 13)],
        _ => {
            let n = rng.below(5) as usize;
            (0..n).map(|_| gen_input(rng, thorough)).collect()
        }
    }
}
fn gen_offsets_tx(rng: &mut Rng, kind: usize, shape: usize, thorough: bool) -> Transaction {
    let inputs = gen_layout_inputs(rng, shape, thorough);
    let no = if shape == 1 { 5 } else { rng.below(5) as usize };
    let outputs: Vec<Output> = (0..no).map(|i| if shape == 1 { gen_output_kind(rng, i) } else { gen_output(rng) }).collect();
    let nw = 1 + rng.below(4) as usize;
    let mut witnesses: Vec<Witness> = (0..nw).map(|_| gen_witness(rng, thorough)).collect();
    let policies = gen_policies(rng);
    match kind {
        0 => {
            // a 7-byte script in the named layout
            let sl = if shape == 0 { 7 } else { blen(rng, thorough, false) };
            let dl = blen(rng, thorough, false);
            let mut t = Transaction::script(rng.u64_biased(), rng.bytes(sl), rng.bytes(dl), policies, inputs, outputs, witnesses);
            *t.receipts_root_mut() = b32(rng).into();
            t.into()
        }
        1 => {
            let ns = rng.below(5) as usize;
            let slots = (0..ns).map(|_| StorageSlot::new(b32(rng).into(), b32(rng).into())).collect();
            let wi = if rng.chance(5, 6) { rng.below(nw as u64) as u16 } else { rng.u64_biased() as u16 };
            Transaction::create(wi, policies, b32(rng).into(), slots, inputs, outputs, witnesses).into()
        }
        3 => {
            let purpose = if rng.bool() {
                // a real consensus-parameters upgrade: the witness carries the serialized parameters
                let ser = postcard::to_allocvec(&ConsensusParameters::default()).unwrap();
                let checksum = fuel_crypto::Hasher::hash(&ser);
                let idx = rng.below(nw as u64) as usize;
                witnesses[idx] = ser.into();
                UpgradePurpose::ConsensusParameters { witness_index: idx as u16, checksum: if rng.chance(4, 5) { checksum } else { b32(rng).into() } }
            } else {
                UpgradePurpose::StateTransition { root: b32(rng).into() }
            };
            Transaction::upgrade(purpose, policies, inputs, outputs, witnesses).into()
        }
        4 => {
            let np = rng.below(6) as usize;
            let body = UploadBody {
                root: b32(rng).into(),
                witness_index: rng.u64_biased() as u16,
                subsection_index: rng.u64_biased() as u16,
                subsections_number: rng.u64_biased() as u16,
                proof_set: (0..np).map(|_| b32(rng).into()).collect(),
            };
            Transaction::upload(body, policies, inputs, outputs, witnesses).into()
        }
        5 => Transaction::blob(fuel_tx::BlobBody { id: b32(rng).into(), witness_index: rng.u64_biased() as u16 }, policies, inputs, outputs, witnesses).into(),
        _ => gen_tx_uncached(rng, 2, thorough, 0),
    }
}

/// precompute, EDIT the transaction through the `_mut` accessors (the cached offsets are now stale
/// by design), precompute AGAIN: every cached answer must equal the uncached answer of the edited
/// value and locate the bytes of its `to_bytes()`
fn edit_then_recompute(out: &mut Out, rng: &mut Rng, tx: &Transaction, label: &str) {
    let kind = kind_index(tx);
    let mut pc = tx.clone();
    if pc.precompute(&ChainId::new(7)).is_err() { out.count("oracle/edit/precompute-failed"); return; }
    let mut edits: Vec<&'static str> = vec![];
    macro_rules! edit_common {
        ($t:expr) => {{
            match rng.below(6) {
                0 => { let i = gen_input(rng, false); $t.inputs_mut().push(i); edits.push("input-pushed"); }
                1 => { if $t.inputs_mut().pop().is_some() { edits.push("input-popped"); } }
                2 => { let i = gen_input(rng, false); $t.inputs_mut().insert(0, i); edits.push("input-inserted-first"); }
                3 => { let o = gen_output(rng); $t.outputs_mut().insert(0, o); edits.push("output-inserted-first"); }
                4 => { let w = gen_witness(rng, false); $t.witnesses_mut().insert(0, w); edits.push("witness-inserted-first"); }
                _ => { if let Some(Input::CoinPredicate(c)) = $t.inputs_mut().iter_mut().find(|i| i.is_coin_predicate()) { c.predicate_data.extend_from_slice(&[1, 2, 3]); edits.push("predicate-data-grown"); } }
            }
        }};
    }
    match &mut pc {
        Transaction::Script(s) => {
            // change the script length so that its 8-byte-padded size changes
            let add = 1 + rng.below(16) as usize;
            let grow = (s.script().len() + add + 7) / 8 != (s.script().len() + 7) / 8;
            s.script_mut().extend(std::iter::repeat(0x5a).take(if grow { add } else { add + 8 }));
            edits.push("script-padded-size-changed");
            if rng.bool() { s.script_data_mut().extend_from_slice(&[9; 5]); edits.push("script-data-grown"); }
            edit_common!(s);
        }
        Transaction::Create(c) => edit_common!(c),
        Transaction::Upgrade(u) => edit_common!(u),
        Transaction::Upload(u) => { u.proof_set_mut().push(rng.bytes32().into()); edits.push("proof-pushed"); edit_common!(u) }
        Transaction::Blob(b) => edit_common!(b),
        Transaction::Mint(_) => return,
    }
    if pc.precompute(&ChainId::new(7)).is_err() { out.count("oracle/edit/second-precompute-failed"); return; }
    // the edited value without any metadata
    let Some(plain_tx) = tx_from_kind_val(kind, &kind_val(&pc)) else { out.count("oracle/edit/rebuild-failed"); return };
    let lbl = format!("{}+edit[{}]", label, edits.join(","));
    let cached = queries(&pc);
    let plain = queries(&plain_tx);
    oracle(out, &pc, &lbl, &cached, true);
    for (a, b) in plain.iter().zip(cached.iter()) {
        out.oracle_evaluations += 1;
        if a.ans != b.ans || a.coq != b.coq {
            out.oracle_fail(&format!("cached-offset-differs-after-edit-and-recompute/{}", a.name),
                &format!("{} {}: {} = {:?} without metadata, {:?} after edit + second precompute", KIND_NAMES[kind], lbl, a.coq, a.ans, b.ans),
                json!({"kind": "c04", "tx_kind": kind, "val": kind_val(&pc).json(), "edits": edits}));
        }
    }
    if plain.len() != cached.len() {
        out.oracle_fail("cached-offset-differs-after-edit-and-recompute/query-count", &format!("{} {}: {} vs {} answers", KIND_NAMES[kind], lbl, plain.len(), cached.len()),
            json!({"kind": "c04", "tx_kind": kind, "val": kind_val(&pc).json(), "edits": edits}));
    }
    out.count("oracle/edit-then-recompute");
}

fn one(out: &mut Out, tx: &Transaction, label: &str, model: bool) {
    let kind = kind_index(tx);
    let v = kind_val(tx);
    let plain = queries(tx);
    oracle(out, tx, label, &plain, false);
    let mut pc = tx.clone();
    let ok = pc.precompute(&ChainId::new(7)).is_ok();
    let cached = if ok { queries(&pc) } else { vec![] };
    if ok {
        oracle(out, &pc, label, &cached, true);
        // cached == uncached
        for (a, b) in plain.iter().zip(cached.iter()) {
            out.oracle_evaluations += 1;
            if a.ans != b.ans {
                out.oracle_fail(&format!("cached-offset-differs/{}", a.name), &format!("{} {}: {} = {:?} without metadata, {:?} with", KIND_NAMES[kind], label, a.coq, a.ans, b.ans),
                    json!({"kind": "c04", "tx_kind": kind, "val": v.json()}));
            }
        }
    } else {
        out.count("oracle/precompute-failed");
    }
    if model {
        let qa = |qs: &[QA]| coq_list(&qs.iter().map(|q| format!("({}, {})", q.coq, q.ans.coq())).collect::<Vec<_>>());
        let coq = format!("(oc {} {} {} {} {})", kind, v.coq(), qa(&plain), coq_bool(ok), qa(&cached));
        let bytes = tx.to_bytes();
        let shape: Vec<&str> = tx_inputs(tx).iter().map(input_variant_name).collect();
        out.push(Case {
            coq,
            json: json!({"kind": "c04", "tx_kind": KIND_NAMES[kind], "label": label, "inputs": shape, "outputs": tx_outputs(tx).len(), "witnesses": tx_witnesses(tx).len(),
                         "encoded_len": bytes.len(), "queries": plain.len(), "precompute_ok": ok, "val": v.json()}),
            key: format!("{}:{}", kind, hexs(&bytes)),
            nontrivial: plain.len() > 8,
            class: format!("{}/{}", KIND_NAMES[kind], label),
        });
    } else {
        out.count(&format!("oracle/{}", KIND_NAMES[kind]));
    }
}

fn run(args: &Args, out: &mut Out) {
    let mut rng = Rng::new(args.seed);
    let thorough = args.thorough();
    if let Some(f) = &args.replay {
        let r = read_replay(f);
        let kind = r["tx_kind"].as_u64().unwrap_or(0) as usize;
        if let Some(v) = Val::from_json(&r["val"]) {
            if let Some(tx) = tx_from_kind_val(kind, &v) {
                one(out, &tx, "replay", true);
            }
        }
        return;
    }
    let n_model = args.scale(5, 60);       // per kind and shape
    let n_oracle = args.scale(60, 1500);   // per kind and shape
    let labels = ["msgdata-pred-after-contract", "all-variants", "unaligned-predicates", "random"];
    for kind in 0..6usize {
        for shape in 0..4usize {
            if kind == 2 && shape > 0 { continue; }
            for i in 0..n_oracle.max(n_model) {
                let tx = gen_offsets_tx(&mut rng, kind, shape, thorough);
                one(out, &tx, labels[shape], i < n_model && !args.oracle_only);
                if i % 2 == 0 { edit_then_recompute(out, &mut rng, &tx, labels[shape]); }
            }
        }
    }
}

fn main() {
    quiet_panics();
    let args = Args::parse();
    let mut out = Out::new();
    let header = "From Coq Require Import Uint63.\nFrom FV Require Import Base.Bytes Codec.Schema Offsets.OffsetSpec Offsets.OffsetModel Run.Codec Run.Offsets.\nOpen Scope N_scope.";
    match args.prop.as_str() {
        "C04" => {
            run(&args, &mut out);
            out.write(&args, header, "off_case", "bad_off");
        }
        p => {
            eprintln!("offsets: unknown property {p}");
            std::process::exit(2);
        }
    }
}
