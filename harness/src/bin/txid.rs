//! C03 — transaction id commits to exactly the non-malleable content.
//!
//! Correspondence: for generated transactions of the five chargeable kinds + mint and a chain id,
//! print (neutral value, chain id, `tx.id(&chain)`, whether `precompute` succeeded, `cached_id()`
//! and `id()` after precompute); coq/Run/TxId.v recomputes the 32-byte id with the Gallina model
//! (Gen/PrepareSign.v interpreter + canonical encoder + SHA-256).
//!
//! Implementation-level oracle (the property itself, on the real code, against a reference written
//! here from the property text):
//!   * formula: id == SHA-256(be8(chain) ‖ to_bytes(strip(tx))) with `strip` done on the neutral
//!     value by a schema walk (malleable paths listed below from the text) and SHA-256 from `sha2`;
//!   * single-field mutations of EVERY encoded position enumerated from the schema
//!     (harness/src/gen/tx_schema.rs, regenerated from the Rust sources): malleable => id unchanged,
//!     anything else => id changed; vectors also grow/shrink; policies are set/unset/changed;
//!   * a different chain id changes the id;
//!   * `cached_id()` after `precompute` == the fresh id, and `id()` afterwards too.
#[path = "../txval.rs"]
mod txval;
use fuel_tx::{Cacheable, Transaction, UniqueIdentifier};
use fuel_types::canonical::Serialize;
use fuel_types::ChainId;
use fvh::*;
use serde_json::json;
use sha2::{Digest, Sha256};
use std::collections::{BTreeMap, BTreeSet};
use txval::tx_schema::Ty;
use txval::*;

// ---------------------------------------------------------------- the specification (from the text)
/// Malleable field paths (field / variant names; vector elements add no step), per kind.
/// "receipts root, change and variable output amounts/recipients/assets, contract input and output
/// roots and UTXO data, coin tx pointers, predicate gas used"
fn malleable_paths(kind: usize) -> Vec<Vec<&'static str>> {
    if kind == 2 {
        // mint: the contract input / output it carries
        return vec![
            vec!["input_contract", "utxo_id"], vec!["input_contract", "balance_root"],
            vec!["input_contract", "state_root"], vec!["input_contract", "tx_pointer"],
            vec!["output_contract", "balance_root"], vec!["output_contract", "state_root"],
        ];
    }
    let mut v = vec![
        vec!["outputs", "Change", "amount"],
        vec!["outputs", "Variable", "to"], vec!["outputs", "Variable", "amount"], vec!["outputs", "Variable", "asset_id"],
        vec!["outputs", "Contract", "0", "balance_root"], vec!["outputs", "Contract", "0", "state_root"],
        vec!["inputs", "Contract", "utxo_id"], vec!["inputs", "Contract", "balance_root"],
        vec!["inputs", "Contract", "state_root"], vec!["inputs", "Contract", "tx_pointer"],
        vec!["inputs", "CoinSigned", "tx_pointer"], vec!["inputs", "CoinPredicate", "tx_pointer"],
        vec!["inputs", "CoinPredicate", "predicate_gas_used"],
        vec!["inputs", "MessageCoinPredicate", "predicate_gas_used"],
        vec!["inputs", "MessageDataPredicate", "predicate_gas_used"],
    ];
    if kind == 0 {
        v.push(vec!["body", "receipts_root"]);
    }
    v
}
/// "witnesses removed"
fn removed_paths(kind: usize) -> Vec<Vec<&'static str>> {
    if kind == 2 { vec![] } else { vec![vec!["witnesses"]] }
}
fn has_prefix(names: &[&str], pats: &[Vec<&'static str>]) -> bool {
    pats.iter().any(|p| names.len() >= p.len() && names[..p.len()] == p[..])
}
#[derive(Clone, Copy, PartialEq, Debug)]
enum Cls {
    Malleable,
    Removed,
    Fixed,
}
fn classify(kind: usize, names: &[&str]) -> Cls {
    if has_prefix(names, &removed_paths(kind)) {
        Cls::Removed
    } else if has_prefix(names, &malleable_paths(kind)) {
        Cls::Malleable
    } else {
        Cls::Fixed
    }
}

/// reference strip on the neutral value: zero every malleable leaf, empty the removed vectors
fn strip_ref(kind: usize, v: &Val) -> Val {
    let mut out = v.clone();
    let mut ls = vec![];
    leaves(kind_schema(kind), v, &mut vec![], &mut ls);
    // vectors first (removing witnesses invalidates the paths below them, which are skipped)
    for l in &ls {
        let names = l.names();
        if matches!(l.ty, Ty::Vec(_)) && removed_paths(kind).iter().any(|p| p[..] == names[..]) {
            *nav_mut(&mut out, &l.steps).unwrap() = Val::L(vec![]);
        }
    }
    for l in &ls {
        let names = l.names();
        if classify(kind, &names) != Cls::Malleable {
            continue;
        }
        if let Some(x) = nav_mut(&mut out, &l.steps) {
            match (l.ty, &*x) {
                (Ty::UInt(_), _) => *x = Val::N(0),
                (Ty::BytesN(n), _) => *x = Val::B(vec![0u8; *n]),
                (Ty::ByteVec, _) => *x = Val::B(vec![]),
                (Ty::Vec(_), _) => *x = Val::L(vec![]),
                _ => {}
            }
        }
    }
    out
}
fn sha(parts: &[&[u8]]) -> [u8; 32] {
    let mut h = Sha256::new();
    for p in parts {
        h.update(p);
    }
    h.finalize().into()
}
fn ref_id(kind: usize, v: &Val, chain: u64) -> Option<[u8; 32]> {
    let stripped = tx_from_kind_val(kind, &strip_ref(kind, v))?;
    let bytes = stripped.to_bytes();
    Some(sha(&[&chain.to_be_bytes(), &bytes]))
}

// ---------------------------------------------------------------- mutations
/// all single-position mutations of leaf `l` (each returns a new kind value), with a label
fn mutate(rng: &mut Rng, v: &Val, l: &Leaf) -> Vec<(String, Val)> {
    let mut res = vec![];
    let cur = nav(v, &l.steps).unwrap().clone();
    let put = |label: &str, nv: Val, res: &mut Vec<(String, Val)>| {
        let mut o = v.clone();
        *nav_mut(&mut o, &l.steps).unwrap() = nv;
        res.push((label.to_string(), o));
    };
    match (l.ty, &cur) {
        (Ty::UInt(w), Val::N(n)) => {
            put("xor1", Val::N(*n ^ 1), &mut res);
            let max: u128 = if *w >= 16 { u128::MAX } else { (1u128 << (8 * *w)) - 1 };
            let r = (rng.next() as u128) & max;
            if r != *n { put("random", Val::N(r), &mut res); }
            if *n != 0 { put("zero", Val::N(0), &mut res); }
        }
        (Ty::BytesN(_), Val::B(b)) if !b.is_empty() => {
            let mut c = b.clone();
            let i = rng.below(c.len() as u64) as usize;
            c[i] ^= 1 << rng.below(8);
            put("flip", Val::B(c), &mut res);
            if b.iter().any(|x| *x != 0) { put("zero", Val::B(vec![0; b.len()]), &mut res); }
        }
        (Ty::ByteVec, Val::B(b)) => {
            if !b.is_empty() {
                let mut c = b.clone();
                let i = rng.below(c.len() as u64) as usize;
                c[i] ^= 1 << rng.below(8);
                put("flip", Val::B(c), &mut res);
            }
            let mut c = b.clone();
            c.push(rng.next() as u8);
            put("append", Val::B(c), &mut res);
            let mut c = b.clone();
            c.push(0);
            put("append0", Val::B(c), &mut res);
            if b.len() > 1 {
                // stay non-empty: an emptied predicate / message data changes the input variant on the wire (C01 F1/F2)
                let mut c = b.clone();
                c.pop();
                put("truncate", Val::B(c), &mut res);
            }
        }
        (Ty::Vec(_), Val::L(xs)) => {
            if let Some(last) = xs.last() {
                let mut c = xs.clone();
                c.push(last.clone());
                put("dup-last", Val::L(c), &mut res);
                let mut c = xs.clone();
                c.pop();
                put("pop", Val::L(c), &mut res);
                if xs.len() > 1 {
                    let mut c = xs.clone();
                    c.swap(0, xs.len() - 1);
                    if c != *xs { put("swap", Val::L(c), &mut res); }
                }
            } else if l.names() == ["witnesses"] {
                put("push-empty-witness", Val::L(vec![Val::S(vec![Val::B(vec![])])]), &mut res);
            }
        }
        (Ty::Policies, Val::S(f)) => {
            let bits = f[0].n().unwrap() as u32;
            for k in 0..6usize {
                let val = f[k + 1].n().unwrap();
                if bits & (1 << k) != 0 {
                    let mut g = f.clone();
                    g[k + 1] = Val::N(val ^ 1);
                    put(&format!("policy-{}-xor1", POLICY_NAMES[k]), Val::S(g), &mut res);
                    let mut g = f.clone();
                    g[0] = Val::N((bits & !(1 << k)) as u128);
                    g[k + 1] = Val::N(0);
                    put(&format!("policy-{}-unset", POLICY_NAMES[k]), Val::S(g), &mut res);
                } else {
                    let mut g = f.clone();
                    g[0] = Val::N((bits | (1 << k)) as u128);
                    g[k + 1] = Val::N(0);
                    put(&format!("policy-{}-set0", POLICY_NAMES[k]), Val::S(g.clone()), &mut res);
                    g[k + 1] = Val::N(1 + rng.below(1000) as u128);
                    put(&format!("policy-{}-set", POLICY_NAMES[k]), Val::S(g), &mut res);
                }
            }
        }
        _ => {}
    }
    res
}
/// variant switches of outputs with identical field lists (Coin / Change / Variable)
fn variant_switches(v: &Val, kind: usize) -> Vec<(String, Vec<&'static str>, Val)> {
    let mut res = vec![];
    if kind == 2 { return res; }
    let Val::S(f) = v else { return res };
    let Val::L(outs) = &f[3] else { return res };
    for (i, o) in outs.iter().enumerate() {
        if let Val::E(k, fs) = o {
            if [0usize, 2, 3].contains(k) {
                for k2 in [0usize, 2, 3] {
                    if k2 != *k {
                        let mut nv = v.clone();
                        if let Val::S(g) = &mut nv { if let Val::L(os) = &mut g[3] { os[i] = Val::E(k2, fs.clone()); } }
                        res.push((format!("outputs[{}] variant {}->{}", i, k, k2), vec!["outputs"], nv));
                    }
                }
            }
        }
    }
    res
}

fn id_of(tx: &Transaction, chain: u64) -> [u8; 32] {
    *tx.id(&ChainId::new(chain))
}

struct Cov {
    exercised: BTreeMap<String, (u64, u64)>, // path -> (mutations checked, skipped)
}

/// the whole oracle on one (uncached) transaction
fn oracle(out: &mut Out, rng: &mut Rng, tx: &Transaction, chain: u64, cov: &mut Cov) {
    let kind = kind_index(tx);
    let v = kind_val(tx);
    let replay = |what: &str, mv: &Val| json!({"kind": "c03", "tx_kind": kind, "chain": chain.to_string(), "what": what, "val": v.json(), "mutated": mv.json()});
    out.oracle_evaluations += 1;
    let id = match guarded(|| id_of(tx, chain)) {
        Ok(i) => i,
        Err(p) => { out.oracle_fail("id-panics", &format!("{}: id() panicked: {}", KIND_NAMES[kind], p), replay("id", &v)); return; }
    };
    // formula
    match ref_id(kind, &v, chain) {
        Some(r) if r == id => {}
        Some(r) => out.oracle_fail("id-formula-mismatch", &format!("{}: id {} != SHA-256(be8(chain) ‖ encoding of the stripped tx) {}", KIND_NAMES[kind], hexs(&id), hexs(&r)), replay("formula", &v)),
        None => out.count("oracle/formula-skipped"),
    }
    // chain id
    for c2 in [chain ^ 1, chain.wrapping_add(1 << 32), rng.next()] {
        if c2 != chain {
            out.oracle_evaluations += 1;
            if id_of(tx, c2) == id {
                out.oracle_fail("chain-id-ignored", &format!("{}: id for chain {} == id for chain {}", KIND_NAMES[kind], chain, c2), replay("chain", &v));
            }
        }
    }
    // cache
    let mut pc = tx.clone();
    let ok = pc.precompute(&ChainId::new(chain)).is_ok();
    out.oracle_evaluations += 1;
    if ok {
        if pc.cached_id().map(|i| *i) != Some(id) || id_of(&pc, chain) != id {
            out.oracle_fail("cached-id-differs", &format!("{}: cached id {:?} / id after precompute {} != fresh id {}", KIND_NAMES[kind], pc.cached_id(), hexs(&id_of(&pc, chain)), hexs(&id)), replay("cache", &v));
        }
        // re-precompute (possibly under another chain id) must refresh the cache
        let c2 = chain ^ 0x55;
        let mut pc2 = pc.clone();
        if pc2.precompute(&ChainId::new(c2)).is_ok() && pc2.cached_id().map(|i| *i) != Some(id_of(tx, c2)) {
            out.oracle_fail("precompute-does-not-refresh", &format!("{}: second precompute kept a stale id", KIND_NAMES[kind]), replay("cache2", &v));
        }
        // observation (documented API behaviour, outside the statement: "`is_computed` doesn't mean the
        // cache is actual"): id() of a precomputed tx returns the cached id whatever chain id is passed
        if id_of(&pc, chain ^ 1) == id { out.count("observed/precomputed-id-ignores-chain-argument"); }
    } else {
        out.count("oracle/precompute-failed");
        if pc.cached_id().is_some() {
            out.oracle_fail("cached-id-after-failed-precompute", &format!("{}: precompute failed but cached_id is Some", KIND_NAMES[kind]), replay("cache", &v));
        }
    }
    // single-field mutations of every position of the schema
    let mut ls = vec![];
    leaves(kind_schema(kind), &v, &mut vec![], &mut ls);
    let mut muts: Vec<(String, Vec<&'static str>, Val)> = vec![];
    for l in &ls {
        for (label, mv) in mutate(rng, &v, l) {
            muts.push((format!("{} {}", l.show(), label), l.names(), mv));
        }
    }
    muts.extend(variant_switches(&v, kind));
    for (label, names, mv) in muts {
        let key = format!("{}:{}", KIND_NAMES[kind], names.join("."));
        let e = cov.exercised.entry(key).or_insert((0, 0));
        let Some(mtx) = tx_from_kind_val(kind, &mv) else { e.1 += 1; continue };
        if kind_val(&mtx) != mv { e.1 += 1; continue; }          // constructor normalised the value (e.g. sorted slots)
        out.oracle_evaluations += 1;
        e.0 += 1;
        let mut cls = classify(kind, &names);
        // a permutation of vector elements is not a single-field change: two elements that differ only
        // in malleable fields may be exchanged without changing the content
        if label.ends_with(" swap") && cls == Cls::Fixed && strip_ref(kind, &mv) == strip_ref(kind, &v) {
            cls = Cls::Malleable;
        }
        let id2 = match guarded(|| id_of(&mtx, chain)) {
            Ok(i) => i,
            Err(p) => { out.oracle_fail("id-panics", &format!("{}: id() panicked after {}: {}", KIND_NAMES[kind], label, p), replay(&label, &mv)); continue; }
        };
        match cls {
            Cls::Malleable | Cls::Removed => {
                if id2 != id {
                    let c = if cls == Cls::Removed { "witness-change-changes-id" } else { "malleable-field-changes-id" };
                    out.oracle_fail(c, &format!("{}: changing {} ({}) changed the id", KIND_NAMES[kind], names.join("."), label), replay(&label, &mv));
                }
            }
            Cls::Fixed => {
                if id2 == id {
                    out.oracle_fail("non-malleable-field-not-committed", &format!("{}: changing {} ({}) did not change the id", KIND_NAMES[kind], names.join("."), label), replay(&label, &mv));
                }
            }
        }
        // the mutated transaction satisfies the formula too (the reference is re-applied to it)
        if rng.chance(1, 8) {
            if let Some(r) = ref_id(kind, &mv, chain) {
                out.oracle_evaluations += 1;
                if r != id2 {
                    out.oracle_fail("id-formula-mismatch", &format!("{}: after {}: id != reference", KIND_NAMES[kind], label), replay(&label, &mv));
                }
            }
        }
    }
}

fn coq_case(tx: &Transaction, chain: u64) -> (String, serde_json::Value, String, bool) {
    let kind = kind_index(tx);
    let v = kind_val(tx);
    let id = id_of(tx, chain);
    let mut pc = tx.clone();
    let ok = pc.precompute(&ChainId::new(chain)).is_ok();
    let cached: Vec<u8> = pc.cached_id().map(|i| i.to_vec()).unwrap_or_default();
    let after = id_of(&pc, chain);
    let coq = format!("(idc {} {} {} {} {} {} {})", kind, v.coq(), chain, coq_pk(&id), coq_bool(ok), coq_pk(&cached), coq_pk(&after));
    let bytes_len = tx.to_bytes().len();
    let j = json!({"kind": "c03", "tx_kind": KIND_NAMES[kind], "chain": chain.to_string(), "id": hexs(&id), "precompute_ok": ok, "encoded_len": bytes_len, "val": v.json()});
    (coq, j, format!("{}:{}:{}", kind, chain, hexs(&id)), bytes_len > 16)
}

fn gen_chain(rng: &mut Rng) -> u64 {
    match rng.below(6) {
        0 => 0,
        1 => 1,
        2 => u64::MAX,
        3 => 1 << rng.below(64),
        _ => rng.next(),
    }
}

fn run(args: &Args, out: &mut Out) {
    let mut rng = Rng::new(args.seed);
    let thorough = args.thorough();
    let mut cov = Cov { exercised: BTreeMap::new() };
    if let Some(f) = &args.replay {
        let r = read_replay(f);
        let kind = r["tx_kind"].as_u64().unwrap_or(0) as usize;
        let chain: u64 = r["chain"].as_str().and_then(|s| s.parse().ok()).unwrap_or(0);
        for key in ["val", "mutated"] {
            if let Some(v) = Val::from_json(&r[key]) {
                if let Some(tx) = tx_from_kind_val(kind, &v) {
                    oracle(out, &mut rng, &tx, chain, &mut cov);
                    let (coq, j, key, nt) = coq_case(&tx, chain);
                    out.push(Case { coq, json: j, key, nontrivial: nt, class: "replay".into() });
                }
            }
        }
        return;
    }
    // model cases: every kind x several shapes
    let n_model = args.scale(16, 120);          // per kind
    let n_oracle = args.scale(40, 600);         // per kind
    for kind in 0..6usize {
        // defaults of the crate first
        let d: Transaction = match kind {
            0 => fuel_tx::Script::default().into(),
            1 => fuel_tx::Create::default().into(),
            2 => fuel_tx::Mint::default().into(),
            3 => Transaction::upgrade(fuel_tx::UpgradePurpose::StateTransition { root: Default::default() }, Default::default(), vec![], vec![], vec![]).into(),
            4 => Transaction::upload(fuel_tx::UploadBody::default(), Default::default(), vec![], vec![], vec![]).into(),
            _ => Transaction::blob(fuel_tx::BlobBody::default(), Default::default(), vec![], vec![], vec![]).into(),
        };
        if !args.oracle_only {
            let (coq, j, key, nt) = coq_case(&d, 0);
            out.push(Case { coq, json: j, key, nontrivial: nt, class: format!("{}/default", KIND_NAMES[kind]) });
        }
        oracle(out, &mut rng, &d, 0, &mut cov);
        for i in 0..n_oracle.max(n_model) {
            let max_items = if i % 5 == 0 { 0 } else { 4 };
            let tx = gen_tx_uncached(&mut rng, kind, thorough, max_items);
            let chain = gen_chain(&mut rng);
            if i < n_model && !args.oracle_only {
                let (coq, j, key, nt) = coq_case(&tx, chain);
                out.push(Case { coq, json: j, key, nontrivial: nt, class: format!("{}/random", KIND_NAMES[kind]) });
                // one mutated sibling (model must follow the mutation as well)
                let v = kind_val(&tx);
                let mut ls = vec![];
                leaves(kind_schema(kind), &v, &mut vec![], &mut ls);
                if !ls.is_empty() {
                    let l = rng.pick(&ls).clone();
                    let ms = mutate(&mut rng, &v, &l);
                    if !ms.is_empty() {
                        let (_, mv) = &ms[rng.below(ms.len() as u64) as usize];
                        if let Some(mtx) = tx_from_kind_val(kind, mv) {
                            let (coq, j, key, nt) = coq_case(&mtx, chain);
                            out.push(Case { coq, json: j, key, nontrivial: nt, class: format!("{}/mutated", KIND_NAMES[kind]) });
                        }
                    }
                }
            }
            if i < n_oracle {
                oracle(out, &mut rng, &tx, chain, &mut cov);
            }
        }
    }
    // coverage of the schema's paths by the mutation oracle
    let mut missing = vec![];
    let mut total = 0;
    for kind in 0..6usize {
        let mut ps = vec![];
        schema_paths(kind_schema(kind), &mut vec![], &mut ps);
        let set: BTreeSet<String> = ps.iter().map(|p| format!("{}:{}", KIND_NAMES[kind], p.join("."))).collect();
        for p in set {
            total += 1;
            match cov.exercised.get(&p) {
                Some((n, _)) if *n > 0 => {}
                _ => missing.push(p),
            }
        }
    }
    out.notes.push(format!("mutation oracle exercised {} of {} schema field paths (every kind); never exercised: {:?}", total - missing.len(), total, missing));
    let (mut mal, mut fixed, mut removed) = (0u64, 0u64, 0u64);
    for (k, (n, _)) in &cov.exercised {
        let (kn, path) = k.split_once(':').unwrap();
        let kind = KIND_NAMES.iter().position(|x| *x == kn).unwrap();
        let names: Vec<&str> = path.split('.').collect();
        match classify(kind, &names) { Cls::Malleable => mal += n, Cls::Fixed => fixed += n, Cls::Removed => removed += n }
    }
    out.dist.insert("oracle/mutations-malleable".into(), mal);
    out.dist.insert("oracle/mutations-non-malleable".into(), fixed);
    out.dist.insert("oracle/mutations-witnesses".into(), removed);
    if !missing.is_empty() {
        out.oracle_fail("schema-path-never-mutated", &format!("field paths of the schema that no mutation reached: {:?}", missing), json!({"kind": "c03-coverage"}));
    }
}

fn main() {
    quiet_panics();
    let args = Args::parse();
    let mut out = Out::new();
    let header = "From Coq Require Import Uint63.\nFrom FV Require Import Base.Bytes Codec.Schema Run.Codec Run.TxId.\nOpen Scope N_scope.";
    match args.prop.as_str() {
        "C03" => {
            run(&args, &mut out);
            out.write(&args, header, "id_case", "bad_id");
        }
        p => {
            eprintln!("txid: unknown property {p}");
            std::process::exit(2);
        }
    }
}
