//! Debugger family (C32): breakpoints and single-stepping do not change execution results.
//!
//! For every generated scenario (vmtrace grammar scenarios + hand-made tight-loop scenarios):
//!   * `vmtrace::trace`     the single-stepped reference run: the TAPE of executed locations
//!                          (contract, $pc - $is) and the registers before every instruction;
//!   * `vmtrace::run_plain` the run without any debugger;
//!   * several debugger configurations (sequences of public API calls: set_single_stepping,
//!     set_breakpoint, remove_breakpoint, clear_breakpoints, optionally preceded by an abandoned
//!     debug session on the same instance), each run as `transact` + `resume` after every event.
//! Coq case = tape + per configuration the API calls and the events the real VM reported; the
//! Gallina debugger model (Run/Debug.v) must report exactly the same events.
//! Implementation-level oracle (property text, no model): final state / receipts / outputs /
//! storage / registers equal the plain run; every event is reported with the registers the
//! reference run had BEFORE executing the instruction at that location; events embed into the
//! reference run in order with strictly increasing positions (at most once per arrival); and the
//! set of events equals an independent prediction written here.
use fuel_asm::{op, GTFArgs, RegId};
use fuel_tx::Script;
use fuel_types::{AssetId, ContractId};
use fuel_vm::interpreter::{Interpreter, MemoryInstance};
use fuel_vm::prelude::{Breakpoint, Call};
use fuel_vm::state::{DebugEval, ProgramState};
use fuel_vm::storage::MemoryStorage;
use fvh::vmtrace::*;
use fvh::*;
use serde_json::{json, Value};
use std::collections::{BTreeMap, BTreeSet};

type Loc = (ContractId, u64);

#[derive(Clone, Debug, PartialEq)]
enum DOp {
    Single(bool),
    Set(Loc),
    Remove(Loc),
    Clear,
    /// before the target transaction, run the SAME transaction with a breakpoint at this location
    /// on the same instance, stop at the first event and abandon the session
    Abandoned(Loc),
}

struct DebugRun {
    events: Vec<(Loc, [u64; 64])>,
    final_state: FinalState,
    receipts: Vec<fuel_tx::Receipt>,
    outputs: Vec<fuel_tx::Output>,
    regs_final: [u64; 64],
    storage_after: StorageDump,
    /// the abandoned session really stopped where requested
    abandoned_ok: bool,
}

fn regs_of(vm: &Interpreter<MemoryInstance, MemoryStorage, Script>) -> [u64; 64] {
    let mut r = [0u64; 64];
    r.copy_from_slice(vm.registers());
    r
}

fn bp_of(l: &Loc) -> Option<Breakpoint> {
    // the public constructor takes an instruction count
    if l.1 % 4 == 0 { Some(Breakpoint::new(l.0, l.1 / 4)) } else { None }
}

fn final_of(s: &Result<ProgramState, String>) -> FinalState {
    match s {
        Ok(ProgramState::Return(w)) => FinalState::Return(*w),
        Ok(ProgramState::ReturnData(d)) => FinalState::ReturnData(*d),
        Ok(ProgramState::Revert(w)) => FinalState::Revert(*w),
        Ok(_) => FinalState::Error("debug state".into()),
        Err(e) => FinalState::Error(e.clone()),
    }
}

/// `transact` with the debugger configured by `ops`, then `resume` after every event.
fn run_debug(w: &World, tx: &TxSpec, ops: &[DOp], max_events: usize) -> Result<DebugRun, String> {
    let mut vm: Interpreter<MemoryInstance, MemoryStorage, Script> =
        Interpreter::with_storage(MemoryInstance::new(), w.storage.clone(), w.interpreter_params());
    let mut abandoned_ok = true;
    for o in ops {
        match o {
            DOp::Single(b) => vm.set_single_stepping(*b),
            DOp::Set(l) => { if let Some(b) = bp_of(l) { vm.set_breakpoint(b) } }
            DOp::Remove(l) => { if let Some(b) = bp_of(l) { vm.remove_breakpoint(&b) } }
            DOp::Clear => vm.clear_breakpoints(),
            DOp::Abandoned(l) => {
                // an earlier session on this instance: same tx on a scratch copy of the storage is
                // not possible (the storage belongs to the instance), so run it on the instance
                // and restore the storage afterwards
                let saved = vm.as_ref().clone();
                let saved_single = vm.single_stepping();
                let b = bp_of(l).ok_or("unaligned abandoned location")?;
                vm.set_single_stepping(false);
                vm.set_breakpoint(b);
                let st = vm.transact(tx.build(w)?).map(|t| *t.state()).map_err(|e| format!("{e:?}"));
                abandoned_ok = matches!(st, Ok(ProgramState::RunProgram(DebugEval::Breakpoint(x))) if x == b);
                vm.remove_breakpoint(&b);
                vm.set_single_stepping(saved_single);
                *vm.as_mut() = saved;
            }
        }
    }
    let mut events = vec![];
    let mut st = vm.transact(tx.build(w)?).map(|t| *t.state()).map_err(|e| format!("{e:?}"));
    loop {
        match &st {
            Ok(ProgramState::RunProgram(DebugEval::Breakpoint(b))) => {
                events.push(((*b.contract(), b.pc()), regs_of(&vm)));
                if events.len() > max_events { return Err("too many events".into()); }
                st = vm.resume().map_err(|e| format!("{e:?}"));
            }
            Ok(ProgramState::RunProgram(DebugEval::Continue)) => return Err("RunProgram(Continue) returned".into()),
            _ => break,
        }
    }
    let outputs = { use fuel_tx::field::Outputs; vm.transaction().outputs().to_vec() };
    Ok(DebugRun {
        events, final_state: final_of(&st), receipts: vm.receipts().to_vec(), outputs, regs_final: regs_of(&vm),
        storage_after: dump_storage(vm.as_ref(), w, &[]), abandoned_ok,
    })
}

// ------------------------------------------------------------------ hand-made tight loops
fn w32(i: fuel_asm::Instruction) -> u32 { u32::from_be_bytes(i.into()) }

fn loop_scenario(rng: &mut Rng, variant: u64) -> Scenario {
    let assets = vec![AssetId::from(rng.bytes32()), AssetId::from(rng.bytes32())];
    let mut world = World::new(GasSchedule::Default, 5, assets.clone());
    let id = ContractId::from(rng.bytes32());
    let layout = DataLayout::new(rng, &[id], &assets, 0);
    let cnt = 0x20u8;
    let n = rng.range(2, 9) as u32;
    // callee: a two-instruction counting loop, a nested self-jump guarded by a counter, return
    let callee = assemble(&[
        Asm::I(op::movi(cnt, n)),
        Asm::Label(1),
        Asm::I(op::subi(cnt, cnt, 1)),
        Asm::Jnzb(cnt, 1),
        Asm::I(op::movi(cnt, n)),
        Asm::Label(2),
        Asm::I(op::subi(cnt, cnt, 1)),
        Asm::I(op::noop()),
        Asm::Jnzi(cnt, 2),
        Asm::I(op::ret(RegId::ONE)),
    ]).expect("callee");
    world.deploy(ContractDef { id, code: words_to_bytes(&callee), balances: vec![], slots: vec![] });
    let call = |out: &mut Vec<Asm>| {
        out.push(Asm::I(op::gtf(R_DATA, 0u8, GTFArgs::ScriptData as u16)));
        out.push(Asm::I(op::addi(0x30, R_DATA, layout.call_off[0] as u16)));
        out.push(Asm::I(op::addi(0x31, R_DATA, layout.asset_off[0] as u16)));
        out.push(Asm::I(op::call(0x30, RegId::ZERO, 0x31, RegId::CGAS)));
    };
    let mut items: Vec<Asm> = vec![];
    let mut gas_limit = 1_000_000;
    match variant % 6 {
        0 => {
            // `ji self`: a one-instruction loop that runs until the gas is gone
            items.push(Asm::I(op::movi(cnt, n)));
            items.push(Asm::Label(9));
            items.push(Asm::Ji(9));
            gas_limit = rng.range(40, 400);
        }
        1 => {
            // `jnzi r, self` with r != 0, then unreachable ret
            items.push(Asm::I(op::movi(cnt, 1)));
            items.push(Asm::Label(9));
            items.push(Asm::Jnzi(cnt, 9));
            items.push(Asm::I(op::ret(RegId::ONE)));
            gas_limit = rng.range(40, 400);
        }
        2 => {
            // `jal link, self`: rewrites the link register every iteration
            items.push(Asm::Label(9));
            items.push(Asm::Jal(R_LINK, 9));
            gas_limit = rng.range(40, 400);
        }
        3 => {
            // two-instruction loop in the script, twice, then return
            items.push(Asm::I(op::movi(cnt, n)));
            items.push(Asm::Label(1));
            items.push(Asm::I(op::subi(cnt, cnt, 1)));
            items.push(Asm::Jnzb(cnt, 1));
            items.push(Asm::I(op::movi(cnt, n + 1)));
            items.push(Asm::Label(2));
            items.push(Asm::I(op::subi(cnt, cnt, 1)));
            items.push(Asm::Jnei(cnt, 0, 2));
            items.push(Asm::I(op::ret(cnt)));
        }
        4 => {
            // loops inside a called contract, called twice from a loop in the script
            items.push(Asm::I(op::movi(0x21, 2)));
            items.push(Asm::Label(1));
            call(&mut items);
            items.push(Asm::I(op::subi(0x21, 0x21, 1)));
            items.push(Asm::Jnzi(0x21, 1));
            items.push(Asm::I(op::ret(RegId::ONE)));
        }
        _ => {
            // call, then a self-jump that exhausts a small forwarded amount of gas in the script
            call(&mut items);
            items.push(Asm::Label(9));
            items.push(Asm::Ji(9));
            gas_limit = rng.range(4000, 9000);
        }
    }
    let script = assemble(&items).expect("script");
    let mut tx = TxSpec::new(words_to_bytes(&script), layout.bytes.clone(), gas_limit);
    tx.key_seed = rng.next();
    tx.coins.push((assets[0], 1000));
    tx.contract_inputs = vec![id];
    let _ = (Call::LEN, w32(op::noop()));
    Scenario { world, tx, layout, units: vec![script, callee], seed_note: format!("loop:{}", variant % 6) }
}

// ------------------------------------------------------------------ configurations
fn gen_configs(rng: &mut Rng, locs: &[Loc], how_many: usize) -> Vec<(String, Vec<DOp>)> {
    let distinct: Vec<Loc> = { let s: BTreeSet<Loc> = locs.iter().cloned().collect(); s.into_iter().filter(|l| l.1 % 4 == 0).collect() };
    let mut counts: BTreeMap<Loc, usize> = BTreeMap::new();
    for l in locs { *counts.entry(*l).or_insert(0) += 1; }
    let repeated: Vec<Loc> = distinct.iter().filter(|l| counts[l] > 1).cloned().collect();
    let in_contract: Vec<Loc> = distinct.iter().filter(|l| l.0 != ContractId::zeroed()).cloned().collect();
    let pick_some = |rng: &mut Rng, from: &[Loc], max: usize| -> Vec<Loc> {
        let mut v: Vec<Loc> = from.to_vec();
        rng.shuffle(&mut v);
        let k = if v.is_empty() { 0 } else { rng.range(1, (v.len() as u64).min(max as u64)) as usize };
        v.truncate(k);
        v
    };
    let mut all: Vec<(String, Vec<DOp>)> = vec![];
    // none: debugger activated, nothing to report
    all.push(("active-no-breakpoints".into(), vec![DOp::Single(false)]));
    // single stepping (with irrelevant breakpoints)
    let mut v = vec![DOp::Single(true)];
    for l in pick_some(rng, &distinct, 3) { v.push(DOp::Set(l)); }
    all.push(("single-stepping".into(), v));
    // all executed locations (capped)
    let mut v: Vec<DOp> = distinct.iter().take(300).map(|l| DOp::Set(*l)).collect();
    rng.shuffle(&mut v);
    all.push(("all-locations".into(), v));
    // random subset + never-executed locations + right pc under the wrong contract
    let mut v: Vec<DOp> = pick_some(rng, &distinct, 12).into_iter().map(DOp::Set).collect();
    for _ in 0..rng.below(4) { v.push(DOp::Set((ContractId::zeroed(), 4 * rng.below(600)))); }
    if let Some(l) = distinct.first() { v.push(DOp::Set((ContractId::from([0x77; 32]), l.1))); }
    for l in &in_contract { if rng.chance(1, 6) { v.push(DOp::Set((ContractId::zeroed(), l.1))); } }
    rng.shuffle(&mut v);
    all.push(("random-subset".into(), v));
    // jump targets of loops: locations executed more than once
    if !repeated.is_empty() {
        all.push(("loop-targets".into(), pick_some(rng, &repeated, 6).into_iter().map(DOp::Set).collect()));
    }
    // only inside called contracts
    if !in_contract.is_empty() {
        all.push(("inside-contracts".into(), pick_some(rng, &in_contract, 8).into_iter().map(DOp::Set).collect()));
    }
    // API history: set / remove / clear / toggling single stepping
    let mut v = vec![];
    for _ in 0..rng.range(3, 14) {
        let l = if distinct.is_empty() { (ContractId::zeroed(), 0) } else { *rng.pick(&distinct) };
        v.push(match rng.below(10) { 0 => DOp::Clear, 1 | 2 | 3 => DOp::Remove(l), 4 => DOp::Single(rng.chance(1, 4)), _ => DOp::Set(l) });
    }
    all.push(("api-history".into(), v));
    // stale last state: an abandoned session stopped at the first location (or at a later one)
    if let Some(first) = locs.first().filter(|l| l.1 % 4 == 0) {
        let at = if rng.chance(2, 3) || distinct.is_empty() { *first } else { *rng.pick(&distinct) };
        let mut v = vec![DOp::Abandoned(at)];
        for l in pick_some(rng, &distinct, 5) { v.push(DOp::Set(l)); }
        if rng.bool() { v.push(DOp::Set(*first)); }
        if rng.chance(1, 4) { v.push(DOp::Single(true)); }
        all.push(("after-abandoned-session".into(), v));
    }
    // keep the first three kinds always, sample the rest
    let mut rest = all.split_off(3.min(all.len()));
    rng.shuffle(&mut rest);
    rest.truncate(how_many.saturating_sub(all.len()));
    all.extend(rest);
    all
}

/// independent prediction of the reported events, written from the property text / API docs
fn reference_events(locs: &[Loc], ops: &[DOp]) -> Vec<Loc> {
    let mut single = false;
    let mut active = false;
    let mut set: BTreeSet<Loc> = BTreeSet::new();
    for o in ops {
        match o {
            DOp::Single(b) => { single = *b; active = true; }
            DOp::Set(l) => { if l.1 % 4 == 0 { set.insert(*l); active = true; } }
            DOp::Remove(l) => { if l.1 % 4 == 0 { set.remove(l); active = true; } }
            DOp::Clear => set.clear(),
            // the abandoned session set and removed a breakpoint (which activates the debugger); the state
            // it was suspended in is forgotten by the next transaction (Debugger::clear_last_state in init_inner)
            DOp::Abandoned(_) => { active = true; }
        }
    }
    let mut out = vec![];
    for l in locs.iter() {
        if !active { break; }
        if single || set.contains(l) { out.push(*l); }
    }
    out
}

fn loc_of_step(s: &Step) -> Loc {
    let c = match &s.ctx_before { Ctx::Script => ContractId::zeroed(), Ctx::Contract(c) => *c };
    (c, s.regs_before[RegId::PC.to_u8() as usize].saturating_sub(s.regs_before[RegId::IS.to_u8() as usize]))
}

fn ops_json(ops: &[DOp]) -> Value {
    json!(ops.iter().map(|o| match o {
        DOp::Single(b) => json!(["single", b]),
        DOp::Set(l) => json!(["set", hex::encode(l.0), l.1]),
        DOp::Remove(l) => json!(["remove", hex::encode(l.0), l.1]),
        DOp::Clear => json!(["clear"]),
        DOp::Abandoned(l) => json!(["abandoned", hex::encode(l.0), l.1]),
    }).collect::<Vec<_>>())
}
fn ops_from_json(v: &Value) -> Vec<DOp> {
    let loc = |x: &Value| -> Loc {
        let mut c = [0u8; 32];
        if let Ok(b) = hex::decode(x[1].as_str().unwrap_or("")) { if b.len() == 32 { c.copy_from_slice(&b); } }
        (ContractId::from(c), x[2].as_u64().unwrap_or(0))
    };
    v.as_array().cloned().unwrap_or_default().iter().map(|x| match x[0].as_str().unwrap_or("") {
        "single" => DOp::Single(x[1].as_bool().unwrap_or(false)),
        "set" => DOp::Set(loc(x)),
        "remove" => DOp::Remove(loc(x)),
        "abandoned" => DOp::Abandoned(loc(x)),
        _ => DOp::Clear,
    }).collect()
}

struct Stats { scenarios: usize, runs: usize, events: usize, steps: usize, skipped: usize }

/// one scenario: reference runs, configurations, oracle, Coq case
fn do_scenario(scn: &Scenario, configs: Option<Vec<(String, Vec<DOp>)>>, rng: &mut Rng, n_cfg: usize, out: &mut Out, st: &mut Stats, idx: usize) {
    let opts = TraceOpts { max_steps: 4000, mem_diff: false, storage: false, frames: false };
    let tr = match guarded(|| trace(&scn.world, &scn.tx, &opts)) {
        Ok(Ok(t)) => t,
        Ok(Err(_)) => { st.skipped += 1; out.count("skipped-build-error"); return; }
        Err(p) => { out.oracle_fail("host-panic-in-single-stepped-run", &format!("host panic: {p}"), json!({"scenario": scn.to_json(), "ops": []})); return; }
    };
    if tr.final_state == FinalState::StepLimit { st.skipped += 1; out.count("skipped-step-limit"); return; }
    let plain = match run_plain(&scn.world, &scn.tx) { Ok(p) => p, Err(_) => { st.skipped += 1; return; } };
    let exec_steps: Vec<&Step> = tr.steps.iter().filter(|s| s.kind == StepKind::Exec).collect();
    let locs: Vec<Loc> = exec_steps.iter().map(|s| loc_of_step(s)).collect();
    let configs = configs.unwrap_or_else(|| gen_configs(rng, &locs, n_cfg));
    // contract ids -> indices (0 = default id = script)
    let mut index: BTreeMap<ContractId, u64> = BTreeMap::new();
    index.insert(ContractId::zeroed(), 0);
    let idx_of = |c: &ContractId, index: &mut BTreeMap<ContractId, u64>| -> u64 { let n = index.len() as u64; *index.entry(*c).or_insert(n) };
    let tape: Vec<String> = locs.iter().map(|l| format!("({},{})", idx_of(&l.0, &mut index), l.1)).collect();
    st.scenarios += 1;
    st.steps += locs.len();
    let mut coq_runs = vec![];
    let mut json_runs = vec![];
    let mut total_events = 0usize;
    for (kind, ops) in &configs {
        out.oracle_evaluations += 1;
        let replay = json!({"scenario": scn.to_json(), "ops": ops_json(ops), "kind": kind});
        let run = match guarded(|| run_debug(&scn.world, &scn.tx, ops, 3 * locs.len() + 16)) {
            Ok(Ok(r)) => r,
            Ok(Err(e)) => { out.oracle_fail("debug-run-does-not-complete", &format!("{kind}: {e}"), replay); continue; }
            Err(p) => { out.oracle_fail("host-panic-under-debugger", &format!("{kind}: host panic {p}"), replay); continue; }
        };
        st.runs += 1;
        out.count(&format!("config:{kind}"));
        // (1) same result as without a debugger
        let mut diffs = vec![];
        if run.final_state != plain.final_state { diffs.push(format!("final state {:?} vs {:?}", run.final_state, plain.final_state)); }
        if run.receipts != plain.receipts { diffs.push(format!("receipts differ ({} vs {})", run.receipts.len(), plain.receipts.len())); }
        if run.outputs != plain.outputs { diffs.push("outputs differ".into()); }
        if run.regs_final != plain.regs_final { diffs.push("final registers differ".into()); }
        if run.storage_after.state != plain.storage_after.state || run.storage_after.balances != plain.storage_after.balances { diffs.push("storage differs".into()); }
        if !diffs.is_empty() {
            out.oracle_fail("debugged-run-result-differs-from-plain-run", &format!("{kind}: {}", diffs.join("; ")), replay.clone());
        }
        // (2) before the instruction, at most once per arrival: embed into the reference run
        let mut j = 0usize;
        let mut embed_ok = true;
        for (l, regs) in &run.events {
            let mut found = None;
            while j < exec_steps.len() {
                if locs[j] == *l && exec_steps[j].regs_before == *regs { found = Some(j); break; }
                j += 1;
            }
            match found { Some(p) => j = p + 1, None => { embed_ok = false; break; } }
        }
        if !embed_ok {
            out.oracle_fail("debug-event-not-before-instruction-or-repeated",
                &format!("{kind}: an event does not match (location, registers) of a not yet used instruction arrival of the plain run"), replay.clone());
        }
        // (3) independent prediction
        let ev_locs: Vec<Loc> = run.events.iter().map(|e| e.0).collect();
        let has_abandoned = ops.iter().any(|o| matches!(o, DOp::Abandoned(_)));
        if has_abandoned && !run.abandoned_ok {
            out.oracle_fail("abandoned-session-did-not-stop", &format!("{kind}: the preparatory session did not stop at its breakpoint"), replay.clone());
        }
        let reference = reference_events(&locs, ops);
        if ev_locs != reference {
            out.oracle_fail("debug-events-differ-from-reference",
                &format!("{kind}: {} events reported, {} predicted from (configuration, executed locations)", ev_locs.len(), reference.len()), replay.clone());
        }
        if has_abandoned {
            // regression detector for finding F9 (repaired by 22c6df9): the events must be those of the same
            // configuration without the abandoned session
            let fresh: Vec<DOp> = ops.iter().map(|o| if matches!(o, DOp::Abandoned(_)) { DOp::Single(false) } else { o.clone() }).collect();
            // (Single(false) placed where the session was keeps "activated" without changing anything else, unless
            //  single stepping was switched on before — it never is in generated configurations)
            let expect = reference_events(&locs, &fresh);
            if expect != ev_locs && ev_locs.len() + 1 == expect.len() && expect[1..] == ev_locs[..] {
                out.oracle_fail("debugger-last-state-not-reset-after-abandoned-session",
                    &format!("{kind}: the first debug event {:?} of the transaction is swallowed after a session abandoned on the same instance", expect.first().map(|l| l.1)), replay.clone());
            }
            out.count("abandoned-session-then-new-transaction");
        }
        total_events += ev_locs.len();
        let cops: Vec<String> = ops.iter().filter_map(|o| match o {
            DOp::Single(b) => Some(format!("DSingle {}", coq_bool(*b))),
            DOp::Set(l) => bp_of(l).map(|_| format!("DSet ({},{})", idx_of(&l.0, &mut index), l.1)),
            DOp::Remove(l) => bp_of(l).map(|_| format!("DRemove ({},{})", idx_of(&l.0, &mut index), l.1)),
            DOp::Clear => Some("DClear".into()),
            DOp::Abandoned(l) => Some(format!("DAbandoned ({},{})", idx_of(&l.0, &mut index), l.1)),
        }).collect();
        let cevs: Vec<String> = ev_locs.iter().map(|l| format!("({},{})", idx_of(&l.0, &mut index), l.1)).collect();
        coq_runs.push(format!("{{| dr_ops := {}; dr_events := {} |}}", coq_list(&cops), coq_list(&cevs)));
        json_runs.push(json!({"kind": kind, "ops": ops.len(), "events": ev_locs.len()}));
    }
    st.events += total_events;
    let distinct_locs: BTreeSet<&Loc> = locs.iter().collect();
    out.push(Case {
        coq: format!("{{| dc_tape := {}; dc_runs := {} |}}", coq_list(&tape), coq_list(&coq_runs)),
        json: json!({"scenario": idx, "note": scn.seed_note, "schedule": scn.world.schedule.name(), "steps": locs.len(), "distinct_locations": distinct_locs.len(),
                     "contexts": index.len(), "final": format!("{:?}", tr.final_state).split('(').next().unwrap_or(""), "runs": json_runs}),
        key: format!("{}:{}:{}", hex::encode(&scn.tx.script[..scn.tx.script.len().min(64)]), locs.len(), total_events),
        nontrivial: locs.len() >= 3 && total_events >= 2,
        class: if scn.seed_note.starts_with("loop") { "tight-loop-scenario".into() } else if index.len() > 1 { "grammar-scenario-with-calls".into() } else { "grammar-scenario-script-only".into() },
    });
}

fn run_c32(args: &Args, out: &mut Out) {
    let mut rng = Rng::new(args.seed ^ 0xC32);
    let mut st = Stats { scenarios: 0, runs: 0, events: 0, steps: 0, skipped: 0 };
    if let Some(f) = &args.replay {
        let v = read_replay(f);
        let scn = Scenario::from_json(&v["scenario"]).expect("scenario");
        let ops = ops_from_json(&v["ops"]);
        do_scenario(&scn, Some(vec![(v["kind"].as_str().unwrap_or("replay").to_string(), ops)]), &mut rng, 1, out, &mut st, 0);
        return;
    }
    // corpus, runs first: finding F9 (repaired by 22c6df9) — a session abandoned at script offset 0, then the same
    // transaction with a breakpoint there; tight loop and grammar script
    for v in [3u64, 0, 4] {
        let scn = loop_scenario(&mut Rng::new(0xF9 + v), v);
        let first: Loc = (ContractId::zeroed(), 0);
        let cfgs = vec![("after-abandoned-session".to_string(), vec![DOp::Abandoned(first), DOp::Set(first)]),
                        ("after-abandoned-session".to_string(), vec![DOp::Abandoned(first), DOp::Single(true)])];
        do_scenario(&scn, Some(cfgs), &mut rng, 2, out, &mut st, 0);
    }
    let n = args.scale(300, 10_000);
    let n_cfg = if args.oracle_only { 8 } else { 5 };
    for i in 0..n {
        let scn = if i % 5 == 4 {
            loop_scenario(&mut rng, (i / 5) as u64)
        } else {
            let mut cfg = GenCfg::default();
            cfg.n_contracts = rng.below(4) as usize;
            cfg.unit_items = rng.range(4, 18) as usize;
            cfg.schedule = match rng.below(5) { 0 => GasSchedule::Unit, 1 => GasSchedule::Random(rng.next()), _ => GasSchedule::Default };
            if rng.chance(1, 6) { cfg.gas_limit = rng.below(3000); }
            if rng.chance(1, 8) { cfg.features |= F_GARBAGE; }
            if rng.chance(1, 5) { cfg.fault_per_mille = 30; }
            gen_scenario(&mut rng, &cfg)
        };
        do_scenario(&scn, None, &mut rng, n_cfg, out, &mut st, i);
    }
    out.notes.push(format!("{} scenarios ({} skipped: build error or step limit), {} debugger runs, {} reference steps, {} debug events", st.scenarios, st.skipped, st.runs, st.steps, st.events));
}

fn main() {
    quiet_panics();
    let args = Args::parse();
    let mut out = Out::new();
    let header = "From Coq Require Import List NArith.\nFrom FV Require Import Vm.DebugModel Run.Debug.\nImport ListNotations.\nOpen Scope N_scope.";
    match args.prop.as_str() {
        "C32" => {
            run_c32(&args, &mut out);
            out.write(&args, header, "debug_case", "bad_debug");
        }
        p => { eprintln!("debug: unknown property {p}"); std::process::exit(2); }
    }
}
