//! Control-flow family (C25): see bottom for `main`.  `--prop selftest` exercises vmtrace.
use fvh::vmtrace::*;
use fvh::*;
use serde_json::json;
use std::collections::BTreeMap;

fn selftest(args: &Args) {
    let mut rng = Rng::new(args.seed);
    let n = args.scale(60, 600);
    let mut ops: BTreeMap<String, u64> = BTreeMap::new();
    let mut outcomes: BTreeMap<String, u64> = BTreeMap::new();
    let mut finals: BTreeMap<String, u64> = BTreeMap::new();
    let (mut steps, mut mism, mut builderr, mut maxdepth, mut memd, mut stor) = (0usize, 0, 0, 0usize, 0usize, 0usize);
    let t0 = std::time::Instant::now();
    for i in 0..n {
        let mut cfg = GenCfg::default();
        cfg.n_contracts = rng.below(4) as usize;
        cfg.unit_items = rng.range(4, 24) as usize;
        cfg.schedule = match rng.below(4) { 0 => GasSchedule::Unit, 1 => GasSchedule::Random(rng.next()), _ => GasSchedule::Default };
        if rng.chance(1, 5) { cfg.gas_limit = rng.below(3000); }
        if rng.chance(1, 6) { cfg.features |= F_GARBAGE; }
        let scn = gen_scenario(&mut rng, &cfg);
        // hooks: pre peeks the word at $pc, post checks it is the step's raw word
        let tr = match guarded(|| trace_hooked(&scn.world, &scn.tx, &TraceOpts::default(),
                |vm, h| vm.memory().read(h.pc, 4usize).ok().map(|b| u32::from_be_bytes([b[0], b[1], b[2], b[3]])).unwrap_or(0),
                |_, st, w| w == st.raw)) {
            Ok(Ok((t, hk))) => {
                let execs = t.steps.iter().filter(|s| s.kind == StepKind::Exec).count();
                if hk.len() != execs || hk.iter().any(|(_, ok)| !ok) { mism += 1; eprintln!("case {i}: hook mismatch"); }
                t
            }
            Ok(Err(e)) => { builderr += 1; if builderr < 4 { eprintln!("case {i}: build error {e}"); } continue; }
            Err(p) => { eprintln!("case {i}: host panic {p}"); continue; }
        };
        let plain = run_plain(&scn.world, &scn.tx).unwrap();
        let d = tr.compare_plain(&plain);
        if !d.is_empty() && tr.final_state != FinalState::StepLimit { mism += 1; eprintln!("case {i}: stepwise != plain: {d:?}"); }
        steps += tr.steps.len();
        for s in &tr.steps {
            *ops.entry(s.mnemonic.clone()).or_insert(0) += 1;
            *outcomes.entry(if s.outcome.panic_reason().is_some() { format!("{}@{}", s.outcome.name(), s.mnemonic) } else { s.outcome.name() }).or_insert(0) += 1;
            maxdepth = maxdepth.max(s.frames_after.len());
            memd += s.mem_diff.len();
            stor += s.storage.len();
        }
        *finals.entry(format!("{:?}", tr.final_state).split('(').next().unwrap().to_string() + &tr.panic_reason().map(|r| format!(":{r:?}")).unwrap_or_default()).or_insert(0) += 1;
        if let Some(p) = args.extra.get("dump") { if p.parse::<usize>().ok() == Some(i) {
            println!("{}", serde_json::to_string_pretty(&trace_json(&tr, true)).unwrap());
        } }
    }
    println!("selftest: {n} scenarios, {steps} steps, {:.2}s, build errors {builderr}, stepwise/plain mismatches {mism}, max depth {maxdepth}, mem diffs {memd}, storage events {stor}", t0.elapsed().as_secs_f64());
    println!("finals: {finals:?}");
    println!("outcomes: {outcomes:?}");
    println!("ops ({} distinct): {ops:?}", ops.len());
}


// =====================================================================================
// C25
// =====================================================================================
use fuel_asm::{op, Instruction, PanicReason, RawInstruction, RegId};
use fuel_vm::interpreter::{Interpreter, MemoryInstance};
use fuel_vm::prelude::{InterpreterError, MemoryStorage};
use fuel_vm::state::ExecuteState;

const MAX_RAM: u64 = 1 << 26;
type PlainVm = Interpreter<MemoryInstance, MemoryStorage, fuel_tx::Script>;

fn base_vm() -> PlainVm {
    let w = World::new(GasSchedule::Default, 1, vec![fuel_types::AssetId::zeroed()]);
    let script = words_to_bytes(&instrs_to_words(&[op::noop(), op::ret(RegId::ONE)]));
    let tx = TxSpec::new(script, vec![0u8; 64], 1_000_000);
    let ready = tx.build(&w).expect("base tx");
    let mut vm: PlainVm = Interpreter::with_storage(MemoryInstance::new(), w.storage.clone(), w.interpreter_params());
    vm.init_script(ready).expect("init");
    vm
}

/// what one jump instruction did on the real interpreter
#[derive(Debug, Clone, PartialEq)]
struct JObs { panic: Option<u8>, pc_after: u64, link_after: u64, ggas_after: u64, cgas_after: u64, other: Option<String> }

fn run_single(vm: &PlainVm, raw: u32, regs: &[u64; 64]) -> Result<JObs, String> {
    guarded(|| {
        let mut v = vm.clone();
        v.registers_mut().copy_from_slice(regs);
        let res = v.instruction::<RawInstruction, false>(raw);
        let fa = ((raw >> 18) & 63) as usize;
        let (panic, other) = match res {
            Ok(ExecuteState::Proceed) => (None, None),
            Ok(s) => (None, Some(format!("{s:?}"))),
            Err(InterpreterError::PanicInstruction(p)) => (Some(*p.reason() as u8), None),
            Err(e) => (None, Some(format!("{e:?}"))),
        };
        JObs { panic, pc_after: v.registers()[3], link_after: v.registers()[fa], ggas_after: v.registers()[9], cgas_after: v.registers()[10], other }
    })
}

/// independent reference: exact integer arithmetic (i128), written from the ISA text.
/// Returns (panic reason, pc after, register write). Only meaningful for pc + 4 < 2^64.
fn ref_jump(raw: u32, regs: &[u64; 64]) -> Option<(Option<u8>, u64, Option<(usize, u64)>)> {
    let opc = (raw >> 24) as u8;
    let (a, b, c) = (((raw >> 18) & 63) as usize, ((raw >> 12) & 63) as usize, ((raw >> 6) & 63) as usize);
    let (i6, i12, i18, i24) = ((raw & 63) as i128, (raw & 0xfff) as i128, (raw & 0x3ffff) as i128, (raw & 0xff_ffff) as i128);
    let pc = regs[3] as i128;
    let is = regs[12] as i128;
    let mut r = *regs;
    let mut wr = None;
    let r_ = |k: usize, r: &[u64; 64]| r[k] as i128;
    let (taken, target): (bool, i128) = match opc {
        0x90 => (true, is + 4 * i24),
        0x5b => (r[a] != r[b], is + 4 * i12),
        0x73 => (r[a] != 0, is + 4 * i18),
        0x4a => (true, is + 4 * r_(a, &r)),
        0x4b => (r[a] != r[b], is + 4 * r_(c, &r)),
        0x74 => (true, pc + 4 * (r_(a, &r) + i18 + 1)),
        0x75 => (true, pc - 4 * (r_(a, &r) + i18 + 1)),
        0x76 => (r[a] != 0, pc + 4 * (r_(b, &r) + i12 + 1)),
        0x77 => (r[a] != 0, pc - 4 * (r_(b, &r) + i12 + 1)),
        0x78 => (r[a] != r[b], pc + 4 * (r_(c, &r) + i6 + 1)),
        0x79 => (r[a] != r[b], pc - 4 * (r_(c, &r) + i6 + 1)),
        0x99 => {
            if a != 0 {
                if a < 16 { return Some((Some(PanicReason::ReservedRegisterNotWritable as u8), regs[3], None)); }
                r[a] = (pc + 4) as u64;
                wr = Some((a, (pc + 4) as u64));
            }
            (true, r_(b, &r) + 4 * i12)
        }
        _ => return None,
    };
    if !taken { return Some((None, (pc + 4) as u64, wr)); }
    if target < 0 || target >= MAX_RAM as i128 { return Some((Some(PanicReason::MemoryOverflow as u8), regs[3], wr)); }
    Some((None, target as u64, wr))
}

fn is_jump_opcode(opc: u8) -> bool {
    matches!(opc, 0x90 | 0x5b | 0x73 | 0x4a | 0x4b | 0x74 | 0x75 | 0x76 | 0x77 | 0x78 | 0x79 | 0x99)
}

fn addr_biased(rng: &mut Rng) -> u64 {
    match rng.below(12) {
        0 => 0, 1 => 4, 2 => MAX_RAM - 4, 3 => MAX_RAM, 4 => MAX_RAM - 1, 5 => MAX_RAM + 4, 6 => MAX_RAM - 8,
        7 => rng.below(MAX_RAM), 8 => rng.below(1 << 16) * 4, 9 => 10368 + rng.below(64) * 4,
        _ => rng.u64_biased(),
    }
}

/// one jump instruction with boundary-biased registers and immediates
fn gen_single(rng: &mut Rng, opc: u8) -> (u32, [u64; 64]) {
    let mut regs = [0u64; 64];
    for k in 16..64 { regs[k] = if rng.chance(1, 3) { addr_biased(rng) } else { rng.u64_biased() }; }
    regs[1] = 1;
    // realistic or extreme $is / $pc
    regs[12] = match rng.below(8) { 0 => 0, 1 => MAX_RAM - 4, 2 => rng.u64_biased(), _ => 10368 + rng.below(1000) * 8 };
    regs[3] = match rng.below(10) {
        0 => u64::MAX, 1 => u64::MAX - 3, 2 => u64::MAX - 4, 3 => u64::MAX - 5, 4 => rng.u64_biased(), 5 => MAX_RAM - 4, 6 => 0,
        _ => regs[12].wrapping_add(rng.below(4000) * 4),
    };
    regs[4] = regs[12].saturating_add(40_000); regs[5] = regs[4]; regs[7] = MAX_RAM; regs[9] = 1 << 40; regs[10] = 1 << 40;
    let reg = |rng: &mut Rng| -> u32 { match rng.below(12) { 0 => *rng.pick(&[0u32, 1, 3, 12, 4, 5, 7, 9]), _ => rng.range(16, 63) as u32 } };
    let immb = |rng: &mut Rng, bits: u32| -> u32 { let m = (1u32 << bits) - 1; match rng.below(6) { 0 => 0, 1 => 1, 2 => m, 3 => m - 1, _ => (rng.next() as u32) & m } };
    let (a, b, c) = (reg(rng), reg(rng), reg(rng));
    // make conditions true/false on purpose
    if rng.bool() && a >= 16 && b >= 16 { regs[b as usize] = regs[a as usize]; }
    if rng.chance(1, 4) && a >= 16 { regs[a as usize] = 0; }
    let (regs_n, imm_bits) = match opc { 0x90 => (0, 24), 0x5b => (2, 12), 0x73 => (1, 18), 0x4a => (1, 0), 0x4b => (3, 0), 0x74 | 0x75 => (1, 18), 0x76 | 0x77 => (2, 12), 0x78 | 0x79 => (3, 6), 0x99 => (2, 12), _ => (0, 0) };
    let imm = if imm_bits > 0 { immb(rng, imm_bits) } else { 0 };
    let mut w = (opc as u32) << 24;
    let fs = [a, b, c];
    for k in 0..regs_n { w |= fs[k] << (18 - 6 * k as u32); }
    w |= imm;
    // aim the dynamic operand at a boundary target (half of the cases)
    if rng.bool() {
        let dynr = match opc { 0x4a | 0x74 | 0x75 => Some(a), 0x4b | 0x78 | 0x79 => Some(c), 0x76 | 0x77 | 0x99 => Some(b), _ => None };
        if let Some(d) = dynr { if d >= 16 {
            let t = *rng.pick(&[0i128, 4, (MAX_RAM - 4) as i128, MAX_RAM as i128 - 1, MAX_RAM as i128, MAX_RAM as i128 + 4, -4, 8, 1 << 20]);
            let (pc, is, im) = (regs[3] as i128, regs[12] as i128, imm as i128);
            let dv: i128 = match opc {
                0x4a | 0x4b => (t - is) / 4,
                0x74 | 0x76 | 0x78 => (t - pc) / 4 - im - 1,
                0x75 | 0x77 | 0x79 => (pc - t) / 4 - im - 1,
                _ => t - 4 * im,
            };
            if dv >= 0 && dv <= u64::MAX as i128 { regs[d as usize] = dv as u64; }
        } }
    }
    (w, regs)
}

/// registers named by the four raw fields + $pc + $is as a Coq association list
fn coq_assoc(raw: u32, regs: &[u64; 64]) -> String {
    let mut ks: Vec<usize> = vec![3, 12, ((raw >> 18) & 63) as usize, ((raw >> 12) & 63) as usize, ((raw >> 6) & 63) as usize, (raw & 63) as usize];
    ks.sort(); ks.dedup();
    coq_list(&ks.iter().filter(|k| regs[**k] != 0 || **k == 3 || **k == 12).map(|k| format!("({}, {})", k, regs[*k])).collect::<Vec<_>>())
}

fn jcase_push(out: &mut Out, vm: &PlainVm, raw: u32, regs: [u64; 64], class: &str) {
    let replay = json!({"kind": "j", "raw": raw, "regs": regs.to_vec()});
    out.oracle_evaluations += 1;
    let obs = match run_single(vm, raw, &regs) {
        Ok(o) => o,
        Err(p) => { out.oracle_fail("host-panic", &format!("jump instruction {raw:#010x} panicked the host: {p}"), replay); return; }
    };
    if let Some(o) = &obs.other { out.oracle_fail("unexpected-result", &format!("jump instruction {raw:#010x}: {o}"), replay.clone()); return; }
    // implementation-level oracle: exact-integer reference (only where pc + 4 < 2^64)
    // the handler charges gas before reading operands: $ggas/$cgas operands are seen after the charge
    let mut seen = regs;
    seen[9] = obs.ggas_after; seen[10] = obs.cgas_after;
    if regs[3] <= u64::MAX - 5 {
        if let Some((rp, rpc, rwr)) = ref_jump(raw, &seen) {
            let fa = ((raw >> 18) & 63) as usize;
            let exp_link = match rwr { Some((k, v)) if k == fa => v, _ => obs.link_after };
            if obs.panic != rp { out.oracle_fail("jump-panic-mismatch", &format!("{raw:#010x}: panic {:?}, reference {:?}", obs.panic, rp), replay.clone()); }
            else if obs.pc_after != rpc { out.oracle_fail("jump-target-mismatch", &format!("{raw:#010x}: pc after {} reference {}", obs.pc_after, rpc), replay.clone()); }
            else if rp.is_none() && obs.link_after != exp_link { out.oracle_fail("link-register-mismatch", &format!("{raw:#010x}: link {} reference {}", obs.link_after, exp_link), replay.clone()); }
        }
    }
    let coq = format!("FJ {{| jc_raw := {}; jc_regs := {}; jc_panic := {}; jc_pc_after := {}; jc_link_after := {} |}}",
        raw, coq_assoc(raw, &seen), coq_opt(obs.panic.map(|p| p.to_string())), obs.pc_after, obs.link_after);
    let key = format!("j:{:02x}:{:?}:{}", raw >> 24, obs.panic, if obs.pc_after == regs[3].wrapping_add(4) { "seq".to_string() } else { format!("{}", obs.pc_after) });
    out.push(Case { coq, json: replay, key, nontrivial: true, class: class.to_string() });
    out.count(&format!("single:{:02x}:{}", raw >> 24, match obs.panic { None => "ok".to_string(), Some(p) => format!("panic{p}") }));
}

fn outcome_code(o: &Outcome) -> (u64, u64) {
    match o {
        Outcome::Proceed => (0, 0), Outcome::Return(_) => (1, 0), Outcome::ReturnData => (2, 0), Outcome::Revert(_) => (3, 0),
        Outcome::Panic(r) => (4, *r as u8 as u64), Outcome::Error(_) => (5, 0),
    }
}

fn seen_regs(s: &Step) -> [u64; 64] {
    let mut r = s.regs_before;
    if is_jump_opcode(s.opcode) { r[9] = s.regs_after[9]; r[10] = s.regs_after[10]; }
    r
}
fn tstep_coq(s: &Step) -> String {
    let seen = seen_regs(s);
    let f = s.fields();
    let v = [seen[f[0] as usize], seen[f[1] as usize], seen[f[2] as usize], seen[f[3] as usize]];
    let (oc, reason) = outcome_code(&s.outcome);
    let fa = s.fields()[0];
    format!("{{| ts_kind := {}; ts_raw := {}; ts_decoded := {}; ts_pc := {}; ts_is := {}; ts_ssp := {}; ts_sp := {}; ts_hp := {}; ts_stack_len := {}; ts_va := {}; ts_vb := {}; ts_vc := {}; ts_vd := {}; ts_outcome := {}; ts_reason := {}; ts_pc_after := {}; ts_link_after := {}; ts_caller_pc := {} |}}",
        if s.kind == StepKind::Exec { 0 } else { 1 }, s.raw, coq_bool(s.instr.is_some()), s.pc, s.reg(12), s.reg(4), s.reg(5), s.reg(7), s.stack_len_before,
        v[0], v[1], v[2], v[3], oc, reason, s.pc_after(), s.reg_after(fa), coq_opt(s.frames_before.last().map(|f| f.saved_pc.to_string())))
}

/// implementation-level oracle on one trace (independent of the Coq model)
fn trace_oracle(out: &mut Out, t: &Trace, replay: &serde_json::Value) {
    for s in &t.steps {
        out.oracle_evaluations += 1;
        let pc = s.pc;
        if s.kind == StepKind::FetchFault { continue; }
        if !(s.reg(12) <= pc && pc < s.reg(4)) {
            out.oracle_fail("executed-outside-executable-region", &format!("step {}: pc {} executed with $is {} $ssp {}", s.index, pc, s.reg(12), s.reg(4)), replay.clone());
        }
        let opc = s.opcode;
        let panicked = s.outcome.panic_reason();
        if s.instr.is_none() { continue; }
        if is_jump_opcode(opc) {
            if panicked == Some(PanicReason::OutOfGas) { continue; }
            if let Some((rp, rpc, _)) = ref_jump(s.raw, &seen_regs(s)) {
                if panicked.map(|p| p as u8) != rp || s.pc_after() != rpc {
                    out.oracle_fail("jump-target-mismatch", &format!("step {} {}: pc {} -> {} ({:?}), reference {} ({:?})", s.index, s.mnemonic, pc, s.pc_after(), panicked, rpc, rp), replay.clone());
                }
            }
        } else if matches!(s.outcome, Outcome::Proceed) && s.mnemonic != "CALL" {
            if s.pc_after() != pc + 4 {
                out.oracle_fail("non-jump-pc-not-advanced-by-4", &format!("step {} {}: pc {} -> {}", s.index, s.mnemonic, pc, s.pc_after()), replay.clone());
            }
        } else if panicked.is_some() && s.pc_after() != pc {
            out.oracle_fail("panic-moved-pc", &format!("step {} {}: pc {} -> {}", s.index, s.mnemonic, pc, s.pc_after()), replay.clone());
        }
    }
}

fn tcase_push(out: &mut Out, scn: &Scenario, class: &str, with_model: bool) {
    let replay = json!({"kind": "t", "scenario": scn.to_json()});
    let opts = TraceOpts { max_steps: 3000, mem_diff: false, storage: false, frames: true };
    let t = match guarded(|| trace(&scn.world, &scn.tx, &opts)) {
        Ok(Ok(t)) => t,
        Ok(Err(e)) => { out.count(&format!("tx-rejected:{}", e.split(':').next().unwrap_or(""))); return; }
        Err(p) => { out.oracle_fail("host-panic", &format!("trace panicked the host: {p}"), replay); return; }
    };
    trace_oracle(out, &t, &replay);
    let mut jumps = 0usize;
    let mut sig = 0u64;
    for s in &t.steps {
        if is_jump_opcode(s.opcode) { jumps += 1; }
        sig = sig.wrapping_mul(1099511628211).wrapping_add(s.pc ^ ((s.opcode as u64) << 32));
        out.count(&format!("step:{}", if is_jump_opcode(s.opcode) { s.mnemonic.clone() } else if s.kind == StepKind::FetchFault { format!("fetchfault:{:?}", s.outcome.panic_reason().unwrap()) } else { "other".into() }));
    }
    out.count(&format!("final:{}", format!("{:?}", t.final_state).split('(').next().unwrap()));
    if !with_model { return; }
    let coq = format!("FT {}", coq_list(&t.steps.iter().map(tstep_coq).collect::<Vec<_>>()));
    out.push(Case { coq, json: replay, key: format!("t:{}:{:x}", t.steps.len(), sig), nontrivial: jumps >= 1, class: class.to_string() });
}

/// scripts that jump (jal, Assign mode) to chosen absolute addresses: heap, stack above $ssp,
/// script data, unaligned, last bytes of memory, just past memory
fn landing_scenario(rng: &mut Rng, k: usize) -> Scenario {
    let mut scn = gen_scenario(rng, &GenCfg { n_contracts: 0, unit_items: 0, features: F_ALU, ..GenCfg::default() });
    let t = 0x20u8;
    let mut items: Vec<Asm> = vec![
        Asm::I(op::gtf(R_DATA, 0u8, fuel_asm::GTFArgs::ScriptData as u16)),
        Asm::I(op::cfei(64)), Asm::I(op::movi(0x21, 128)), Asm::I(op::aloc(0x21)),
    ];
    // a RET instruction word stored at the landing place when it is writable
    let ret_word = u32::from_be_bytes(op::ret(RegId::ONE).into());
    items.push(Asm::I(op::movi(0x22, ret_word >> 14)));
    items.push(Asm::I(op::slli(0x22, 0x22, 14)));
    items.push(Asm::I(op::ori(0x22, 0x22, (ret_word & 0x3fff) as u16)));
    items.push(Asm::I(op::slli(0x22, 0x22, 32)));
    let load = |items: &mut Vec<Asm>, v: u64| {
        items.push(Asm::I(op::movi(t, (v >> 12) as u32 & 0x3ffff)));
        items.push(Asm::I(op::slli(t, t, 12)));
        items.push(Asm::I(op::ori(t, t, (v & 0xfff) as u16)));
    };
    match k % 12 {
        0 => { items.push(Asm::I(op::sw(RegId::HP, 0x22, 0))); items.push(Asm::I(op::move_(t, RegId::HP))); }            // heap: readable, >= ssp
        1 => { items.push(Asm::I(op::sw(RegId::SSP, 0x22, 0))); items.push(Asm::I(op::move_(t, RegId::SSP))); }          // stack at ssp: not executable
        2 => items.push(Asm::I(op::subi(t, RegId::SSP, 4))),                                                            // last word below ssp (tx bytes)
        3 => items.push(Asm::I(op::subi(t, RegId::SSP, 1))),                                                            // straddles ssp
        4 => items.push(Asm::I(op::move_(t, R_DATA))),                                                                  // script data (executable region)
        5 => load(&mut items, MAX_RAM - 4),                                                                             // last word of memory (heap)
        6 => load(&mut items, MAX_RAM - 2),                                                                             // fetch crosses the end of memory
        7 => load(&mut items, MAX_RAM),                                                                                 // jump itself panics
        8 => items.push(Asm::I(op::subi(t, RegId::IS, 4))),                                                             // just below $is
        9 => items.push(Asm::I(op::addi(t, RegId::SP, 64))),                                                            // beyond the stack buffer: uninitialised
        10 => items.push(Asm::I(op::addi(t, RegId::IS, 2))),                                                            // unaligned inside the script
        _ => items.push(Asm::I(op::move_(t, RegId::ZERO))),                                                             // address 0 (tx id)
    }
    items.push(Asm::I(op::jal(RegId::ZERO, t, 0)));
    items.push(Asm::I(op::ret(RegId::ONE)));
    let words = assemble(&items).expect("landing script");
    scn.tx.script = words_to_bytes(&words);
    scn.units = vec![words];
    scn.seed_note = format!("landing:{}", k % 12);
    scn
}

fn run_c25(args: &Args, out: &mut Out) {
    let mut rng = Rng::new(args.seed);
    let vm = base_vm();
    if let Some(p) = &args.replay {
        let v = read_replay(p);
        if v["kind"] == "j" {
            let mut regs = [0u64; 64];
            for (i, x) in v["regs"].as_array().unwrap().iter().enumerate().take(64) { regs[i] = x.as_u64().unwrap(); }
            jcase_push(out, &vm, v["raw"].as_u64().unwrap() as u32, regs, "replay");
        } else {
            match Scenario::from_json(&v["scenario"]) { Ok(s) => tcase_push(out, &s, "replay", true), Err(e) => out.notes.push(format!("bad replay: {e}")) }
        }
        return;
    }
    let with_model = !args.oracle_only;
    const OPS: [u8; 12] = [0x90, 0x5b, 0x73, 0x4a, 0x4b, 0x74, 0x75, 0x76, 0x77, 0x78, 0x79, 0x99];
    // (i) single instructions; the model runs on a share of them, the oracle on all
    let per_op = args.scale(50, 1500);
    let oracle_extra = args.scale(400, 20_000);
    for opc in OPS {
        for i in 0..(per_op + oracle_extra) {
            let (raw, regs) = gen_single(&mut rng, opc);
            if i < per_op && with_model { jcase_push(out, &vm, raw, regs, "single"); }
            else {
                out.oracle_evaluations += 1;
                if regs[3] > u64::MAX - 5 { continue; }
                let o = run_single(&vm, raw, &regs);
                let mut seen = regs;
                if let Ok(o) = &o { seen[9] = o.ggas_after; seen[10] = o.cgas_after; }
                match (o, ref_jump(raw, &seen)) {
                    (Ok(o), Some((rp, rpc, _))) => if o.panic != rp || o.pc_after != rpc {
                        out.oracle_fail("jump-target-mismatch", &format!("{raw:#010x}: got ({:?}, {}), reference ({:?}, {})", o.panic, o.pc_after, rp, rpc), json!({"kind":"j","raw":raw,"regs":regs.to_vec()}));
                    },
                    (Err(p), _) => out.oracle_fail("host-panic", &p, json!({"kind":"j","raw":raw,"regs":regs.to_vec()})),
                    _ => {}
                }
            }
        }
    }
    // the model-level witness of C25_pc_max_refuted, on the implementation (informational)
    {
        let mut regs = [0u64; 64];
        regs[1] = 1; regs[3] = u64::MAX; regs[16] = 1 << 63; regs[9] = 1 << 40; regs[10] = 1 << 40;
        let raw = u32::from_be_bytes(op::jmpb(0x10, 0).into());
        if let Ok(o) = run_single(&vm, raw, &regs) {
            out.notes.push(format!("pc = 2^64-1 witness (unreachable through fetch): JMPB on the implementation gives panic {:?}, pc after {}", o.panic, o.pc_after));
        }
        if with_model { jcase_push(out, &vm, raw, regs, "pc-max-witness"); }
    }
    // (ii) generated programs, flow-heavy
    let n_prog = args.scale(70, 1200);
    for i in 0..n_prog {
        let mut cfg = GenCfg::default();
        cfg.n_contracts = rng.below(4) as usize;
        cfg.unit_items = rng.range(6, 22) as usize;
        cfg.features = match rng.below(4) { 0 => F_ALU | F_FLOW, 1 => F_ALU | F_FLOW | F_CALL | F_MEM, _ => F_ALL & !F_GARBAGE };
        if rng.chance(1, 5) { cfg.features |= F_GARBAGE; }
        cfg.schedule = match rng.below(3) { 0 => GasSchedule::Unit, _ => GasSchedule::Default };
        if rng.chance(1, 6) { cfg.gas_limit = rng.below(400); }
        let scn = gen_scenario(&mut rng, &cfg);
        tcase_push(out, &scn, "program", with_model && i < args.scale(40, 400));
    }
    for k in 0..args.scale(24, 120) {
        let scn = landing_scenario(&mut rng, k);
        tcase_push(out, &scn, "landing", with_model);
    }
    for _ in 0..args.scale(10, 200) {
        let scn = gen_garbage_scenario(&mut rng, GasSchedule::Default, 40, 20_000);
        tcase_push(out, &scn, "garbage", with_model);
    }
}

fn main() {
    quiet_panics();
    let args = Args::parse();
    let mut out = Out::new();
    let header = "From FV Require Import Base.Bytes Run.Flow.\nOpen Scope N_scope.";
    match args.prop.as_str() {
        "selftest" => { selftest(&args); return; }
        "C25" => {
            run_c25(&args, &mut out);
            out.write(&args, header, "fcase", "bad_fcases");
        }
        p => { eprintln!("flow: unknown property {p}"); std::process::exit(2); }
    }
    let _ = (Instruction::SIZE, json!(0));
}
