//! C28 — execution outcomes and receipts are well formed: trace extraction for the Coq checker
//! (Run/Outcome.v) and the implementation-level oracle (shape, limit, root, failed outputs,
//! in-memory client rollback checked directly on the real data).
#[path = "../vmfin/mod.rs"]
mod vmfin;
use fuel_asm::{op, GTFArgs, Instruction, RegId};
use fuel_tx::{Receipt, ScriptExecutionResult};
use fuel_types::{canonical::Serialize, AssetId, ContractId};
use fvh::vmtrace::*;
use fvh::*;
use serde_json::json;
use sha2::{Digest, Sha256};
use vmfin::*;

// ------------------------------------------------------------------ independent RFC 6962 tree hash
fn sha(parts: &[&[u8]]) -> [u8; 32] {
    let mut h = Sha256::new();
    for p in parts { h.update(p); }
    h.finalize().into()
}
fn mth(leaves: &[Vec<u8>]) -> [u8; 32] {
    match leaves.len() {
        0 => sha(&[]),
        1 => sha(&[&[0u8], &leaves[0]]),
        n => {
            let mut k = 1usize;
            while k * 2 < n { k *= 2; }
            sha(&[&[1u8], &mth(&leaves[..k]), &mth(&leaves[k..])])
        }
    }
}

// ------------------------------------------------------------------ scenarios
fn scenario_json(scn: &Scenario) -> serde_json::Value {
    json!({"scenario": scn.to_json(), "gas_price": scn.world.gas_price, "max_fee": scn.tx.max_fee})
}
fn scenario_from(v: &serde_json::Value) -> Result<Scenario, String> {
    if v.get("scenario").is_none() { return Err("no scenario".into()); }
    let mut s = Scenario::from_json(&v["scenario"])?;
    s.world.gas_price = v["gas_price"].as_u64().unwrap_or(0);
    s.tx.max_fee = v["max_fee"].as_u64().unwrap_or(0);
    Ok(s)
}
fn to_scenario(w: World, tx: TxSpec, layout: DataLayout, note: &str) -> Scenario {
    Scenario { world: w, tx, layout, units: vec![], seed_note: note.to_string() }
}

const D: u8 = R_DATA;
fn prologue() -> Vec<Instruction> {
    vec![op::gtf(D, RegId::ZERO, GTFArgs::ScriptData as u16)]
}
fn call_instrs(l: &DataLayout, j: usize, coins: u32, asset: usize) -> Vec<Instruction> {
    vec![op::addi(0x30, D, l.call_off[j] as u16), op::movi(0x31, coins), op::addi(0x32, D, l.asset_off[asset] as u16),
         op::call(0x30, 0x31, 0x32, RegId::CGAS)]
}
/// tight LOG loops around the receipt limit, at top level or inside a call
fn limit_scenario(rng: &mut Rng, variant: u64) -> Scenario {
    let assets = vec![AssetId::from(rng.bytes32()), AssetId::from(rng.bytes32())];
    let mut w = World::new(GasSchedule::Free, 4, assets.clone());
    let id = ContractId::from(rng.bytes32());
    let layout = DataLayout::new(rng, &[id], &assets, 0);
    // loop body; `count` = 0: endless (ends by TooManyReceipts), else counted then `tail`
    let counted = |count: u32, tail: Instruction| -> Vec<Instruction> {
        vec![op::movi(0x20, count), op::log(0x20, RegId::ZERO, RegId::ZERO, RegId::ZERO), op::subi(0x20, 0x20, 1),
             op::jnzb(0x20, RegId::ZERO, 1), tail]
    };
    let endless = vec![op::log(RegId::ONE, RegId::ZERO, RegId::ZERO, RegId::ZERO), op::jmpb(RegId::ZERO, 0)];
    let (script, contract): (Vec<Instruction>, Vec<Instruction>) = match variant {
        0 => (endless.clone(), vec![op::ret(RegId::ONE)]),
        // 65532 logs + Return + ScriptResult = 65534; 65533 logs: the Return no longer fits
        1 => (counted(65532, op::ret(RegId::ONE)), vec![op::ret(RegId::ONE)]),
        2 => (counted(65533, op::ret(RegId::ONE)), vec![op::ret(RegId::ONE)]),
        3 => (counted(65532, op::rvrt(RegId::ONE)), vec![op::ret(RegId::ONE)]),
        4 => (counted(65533, op::rvrt(RegId::ONE)), vec![op::ret(RegId::ONE)]),
        // inside a call: Call receipt + logs; the callee's Return is refused / accepted at the boundary
        5 => { let mut s = prologue(); s.extend(call_instrs(&layout, 0, 7, 0)); s.push(op::ret(RegId::ONE)); (s, endless.clone()) }
        6 => { let mut s = prologue(); s.extend(call_instrs(&layout, 0, 0, 0)); s.push(op::ret(RegId::ONE)); (s, counted(65530, op::ret(RegId::ONE))) }
        7 => { let mut s = prologue(); s.extend(call_instrs(&layout, 0, 0, 0)); s.push(op::ret(RegId::ONE)); (s, counted(65531, op::ret(RegId::ONE))) }
        _ => { let mut s = prologue(); s.extend(call_instrs(&layout, 0, 0, 0)); s.push(op::ret(RegId::ONE)); (s, counted(65532, op::ret(RegId::ONE))) }
    };
    w.deploy(ContractDef { id, code: words_to_bytes(&instrs_to_words(&contract)), balances: vec![(assets[0], 100)], slots: vec![] });
    let mut tx = TxSpec::new(words_to_bytes(&instrs_to_words(&script)), layout.bytes.clone(), 10_000_000);
    tx.key_seed = rng.next();
    tx.coins.push((assets[0], 1000));
    tx.contract_inputs = vec![id];
    tx.outputs = vec![OutSpec::Variable, OutSpec::Change(assets[0])];
    to_scenario(w, tx, layout, &format!("limit-{variant}"))
}

/// script -> C0 -> C1 -> C2; every level writes storage / moves coins; level `fail_at` ends with
/// RVRT / a panic / RET; the others return
fn nested_scenario(rng: &mut Rng) -> Scenario {
    let assets = vec![AssetId::from(rng.bytes32()), AssetId::from(rng.bytes32())];
    let mut w = World::new(rng.pick(&[GasSchedule::Default, GasSchedule::Unit, GasSchedule::Free]).clone(), 4, assets.clone());
    let depth = rng.range(1, 3) as usize;
    let ids: Vec<ContractId> = (0..depth).map(|_| ContractId::from(rng.bytes32())).collect();
    let layout = DataLayout::new(rng, &ids, &assets, 0);
    let fail_at = rng.below(depth as u64 + 2) as usize; // depth+1 = nobody fails
    let how = rng.below(4);
    let ender = |lvl: usize, rng: &mut Rng| -> Vec<Instruction> {
        if lvl == fail_at {
            match how {
                0 => vec![op::rvrt(RegId::ONE)],
                1 => vec![op::div(0x20, RegId::ONE, RegId::ZERO)],          // ArithmeticError ($flag = 0)
                2 => vec![op::lw(0x22, RegId::HP, 0)],                      // read beyond the heap pointer
                _ => vec![op::jmpb(RegId::ZERO, 0x3ffff)],                  // jump before address 0
            }
        } else if rng.chance(1, 4) { vec![op::addi(0x30, D, layout.blob_off as u16), op::movi(0x31, 16), op::retd(0x30, 0x31)] } else { vec![op::ret(RegId::ONE)] }
    };
    for (i, id) in ids.iter().enumerate() {
        let mut c = prologue();
        // storage write, mint, log
        c.extend([op::addi(0x30, D, layout.key_off as u16), op::movi(0x31, 40 + i as u32), op::sww(0x30, 0x29, 0x31)]);
        c.extend([op::movi(0x31, 5), op::addi(0x30, D, layout.key_off as u16), op::mint(0x31, 0x30)]);
        c.push(op::log(RegId::ONE, RegId::ZERO, RegId::ZERO, RegId::ZERO));
        if i + 1 < depth { c.extend(call_instrs(&layout, i + 1, 3, 0)); }
        c.extend(ender(i + 1, rng));
        w.deploy(ContractDef { id: *id, code: words_to_bytes(&instrs_to_words(&c)), balances: vec![(assets[0], 50), (assets[1], 9)], slots: vec![] });
    }
    let mut s = prologue();
    s.extend([op::addi(0x30, D, layout.call_off[0] as u16), op::movi(0x31, 11), op::addi(0x32, D, layout.asset_off[1] as u16), op::tr(0x30, 0x31, 0x32)]);
    s.extend([op::addi(0x30, D, layout.addr_off as u16), op::movi(0x31, depth as u32), op::movi(0x32, 4), op::addi(0x33, D, layout.asset_off[0] as u16), op::tro(0x30, 0x31, 0x32, 0x33)]);
    s.extend(call_instrs(&layout, 0, 6, 0));
    s.extend(ender(0, rng));
    let mut tx = TxSpec::new(words_to_bytes(&instrs_to_words(&s)), layout.bytes.clone(), *rng.pick(&[1_000_000u64, 1_000_000, 40_000, 3_000]));
    tx.key_seed = rng.next();
    tx.coins.push((assets[0], 1000));
    tx.coins.push((assets[1], 500));
    if rng.bool() { tx.messages.push((77, vec![1, 2, 3])); }
    tx.contract_inputs = ids.clone();
    tx.outputs = vec![OutSpec::Variable, OutSpec::Change(assets[0])];
    if rng.bool() { tx.outputs.push(OutSpec::Change(assets[1])); }
    if rng.bool() {
        w.gas_price = *rng.pick(&[1u64, 5]);
        tx.max_fee = rng.range(300, 900);
    }
    to_scenario(w, tx, layout, "nested")
}

fn tiny_scenario(rng: &mut Rng, variant: u64) -> Scenario {
    let assets = vec![AssetId::from(rng.bytes32())];
    let w = World::new(GasSchedule::Default, 4, assets.clone());
    let layout = DataLayout::new(rng, &[], &assets, 0);
    let script: Vec<Instruction> = match variant {
        0 => vec![],                                        // empty script: special-cased Return(1)
        1 => vec![op::ret(RegId::ZERO)],
        2 => vec![op::rvrt(RegId::ONE)],
        3 => vec![op::movi(0x20, 8), op::retd(RegId::ZERO, 0x20)],
        4 => vec![op::noop()],                              // runs off the end of the script
        _ => vec![op::ji(0)],                               // endless loop: out of gas
    };
    let mut tx = TxSpec::new(words_to_bytes(&instrs_to_words(&script)), layout.bytes.clone(), 5_000);
    tx.key_seed = rng.next();
    tx.coins.push((assets[0], 1000));
    tx.outputs = vec![OutSpec::Variable, OutSpec::Change(assets[0])];
    to_scenario(w, tx, layout, &format!("tiny-{variant}"))
}

fn gen_generated(rng: &mut Rng) -> Scenario {
    let mut cfg = GenCfg::default();
    cfg.n_contracts = rng.below(4) as usize;
    cfg.unit_items = rng.range(4, 20) as usize;
    cfg.fault_per_mille = *rng.pick(&[0u64, 3, 10, 40]);
    cfg.schedule = match rng.below(4) { 0 => GasSchedule::Unit, 1 => GasSchedule::Random(rng.next()), _ => GasSchedule::Default };
    if rng.chance(1, 4) { cfg.gas_limit = rng.below(30_000); }
    if rng.chance(1, 8) { cfg.features |= F_GARBAGE; }
    let words = rng.range(4, 40) as usize;
    let mut scn = if rng.chance(1, 10) { gen_garbage_scenario(rng, cfg.schedule.clone(), words, 100_000) } else { gen_scenario(rng, &cfg) };
    if rng.chance(1, 2) {
        scn.world.gas_price = *rng.pick(&[1u64, 3, 1000]);
        let base = scn.world.assets[0];
        let add = rng.range(1_000_000, 3_000_000_000);
        scn.tx.coins.push((base, add));
        scn.tx.max_fee = rng.range(add / 4, add);
    }
    if scn.seed_note.is_empty() { scn.seed_note = "generated".into(); }
    scn
}

// ------------------------------------------------------------------ abstraction
fn kind_of_mnemonic(m: &str) -> Option<(&'static str, &'static str)> {
    Some(match m {
        "LOG" => ("IBody", "RK_Log"), "LOGD" => ("IBody", "RK_LogData"), "TR" => ("IBody", "RK_Transfer"),
        "TRO" => ("IBody", "RK_TransferOut"), "SMO" => ("IBody", "RK_MessageOut"), "MINT" => ("IBody", "RK_Mint"),
        "BURN" => ("IBody", "RK_Burn"), "CALL" => ("ICall", "RK_Call"), "RET" => ("IRet", "RK_Return"),
        "RETD" => ("IRet", "RK_ReturnData"),
        _ => return None,
    })
}
fn receipt_coq(r: &Receipt) -> String {
    let zero = ContractId::zeroed();
    match r {
        Receipt::Call { .. } => "RcBody RK_Call".into(),
        Receipt::Return { id, .. } => format!("RcReturn {} RK_Return", coq_bool(*id == zero)),
        Receipt::ReturnData { id, .. } => format!("RcReturn {} RK_ReturnData", coq_bool(*id == zero)),
        Receipt::Panic { reason, .. } => format!("RcPanic {}", reason_byte(*reason.reason())),
        Receipt::Revert { .. } => "RcRevert".into(),
        Receipt::Log { .. } => "RcBody RK_Log".into(),
        Receipt::LogData { .. } => "RcBody RK_LogData".into(),
        Receipt::Transfer { .. } => "RcBody RK_Transfer".into(),
        Receipt::TransferOut { .. } => "RcBody RK_TransferOut".into(),
        Receipt::ScriptResult { result, gas_used } => format!("RcScriptResult {} {}", u64::from(*result), gas_used),
        Receipt::MessageOut { .. } => "RcBody RK_MessageOut".into(),
        Receipt::Mint { .. } => "RcBody RK_Mint".into(),
        Receipt::Burn { .. } => "RcBody RK_Burn".into(),
    }
}
/// greedy run-length compression with blocks of up to 4 tokens: `[(count, [tokens])]`
fn rle(tokens: &[String]) -> String {
    let mut out: Vec<String> = vec![];
    let mut i = 0;
    let n = tokens.len();
    while i < n {
        let (mut best_b, mut best_c) = (1usize, 1usize);
        for b in 1..=4usize {
            if i + b > n { break; }
            let mut c = 1;
            while i + (c + 1) * b <= n && tokens[i + c * b..i + (c + 1) * b] == tokens[i..i + b] { c += 1; }
            if c >= 2 && c * b > best_c * best_b { best_b = b; best_c = c; }
        }
        out.push(format!("({}, {})", best_c, coq_list(&tokens[i..i + best_b].iter().map(|s| s.as_str()).collect::<Vec<_>>())));
        i += best_b * best_c;
    }
    coq_list(&out)
}

struct CaseOut { case: Option<Case>, fails: Vec<(String, String)>, stats: Vec<String> }

// ------------------------------------------------------------------ histories on ONE MemoryClient
#[derive(Clone, Debug, serde::Serialize, serde::Deserialize)]
enum HEv {
    /// deploy contract `k` (code: write a storage slot, return) through MemoryClient::deploy
    Deploy(usize),
    /// a script that optionally calls contract `k` and then returns / reverts / panics
    Script { call: Option<usize>, end: u8 },
}
fn gen_history(rng: &mut Rng) -> Vec<HEv> {
    let mut evs = vec![];
    let mut deployed = 0usize;
    for _ in 0..rng.range(2, 7) {
        if deployed == 0 || rng.chance(1, 3) { evs.push(HEv::Deploy(deployed)); deployed += 1; }
        else {
            let call = if rng.chance(2, 3) { Some(rng.below(deployed as u64) as usize) } else { None };
            evs.push(HEv::Script { call, end: *rng.pick(&[0u8, 0, 0, 1, 2]) });
        }
    }
    evs
}
fn run_history(evs: &[HEv], seed: u64, idx: usize) -> CaseOut {
    use fuel_tx::{field::Outputs, Finalizable, Output, TransactionBuilder};
    use fuel_vm::checked_transaction::IntoChecked;
    use fuel_vm::interpreter::MemoryInstance;
    use fuel_vm::memory_client::MemoryClient;
    use fuel_vm::storage::{InterpreterStorage, MemoryStorage};
    let mut rng = Rng::new(seed);
    let mut fails = vec![];
    let mut stats = vec![];
    let base = AssetId::from(rng.bytes32());
    let w = World::new(GasSchedule::Default, 3, vec![base]);
    let height = fuel_types::BlockHeight::from(3u32);
    let storage = MemoryStorage::new(height, ContractId::from([0xCB; 32]));
    let mut client: MemoryClient<MemoryInstance> = MemoryClient::new(MemoryInstance::new(), storage, w.interpreter_params());
    let mut ids: Vec<ContractId> = vec![];
    let key = [7u8; 32];
    // observable contents of the client's storage: which created contracts exist, all contract state
    let dump = |client: &MemoryClient<MemoryInstance>, ids: &[ContractId]| -> String {
        let st: &MemoryStorage = client.as_ref();
        let mut exist: Vec<String> = ids.iter().filter(|c| st.storage_contract_exists(c).unwrap_or(false)).map(|c| hex::encode(&c.as_ref()[..4])).collect();
        exist.sort();
        let mut state: Vec<String> = st.all_contract_state().map(|(k, v)| format!("{}={}", hex::encode(k.as_ref()), hex::encode(v.as_ref()))).collect();
        state.sort();
        format!("{exist:?}|{state:?}")
    };
    let mut known: Vec<String> = vec![dump(&client, &ids)];
    let mut intern = |s: String| -> usize { match known.iter().position(|x| *x == s) { Some(i) => i, None => { known.push(s); known.len() - 1 } } };
    let mut toks: Vec<String> = vec![];
    let mut committed_since_deploy = true;
    for (n, ev) in evs.iter().enumerate() {
        let before = dump(&client, &ids);
        match ev {
            HEv::Deploy(k) => {
                // code: sww key <- 100 + k; ret
                let code = instrs_to_words(&[op::gtf(D, RegId::ZERO, GTFArgs::ScriptData as u16), op::movi(0x30, 64), op::aloc(0x30), op::movi(0x31, 100 + *k as u32),
                                             op::sww(RegId::HP, 0x29, 0x31), op::ret(RegId::ONE)]);
                let salt = fuel_types::Salt::from(rng.bytes32());
                let mut b = TransactionBuilder::create(words_to_bytes(&code).into(), salt, vec![]);
                b.with_params(w.params.clone());
                b.add_fee_input();
                b.add_contract_created();
                let tx = b.finalize();
                let id = tx.outputs().iter().find_map(|o| if let Output::ContractCreated { contract_id, .. } = o { Some(*contract_id) } else { None }).unwrap_or_default();
                match tx.into_checked(height, &w.params) {
                    Ok(checked) => match client.deploy(checked) {
                        Ok(_) => { ids.push(id); committed_since_deploy = false; }
                        Err(e) => { stats.push(format!("history: deploy error {e:?}").chars().take(60).collect()); ids.push(id); }
                    },
                    Err(e) => { stats.push(format!("history: create rejected {e:?}").chars().take(60).collect()); ids.push(id); }
                }
                let after = intern(dump(&client, &ids));
                toks.push(format!("HDeploy {after}"));
            }
            HEv::Script { call, end } => {
                let callee: Vec<ContractId> = call.map(|k| vec![ids[k]]).unwrap_or_default();
                let layout = DataLayout::new(&mut Rng::new(1), &callee, &[base], 0);
                let mut sc = prologue();
                if call.is_some() { sc.extend(call_instrs(&layout, 0, 0, 0)); }
                sc.push(match end { 0 => op::ret(RegId::ONE), 1 => op::rvrt(RegId::ONE), _ => op::div(0x20, RegId::ONE, RegId::ZERO) });
                let mut tx = TxSpec::new(words_to_bytes(&instrs_to_words(&sc)), layout.bytes.clone(), 1_000_000);
                tx.key_seed = rng.next();
                tx.coins.push((base, 1000));
                tx.contract_inputs = callee.clone();
                tx.outputs = vec![OutSpec::Change(base)];
                let ready = match tx.build(&w) { Ok(r) => r, Err(e) => { stats.push(format!("history: script rejected {e}").chars().take(60).collect()); continue; } };
                let (_p, checked) = ready.decompose();
                let receipts = client.transact(checked).to_vec();
                let has_state = client.state_transition().is_some();
                let failed = !has_state || receipts.iter().any(|r| matches!(r, Receipt::Revert { .. } | Receipt::Panic { .. }));
                let after_s = dump(&client, &ids);
                let after = intern(after_s.clone());
                if failed {
                    // the property: a failed execution leaves the client's contract storage exactly as it was
                    if after_s != before {
                        let class = if !committed_since_deploy { "failed-script-after-uncommitted-deploy-loses-deployment" } else { "failed-script-changes-client-storage" };
                        fails.push((class.to_string(), format!("event {n}: storage before the failed script {before}, after it {after_s}")));
                    }
                    toks.push(if has_state { format!("HScriptFailed {after}") } else { format!("HScriptError {after}") });
                } else {
                    committed_since_deploy = true;
                    toks.push(format!("HScriptOk {after}"));
                }
                let _ = key;
            }
        }
    }
    stats.push(format!("history events {}", evs.len()));
    let coq = format!("XHist {}", coq_list(&toks));
    let kinds: Vec<&str> = toks.iter().map(|t| t.split(' ').next().unwrap_or("")).collect();
    let case = Case {
        coq,
        json: json!({"i": idx, "note": "history", "events": toks, "replay": {"history": evs, "seed": seed}}),
        key: format!("hist|{}", toks.join(",")), nontrivial: kinds.contains(&"HDeploy") && (kinds.contains(&"HScriptFailed") || kinds.contains(&"HScriptError")), class: "history".into(),
    };
    CaseOut { case: Some(case), fails, stats }
}

fn run_case(scn: &Scenario, idx: usize, with_enc: bool) -> Result<CaseOut, String> {
    let w = &scn.world;
    let ready = scn.tx.build(w)?;
    let mut fails: Vec<(String, String)> = vec![];
    let mut stats: Vec<String> = vec![];
    let big = scn.seed_note.starts_with("limit");
    let opts = TraceOpts { max_steps: if big { 400_000 } else { 20_000 }, mem_diff: !big, storage: true, frames: !big };
    let tr = match guarded(|| trace(w, &scn.tx, &opts)) {
        Ok(Ok(t)) => t,
        Ok(Err(e)) => return Err(e),
        Err(p) => { fails.push(("host-panic".into(), format!("host panic while tracing: {p}"))); return Ok(CaseOut { case: None, fails, stats }); }
    };
    if tr.final_state == FinalState::StepLimit { return Err("step limit".into()); }
    if let FinalState::Error(e) = &tr.final_state {
        fails.push(("non-panic-interpreter-error".into(), format!("transact returned a non-panic error: {e}")));
        return Ok(CaseOut { case: None, fails, stats });
    }
    let facts = tx_facts(w, &ready);
    let pr = probe(w, ready.clone(), 0, |_| false);          // initial balances only
    let cl = client_run(w, ready.clone(), &tr.storage_log);
    let receipts = &tr.receipts;
    // ---------------------------------------------------------------- oracle: shape
    let n = receipts.len();
    let n_sr = receipts.iter().filter(|r| matches!(r, Receipt::ScriptResult { .. })).count();
    let n_panic = receipts.iter().filter(|r| matches!(r, Receipt::Panic { .. })).count();
    let n_revert = receipts.iter().filter(|r| matches!(r, Receipt::Revert { .. })).count();
    let (result, gas_used) = match receipts.last() {
        Some(Receipt::ScriptResult { result, gas_used }) => (*result, *gas_used),
        other => { fails.push(("script-result-not-last".into(), format!("last receipt is {other:?}"))); return Ok(CaseOut { case: None, fails, stats }); }
    };
    if n_sr != 1 { fails.push(("script-result-count".into(), format!("{n_sr} ScriptResult receipts"))); }
    let before_last = if n >= 2 { Some(&receipts[n - 2]) } else { None };
    let panic_before = matches!(before_last, Some(Receipt::Panic { .. }));
    if (result == ScriptExecutionResult::Panic) != panic_before || n_panic != usize::from(panic_before) {
        fails.push(("panic-receipt-vs-result".into(), format!("result {result:?}, {n_panic} panic receipts, panic right before the result: {panic_before}")));
    }
    // how did the top-level program end, according to the executed steps
    let last_exec = tr.steps.iter().rev().find(|s| s.kind == StepKind::Exec);
    let top_return = match last_exec {
        Some(s) => s.ctx_before == Ctx::Script && matches!(s.outcome, Outcome::Return(_) | Outcome::ReturnData),
        None => scn.tx.script.is_empty(),
    };
    let reverted = matches!(last_exec, Some(s) if matches!(s.outcome, Outcome::Revert(_)));
    if (result == ScriptExecutionResult::Success) != top_return {
        fails.push(("success-vs-top-level-return".into(), format!("result {result:?} but top-level return = {top_return}")));
    }
    if (result == ScriptExecutionResult::Revert) != reverted || (n_revert > 0) != reverted {
        fails.push(("revert-vs-rvrt".into(), format!("result {result:?}, {n_revert} revert receipts, last step reverted = {reverted}")));
    }
    if reverted && !matches!(before_last, Some(Receipt::Revert { .. })) { fails.push(("revert-receipt-position".into(), "Revert receipt is not right before the result".into())); }
    if !matches!(result, ScriptExecutionResult::Success | ScriptExecutionResult::Revert | ScriptExecutionResult::Panic) { fails.push(("result-code".into(), format!("{result:?}"))); }
    let state_code: u64 = match &tr.final_state { FinalState::Return(_) => 0, FinalState::ReturnData(_) => 1, FinalState::Revert(_) => 2, _ => 9 };
    if (result == ScriptExecutionResult::Success) != (state_code <= 1) { fails.push(("program-state-vs-result".into(), format!("state {:?}, result {result:?}", tr.final_state))); }
    if tr.gas_limit < gas_used { fails.push(("gas-used-exceeds-limit".into(), format!("gas_used {gas_used} > limit {}", tr.gas_limit))); }
    // ---------------------------------------------------------------- oracle: limit
    if n > 65_535 { fails.push(("too-many-receipts".into(), format!("{n} receipts"))); }
    // ---------------------------------------------------------------- oracle: root (independent recursion over the real encodings)
    let enc: Vec<Vec<u8>> = receipts.iter().map(|r| r.to_bytes()).collect();
    let want = mth(&enc);
    let tx_root: [u8; 32] = pr_root(&tr, &cl);
    if tx_root != want { fails.push(("receipts-root-not-mth".into(), format!("receipts_root {} but MTH of the encoded receipts is {}", hex::encode(tx_root), hex::encode(want)))); }
    if cl.receipts != *receipts { fails.push(("client-receipts-differ".into(), "MemoryClient and Interpreter::transact produced different receipts".into())); }
    // ---------------------------------------------------------------- oracle: failed outputs
    let success = result == ScriptExecutionResult::Success;
    let refund = facts.refund_impl(w, gas_used).ok_or("refund overflow")?;
    let outs_final: Vec<TOut> = tr.outputs.iter().map(out_of).collect();
    if !success {
        for o in &outs_final {
            match o {
                TOut::Variable(_, m, _) if *m != 0 => fails.push(("failed-variable-output-not-zero".into(), format!("variable output amount {m} after {result:?}"))),
                TOut::Change(_, m, a) => {
                    let init = pr.initial_nr.iter().find(|x| x.0 == *a).map(|x| x.1).unwrap_or(0) as u128 + if *a == facts.base { refund as u128 } else { 0 };
                    if *m as u128 != init { fails.push(("failed-change-not-initial".into(), format!("change {m} after {result:?}, initial free balance (+refund) {init}"))); }
                }
                _ => {}
            }
        }
        // note for the report: `to` / `asset_id` of a variable output set before the failure stay in place (only the amount is zeroed)
        if outs_final.iter().any(|o| matches!(o, TOut::Variable(t, 0, a) if *t != Default::default() || *a != AssetId::zeroed())) { stats.push("failed run keeps to/asset_id of a zeroed variable output".into()); }
    }
    if cl.outputs != tr.outputs { fails.push(("client-outputs-differ".into(), "MemoryClient and Interpreter::transact produced different outputs".into())); }
    // ---------------------------------------------------------------- oracle: in-memory client rollback
    let before = dump_storage(&w.storage, w, &tr.storage_log);
    let same = |a: &StorageDump, b: &StorageDump| a.state == b.state && a.balances == b.balances;
    let interp_same = same(&tr.storage_after, &before);
    let client_same = same(&cl.storage_after, &before);
    let client_is_interp = same(&cl.storage_after, &tr.storage_after);
    if !success {
        if !client_same || cl.image_before != cl.image_after {
            fails.push(("failed-run-storage-not-rolled-back".into(), format!("MemoryClient storage differs from before after {result:?}")));
        }
    } else if !client_is_interp {
        fails.push(("successful-run-storage-not-committed".into(), "MemoryClient storage after success differs from what the interpreter wrote".into()));
    }
    let store_interp = if interp_same { 0 } else { 1 };
    let store_client = if client_same { 0 } else if client_is_interp { 1 } else { 2 };
    if !interp_same && !success { stats.push("failed run had written storage".into()); }
    // ---------------------------------------------------------------- the Coq case
    let mut prog: Vec<String> = vec![];
    if tr.steps.is_empty() && scn.tx.script.is_empty() { prog.push("IRet RK_Return".into()); }
    let mut max_depth = 0usize;
    for s in &tr.steps {
        max_depth = max_depth.max(s.frames_before.len());
        let class = if s.instr.is_some() { kind_of_mnemonic(&s.mnemonic) } else { None };
        let tok = match (&s.kind, s.outcome.panic_reason()) {
            (StepKind::FetchFault, Some(r)) => format!("IFail {}", reason_byte(r)),
            (_, Some(r)) if reason_byte(r) != 0x2a || class.is_none() => format!("IFail {}", reason_byte(r)),
            _ => match (class, s.mnemonic.as_str()) {
                (_, "RVRT") if s.instr.is_some() => "IRvrt".into(),
                (Some((c, k)), _) => format!("{c} {k}"),
                (None, _) => {
                    if !s.receipts.is_empty() && s.outcome.panic_reason().is_none() {
                        fails.push(("receipt-from-silent-opcode".into(), format!("step {} {} pushed {} receipt(s)", s.index, s.mnemonic, s.receipts.len())));
                    }
                    "ISilent".into()
                }
            },
        };
        prog.push(tok);
    }
    let rcs: Vec<String> = receipts.iter().map(receipt_coq).collect();
    let include_enc = with_enc && n <= 8;
    let coq = format!(
        "{{| oc_prog := {}; oc_gas := {}; oc_receipts := {}; oc_result := {}; oc_state := {};\n   oc_base := {}; oc_refund := {}; oc_initial := {}; oc_outs_final := {};\n   oc_store_interp := {}; oc_store_client := {}; oc_enc := {}; oc_root := {} |}}",
        rle(&prog), gas_used, rle(&rcs), u64::from(result), state_code,
        idn(facts.base.as_ref()), refund,
        coq_list(&pr.initial_nr.iter().map(|(a, v)| format!("({}, {})", idn(a.as_ref()), v)).collect::<Vec<_>>()),
        coq_list(&outs_final.iter().map(|o| o.coq()).collect::<Vec<_>>()),
        store_interp, store_client,
        if include_enc { coq_list(&enc.iter().map(|e| coq_bytes(e)).collect::<Vec<_>>()) } else { "[]".into() },
        if include_enc { coq_bytes(&tx_root) } else { "[]".into() });
    let class_end = match u64::from(result) { 0 => "success", 1 => "revert", _ => "panic" };
    let reason = tr.panic_reason().map(|r| format!("{r:?}")).unwrap_or_default();
    stats.push(format!("end {class_end} {reason} depth {}", tr.steps.last().map(|s| s.frames_before.len()).unwrap_or(0).min(3)));
    if n >= 65_534 { stats.push(format!("receipts {n}")); }
    let kinds: Vec<&str> = rcs.iter().map(|s| s.split(' ').nth(if s.starts_with("RcBody") { 1 } else { 0 }).unwrap_or("")).collect();
    let key = format!("{}|{}|{}", kinds.join(","), reason, store_interp);
    let nontrivial = n >= 3 || !success;
    let note = scn.seed_note.split('-').next().unwrap_or("").to_string();
    let case = Case {
        coq: format!("XRun {}", intern_ids(&coq)),
        json: json!({"i": idx, "note": scn.seed_note, "receipts": n, "result": class_end, "panic": reason, "steps": tr.steps.len(), "max_depth": max_depth,
                     "replay": if big { json!({"limit_variant": scn.seed_note}) } else { scenario_json(scn) }}),
        key, nontrivial, class: format!("{note}-{class_end}"),
    };
    Ok(CaseOut { case: Some(case), fails, stats })
}
/// receipts root committed in the final transaction (interpreter run through the client: same tx)
fn pr_root(_tr: &Trace, cl: &ClientRun) -> [u8; 32] { cl.receipts_root }

fn main() {
    quiet_panics();
    let args = Args::parse();
    if args.prop != "C28" { eprintln!("outcome: unknown property {}", args.prop); std::process::exit(2); }
    let mut out = Out::new();
    let mut rng = Rng::new(args.seed ^ 0xC28);
    let mut scenarios: Vec<Scenario> = vec![];
    if let Some(f) = &args.replay {
        let v = read_replay(f);
        if let Some(s) = v["limit_variant"].as_str() {
            let k: u64 = s.trim_start_matches("limit-").parse().unwrap_or(0);
            scenarios.push(limit_scenario(&mut rng, k));
        } else {
            match scenario_from(&v) { Ok(s) => scenarios.push(s), Err(e) => { if v.get("history").is_none() { eprintln!("bad replay: {e}"); std::process::exit(2); } } }
        }
    } else {
        for v in 0..6 { scenarios.push(tiny_scenario(&mut rng, v)); }
        let limit_variants: Vec<u64> = if args.thorough() { (0..9).collect() } else { vec![0, 7] };
        for v in limit_variants { scenarios.push(limit_scenario(&mut rng, v)); }
        for _ in 0..args.scale(50, 1500) { scenarios.push(nested_scenario(&mut rng)); }
        for _ in 0..args.scale(110, 4000) { scenarios.push(gen_generated(&mut rng)); }
    }
    let mut histories: Vec<(Vec<HEv>, u64)> = vec![];
    if let Some(f) = &args.replay {
        let v = read_replay(f);
        if let Ok(evs) = serde_json::from_value::<Vec<HEv>>(v["history"].clone()) { scenarios.clear(); histories.push((evs, v["seed"].as_u64().unwrap_or(0))); }
    } else {
        // the shortest witnesses first, then random histories
        histories.push((vec![HEv::Deploy(0), HEv::Script { call: None, end: 1 }], 1));
        histories.push((vec![HEv::Deploy(0), HEv::Script { call: Some(0), end: 0 }, HEv::Deploy(1), HEv::Script { call: Some(1), end: 2 }, HEv::Script { call: Some(1), end: 0 }], 2));
        histories.push((vec![HEv::Deploy(0), HEv::Script { call: Some(0), end: 0 }, HEv::Script { call: Some(0), end: 1 }, HEv::Script { call: Some(0), end: 0 }], 3));
        for _ in 0..args.scale(30, 600) { let h = gen_history(&mut rng); let sd = rng.next(); histories.push((h, sd)); }
    }
    let mut skipped = 0u64;
    let mut enc_budget = if args.thorough() { 200 } else { 24 };
    for (i, scn) in scenarios.iter().enumerate() {
        out.oracle_evaluations += 1;
        match run_case(scn, i, enc_budget > 0) {
            Ok(co) => {
                for s in co.stats { out.count(&s); }
                for (class, what) in co.fails { out.oracle_fail(&class, &what, scenario_json(scn)); }
                if let Some(c) = co.case {
                    if c.coq.contains("oc_enc := [(hex") { enc_budget -= 1; }
                    out.push(c);
                }
            }
            Err(e) => { skipped += 1; out.count(&format!("skipped: {}", e.split(':').next().unwrap_or("?"))); }
        }
    }
    for (k, (evs, sd)) in histories.iter().enumerate() {
        out.oracle_evaluations += 1;
        let co = run_history(evs, *sd, scenarios.len() + k);
        for s in co.stats { out.count(&s); }
        for (class, what) in co.fails { out.oracle_fail(&class, &what, json!({"history": evs, "seed": sd})); }
        if let Some(c) = co.case { out.push(c); }
    }
    out.notes.push(format!("{} scenarios, {} not executable (transaction rejected by the crate's own checks / step limit)", scenarios.len(), skipped));
    out.write(&args,
        "From FV Require Import Base.Bytes Gen.AssetTable Vm.OutcomeModel Vm.AssetModel Run.Outcome.\nOpen Scope N_scope.",
        "xcase", "bad_xcases");
}
