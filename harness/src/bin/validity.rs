//! Validity family (C19): run IntoChecked::into_checked_basic of the real crates on generated
//! transactions, print (abstract record, parameters, height, real verdict) as Coq cases for the
//! Gallina L1 model, and check the property directly on the implementation with an independent
//! declarative validity checker + big-integer balance computation (oracle).
use fuel_tx::field::{
    BytecodeWitnessIndex, Inputs, MintAssetId, OutputContract, Outputs, Policies as PoliciesField, Script as ScriptField,
    Salt as SaltField, ScriptData, StorageSlots, TxPointer as TxPointerField, Witnesses,
};
use fuel_tx::policies::{Policies, PolicyType};
use fuel_tx::{
    BlobBody, Chargeable, ConsensusParameters, Contract, ContractParameters, Input, Output, PredicateParameters,
    ScriptParameters, StorageSlot, Transaction, TxParameters, TxPointer, UpgradePurpose, UploadBody, UploadSubsection,
    UtxoId, ValidityError, Witness,
};
use fuel_types::canonical::Serialize as CanonSerialize;
use fuel_types::{Address, AssetId, BlobId, BlockHeight, Bytes32, ContractId, Nonce, Salt};
use fuel_vm::checked_transaction::{CheckError, CheckedMetadata, IntoChecked};
use fvh::*;
use serde_json::json;
use sha2::{Digest, Sha256};
use std::collections::{BTreeMap, BTreeSet};

fn sha256(b: &[u8]) -> [u8; 32] {
    let mut h = Sha256::new();
    h.update(b);
    h.finalize().into()
}

// ------------------------------------------------------------------ consensus parameter plan
#[derive(Clone, Debug)]
struct PPlan {
    max_inputs: u16,
    max_outputs: u16,
    max_witnesses: u32,
    max_gas_per_tx: u64,
    max_size: u64,
    max_subsections: u16,
    max_pred_len: u64,
    max_pred_data_len: u64,
    max_msg_data_len: u64,
    max_script_len: u64,
    max_script_data_len: u64,
    contract_max_size: u64,
    max_storage_slots: u64,
    base_asset: [u8; 32],
    privileged: [u8; 32],
}
impl PPlan {
    fn standard() -> PPlan {
        let c = ConsensusParameters::standard();
        PPlan {
            max_inputs: c.tx_params().max_inputs(),
            max_outputs: c.tx_params().max_outputs(),
            max_witnesses: c.tx_params().max_witnesses(),
            max_gas_per_tx: c.tx_params().max_gas_per_tx(),
            max_size: c.tx_params().max_size(),
            max_subsections: c.tx_params().max_bytecode_subsections(),
            max_pred_len: c.predicate_params().max_predicate_length(),
            max_pred_data_len: c.predicate_params().max_predicate_data_length(),
            max_msg_data_len: c.predicate_params().max_message_data_length(),
            max_script_len: c.script_params().max_script_length(),
            max_script_data_len: c.script_params().max_script_data_length(),
            contract_max_size: c.contract_params().contract_max_size(),
            max_storage_slots: c.contract_params().max_storage_slots(),
            base_asset: **c.base_asset_id(),
            privileged: **c.privileged_address(),
        }
    }
    fn build(&self) -> ConsensusParameters {
        let mut c = ConsensusParameters::standard();
        c.set_tx_params(
            TxParameters::DEFAULT
                .with_max_inputs(self.max_inputs)
                .with_max_outputs(self.max_outputs)
                .with_max_witnesses(self.max_witnesses)
                .with_max_gas_per_tx(self.max_gas_per_tx)
                .with_max_size(self.max_size)
                .with_max_bytecode_subsections(self.max_subsections),
        );
        c.set_predicate_params(
            PredicateParameters::DEFAULT
                .with_max_predicate_length(self.max_pred_len)
                .with_max_predicate_data_length(self.max_pred_data_len)
                .with_max_message_data_length(self.max_msg_data_len),
        );
        c.set_script_params(
            ScriptParameters::DEFAULT
                .with_max_script_length(self.max_script_len)
                .with_max_script_data_length(self.max_script_data_len),
        );
        c.set_contract_params(
            ContractParameters::DEFAULT
                .with_contract_max_size(self.contract_max_size)
                .with_max_storage_slots(self.max_storage_slots),
        );
        c.set_base_asset_id(AssetId::from(self.base_asset));
        c.set_privileged_address(Address::from(self.privileged));
        c
    }
    fn to_json(&self) -> serde_json::Value {
        json!({
            "max_inputs": self.max_inputs, "max_outputs": self.max_outputs, "max_witnesses": self.max_witnesses,
            "max_gas_per_tx": self.max_gas_per_tx, "max_size": self.max_size, "max_subsections": self.max_subsections,
            "max_pred_len": self.max_pred_len, "max_pred_data_len": self.max_pred_data_len, "max_msg_data_len": self.max_msg_data_len,
            "max_script_len": self.max_script_len, "max_script_data_len": self.max_script_data_len,
            "contract_max_size": self.contract_max_size, "max_storage_slots": self.max_storage_slots,
            "base_asset": hexs(&self.base_asset), "privileged": hexs(&self.privileged),
        })
    }
    fn from_json(v: &serde_json::Value) -> PPlan {
        let u = |k: &str| v[k].as_u64().unwrap();
        let b = |k: &str| -> [u8; 32] { hex::decode(v[k].as_str().unwrap()).unwrap().try_into().unwrap() };
        PPlan {
            max_inputs: u("max_inputs") as u16,
            max_outputs: u("max_outputs") as u16,
            max_witnesses: u("max_witnesses") as u32,
            max_gas_per_tx: u("max_gas_per_tx"),
            max_size: u("max_size"),
            max_subsections: u("max_subsections") as u16,
            max_pred_len: u("max_pred_len"),
            max_pred_data_len: u("max_pred_data_len"),
            max_msg_data_len: u("max_msg_data_len"),
            max_script_len: u("max_script_len"),
            max_script_data_len: u("max_script_data_len"),
            contract_max_size: u("contract_max_size"),
            max_storage_slots: u("max_storage_slots"),
            base_asset: b("base_asset"),
            privileged: b("privileged"),
        }
    }
    fn coq(&self) -> String {
        format!(
            "{{| max_inputs := {}; max_outputs := {}; max_witnesses := {}; max_gas_per_tx := {}; max_size := {}; \
             max_bytecode_subsections := {}; max_predicate_length := {}; max_predicate_data_length := {}; \
             max_message_data_length := {}; max_script_length := {}; max_script_data_length := {}; \
             contract_max_size := {}; max_storage_slots := {}; base_asset := {}; privileged_address := {} |}}",
            self.max_inputs, self.max_outputs, self.max_witnesses, self.max_gas_per_tx, self.max_size,
            self.max_subsections, self.max_pred_len, self.max_pred_data_len, self.max_msg_data_len,
            self.max_script_len, self.max_script_data_len, self.contract_max_size, self.max_storage_slots,
            cid(&hexs(&self.base_asset)), cid(&hexs(&self.privileged))
        )
    }
}

/// identifier (hex of its bytes) as a Coq N numeral
fn cid(h: &str) -> String {
    format!("0x{}", h)
}

// ------------------------------------------------------------------ abstract record (Rust mirror of ValiditySpec.v)
type Id = String; // lower-case hex of the identifier's bytes; equal length => string order = numeric order

#[derive(Clone, Debug)]
enum AIn {
    CoinSigned { utxo: Id, owner: Id, amount: u64, asset: Id, wi: u64 },
    CoinPredicate { utxo: Id, owner: Id, amount: u64, asset: Id, plen: u64, pdlen: u64 },
    Contract { utxo: Id, cid: Id },
    MsgCoinSigned { recipient: Id, amount: u64, nonce: Id, wi: u64 },
    MsgCoinPredicate { recipient: Id, amount: u64, nonce: Id, plen: u64, pdlen: u64 },
    MsgDataSigned { recipient: Id, amount: u64, nonce: Id, wi: u64, dlen: u64 },
    MsgDataPredicate { recipient: Id, amount: u64, nonce: Id, dlen: u64, plen: u64, pdlen: u64 },
}
#[derive(Clone, Debug)]
enum AOut {
    Coin { amount: u64, asset: Id },
    Contract { input_index: u64 },
    Change { asset: Id },
    Variable,
    ContractCreated { cid: Id, state_root: Id },
}
#[derive(Clone, Debug)]
struct APol {
    bits: u32,
    values: [u64; 6],
}
#[derive(Clone, Debug)]
enum ABody {
    Script { slen: u64, sdlen: u64 },
    Create { bwi: u64, slots: Vec<Id>, cid: Id, sroot: Id },
    UpgradeCP { wi: u64, checksum_ok: bool, decodes: bool },
    UpgradeST,
    Upload { n: u64, wi: u64, proof_ok: bool },
    Blob { wi: u64, id_ok: bool },
}
#[derive(Clone, Debug)]
struct ACtx {
    body: ABody,
    pol: APol,
    ins: Vec<AIn>,
    outs: Vec<AOut>,
    wits: Vec<u64>,
    size: u64,
    max_gas: u64,
}
#[derive(Clone, Debug)]
struct AMint {
    size: u64,
    height: u64,
    out_index: u64,
    asset: Id,
}
#[derive(Clone, Debug)]
enum ATx {
    Charge(ACtx),
    Mint(AMint),
}

fn utxo_hex(u: &UtxoId) -> Id {
    format!("{}{:04x}", hexs(u.tx_id().as_ref()), u.output_index())
}
fn abs_input(i: &Input) -> AIn {
    match i {
        Input::CoinSigned(c) => AIn::CoinSigned {
            utxo: utxo_hex(&c.utxo_id),
            owner: hexs(c.owner.as_ref()),
            amount: c.amount,
            asset: hexs(c.asset_id.as_ref()),
            wi: c.witness_index as u64,
        },
        Input::CoinPredicate(c) => AIn::CoinPredicate {
            utxo: utxo_hex(&c.utxo_id),
            owner: hexs(c.owner.as_ref()),
            amount: c.amount,
            asset: hexs(c.asset_id.as_ref()),
            plen: c.predicate.len() as u64,
            pdlen: c.predicate_data.len() as u64,
        },
        Input::Contract(c) => AIn::Contract { utxo: utxo_hex(&c.utxo_id), cid: hexs(c.contract_id.as_ref()) },
        Input::MessageCoinSigned(m) => AIn::MsgCoinSigned {
            recipient: hexs(m.recipient.as_ref()),
            amount: m.amount,
            nonce: hexs(m.nonce.as_ref()),
            wi: m.witness_index as u64,
        },
        Input::MessageCoinPredicate(m) => AIn::MsgCoinPredicate {
            recipient: hexs(m.recipient.as_ref()),
            amount: m.amount,
            nonce: hexs(m.nonce.as_ref()),
            plen: m.predicate.len() as u64,
            pdlen: m.predicate_data.len() as u64,
        },
        Input::MessageDataSigned(m) => AIn::MsgDataSigned {
            recipient: hexs(m.recipient.as_ref()),
            amount: m.amount,
            nonce: hexs(m.nonce.as_ref()),
            wi: m.witness_index as u64,
            dlen: m.data.len() as u64,
        },
        Input::MessageDataPredicate(m) => AIn::MsgDataPredicate {
            recipient: hexs(m.recipient.as_ref()),
            amount: m.amount,
            nonce: hexs(m.nonce.as_ref()),
            dlen: m.data.len() as u64,
            plen: m.predicate.len() as u64,
            pdlen: m.predicate_data.len() as u64,
        },
    }
}
fn abs_output(o: &Output) -> AOut {
    match o {
        Output::Coin { amount, asset_id, .. } => AOut::Coin { amount: *amount, asset: hexs(asset_id.as_ref()) },
        Output::Contract(c) => AOut::Contract { input_index: c.input_index as u64 },
        Output::Change { asset_id, .. } => AOut::Change { asset: hexs(asset_id.as_ref()) },
        Output::Variable { .. } => AOut::Variable,
        Output::ContractCreated { contract_id, state_root } => {
            AOut::ContractCreated { cid: hexs(contract_id.as_ref()), state_root: hexs(state_root.as_ref()) }
        }
    }
}
/// bitmask and the raw six value words (the `values` array is private: read from Debug)
fn abs_policies(p: &Policies) -> APol {
    let d = format!("{:?}", p);
    let start = d.find("values: [").expect("Policies Debug format") + "values: [".len();
    let end = start + d[start..].find(']').unwrap();
    let vals: Vec<u64> = d[start..end].split(',').map(|s| s.trim().parse::<u64>().expect("policy value")).collect();
    assert_eq!(vals.len(), 6, "six policy values");
    let mut values = [0u64; 6];
    values.copy_from_slice(&vals);
    APol { bits: p.bits(), values }
}

/// RFC 6962 audit-path verification (independent of fuel-merkle): leaf-to-root proof set
fn rfc_root_from_path(h: [u8; 32], p: &[[u8; 32]], i: u64, n: u64) -> Option<[u8; 32]> {
    if n == 0 || i >= n {
        return None;
    }
    if n == 1 {
        return if p.is_empty() { Some(h) } else { None };
    }
    let mut k = 1u64;
    while k.checked_mul(2).map(|x| x < n).unwrap_or(false) {
        k *= 2;
    }
    let (last, rest) = p.split_last()?;
    let cat = |a: &[u8; 32], b: &[u8; 32]| {
        let mut v = vec![1u8];
        v.extend_from_slice(a);
        v.extend_from_slice(b);
        sha256(&v)
    };
    if i < k {
        let r = rfc_root_from_path(h, rest, i, k)?;
        Some(cat(&r, last))
    } else {
        let r = rfc_root_from_path(h, rest, i - k, n - k)?;
        Some(cat(last, &r))
    }
}

fn abs_common<T>(t: &T, body: ABody, cp: &ConsensusParameters) -> ACtx
where
    T: Chargeable + Inputs + Outputs + Witnesses + PoliciesField + CanonSerialize,
{
    ACtx {
        body,
        pol: abs_policies(t.policies()),
        ins: t.inputs().iter().map(abs_input).collect(),
        outs: t.outputs().iter().map(abs_output).collect(),
        wits: t.witnesses().iter().map(|w| w.as_ref().len() as u64).collect(),
        size: CanonSerialize::size(t) as u64,
        max_gas: t.max_gas(cp.gas_costs(), cp.fee_params()),
    }
}

fn abstract_tx(tx: &Transaction, cp: &ConsensusParameters) -> ATx {
    match tx {
        Transaction::Script(t) => {
            let body = ABody::Script { slen: t.script().len() as u64, sdlen: t.script_data().len() as u64 };
            ATx::Charge(abs_common(t, body, cp))
        }
        Transaction::Create(t) => {
            let bwi = *t.bytecode_witness_index() as usize;
            let (cidv, sroot) = match t.witnesses().get(bwi) {
                Some(w) => {
                    let root = Contract::root_from_code(w.as_ref());
                    let sr = Contract::initial_state_root(t.storage_slots().iter());
                    let id = Contract::id(t.salt(), &root, &sr);
                    (hexs(id.as_ref()), hexs(sr.as_ref()))
                }
                None => ("00".to_string(), "00".to_string()),
            };
            let body = ABody::Create {
                bwi: bwi as u64,
                slots: t.storage_slots().iter().map(|s| hexs(s.key().as_ref())).collect(),
                cid: cidv,
                sroot,
            };
            ATx::Charge(abs_common(t, body, cp))
        }
        Transaction::Upgrade(t) => {
            use fuel_tx::field::UpgradePurpose as UP;
            let body = match t.upgrade_purpose() {
                UpgradePurpose::ConsensusParameters { witness_index, checksum } => {
                    let (ck, dec) = match t.witnesses().get(*witness_index as usize) {
                        Some(w) => (
                            sha256(w.as_ref()) == **checksum,
                            postcard::from_bytes::<ConsensusParameters>(w.as_ref()).is_ok(),
                        ),
                        None => (false, false),
                    };
                    ABody::UpgradeCP { wi: *witness_index as u64, checksum_ok: ck, decodes: dec }
                }
                UpgradePurpose::StateTransition { .. } => ABody::UpgradeST,
            };
            ATx::Charge(abs_common(t, body, cp))
        }
        Transaction::Upload(t) => {
            use fuel_tx::field::{BytecodeRoot, ProofSet, SubsectionIndex, SubsectionsNumber};
            let wi = *t.bytecode_witness_index() as usize;
            let ok = match t.witnesses().get(wi) {
                Some(w) => {
                    let mut leaf = vec![0u8];
                    leaf.extend_from_slice(w.as_ref());
                    let proof: Vec<[u8; 32]> = t.proof_set().iter().map(|b| **b).collect();
                    rfc_root_from_path(sha256(&leaf), &proof, *t.subsection_index() as u64, *t.subsections_number() as u64)
                        == Some(**t.bytecode_root())
                }
                None => false,
            };
            let body = ABody::Upload { n: *t.subsections_number() as u64, wi: wi as u64, proof_ok: ok };
            ATx::Charge(abs_common(t, body, cp))
        }
        Transaction::Blob(t) => {
            use fuel_tx::field::BlobId as BF;
            let wi = *t.bytecode_witness_index() as usize;
            let ok = match t.witnesses().get(wi) {
                Some(w) => sha256(w.as_ref()) == **t.blob_id(),
                None => false,
            };
            ATx::Charge(abs_common(t, ABody::Blob { wi: wi as u64, id_ok: ok }, cp))
        }
        Transaction::Mint(t) => ATx::Mint(AMint {
            size: CanonSerialize::size(t) as u64,
            height: *t.tx_pointer().block_height() as u64,
            out_index: t.output_contract().input_index as u64,
            asset: hexs(t.mint_asset_id().as_ref()),
        }),
    }
}

// ------------------------------------------------------------------ Coq printers
fn coq_in(i: &AIn) -> String {
    match i {
        AIn::CoinSigned { utxo, owner, amount, asset, wi } => {
            format!("(ICoinSigned {} {} {} {} {})", cid(utxo), cid(owner), amount, cid(asset), wi)
        }
        AIn::CoinPredicate { utxo, owner, amount, asset, plen, pdlen } => {
            format!("(ICoinPredicate {} {} {} {} {} {})", cid(utxo), cid(owner), amount, cid(asset), plen, pdlen)
        }
        AIn::Contract { utxo, cid: c } => format!("(IContract {} {})", cid(utxo), cid(c)),
        AIn::MsgCoinSigned { recipient, amount, nonce, wi } => {
            format!("(IMessageCoinSigned {} {} {} {})", cid(recipient), amount, cid(nonce), wi)
        }
        AIn::MsgCoinPredicate { recipient, amount, nonce, plen, pdlen } => {
            format!("(IMessageCoinPredicate {} {} {} {} {})", cid(recipient), amount, cid(nonce), plen, pdlen)
        }
        AIn::MsgDataSigned { recipient, amount, nonce, wi, dlen } => {
            format!("(IMessageDataSigned {} {} {} {} {})", cid(recipient), amount, cid(nonce), wi, dlen)
        }
        AIn::MsgDataPredicate { recipient, amount, nonce, dlen, plen, pdlen } => {
            format!("(IMessageDataPredicate {} {} {} {} {} {})", cid(recipient), amount, cid(nonce), dlen, plen, pdlen)
        }
    }
}
fn coq_out(o: &AOut) -> String {
    match o {
        AOut::Coin { amount, asset } => format!("(OCoin {} {})", amount, cid(asset)),
        AOut::Contract { input_index } => format!("(OContract {})", input_index),
        AOut::Change { asset } => format!("(OChange {})", cid(asset)),
        AOut::Variable => "OVariable".to_string(),
        AOut::ContractCreated { cid: c, state_root } => format!("(OContractCreated {} {})", cid(c), cid(state_root)),
    }
}
fn coq_tx(a: &ATx) -> String {
    match a {
        ATx::Mint(m) => format!(
            "(TxMint {{| m_size := {}; m_tx_pointer_height := {}; m_output_input_index := {}; m_asset := {} |}})",
            m.size, m.height, m.out_index, cid(&m.asset)
        ),
        ATx::Charge(t) => {
            let body = match &t.body {
                ABody::Script { slen, sdlen } => format!("(BScript {} {})", slen, sdlen),
                ABody::Create { bwi, slots, cid: c, sroot } => format!(
                    "(BCreate {} {} {} {})",
                    bwi,
                    coq_list(&slots.iter().map(|s| cid(s)).collect::<Vec<_>>()),
                    cid(c),
                    cid(sroot)
                ),
                ABody::UpgradeCP { wi, checksum_ok, decodes } => {
                    format!("(BUpgrade (UpConsensusParameters {} {} {}))", wi, coq_bool(*checksum_ok), coq_bool(*decodes))
                }
                ABody::UpgradeST => "(BUpgrade UpStateTransition)".to_string(),
                ABody::Upload { n, wi, proof_ok } => format!("(BUpload {} {} {})", n, wi, coq_bool(*proof_ok)),
                ABody::Blob { wi, id_ok } => format!("(BBlob {} {})", wi, coq_bool(*id_ok)),
            };
            let v = &t.pol.values;
            format!(
                "(TxCharge {{| t_body := {}; t_policies := {{| p_bits := {}; p_tip := {}; p_witness_limit := {}; p_maturity := {}; \
                 p_max_fee := {}; p_expiration := {}; p_owner := {} |}}; t_inputs := {}; t_outputs := {}; t_witnesses := {}; \
                 t_size := {}; t_max_gas := {} |}})",
                body, t.pol.bits, v[0], v[1], v[2], v[3], v[4], v[5],
                coq_list(&t.ins.iter().map(coq_in).collect::<Vec<_>>()),
                coq_list(&t.outs.iter().map(coq_out).collect::<Vec<_>>()),
                coq_list(&t.wits.iter().map(|w| w.to_string()).collect::<Vec<_>>()),
                t.size, t.max_gas
            )
        }
    }
}

// ------------------------------------------------------------------ the real verdict
#[derive(Clone, Debug, PartialEq)]
enum Verdict {
    Ok { balances: Vec<(Id, u64)>, retryable: u64 },
    Err { kind: String, coq: String },
    Panic(String),
}
fn err_to_coq(e: &ValidityError) -> (String, String) {
    use ValidityError::*;
    let k = |s: &str| (s.to_string(), format!("E{}", s));
    let k1 = |s: &str, i: usize| (s.to_string(), format!("(E{} {})", s, i));
    match e {
        NoSpendableInput => k("NoSpendableInput"),
        InputWitnessIndexBounds { index } => k1("InputWitnessIndexBounds", *index),
        InputPredicateEmpty { index } => k1("InputPredicateEmpty", *index),
        InputPredicateLength { index } => k1("InputPredicateLength", *index),
        InputPredicateDataLength { index } => k1("InputPredicateDataLength", *index),
        InputContractAssociatedOutputContract { index } => k1("InputContractAssociatedOutputContract", *index),
        InputMessageDataLength { index } => k1("InputMessageDataLength", *index),
        DuplicateInputUtxoId { utxo_id } => {
            ("DuplicateInputUtxoId".into(), format!("(EDuplicateInputUtxoId {})", cid(&utxo_hex(utxo_id))))
        }
        DuplicateInputNonce { nonce } => {
            ("DuplicateInputNonce".into(), format!("(EDuplicateInputNonce {})", cid(&hexs(nonce.as_ref()))))
        }
        DuplicateInputContractId { contract_id } => (
            "DuplicateInputContractId".into(),
            format!("(EDuplicateInputContractId {})", cid(&hexs(contract_id.as_ref()))),
        ),
        OutputContractInputIndex { index } => k1("OutputContractInputIndex", *index),
        TransactionInputContainsNonBaseAssetId { index } => k1("TransactionInputContainsNonBaseAssetId", *index),
        TransactionInputContainsContract { index } => k1("TransactionInputContainsContract", *index),
        TransactionInputContainsMessageData { index } => k1("TransactionInputContainsMessageData", *index),
        TransactionOutputContainsContract { index } => k1("TransactionOutputContainsContract", *index),
        TransactionOutputContainsVariable { index } => k1("TransactionOutputContainsVariable", *index),
        TransactionChangeChangeUsesNotBaseAsset { index } => k1("TransactionChangeChangeUsesNotBaseAsset", *index),
        TransactionCreateOutputContractCreatedDoesntMatch { index } => {
            k1("TransactionCreateOutputContractCreatedDoesntMatch", *index)
        }
        TransactionCreateOutputContractCreatedMultiple { index } => k1("TransactionCreateOutputContractCreatedMultiple", *index),
        TransactionCreateBytecodeLen => k("TransactionCreateBytecodeLen"),
        TransactionCreateBytecodeWitnessIndex => k("TransactionCreateBytecodeWitnessIndex"),
        TransactionCreateStorageSlotMax => k("TransactionCreateStorageSlotMax"),
        TransactionCreateStorageSlotOrder => k("TransactionCreateStorageSlotOrder"),
        TransactionScriptLength => k("TransactionScriptLength"),
        TransactionScriptDataLength => k("TransactionScriptDataLength"),
        TransactionOutputContainsContractCreated { index } => k1("TransactionOutputContainsContractCreated", *index),
        TransactionMintIncorrectBlockHeight => k("TransactionMintIncorrectBlockHeight"),
        TransactionMintIncorrectOutputIndex => k("TransactionMintIncorrectOutputIndex"),
        TransactionMintNonBaseAsset => k("TransactionMintNonBaseAsset"),
        TransactionUpgradeNoPrivilegedAddress => k("TransactionUpgradeNoPrivilegedAddress"),
        TransactionUpgradeConsensusParametersChecksumMismatch => k("TransactionUpgradeConsensusParametersChecksumMismatch"),
        TransactionUpgradeConsensusParametersDeserialization => k("TransactionUpgradeConsensusParametersDeserialization"),
        TransactionUploadRootVerificationFailed => k("TransactionUploadRootVerificationFailed"),
        TransactionUploadTooManyBytecodeSubsections => k("TransactionUploadTooManyBytecodeSubsections"),
        TransactionSizeLimitExceeded => k("TransactionSizeLimitExceeded"),
        TransactionMaxGasExceeded => k("TransactionMaxGasExceeded"),
        TransactionWitnessLimitExceeded => k("TransactionWitnessLimitExceeded"),
        TransactionPoliciesAreInvalid => k("TransactionPoliciesAreInvalid"),
        TransactionMaturity => k("TransactionMaturity"),
        TransactionExpiration => k("TransactionExpiration"),
        TransactionMaxFeeNotSet => k("TransactionMaxFeeNotSet"),
        TransactionInputsMax => k("TransactionInputsMax"),
        TransactionOutputsMax => k("TransactionOutputsMax"),
        TransactionWitnessesMax => k("TransactionWitnessesMax"),
        TransactionOutputChangeAssetIdDuplicated(a) => (
            "TransactionOutputChangeAssetIdDuplicated".into(),
            format!("(ETransactionOutputChangeAssetIdDuplicated {})", cid(&hexs(a.as_ref()))),
        ),
        TransactionOutputChangeAssetIdNotFound(a) => (
            "TransactionOutputChangeAssetIdNotFound".into(),
            format!("(ETransactionOutputChangeAssetIdNotFound {})", cid(&hexs(a.as_ref()))),
        ),
        TransactionOutputCoinAssetIdNotFound(a) => (
            "TransactionOutputCoinAssetIdNotFound".into(),
            format!("(ETransactionOutputCoinAssetIdNotFound {})", cid(&hexs(a.as_ref()))),
        ),
        InsufficientFeeAmount { expected, provided } => {
            ("InsufficientFeeAmount".into(), format!("(EInsufficientFeeAmount {} {})", expected, provided))
        }
        InsufficientInputAmount { asset, expected, provided } => (
            "InsufficientInputAmount".into(),
            format!("(EInsufficientInputAmount {} {} {})", cid(&hexs(asset.as_ref())), expected, provided),
        ),
        BalanceOverflow => k("BalanceOverflow"),
        TransactionOutputDoesntContainContractCreated => k("TransactionOutputDoesntContainContractCreated"),
        TransactionBlobIdVerificationFailed => k("TransactionBlobIdVerificationFailed"),
        TransactionOwnerIndexOutOfBounds => k("TransactionOwnerIndexOutOfBounds"),
        TransactionOwnerInputHasNoOwner { index } => k1("TransactionOwnerInputHasNoOwner", *index),
        other => (format!("Other:{:?}", other), "(EOther 0)".to_string()),
    }
}
fn bal_vec(m: &BTreeMap<AssetId, u64>) -> Vec<(Id, u64)> {
    m.iter().map(|(k, v)| (hexs(k.as_ref()), *v)).collect()
}
fn real_verdict(tx: &Transaction, cp: &ConsensusParameters, height: u32) -> Verdict {
    let r = guarded(|| tx.clone().into_checked_basic(BlockHeight::from(height), cp));
    match r {
        Err(p) => Verdict::Panic(p),
        Ok(Err(CheckError::Validity(e))) => {
            let (kind, coq) = err_to_coq(&e);
            Verdict::Err { kind, coq }
        }
        Ok(Err(other)) => Verdict::Err { kind: format!("CheckError:{:?}", other), coq: "(EOther 1)".into() },
        Ok(Ok(ch)) => match ch.metadata() {
            CheckedMetadata::Script(m) => {
                Verdict::Ok { balances: bal_vec(&m.non_retryable_balances), retryable: *m.retryable_balance }
            }
            CheckedMetadata::Create(m) => Verdict::Ok { balances: bal_vec(&m.free_balances), retryable: 0 },
            CheckedMetadata::Upgrade(m) => Verdict::Ok { balances: bal_vec(&m.free_balances), retryable: 0 },
            CheckedMetadata::Upload(m) => Verdict::Ok { balances: bal_vec(&m.free_balances), retryable: 0 },
            CheckedMetadata::Blob(m) => Verdict::Ok { balances: bal_vec(&m.free_balances), retryable: 0 },
            CheckedMetadata::Mint(_) => Verdict::Ok { balances: vec![], retryable: 0 },
        },
    }
}
fn coq_verdict(v: &Verdict) -> String {
    match v {
        Verdict::Ok { balances, retryable } => format!(
            "(COk {} {})",
            coq_list(&balances.iter().map(|(a, x)| format!("({}, {})", cid(a), x)).collect::<Vec<_>>()),
            retryable
        ),
        Verdict::Err { coq, .. } => format!("(CErr {})", coq),
        Verdict::Panic(_) => "(CErr (EOther 2))".to_string(),
    }
}

include!("../validity/oracle.rs");
include!("../validity/gen.rs");
include!("../validity/mutate.rs");
