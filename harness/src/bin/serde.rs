//! Serde family (C06): real serde_json / postcard / bincode round trips, the data-model tree the
//! real `Serialize` impls emit (recording Serializer), the real `Deserialize` impls driven from
//! trees (tree Deserializer), and the upgrade checksum path.  Cases for the Gallina model
//! (coq/Run/Serde.v) + implementation-level oracle.
#[path = "../c0607_gen.rs"]
mod g;
#[path = "../c06_tree.rs"]
mod tree;
#[path = "../c06_derive.rs"]
mod dv;

use fuel_tx::consensus_parameters::gas::*;
use fuel_tx::policies::{Policies, PolicyType};
use fuel_tx::*;
use fvh::*;
use g::*;
use serde::{de::DeserializeOwned, Serialize};
use serde_json::json;
use tree::*;

// ------------------------------------------------------------------------------- raw policies
/// (bits, raw values array) of a Policies value.  The array is private; `Debug` is derived and
/// prints it, which is the only hook-free way to observe values stored under unset bits.
fn pol_raw(p: &Policies) -> (u32, [u64; 6]) {
    let s = format!("{:?}", p);
    let i = s.find("values: [").expect("Debug format of Policies") + 9;
    let j = i + s[i..].find(']').unwrap();
    let mut vals = [0u64; 6];
    for (k, x) in s[i..j].split(',').enumerate() {
        vals[k] = x.trim().parse().expect("Debug value");
    }
    (p.bits(), vals)
}
fn pol_coq(bits: u32, vals: &[u64; 6]) -> String {
    format!("(mkPol {} {})", bits, coq_list(&vals.iter().map(|v| v.to_string()).collect::<Vec<_>>()))
}
fn pol_tree(hr: bool, bits_node: T, values_node: T) -> T {
    let _ = hr;
    T::Struct("Policies".into(), vec![("bits".into(), bits_node), ("values".into(), values_node)])
}
fn u64s(v: &[u64]) -> Vec<T> {
    v.iter().map(|x| T::U(64, *x as u128)).collect()
}
/// a Policies value with arbitrary bits and arbitrary first-four values, built through the real
/// Deserialize impl (the only public way to get values under unset bits / unknown bits)
fn pol_from_parts(bits: u32, vals: [u64; 6]) -> Option<Policies> {
    let legacy = bits & 0x30 == 0;
    let values = if legacy {
        T::Tuple(u64s(&vals[..4]))
    } else {
        T::Seq(u64s(&(0..6).filter(|i| bits & (1 << i) != 0).map(|i| vals[i]).collect::<Vec<_>>()))
    };
    let t = pol_tree(false, T::Newtype("PoliciesBits".into(), Box::new(T::U(32, bits as u128))), values);
    replay_de::<Policies>(&t, false, false).ok()
}

fn err_kind(msg: &str) -> String {
    let m = msg;
    if let Some(i) = m.find("invalid length ") {
        let n: String = m[i + 15..].chars().take_while(|c| c.is_ascii_digit()).collect();
        return format!("(EInvalidLength {})", n);
    }
    for f in ["bits", "values"] {
        if m.contains(&format!("duplicate field `{}`", f)) {
            return format!("(EDuplicate \"{}\")", f);
        }
        if m.contains(&format!("missing field `{}`", f)) {
            return format!("(EMissing \"{}\")", f);
        }
    }
    if m.contains("bits field should be set before values") {
        return "EBitsAfterValues".into();
    }
    if m.contains("isn't synchronized") {
        return "ENotSync".into();
    }
    if m.contains("hint mismatch") {
        return "EHint".into();
    }
    if m.contains("unrecognized named flag") || m.contains("invalid hex flag") || m.contains("empty flag") {
        return "EBitsText".into();
    }
    if m.contains("invalid type") || m.contains("invalid value") {
        return "EType".into();
    }
    "EStuck".into()
}

// ------------------------------------------------------------------------------- generic round trips
#[derive(Default)]
struct Rt {
    fails: Vec<String>,
    /// failures of the reader-based entry point (outside the three entry points the property names)
    reader_fails: Vec<String>,
}
/// all formats; `same` compares two values of the type (PartialEq plus, because some PartialEq
/// impls ignore fields, equality of the re-serialized postcard bytes)
fn roundtrip_all<V: Serialize + DeserializeOwned + PartialEq + std::fmt::Debug>(v: &V) -> Rt {
    let mut r = Rt::default();
    let pc0 = postcard::to_allocvec(v).ok();
    let same = |a: &V, fmt: &str, r: &mut Rt| {
        if a != v {
            r.fails.push(format!("{}: value differs", fmt));
        } else if postcard::to_allocvec(a).ok() != pc0 {
            r.fails.push(format!("{}: equal by PartialEq but re-serialization differs", fmt));
        }
    };
    match guarded(|| serde_json::to_string(v).map_err(|e| e.to_string()).and_then(|s| serde_json::from_str::<V>(&s).map_err(|e| e.to_string()))) {
        Ok(Ok(a)) => same(&a, "json", &mut r),
        Ok(Err(e)) => r.fails.push(format!("json: {}", e)),
        Err(p) => r.fails.push(format!("json: panic {}", p)),
    }
    match guarded(|| postcard::to_allocvec(v).map_err(|e| e.to_string()).and_then(|b| postcard::from_bytes::<V>(&b).map_err(|e| e.to_string()).map(|a| (a, b)))) {
        Ok(Ok((a, b))) => {
            same(&a, "postcard", &mut r);
            match postcard::to_allocvec(&a) {
                Ok(b2) if b2 == b => {}
                _ => r.fails.push("postcard: bytes not reproducible".into()),
            }
        }
        Ok(Err(e)) => r.fails.push(format!("postcard: {}", e)),
        Err(p) => r.fails.push(format!("postcard: panic {}", p)),
    }
    match guarded(|| bincode::serialize(v).map_err(|e| e.to_string()).and_then(|b| bincode::deserialize::<V>(&b).map_err(|e| e.to_string()))) {
        Ok(Ok(a)) => same(&a, "bincode", &mut r),
        Ok(Err(e)) => r.fails.push(format!("bincode: {}", e)),
        Err(p) => r.fails.push(format!("bincode: panic {}", p)),
    }
    match guarded(|| bincode::serialize(v).map_err(|e| e.to_string()).and_then(|b| bincode::deserialize_from::<_, V>(&b[..]).map_err(|e| e.to_string()))) {
        Ok(Ok(a)) => same(&a, "bincode-reader", &mut r),
        Ok(Err(e)) => r.reader_fails.push(format!("bincode::deserialize_from: {}", e)),
        Err(p) => r.reader_fails.push(format!("bincode::deserialize_from: panic {}", p)),
    }
    for (sd, hr) in [(false, false), (true, true), (true, false), (false, true)] {
        let name = format!("tree(sd={},hr={})", sd, hr);
        match guarded(|| record(v, hr).map_err(|e| e.0).and_then(|t| replay_de::<V>(&t, sd, hr).map_err(|e| e.0))) {
            Ok(Ok(a)) => same(&a, &name, &mut r),
            Ok(Err(e)) => r.fails.push(format!("{}: {}", name, e)),
            Err(p) => r.fails.push(format!("{}: panic {}", name, p)),
        }
    }
    r
}

// ------------------------------------------------------------------------------- policies streams
fn policies_class(bits: u32, vals: &[u64; 6]) -> &'static str {
    let stale = (0..6).any(|i| bits & (1 << i) == 0 && vals[i] != 0);
    let legacy = bits & 0x30 == 0;
    if bits >= 64 {
        "policies-unknown-bits"
    } else if stale && !legacy {
        "policies-nonzero-value-under-unset-bit-compact-layout"
    } else if stale {
        "policies-nonzero-value-under-unset-bit-legacy-layout"
    } else {
        "policies-wellformed"
    }
}

fn policies_case(out: &mut Out, p: &Policies, stream: &str, model: bool) {
    let (bits, vals) = pol_raw(p);
    let class = policies_class(bits, &vals);
    // implementation-level oracle: the three real formats (+ the tree transports)
    out.oracle_evaluations += 1;
    let rt = roundtrip_all(p);
    if !rt.reader_fails.is_empty() {
        out.count("observation/bincode-deserialize_from-fails");
        if !out.notes.iter().any(|n| n.starts_with("observation: bincode::deserialize_from")) {
            out.notes.push(format!("observation: bincode::deserialize_from (reader-based; hands transient bytes to Visitor::visit_bytes) fails where bincode::deserialize succeeds: {}", rt.reader_fails.join("; ")));
        }
    }
    if !rt.fails.is_empty() {
        out.oracle_fail(
            class,
            &format!("Policies {{ bits: {:#x}, values: {:?} }} does not survive serde round trip: {}", bits, vals, rt.fails.join("; ")),
            json!({"kind":"policies","bits":bits,"values":vals.to_vec()}),
        );
    }
    if !model {
        return;
    }
    for hr in [false, true] {
        let t = match record(p, hr) {
            Ok(t) => t,
            Err(e) => {
                out.notes.push(format!("record failed: {}", e));
                continue;
            }
        };
        let mut flags = vec![];
        for sd in [false, true] {
            let ok = matches!(replay_de::<Policies>(&t, sd, hr), Ok(q) if &q == p);
            flags.push(coq_bool(ok).to_string());
        }
        // real formats: json is (sd, hr) = (true, true); postcard/bincode are (false, false)
        let real_ok = if hr {
            serde_json::to_string(p).ok().and_then(|s| serde_json::from_str::<Policies>(&s).ok()).map(|q| &q == p).unwrap_or(false)
        } else {
            postcard::to_allocvec(p).ok().and_then(|b| postcard::from_bytes::<Policies>(&b).ok()).map(|q| &q == p).unwrap_or(false)
                && bincode::serialize(p).ok().and_then(|b| bincode::deserialize::<Policies>(&b).ok()).map(|q| &q == p).unwrap_or(false)
        };
        out.push(Case {
            coq: format!("CPolSer {} {} {} {} {} {}", coq_bool(hr), pol_coq(bits, &vals), t.coq(), flags[0], flags[1], coq_bool(real_ok)),
            json: json!({"kind":"policies-ser","stream":stream,"hr":hr,"bits":bits,"values":vals.to_vec(),"tree":t.json()}),
            key: format!("polser:{}:{}:{:?}", hr, bits, vals),
            nontrivial: bits != 0 || vals != [0; 6],
            class: format!("ser/{}/{}", if hr { "readable" } else { "compact" }, class),
        });
    }
}

fn gen_stale_policies(rng: &mut Rng, mask: u32) -> Option<Policies> {
    // step 1: legacy-layout deserialization with arbitrary first-four values (bits within first four)
    let base = mask & 0x0f;
    let mut vals = [0u64; 6];
    for v in vals.iter_mut().take(4) {
        *v = if rng.chance(1, 3) { 0 } else { rng.u64_biased() };
    }
    let mut p = pol_from_parts(base, vals)?;
    // step 2: the public setter for the newer entries
    if mask & 0x10 != 0 {
        p.set(PolicyType::Expiration, Some(rng.u64_biased()));
    }
    if mask & 0x20 != 0 {
        p.set(PolicyType::Owner, Some(rng.u64_biased()));
    }
    Some(p)
}

fn pol_de_case(out: &mut Out, t: &T, sd: bool, hr: bool, stream: &str) {
    let res = guarded(|| replay_de::<Policies>(t, sd, hr));
    let (coq_res, key_res) = match &res {
        Ok(Ok(p)) => {
            let (b, v) = pol_raw(p);
            (format!("(DOk {})", pol_coq(b, &v)), format!("ok:{}:{:?}", b, v))
        }
        Ok(Err(e)) => (format!("(DErr {})", err_kind(&e.0)), format!("err:{}", err_kind(&e.0))),
        Err(_) => ("(DErr EStuck)".to_string(), "panic".to_string()),
    };
    // oracle: whatever the real Deserialize accepts must serialize to something it accepts again,
    // giving the same value (decode -> encode -> decode fixed point)
    if let Ok(Ok(p)) = &res {
        out.oracle_evaluations += 1;
        let again = record(p, hr).ok().and_then(|t2| replay_de::<Policies>(&t2, sd, hr).ok());
        if again.as_ref() != Some(p) {
            let (b, v) = pol_raw(p);
            out.oracle_fail("policies-deserialized-value-not-stable", &format!("deserialized Policies bits={:#x} values={:?} does not re-round-trip", b, v), json!({"kind":"policies-tree","sd":sd,"hr":hr,"tree":t.json()}));
        }
    }
    out.push(Case {
        coq: format!("CPolDe {} {} {} {}", coq_bool(sd), coq_bool(hr), t.coq(), coq_res),
        json: json!({"kind":"policies-de","stream":stream,"sd":sd,"hr":hr,"tree":t.json(),"result":key_res}),
        key: format!("polde:{}:{}:{}:{}", sd, hr, t.coq(), key_res),
        nontrivial: true,
        class: format!("de/{}/{}", stream, key_res.split(':').take(2).collect::<Vec<_>>().join(":").replace(|c: char| c.is_ascii_digit(), "")),
    });
}

fn mutated_policy_trees(rng: &mut Rng, p: &Policies, hr: bool) -> Vec<(String, T)> {
    let t = record(p, hr).unwrap();
    let (bits_n, vals_n) = match &t {
        T::Struct(_, f) => (f[0].1.clone(), f[1].1.clone()),
        _ => unreachable!(),
    };
    let s = |f: Vec<(&str, T)>| T::Struct("Policies".into(), f.into_iter().map(|(k, v)| (k.to_string(), v)).collect());
    let elems = match &vals_n {
        T::Tuple(l) | T::Seq(l) => l.clone(),
        _ => vec![],
    };
    let mut out = vec![("identity".to_string(), t.clone())];
    out.push(("values-first".into(), s(vec![("values", vals_n.clone()), ("bits", bits_n.clone())])));
    out.push(("dup-bits".into(), s(vec![("bits", bits_n.clone()), ("bits", bits_n.clone()), ("values", vals_n.clone())])));
    out.push(("dup-values".into(), s(vec![("bits", bits_n.clone()), ("values", vals_n.clone()), ("values", vals_n.clone())])));
    out.push(("no-values".into(), s(vec![("bits", bits_n.clone())])));
    out.push(("no-bits".into(), s(vec![("values", vals_n.clone())])));
    out.push(("empty".into(), s(vec![])));
    out.push(("extra-field".into(), s(vec![("zzz", T::U(8, 1)), ("bits", bits_n.clone()), ("other", T::Str("x".into())), ("values", vals_n.clone())])));
    let mut shorter = elems.clone();
    shorter.pop();
    let mut longer = elems.clone();
    longer.push(T::U(64, rng.u64_biased() as u128));
    out.push(("tuple-shorter".into(), s(vec![("bits", bits_n.clone()), ("values", T::Tuple(shorter.clone()))])));
    out.push(("tuple-longer".into(), s(vec![("bits", bits_n.clone()), ("values", T::Tuple(longer.clone()))])));
    out.push(("seq-shorter".into(), s(vec![("bits", bits_n.clone()), ("values", T::Seq(shorter))])));
    out.push(("seq-longer".into(), s(vec![("bits", bits_n.clone()), ("values", T::Seq(longer))])));
    out.push(("tuple-as-seq-swap".into(), s(vec![("bits", bits_n.clone()), ("values", match &vals_n { T::Tuple(l) => T::Seq(l.clone()), T::Seq(l) => T::Tuple(l.clone()), x => x.clone() })])));
    out.push(("values-not-array".into(), s(vec![("bits", bits_n.clone()), ("values", T::U(64, 3))])));
    out.push(("value-elem-string".into(), s(vec![("bits", bits_n.clone()), ("values", T::Tuple(vec![T::Str("1".into()), T::U(64, 0), T::U(64, 0), T::U(64, 0)]))])));
    out.push(("bits-bare".into(), s(vec![("bits", match &bits_n { T::Newtype(_, v) => (**v).clone(), x => x.clone() }), ("values", vals_n.clone())])));
    out.push(("bits-wrong-kind".into(), s(vec![("bits", if hr { T::U(32, p.bits() as u128) } else { T::Str("Tip".into()) }), ("values", vals_n.clone())])));
    out.push(("top-seq".into(), T::Seq(vec![bits_n.clone(), vals_n.clone()])));
    out.push(("top-seq-1".into(), T::Tuple(vec![bits_n.clone()])));
    out.push(("top-seq-0".into(), T::Seq(vec![])));
    out.push(("top-seq-3".into(), T::Seq(vec![bits_n.clone(), vals_n.clone(), T::Unit])));
    out.push(("top-map".into(), T::Map(vec![(T::Str("bits".into()), bits_n.clone()), (T::Str("values".into()), vals_n.clone())])));
    out.push(("top-scalar".into(), T::U(64, 0)));
    // other bit patterns over the same values node (layout chosen by the bits, not by the values)
    for b in [0u32, 1, 0x0f, 0x10, 0x20, 0x30, 0x3f, 0x40, 0x50, 0x8000_0000, rng.below(64) as u32, rng.next() as u32] {
        let bn = if hr { T::Str(bits_text(b)) } else { T::U(32, b as u128) };
        out.push((format!("rebits"), s(vec![("bits", T::Newtype("PoliciesBits".into(), Box::new(bn))), ("values", vals_n.clone())])));
    }
    if hr {
        for txt in ["", " ", "Tip", "Tip|Owner", " Owner | Tip ", "Tip | Tip", "Foo", "Tip |", "| Tip", "0x", "0x40", "0X40", "0xZZ", "0x1ffffffff", "0xffffffff", "tip", "Tip | 0x3f", "Tip  |  MaxFee", "Tip\t|\nMaxFee"] {
            out.push(("bits-text".into(), s(vec![("bits", T::Newtype("PoliciesBits".into(), Box::new(T::Str(txt.into())))), ("values", vals_n.clone())])));
        }
    } else {
        out.push(("bits-u64-too-big".into(), s(vec![("bits", T::U(64, 1 << 32)), ("values", vals_n.clone())])));
        out.push(("bits-u8".into(), s(vec![("bits", T::U(8, 3)), ("values", vals_n.clone())])));
    }
    out
}
/// independent re-implementation of bitflags' text form (names joined by " | ", unknown bits in hex)
fn bits_text(b: u32) -> String {
    const N: [&str; 6] = ["Tip", "WitnessLimit", "Maturity", "MaxFee", "Expiration", "Owner"];
    let mut parts: Vec<String> = (0..6).filter(|i| b & (1 << i) != 0).map(|i| N[i].to_string()).collect();
    if b & !63 != 0 {
        parts.push(format!("{:#x}", b & !63));
    }
    parts.join(" | ")
}

// ------------------------------------------------------------------------------- consensus parameters via JSON mutation
/// Replace every numeric leaf of a serde_json tree by a boundary-biased value that the target
/// type still accepts (`limit` finds the largest accepted power-of-two-minus-one per leaf path).
fn leaf_paths(v: &serde_json::Value, path: &mut Vec<String>, out: &mut Vec<Vec<String>>) {
    match v {
        serde_json::Value::Number(_) | serde_json::Value::String(_) => out.push(path.clone()),
        serde_json::Value::Array(a) => {
            for (i, x) in a.iter().enumerate() {
                path.push(i.to_string());
                leaf_paths(x, path, out);
                path.pop();
            }
        }
        serde_json::Value::Object(o) => {
            for (k, x) in o.iter() {
                path.push(k.clone());
                leaf_paths(x, path, out);
                path.pop();
            }
        }
        _ => {}
    }
}
fn at<'a>(v: &'a mut serde_json::Value, path: &[String]) -> &'a mut serde_json::Value {
    let mut cur = v;
    for p in path {
        cur = match cur {
            serde_json::Value::Array(a) => &mut a[p.parse::<usize>().unwrap()],
            serde_json::Value::Object(o) => o.get_mut(p).unwrap(),
            _ => unreachable!(),
        };
    }
    cur
}
struct Mutator {
    base: serde_json::Value,
    leaves: Vec<(Vec<String>, u64)>, // numeric leaves and their maximum
    strings: Vec<Vec<String>>,       // hex-string leaves
}
impl Mutator {
    fn new<V: Serialize + DeserializeOwned>(v: &V) -> Mutator {
        let base = serde_json::to_value(v).unwrap();
        let mut paths = vec![];
        leaf_paths(&base, &mut vec![], &mut paths);
        let mut leaves = vec![];
        let mut strings = vec![];
        for p in paths {
            let mut probe = base.clone();
            if at(&mut probe, &p).is_string() {
                strings.push(p);
                continue;
            }
            let mut max = 0u64;
            for cand in [u64::MAX, u32::MAX as u64, u16::MAX as u64, u8::MAX as u64] {
                *at(&mut probe, &p) = json!(cand);
                if serde_json::from_value::<V>(probe.clone()).is_ok() {
                    max = cand;
                    break;
                }
            }
            leaves.push((p, max));
        }
        Mutator { base, leaves, strings }
    }
    fn make<V: DeserializeOwned>(&self, rng: &mut Rng, mode: u64) -> Option<V> {
        let mut j = self.base.clone();
        for (p, max) in &self.leaves {
            let x = match mode {
                0 => 0,
                1 => *max,
                2 => 1,
                _ => match rng.below(6) {
                    0 => 0,
                    1 => *max,
                    2 => max.wrapping_sub(1).min(*max),
                    3 => rng.u64_biased() & *max,
                    _ => rng.next() & *max,
                },
            };
            *at(&mut j, p) = json!(x);
        }
        for p in &self.strings {
            let cur = at(&mut j, p).as_str().unwrap_or("").to_string();
            if cur.len() == 64 && cur.chars().all(|c| c.is_ascii_hexdigit()) {
                let b = match mode {
                    0 => [0u8; 32],
                    1 => [0xff; 32],
                    _ => b32(rng),
                };
                *at(&mut j, p) = json!(hex::encode(b));
            }
        }
        serde_json::from_value(j).ok()
    }
}

fn gas_versions() -> Vec<(&'static str, GasCostsValues)> {
    vec![
        ("V1", GasCostsValuesV1::unit().into()),
        ("V2", GasCostsValuesV2::unit().into()),
        ("V3", GasCostsValuesV3::unit().into()),
        ("V4", GasCostsValuesV4::unit().into()),
        ("V5", GasCostsValuesV5::unit().into()),
        ("V6", GasCostsValuesV6::unit().into()),
        ("V7", GasCostsValuesV7::unit().into()),
    ]
}
fn cp_versions() -> Vec<(&'static str, ConsensusParameters)> {
    vec![
        ("V1", ConsensusParameters::V1(consensus_parameters::ConsensusParametersV1::standard())),
        ("V2", ConsensusParameters::V2(consensus_parameters::ConsensusParametersV2::standard())),
    ]
}

fn oracle_value<V: Serialize + DeserializeOwned + PartialEq + std::fmt::Debug>(out: &mut Out, v: &V, class: &str, what: &str, replay: serde_json::Value) {
    out.oracle_evaluations += 1;
    out.count(&format!("oracle/{}", class));
    let rt = roundtrip_all(v);
    if !rt.reader_fails.is_empty() {
        out.count("observation/bincode-deserialize_from-fails");
        if !out.notes.iter().any(|n| n.starts_with("observation: bincode::deserialize_from")) {
            out.notes.push(format!("observation: bincode::deserialize_from (reader-based; hands transient bytes to Visitor::visit_bytes) fails where bincode::deserialize succeeds: {}", rt.reader_fails.join("; ")));
        }
    }
    if !rt.fails.is_empty() {
        out.oracle_fail(class, &format!("{}: {}", what, rt.fails.join("; ")), replay);
    }
}

// ------------------------------------------------------------------------------- upgrade checksum
fn sha256(b: &[u8]) -> [u8; 32] {
    use sha2::Digest;
    let mut h = sha2::Sha256::new();
    h.update(b);
    h.finalize().into()
}
fn verr_kind(e: &ValidityError) -> &'static str {
    match e {
        ValidityError::InputWitnessIndexBounds { .. } => "UIndexBounds",
        ValidityError::TransactionUpgradeConsensusParametersChecksumMismatch => "UChecksumMismatch",
        ValidityError::TransactionUpgradeConsensusParametersDeserialization => "UDeserialization",
        _ => "UOther",
    }
}
fn compute_case(out: &mut Out, witnesses: Vec<Vec<u8>>, idx: u16, checksum: [u8; 32], stream: &str, expect_cp: Option<&ConsensusParameters>) {
    let p = gen_policies_mask(&mut Rng::new(1), 8, false);
    let tx = Transaction::upgrade(
        UpgradePurpose::ConsensusParameters { witness_index: idx, checksum: checksum.into() },
        p,
        vec![],
        vec![],
        witnesses.iter().map(|w| w.clone().into()).collect(),
    );
    let res = guarded(|| UpgradeMetadata::compute(&tx));
    let w = witnesses.get(idx as usize);
    let de_ok = w.map(|w| postcard::from_bytes::<ConsensusParameters>(w).is_ok()).unwrap_or(false);
    let replay = json!({"kind":"compute","witnesses":witnesses.iter().map(hex::encode).collect::<Vec<_>>(),"idx":idx,"checksum":hex::encode(checksum)});
    out.oracle_evaluations += 1;
    let coq_res = match &res {
        Ok(Ok(UpgradeMetadata::ConsensusParameters { consensus_parameters, calculated_checksum })) => {
            let w = w.expect("witness");
            // oracle: the checksum is the SHA-256 (independent sha2 crate) of the same witness bytes,
            // equals the committed one, and the parameters are what postcard decodes from them
            if calculated_checksum.as_ref() != sha256(w) || calculated_checksum.as_ref() != checksum {
                out.oracle_fail("upgrade-checksum-not-hash-of-witness", "calculated checksum differs from sha256(witness)", replay.clone());
            }
            match postcard::from_bytes::<ConsensusParameters>(w) {
                Ok(cp) if &cp == consensus_parameters.as_ref() => {}
                _ => out.oracle_fail("upgrade-params-not-decoded-from-witness", "metadata parameters differ from postcard::from_bytes(witness)", replay.clone()),
            }
            if let Some(cp) = expect_cp {
                if cp != consensus_parameters.as_ref() {
                    out.oracle_fail("upgrade-params-roundtrip", "parameters committed by upgrade_consensus_parameters differ from the decoded ones", replay.clone());
                }
                if postcard::to_allocvec(consensus_parameters.as_ref()).ok().as_deref() != Some(w.as_slice()) {
                    out.oracle_fail("upgrade-payload-not-reproducible", "re-serializing the decoded parameters does not reproduce the witness bytes", replay.clone());
                }
            } else if postcard::to_allocvec(consensus_parameters.as_ref()).ok().as_deref() != Some(w.as_slice()) {
                // accepted payload that is not the canonical postcard encoding of what it decodes to:
                // outside the property's quantifier (it starts from parameter values) - recorded as a note
                out.count("observation/accepted-noncanonical-witness");
                if !out.notes.iter().any(|n| n.starts_with("observation: UpgradeMetadata::compute accepts")) {
                    out.notes.push(format!(
                        "observation: UpgradeMetadata::compute accepts a witness that is not the canonical postcard encoding of the parameters it decodes to (postcard::from_bytes ignores trailing bytes / accepts over-long varints): witness len {} vs canonical len {}",
                        w.len(),
                        postcard::to_allocvec(consensus_parameters.as_ref()).map(|b| b.len()).unwrap_or(0)
                    ));
                }
            }
            format!("(UOk (hex \"{}\"))", hex::encode(calculated_checksum.as_ref()))
        }
        Ok(Ok(UpgradeMetadata::StateTransition)) => "UOther".to_string(),
        Ok(Err(e)) => {
            if expect_cp.is_some() {
                out.oracle_fail("upgrade-own-payload-rejected", &format!("compute rejects the transaction built by upgrade_consensus_parameters: {:?}", e), replay.clone());
            }
            verr_kind(e).to_string()
        }
        Err(_) => "UOther".to_string(),
    };
    out.push(Case {
        coq: format!(
            "CCompute {} {} (hex \"{}\") {} {}",
            coq_list(&witnesses.iter().map(|w| coq_bytes(w)).collect::<Vec<_>>()),
            idx,
            hex::encode(checksum),
            coq_bool(de_ok),
            coq_res
        ),
        json: json!({"kind":"compute","stream":stream,"idx":idx,"n_witnesses":witnesses.len(),"result":coq_res.split(' ').next().unwrap_or("")}),
        key: format!("compute:{}:{}:{}", stream, idx, hex::encode(&sha256(&witnesses.concat())[..8])),
        nontrivial: !witnesses.is_empty(),
        class: format!("compute/{}/{}", stream, coq_res.trim_start_matches('(').split(' ').next().unwrap_or("")),
    });
}

fn run_compute(args: &Args, out: &mut Out, rng: &mut Rng) {
    let n = args.scale(6, 60);
    let muts: Vec<(&str, Mutator)> = cp_versions().into_iter().map(|(n, v)| (n, Mutator::new(&v))).collect();
    for i in 0..n {
        let (_vn, m) = &muts[i % muts.len()];
        let cp: ConsensusParameters = match m.make(rng, (i / 2) as u64) {
            Some(c) => c,
            None => continue,
        };
        // (a) the library's own constructor, then compute / precompute / check path
        let extra: Vec<Witness> = (0..rng.below(3)).map(|_| gen_witness(rng, false)).collect();
        let tx = Transaction::upgrade_consensus_parameters(&cp, gen_policies(rng), vec![], vec![], extra.clone()).expect("upgrade tx");
        let ws: Vec<Vec<u8>> = fuel_tx::field::Witnesses::witnesses(&tx).iter().map(|w| w.as_vec().clone()).collect();
        let (idx, checksum): (u16, [u8; 32]) = match fuel_tx::field::UpgradePurpose::upgrade_purpose(&tx) {
            UpgradePurpose::ConsensusParameters { witness_index, checksum } => (*witness_index, **checksum),
            _ => unreachable!(),
        };
        compute_case(out, ws.clone(), idx, checksum, "built", Some(&cp));
        // cached metadata (precompute) holds the same thing
        let mut tx2 = tx.clone();
        out.oracle_evaluations += 1;
        match tx2.precompute(&chain()) {
            Ok(()) => {
                let md = tx2.metadata().as_ref().map(|m| m.body.clone());
                if md != UpgradeMetadata::compute(&tx).ok() {
                    out.oracle_fail("upgrade-precompute-differs", "precompute metadata differs from UpgradeMetadata::compute", json!({"kind":"compute-built"}));
                }
            }
            Err(e) => out.oracle_fail("upgrade-precompute-fails", &format!("{:?}", e), json!({"kind":"compute-built"})),
        }
        // (b) mutations
        let payload = ws[idx as usize].clone();
        let mut bad = checksum;
        bad[rng.below(32) as usize] ^= 1 << rng.below(8);
        compute_case(out, ws.clone(), idx, bad, "checksum-flipped", None);
        compute_case(out, ws.clone(), idx + 1 + rng.below(3) as u16, checksum, "index-out-of-bounds", None);
        if idx > 0 {
            compute_case(out, ws.clone(), idx - 1, checksum, "index-other-witness", None);
        }
        let mut flipped = ws.clone();
        let k = rng.below(payload.len() as u64) as usize;
        flipped[idx as usize][k] ^= 0x40;
        compute_case(out, flipped.clone(), idx, checksum, "payload-flipped-old-checksum", None);
        compute_case(out, flipped.clone(), idx, sha256(&flipped[idx as usize]), "payload-flipped-new-checksum", None);
        let mut trunc = ws.clone();
        trunc[idx as usize].truncate(rng.below(payload.len() as u64) as usize);
        compute_case(out, trunc.clone(), idx, sha256(&trunc[idx as usize]), "payload-truncated", None);
        let mut trail = ws.clone();
        let nt = 1 + rng.below(3) as usize;
        trail[idx as usize].extend(rng.bytes(nt));
        compute_case(out, trail.clone(), idx, sha256(&trail[idx as usize]), "payload-trailing-bytes", None);
        let garbage = vec![rng.bytes_upto(40)];
        compute_case(out, garbage.clone(), 0, sha256(&garbage[0]), "payload-garbage", None);
    }
    compute_case(out, vec![], 0, [0; 32], "no-witnesses", None);
    compute_case(out, vec![vec![]], 0, sha256(&[]), "empty-witness", None);
}

// ------------------------------------------------------------------------------- main streams
fn run_c06(args: &Args, out: &mut Out) {
    let mut rng = Rng::new(args.seed);
    let model = !args.oracle_only;
    // ---- A. Policies, all 64 masks x boundary values
    let per_mask = args.scale(2, 12);
    for mask in 0..64u32 {
        for k in 0..per_mask {
            let p = match k {
                0 => {
                    // every set value at the type maximum
                    let mut p = Policies::new();
                    for (i, t) in POLICY_TYPES.iter().enumerate() {
                        if mask & (1 << i) != 0 {
                            p.set(*t, Some(u64::MAX));
                        }
                    }
                    p
                }
                _ => gen_policies_mask(&mut rng, mask, true),
            };
            policies_case(out, &p, "all-masks", model);
        }
        // set-then-unset through the public API keeps the invariant
        let mut p = gen_policies_mask(&mut rng, 63, true);
        for (i, t) in POLICY_TYPES.iter().enumerate() {
            if mask & (1 << i) == 0 {
                p.set(*t, None);
            }
        }
        policies_case(out, &p, "set-unset", model && mask % 8 == 3);
    }
    // ---- A'. values under unset bits (reachable: legacy-layout Deserialize, then `set`)
    let n_stale = args.scale(24, 400);
    for i in 0..n_stale {
        let mask = if i < 64 { i as u32 } else { rng.below(64) as u32 };
        if let Some(p) = gen_stale_policies(&mut rng, mask) {
            policies_case(out, &p, "stale-values", model);
        }
    }
    // unknown bits (bitflags' binary serde retains them)
    for b in [0x40u32, 0x50, 0x7f, 0x8000_0001, 0xffff_ffff, 0xffff_ffc0, rng.next() as u32, rng.next() as u32] {
        let mut vals = [0u64; 6];
        for (i, v) in vals.iter_mut().enumerate() {
            if b & (1 << i) != 0 {
                *v = rng.u64_biased();
            }
        }
        if let Some(p) = pol_from_parts(b, vals) {
            policies_case(out, &p, "unknown-bits", model);
        }
    }
    // ---- B. the real Deserialize impl on malformed / re-arranged trees
    if model {
        let n_de = args.scale(6, 60);
        for i in 0..n_de {
            let mask = match i {
                0 => 0,
                1 => 0x0c,
                2 => 0x34,
                3 => 0x3f,
                _ => rng.below(64) as u32,
            };
            let p = gen_policies_mask(&mut rng, mask, true);
            for hr in [false, true] {
                for (name, t) in mutated_policy_trees(&mut rng, &p, hr) {
                    for sd in [false, true] {
                        pol_de_case(out, &t, sd, hr, &name);
                    }
                }
            }
        }
    }
    // ---- C. derived impls: recorded trees of repository types vs the generic derive model
    if model {
        dv::run_derive(args, out, &mut rng);
    }
    // ---- D. upgrade checksum
    run_compute(args, out, &mut rng);
    // ---- E. implementation-level oracle on the big types (no model cases)
    let n_tx = args.scale(20, 1500);
    for kind in 0..6 {
        for _ in 0..n_tx {
            let tx = gen_tx_kind(&mut rng, kind, args.thorough());
            let replay = json!({"kind":"tx","canonical":hex::encode(fuel_types::canonical::Serialize::to_bytes(&tx))});
            oracle_value(out, &tx, &format!("tx-{}", TX_KINDS[kind]), &format!("{} transaction", TX_KINDS[kind]), replay);
            if rng.chance(1, 4) {
                let mut t2 = tx.clone();
                if t2.precompute(&chain()).is_ok() {
                    oracle_value(out, &t2, &format!("tx-{}-precomputed", TX_KINDS[kind]), "transaction with cached metadata", json!({"kind":"tx","canonical":hex::encode(fuel_types::canonical::Serialize::to_bytes(&tx)),"precompute":true}));
                }
            }
        }
    }
    // factory transactions (signed inputs, realistic shapes), seeded from our PRNG
    {
        use fuel_tx::test_helper::TransactionFactory;
        let k = args.scale(6, 200);
        let s = rng.next();
        for (tx, _) in TransactionFactory::<_, Script>::from_seed(s).take(k) {
            oracle_value(out, &Transaction::from(tx), "tx-factory-Script", "factory script", json!({"kind":"factory","ty":"Script","seed":s}));
        }
        for (tx, _) in TransactionFactory::<_, Create>::from_seed(s).take(k) {
            oracle_value(out, &Transaction::from(tx), "tx-factory-Create", "factory create", json!({"kind":"factory","ty":"Create","seed":s}));
        }
        for (tx, _) in TransactionFactory::<_, Upgrade>::from_seed(s).take(k) {
            oracle_value(out, &Transaction::from(tx), "tx-factory-Upgrade", "factory upgrade", json!({"kind":"factory","ty":"Upgrade","seed":s}));
        }
        for (tx, _) in TransactionFactory::<_, Upload>::from_seed(s).take(k) {
            oracle_value(out, &Transaction::from(tx), "tx-factory-Upload", "factory upload", json!({"kind":"factory","ty":"Upload","seed":s}));
        }
        for (tx, _) in TransactionFactory::<_, Blob>::from_seed(s).take(k) {
            oracle_value(out, &Transaction::from(tx), "tx-factory-Blob", "factory blob", json!({"kind":"factory","ty":"Blob","seed":s}));
        }
        for tx in TransactionFactory::<_, Mint>::from_seed(s).take(k) {
            oracle_value(out, &Transaction::from(tx), "tx-factory-Mint", "factory mint", json!({"kind":"factory","ty":"Mint","seed":s}));
        }
    }
    let n_rc = args.scale(12, 800);
    for kind in 0..RECEIPT_KINDS {
        for _ in 0..n_rc {
            let r = gen_receipt_kind(&mut rng, kind, args.thorough());
            let replay = json!({"kind":"receipt","json":serde_json::to_value(&r).unwrap_or(json!(null))});
            oracle_value(out, &r, &format!("receipt-{}", receipt_kind_name(&r)), "receipt", replay);
        }
        let rs: Vec<Receipt> = (0..5).map(|_| gen_receipt_kind(&mut rng, kind, false)).collect();
        oracle_value(out, &rs, "receipt-vec", "receipt list", json!({"kind":"receipts"}));
    }
    let n_cp = args.scale(8, 300);
    for (vn, base) in gas_versions() {
        let m = Mutator::new(&base);
        for i in 0..n_cp {
            if let Some(v) = m.make::<GasCostsValues>(&mut rng, i as u64) {
                let replay = json!({"kind":"gascosts","json":serde_json::to_value(&v).unwrap()});
                oracle_value(out, &v, &format!("gascostsvalues-{}", vn), "GasCostsValues", replay.clone());
                oracle_value(out, &GasCosts::new(v), &format!("gascosts-{}", vn), "GasCosts", replay);
            } else {
                out.notes.push(format!("mutator produced an undecodable GasCostsValues {}", vn));
            }
        }
    }
    for (vn, base) in cp_versions() {
        let m = Mutator::new(&base);
        let gm: Vec<Mutator> = gas_versions().into_iter().map(|(_, g)| Mutator::new(&g)).collect();
        for i in 0..n_cp {
            if let Some(mut v) = m.make::<ConsensusParameters>(&mut rng, i as u64) {
                // every gas-cost version inside every parameters version
                if let Some(g) = gm[i % gm.len()].make::<GasCostsValues>(&mut rng, (i / gm.len()) as u64) {
                    v.set_gas_costs(GasCosts::new(g));
                }
                let replay = json!({"kind":"cp","json":serde_json::to_value(&v).unwrap()});
                oracle_value(out, &v, &format!("consensus-parameters-{}", vn), "ConsensusParameters", replay);
            } else {
                out.notes.push(format!("mutator produced an undecodable ConsensusParameters {}", vn));
            }
        }
    }
    for dc in [
        DependentCost::LightOperation { base: 0, units_per_gas: 0 },
        DependentCost::LightOperation { base: u64::MAX, units_per_gas: u64::MAX },
        DependentCost::HeavyOperation { base: u64::MAX, gas_per_unit: 0 },
        DependentCost::HeavyOperation { base: 1, gas_per_unit: u64::MAX },
    ] {
        oracle_value(out, &dc, "dependent-cost", "DependentCost", json!({"kind":"dependent-cost"}));
    }
}

fn replay_c06(out: &mut Out, v: &serde_json::Value) {
    match v.get("kind").and_then(|k| k.as_str()) {
        Some("policies") => {
            let bits = v["bits"].as_u64().unwrap_or(0) as u32;
            let mut vals = [0u64; 6];
            for (i, x) in v["values"].as_array().cloned().unwrap_or_default().iter().enumerate().take(6) {
                vals[i] = x.as_u64().unwrap_or(0);
            }
            // rebuild through the public API: legacy deserialize of the first four, then `set`
            let mut p = pol_from_parts(bits & !0x30, vals).unwrap_or_default();
            if bits & 0x10 != 0 {
                p.set(PolicyType::Expiration, Some(vals[4]));
            }
            if bits & 0x20 != 0 {
                p.set(PolicyType::Owner, Some(vals[5]));
            }
            policies_case(out, &p, "replay", true);
        }
        Some("policies-tree") => {
            if let Some(t) = T::from_json(&v["tree"]) {
                pol_de_case(out, &t, v["sd"].as_bool().unwrap_or(false), v["hr"].as_bool().unwrap_or(false), "replay");
            }
        }
        Some("tx") => {
            let b = hex::decode(v["canonical"].as_str().unwrap_or("")).unwrap_or_default();
            if let Ok(mut tx) = <Transaction as fuel_types::canonical::Deserialize>::from_bytes(&b) {
                if v.get("precompute").is_some() {
                    let _ = tx.precompute(&chain());
                }
                oracle_value(out, &tx, "tx-replay", "replayed transaction", v.clone());
            }
        }
        Some("receipt") => {
            if let Ok(r) = serde_json::from_value::<Receipt>(v["json"].clone()) {
                oracle_value(out, &r, "receipt-replay", "replayed receipt", v.clone());
            }
        }
        Some("cp") => {
            if let Ok(r) = serde_json::from_value::<ConsensusParameters>(v["json"].clone()) {
                oracle_value(out, &r, "cp-replay", "replayed consensus parameters", v.clone());
            }
        }
        Some("gascosts") => {
            if let Ok(r) = serde_json::from_value::<GasCostsValues>(v["json"].clone()) {
                oracle_value(out, &r, "gascosts-replay", "replayed gas costs", v.clone());
            }
        }
        Some("compute") => {
            let ws: Vec<Vec<u8>> = v["witnesses"].as_array().cloned().unwrap_or_default().iter().map(|x| hex::decode(x.as_str().unwrap_or("")).unwrap_or_default()).collect();
            let mut c = [0u8; 32];
            let cb = hex::decode(v["checksum"].as_str().unwrap_or("")).unwrap_or_default();
            if cb.len() == 32 {
                c.copy_from_slice(&cb);
            }
            compute_case(out, ws, v["idx"].as_u64().unwrap_or(0) as u16, c, "replay", None);
        }
        _ => out.notes.push("replay: unknown kind".into()),
    }
}

fn main() {
    quiet_panics();
    let args = Args::parse();
    let mut out = Out::new();
    let header = "From FV Require Import Base.Bytes Serde.DataModel Serde.PoliciesModel Serde.DeriveModel Run.Serde.\nOpen Scope N_scope.";
    match args.prop.as_str() {
        "C06" => {
            if let Some(f) = &args.replay {
                let v = read_replay(f);
                replay_c06(&mut out, &v);
            } else {
                run_c06(&args, &mut out);
            }
            out.write(&args, header, "scase", "bad_scases");
        }
        "dump" => {
            dv::dump();
        }
        p => {
            eprintln!("serde: unknown property {p}");
            std::process::exit(2);
        }
    }
}
