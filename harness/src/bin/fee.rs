//! Fee family (C18): run the real fee / refund arithmetic of fuel-tx (and Checked::into_ready
//! of fuel-vm) on boundary-biased configurations and on real transactions of the five
//! chargeable kinds, print the cases for the Gallina L1 model (coq/Fee/FeeModel.v, runner
//! coq/Run/Fee.v), and check the property text directly on the implementation with an
//! independent 256-bit reference computation (the implementation-level oracle).
use fuel_tx::consensus_parameters::gas::{GasCostsValuesV1, GasCostsValuesV7};
use fuel_tx::consensus_parameters::FeeParametersV1;
use fuel_tx::field::{
    BytecodeWitnessIndex, ChargeableBody, Expiration, MaxFeeLimit, ScriptGasLimit, StorageSlots, Tip,
    UpgradePurpose as UpgradePurposeField, WitnessLimit,
};
use fuel_tx::{
    BlobBody, BlobIdExt, Chargeable, ConsensusParameters, DependentCost, FeeParameters, Finalizable, GasCosts,
    GasCostsValues, Input, StorageSlot, Transaction, TransactionBuilder, TransactionFee, TxParameters, TxPointer,
    UpgradePurpose, UploadBody, UtxoId, ValidityError, Witness,
};
use fuel_types::canonical::Serialize;
use fuel_types::{Address, AssetId, BlobId, BlockHeight, Bytes32, ContractId, Nonce, Salt};
use fuel_vm::checked_transaction::{CheckError, IntoChecked};
use fvh::*;
use primitive_types::U256;
use serde_json::{json, Value};

// ------------------------------------------------------------------ configuration
#[derive(Clone, Copy, Debug)]
enum Dc {
    Light { base: u64, upg: u64 },
    Heavy { base: u64, gpu: u64 },
}
impl Dc {
    fn real(&self) -> DependentCost {
        match *self {
            Dc::Light { base, upg } => DependentCost::LightOperation { base, units_per_gas: upg },
            Dc::Heavy { base, gpu } => DependentCost::HeavyOperation { base, gas_per_unit: gpu },
        }
    }
    fn coq(&self) -> String {
        match *self {
            Dc::Light { base, upg } => format!("(Light {} {})", base, upg),
            Dc::Heavy { base, gpu } => format!("(Heavy {} {})", base, gpu),
        }
    }
    fn json(&self) -> Value {
        match *self {
            Dc::Light { base, upg } => json!({"light":[base, upg]}),
            Dc::Heavy { base, gpu } => json!({"heavy":[base, gpu]}),
        }
    }
    fn from_json(v: &Value) -> Dc {
        if let Some(a) = v.get("light") {
            Dc::Light { base: a[0].as_u64().unwrap(), upg: a[1].as_u64().unwrap() }
        } else {
            let a = &v["heavy"];
            Dc::Heavy { base: a[0].as_u64().unwrap(), gpu: a[1].as_u64().unwrap() }
        }
    }
    fn panics(&self) -> bool {
        matches!(*self, Dc::Light { upg: 0, .. })
    }
}

#[derive(Clone, Debug)]
struct Cfg {
    eck1: u64,
    contract_root: Dc,
    state_root: Dc,
    s256: Dc,
    vm_init: Dc,
    nspb: u64,
    factor: u64,
    gpb: u64,
    old_version: bool, // wrap the values as GasCostsValues::V1 instead of V7 (same accessors)
}
impl Cfg {
    fn gas_costs(&self) -> GasCosts {
        if self.old_version {
            let mut v = GasCostsValuesV1::free();
            v.eck1 = self.eck1;
            v.contract_root = self.contract_root.real();
            v.state_root = self.state_root.real();
            v.s256 = self.s256.real();
            v.vm_initialization = self.vm_init.real();
            v.new_storage_per_byte = self.nspb;
            GasCosts::new(GasCostsValues::V1(v))
        } else {
            let mut v = GasCostsValuesV7::free();
            v.eck1 = self.eck1;
            v.contract_root = self.contract_root.real();
            v.state_root = self.state_root.real();
            v.s256 = self.s256.real();
            v.vm_initialization = self.vm_init.real();
            v.new_storage_per_byte = self.nspb;
            GasCosts::new(GasCostsValues::V7(v))
        }
    }
    fn fee_params(&self) -> FeeParameters {
        FeeParameters::V1(FeeParametersV1 { gas_price_factor: self.factor, gas_per_byte: self.gpb })
    }
    fn coq_gc(&self) -> String {
        format!(
            "(mk_gas_costs {} {} {} {} {} {})",
            self.eck1,
            self.contract_root.coq(),
            self.state_root.coq(),
            self.s256.coq(),
            self.vm_init.coq(),
            self.nspb
        )
    }
    fn coq_fp(&self) -> String {
        format!("(mk_fee_params {} {})", self.factor, self.gpb)
    }
    fn json(&self) -> Value {
        json!({"eck1": self.eck1, "contract_root": self.contract_root.json(), "state_root": self.state_root.json(),
               "s256": self.s256.json(), "vm_init": self.vm_init.json(), "new_storage_per_byte": self.nspb,
               "factor": self.factor, "gas_per_byte": self.gpb, "old_version": self.old_version})
    }
    fn from_json(v: &Value) -> Cfg {
        Cfg {
            eck1: v["eck1"].as_u64().unwrap(),
            contract_root: Dc::from_json(&v["contract_root"]),
            state_root: Dc::from_json(&v["state_root"]),
            s256: Dc::from_json(&v["s256"]),
            vm_init: Dc::from_json(&v["vm_init"]),
            nspb: v["new_storage_per_byte"].as_u64().unwrap(),
            factor: v["factor"].as_u64().unwrap(),
            gpb: v["gas_per_byte"].as_u64().unwrap(),
            old_version: v["old_version"].as_bool().unwrap_or(false),
        }
    }
    /// the statement's quantifier: factor >= 1 and (documented) units_per_gas >= 1
    fn in_scope(&self) -> bool {
        self.factor >= 1
            && !self.contract_root.panics()
            && !self.state_root.panics()
            && !self.s256.panics()
            && !self.vm_init.panics()
    }
    fn free() -> Cfg {
        let z = Dc::Heavy { base: 0, gpu: 0 };
        Cfg { eck1: 0, contract_root: z, state_root: z, s256: z, vm_init: z, nspb: 0, factor: 1, gpb: 0, old_version: false }
    }
}

// ------------------------------------------------------------------ the quantities read from a tx
#[derive(Clone, Debug)]
enum Body {
    Script(u64),
    Create(u64, u64),
    UpgradeConsensus(u64),
    UpgradeState,
    Upload(u64, u64),
    Blob(u64),
}
impl Body {
    fn coq(&self) -> String {
        match self {
            Body::Script(g) => format!("(BScript {})", g),
            Body::Create(i, s) => format!("(BCreate {} {})", i, s),
            Body::UpgradeConsensus(i) => format!("(BUpgradeConsensus {})", i),
            Body::UpgradeState => "BUpgradeState".into(),
            Body::Upload(i, s) => format!("(BUpload {} {})", i, s),
            Body::Blob(i) => format!("(BBlob {})", i),
        }
    }
    fn name(&self) -> &'static str {
        match self {
            Body::Script(_) => "script",
            Body::Create(..) => "create",
            Body::UpgradeConsensus(_) => "upgrade-consensus",
            Body::UpgradeState => "upgrade-state",
            Body::Upload(..) => "upload",
            Body::Blob(_) => "blob",
        }
    }
}

fn coq_inputs(ins: &[Input]) -> String {
    let v: Vec<String> = ins
        .iter()
        .map(|i| match i {
            Input::CoinSigned(c) => format!("InSigned {}", c.witness_index),
            Input::MessageCoinSigned(m) => format!("InSigned {}", m.witness_index),
            Input::MessageDataSigned(m) => format!("InSigned {}", m.witness_index),
            Input::CoinPredicate(c) => format!("InPredicate {} {}", c.predicate.len(), c.predicate_gas_used),
            Input::MessageCoinPredicate(m) => format!("InPredicate {} {}", m.predicate.len(), m.predicate_gas_used),
            Input::MessageDataPredicate(m) => format!("InPredicate {} {}", m.predicate.len(), m.predicate_gas_used),
            Input::Contract(_) => "InOther".to_string(),
        })
        .collect();
    coq_list(&v)
}

fn coq_tx<T>(tx: &T, body: &Body) -> String
where
    T: Chargeable,
{
    let wits: Vec<String> = tx.witnesses().iter().map(|w| w.as_ref().len().to_string()).collect();
    format!(
        "(mk_tx {} {} {} {} {} {} {} {} {})",
        body.coq(),
        tx.metered_bytes_size(),
        coq_inputs(tx.inputs()),
        coq_list(&wits),
        tx.witnesses().size_dynamic(),
        tx.witness_limit(),
        tx.tip(),
        tx.max_fee_limit(),
        u32::from(tx.expiration())
    )
}

fn coq_out(r: &Result<String, String>) -> String {
    match r {
        Ok(s) => format!("(Ret {})", s),
        Err(_) => "Panic".into(),
    }
}
fn out_u64(r: &Result<u64, String>) -> String {
    coq_out(&r.clone().map(|x| x.to_string()))
}
fn out_u128(r: &Result<u128, String>) -> String {
    coq_out(&r.clone().map(|x| x.to_string()))
}
fn out_opt_u64(r: &Result<Option<u64>, String>) -> String {
    coq_out(&r.clone().map(|x| coq_opt(x.map(|v| v.to_string()))))
}


// ------------------------------------------------------------------ compact Coq numerals
/// Coq parses a 20-digit `N` literal in more than a millisecond; primitive `int` literals are
/// parsed natively.  Numbers are therefore written as `(i x)` (x < 2^62), `(q hi lo)`
/// (32-bit limbs of a u64) or `(qq hi lo)` (64-bit halves of a u128); see coq/Run/Fee.v.
fn cn(n: u128) -> String {
    if n < (1 << 20) {
        n.to_string()
    } else if n < (1u128 << 62) {
        format!("(i {})", n)
    } else if n <= u64::MAX as u128 {
        format!("(q {} {})", n >> 32, n & 0xffff_ffff)
    } else {
        format!("(qq {} {})", cn(n >> 64), cn(n & (u64::MAX as u128)))
    }
}
/// rewrite every decimal token of a Coq term with `cn`
fn compact_numbers(t: &str) -> String {
    let b = t.as_bytes();
    let mut o = String::with_capacity(t.len());
    let mut k = 0;
    while k < b.len() {
        let c = b[k];
        let prev_ident = k > 0 && (b[k - 1].is_ascii_alphanumeric() || b[k - 1] == b'_');
        if c.is_ascii_digit() && !prev_ident {
            let mut e = k;
            while e < b.len() && b[e].is_ascii_digit() {
                e += 1;
            }
            let n: u128 = t[k..e].parse().expect("number fits u128");
            o.push_str(&cn(n));
            k = e;
        } else {
            o.push(c as char);
            k += 1;
        }
    }
    o
}

// ------------------------------------------------------------------ independent reference (property text)
/// ceil(gas * price / factor) + tip over 256-bit integers (factor >= 1)
fn ref_fee(gas: U256, price: u64, factor: u64, tip: u64) -> U256 {
    let f = U256::from(factor);
    (gas * U256::from(price) + f - U256::from(1u64)) / f + U256::from(tip)
}
fn u64max() -> U256 {
    U256::from(u64::MAX)
}

#[derive(Clone, Debug)]
enum ReadyRes {
    Ok,
    BalanceOverflow,
    Expired,
    Insufficient(u64, u64),
    Other(String),
}
impl ReadyRes {
    fn coq(&self) -> String {
        match self {
            ReadyRes::Ok => "ReadyOk".into(),
            ReadyRes::BalanceOverflow => "(ReadyErr BalanceOverflow)".into(),
            ReadyRes::Expired => "(ReadyErr TransactionExpiration)".into(),
            ReadyRes::Insufficient(p, g) => format!("(ReadyErr (InsufficientMaxFee {} {}))", p, g),
            ReadyRes::Other(_) => "(ReadyErr BalanceOverflow)".into(),
        }
    }
}

const MAX_REPORTS_PER_CLASS: usize = 1;

struct TxRun<'a> {
    cfg: &'a Cfg,
    price: u64,
    useds: Vec<u64>,
    /// Some(params, check height, heights for into_ready): try into_checked_basic + into_ready
    ready: Option<(&'a ConsensusParameters, u32, Vec<Option<u32>>)>,
    class: &'a str,
    with_model: bool,
}

fn tx_case<T>(out: &mut Out, tx: &T, body: Body, run: &TxRun)
where
    T: Chargeable + IntoChecked + Clone + Into<Transaction>,
{
    let cfg = run.cfg;
    let gc = cfg.gas_costs();
    let fp = cfg.fee_params();
    let price = run.price;
    let mut useds = run.useds.clone();
    useds.sort();
    useds.dedup();
    let replay = |useds: &[u64]| -> Value {
        let t: Transaction = tx.clone().into();
        json!({"kind":"tx", "tx": serde_json::to_value(&t).unwrap_or(Value::Null), "cfg": cfg.json(), "price": price,
               "useds": useds, "ready": run.ready.as_ref().map(|(_, h, hs)| json!({"height": h, "heights": hs}))})
    };
    out.oracle_evaluations += 1;

    // ---- observations on the real code
    let inputs_gas = guarded(|| tx.gas_used_by_inputs(&gc));
    let metadata_gas = guarded(|| tx.gas_used_by_metadata(&gc));
    let min_gas = guarded(|| tx.min_gas(&gc, &fp));
    let max_gas = guarded(|| tx.max_gas(&gc, &fp));
    let min_fee = guarded(|| tx.min_fee(&gc, &fp, price));
    let max_fee = guarded(|| tx.max_fee(&gc, &fp, price));
    // saturation boundary of min_gas + used_gas
    if let Ok(g) = min_gas {
        let edge = u64::MAX - g;
        for d in [edge.saturating_sub(1), edge, edge.saturating_add(1), edge.saturating_add(2)] {
            if useds.len() < 12 && !useds.contains(&d) {
                useds.push(d);
            }
        }
        useds.sort();
    }
    let refunds: Vec<(u64, Result<Option<u64>, String>)> =
        useds.iter().map(|u| (*u, guarded(|| tx.refund_fee(&gc, &fp, *u, price)))).collect();
    let fee = guarded(|| TransactionFee::checked_from_tx(&gc, &fp, tx, price));
    let mut ready_obs: Vec<(Option<u32>, Result<ReadyRes, String>)> = vec![];
    if let Some((params, h, heights)) = &run.ready {
        match guarded(|| tx.clone().into_checked_basic(BlockHeight::from(*h), params)) {
            Ok(Ok(_)) => {
                for bh in heights {
                    let r = guarded(|| {
                        let checked = tx.clone().into_checked_basic(BlockHeight::from(*h), params).unwrap();
                        match checked.into_ready(price, &gc, &fp, bh.map(BlockHeight::from)) {
                            Ok(_) => ReadyRes::Ok,
                            Err(CheckError::Validity(ValidityError::BalanceOverflow)) => ReadyRes::BalanceOverflow,
                            Err(CheckError::Validity(ValidityError::TransactionExpiration)) => ReadyRes::Expired,
                            Err(CheckError::InsufficientMaxFee { max_fee_from_policies, max_fee_from_gas_price }) => {
                                ReadyRes::Insufficient(max_fee_from_policies, max_fee_from_gas_price)
                            }
                            Err(e) => ReadyRes::Other(format!("{:?}", e)),
                        }
                    });
                    ready_obs.push((*bh, r));
                }
                out.count("into_checked_ok");
            }
            Ok(Err(e)) => {
                out.count("into_checked_rejected");
                out.notes.push(format!("into_checked_basic rejected a generated {} tx: {:?}", body.name(), e));
                out.notes.truncate(8);
            }
            Err(p) => out.oracle_fail("panic-into-checked", &format!("into_checked_basic panicked: {p}"), replay(&useds)),
        }
    }

    // ---- implementation-level oracle: the property text, checked on what the code returned
    let scope = cfg.in_scope();
    let tip = tx.tip();
    let limit = tx.max_fee_limit();
    let fail = |out: &mut Out, class: &str, what: String| {
        // every failure is counted; at most MAX_REPORTS_PER_CLASS are reported with a replay
        out.count(&format!("oracle-fail:{}", class));
        if out.oracle_failures.iter().filter(|(c, _, _)| c == class).count() < MAX_REPORTS_PER_CLASS {
            out.oracle_fail(class, &what, replay(&useds));
        }
    };
    if scope {
        let mut panicked = vec![];
        if inputs_gas.is_err() { panicked.push("gas_used_by_inputs") }
        if metadata_gas.is_err() { panicked.push("gas_used_by_metadata") }
        if min_gas.is_err() { panicked.push("min_gas") }
        if max_gas.is_err() { panicked.push("max_gas") }
        if min_fee.is_err() { panicked.push("min_fee") }
        if max_fee.is_err() { panicked.push("max_fee") }
        if fee.is_err() { panicked.push("checked_from_tx") }
        if refunds.iter().any(|(_, r)| r.is_err()) { panicked.push("refund_fee") }
        if ready_obs.iter().any(|(_, r)| r.is_err()) { panicked.push("into_ready") }
        if !panicked.is_empty() {
            fail(out, "panic", format!("{} panicked with factor >= 1 and units_per_gas >= 1 ({} tx)", panicked.join(","), body.name()));
        }
    } else {
        out.count("out-of-scope-config");
    }
    if let (true, Ok(g), Ok(gmax)) = (scope, &min_gas, &max_gas) {
        let (g, gmax) = (*g, *gmax);
        if g > gmax {
            fail(out, "min-gas-exceeds-max-gas", format!("min_gas {} > max_gas {}", g, gmax));
        }
        let want_min = ref_fee(U256::from(g), price, cfg.factor, tip);
        let want_max = ref_fee(U256::from(gmax), price, cfg.factor, tip);
        if let Ok(f) = min_fee {
            if U256::from(f) != want_min {
                fail(out, "min-fee-formula", format!("min_fee {} != ceil({}*{}/{})+{} = {}", f, g, price, cfg.factor, tip, want_min));
            }
        }
        if let Ok(f) = max_fee {
            if U256::from(f) != want_max {
                fail(out, "max-fee-formula", format!("max_fee {} != ceil({}*{}/{})+{} = {}", f, gmax, price, cfg.factor, tip, want_max));
            }
        }
        if let (Ok(a), Ok(b)) = (&min_fee, &max_fee) {
            if a > b {
                fail(out, "min-fee-exceeds-max-fee", format!("min_fee {} > max_fee {}", a, b));
            }
        }
        // TransactionFee
        if let Ok(tf) = &fee {
            let fits = want_max <= u64max();
            match tf {
                Some(tf) => {
                    if !fits
                        || U256::from(tf.min_fee()) != want_min
                        || U256::from(tf.max_fee()) != want_max
                        || tf.min_gas() != g
                        || tf.max_gas() != gmax
                        || tf.min_fee() > tf.max_fee()
                    {
                        fail(out, "transaction-fee-values", format!("checked_from_tx returned {:?}, exact values min_fee {} max_fee {} min_gas {} max_gas {}", tf, want_min, want_max, g, gmax));
                    }
                }
                None => {
                    if fits {
                        fail(out, "transaction-fee-none", format!("checked_from_tx returned None although the exact max fee {} fits a u64", want_max));
                    }
                }
            }
        }
        // refund: formula, bound, monotonicity
        let mut prev: Option<(u64, Option<u64>)> = None;
        for (u, r) in &refunds {
            let Ok(r) = r else { continue };
            let sum = U256::from(g) + U256::from(*u);
            let used_fee = ref_fee(sum, price, cfg.factor, tip);
            let want: Option<u64> = if used_fee <= U256::from(limit) { Some((U256::from(limit) - used_fee).as_u64()) } else { None };
            if *r != want {
                let class = if sum > u64max() { "refund-saturated-gas-sum" } else { "refund-formula" };
                fail(out, class, format!(
                    "refund_fee(used_gas={}) = {:?} but fee_limit - (ceil((min_gas + used_gas) * price / factor) + tip) = {:?} \
                     (min_gas={}, price={}, factor={}, tip={}, fee_limit={}; min_gas + used_gas = {}{})",
                    u, r, want, g, price, cfg.factor, tip, limit, sum,
                    if sum > u64max() { " >= 2^64: the u64 sum saturates" } else { "" }));
            }
            if let Some(x) = r {
                if *x > limit {
                    fail(out, "refund-exceeds-fee-limit", format!("refund {} > fee limit {}", x, limit));
                }
            }
            if let Some((pu, pr)) = prev {
                // non-increasing, None (nothing to refund) below everything
                let ok = match (pr, r) {
                    (_, None) => true,
                    (None, Some(_)) => false,
                    (Some(a), Some(b)) => *b <= a,
                };
                if !ok {
                    fail(out, "refund-not-monotone", format!("refund({}) = {:?} < refund({}) = {:?}", pu, pr, u, r));
                }
            }
            prev = Some((*u, *r));
        }
        // into_ready ok -> max fee <= fee limit
        for (bh, r) in &ready_obs {
            match r {
                Ok(ReadyRes::Ok) => {
                    if want_max > U256::from(limit) {
                        fail(out, "into-ready-accepts-uncovered-fee", format!("into_ready Ok but exact max fee {} > fee limit {}", want_max, limit));
                    }
                    if let Some(h) = bh {
                        if *h > u32::from(tx.expiration()) {
                            fail(out, "into-ready-accepts-expired", format!("into_ready Ok at height {} > expiration", h));
                        }
                    }
                }
                Ok(ReadyRes::Other(e)) => fail(out, "into-ready-unexpected-error", format!("into_ready returned {}", e)),
                Ok(ReadyRes::Insufficient(_, _)) => {
                    if want_max <= U256::from(limit) {
                        fail(out, "into-ready-rejects-covered-fee", format!("InsufficientMaxFee but exact max fee {} <= fee limit {}", want_max, limit));
                    }
                }
                _ => {}
            }
        }
    }

    if !run.with_model {
        return;
    }
    // ---- the case for the model
    let fee_coq = coq_out(&fee.clone().map(|o| {
        coq_opt(o.map(|t| format!("(mk_tx_fee {} {} {} {})", t.min_fee(), t.max_fee(), t.min_gas(), t.max_gas())))
    }));
    let refunds_coq: Vec<String> = refunds.iter().map(|(u, r)| format!("({}, {})", u, out_opt_u64(r))).collect();
    let ready_coq: Vec<String> = ready_obs
        .iter()
        .filter(|(_, r)| !matches!(r, Ok(ReadyRes::Other(_))))
        .map(|(bh, r)| format!("({}, {})", coq_opt(bh.map(|h| h.to_string())), coq_out(&r.clone().map(|x| x.coq()))))
        .collect();
    let coq = format!(
        "CTx (mk_tx_case {} {} {} {} {} {} {} {} {} {} {} {} {})",
        cfg.coq_gc(),
        cfg.coq_fp(),
        coq_tx(tx, &body),
        price,
        out_u64(&inputs_gas),
        out_u64(&metadata_gas),
        out_u64(&min_gas),
        out_u64(&max_gas),
        out_u128(&min_fee),
        out_u128(&max_fee),
        coq_list(&refunds_coq),
        fee_coq,
        coq_list(&ready_coq)
    );
    let summary = format!(
        "{:?}|{:?}|{:?}|{:?}|{:?}|{:?}",
        min_gas.as_ref().ok(), max_gas.as_ref().ok(), min_fee.as_ref().ok(), max_fee.as_ref().ok(),
        refunds.iter().map(|(u, r)| (*u, r.clone().ok())).collect::<Vec<_>>(),
        ready_obs.iter().map(|(h, r)| (*h, r.clone().ok().map(|x| x.coq()))).collect::<Vec<_>>()
    );
    let nontrivial = scope && price > 0 && matches!(min_gas, Ok(g) if g > 0);
    out.push(Case {
        coq: compact_numbers(&coq),
        json: json!({"kind":"tx", "tx_kind": body.name(), "cfg": cfg.json(), "price": price,
                     "inputs": tx.inputs().len(), "witnesses": tx.witnesses().len(), "bytes": tx.metered_bytes_size(),
                     "min_gas": min_gas.as_ref().ok(), "max_gas": max_gas.as_ref().ok(),
                     "min_fee": min_fee.as_ref().ok().map(|x| x.to_string()), "max_fee": max_fee.as_ref().ok().map(|x| x.to_string()),
                     "refunds": refunds.iter().map(|(u, r)| json!([u, format!("{:?}", r)])).collect::<Vec<_>>(),
                     "into_ready": ready_obs.iter().map(|(h, r)| json!([h, format!("{:?}", r)])).collect::<Vec<_>>()}),
        key: summary,
        nontrivial,
        class: format!("{}:{}", run.class, body.name()),
    });
}

// ------------------------------------------------------------------ generators
fn small_or_biased(rng: &mut Rng, small: u64) -> u64 {
    match rng.below(10) {
        0..=5 => rng.below(small + 1),
        _ => rng.u64_biased(),
    }
}
fn gen_dc(rng: &mut Rng, allow_zero_upg: bool) -> Dc {
    let base = small_or_biased(rng, 5000);
    if rng.bool() {
        let mut upg = match rng.below(8) {
            0 => 1,
            1 => 2,
            2 => rng.u64_biased(),
            _ => rng.range(1, 400),
        };
        if upg == 0 && !allow_zero_upg {
            upg = 1;
        }
        Dc::Light { base, upg }
    } else {
        Dc::Heavy { base, gpu: small_or_biased(rng, 300) }
    }
}
fn gen_factor(rng: &mut Rng) -> u64 {
    const F: [u64; 14] = [1, 1, 2, 2, 3, 92, 1_000_000_000, (1 << 32) - 1, 1 << 32, (1 << 32) + 1, 1 << 63, u64::MAX - 1, u64::MAX, 10];
    match rng.below(10) {
        0..=5 => *rng.pick(&F),
        6 => rng.range(1, 1000),
        _ => rng.u64_biased().max(1),
    }
}
fn gen_price(rng: &mut Rng) -> u64 {
    match rng.below(10) {
        0 => 0,
        1 => 1,
        2 => u64::MAX - rng.below(3),
        3 => rng.range(1, 1000),
        _ => rng.u64_biased(),
    }
}
fn gen_cfg(rng: &mut Rng, panic_stream: bool) -> Cfg {
    let mut c = Cfg {
        eck1: small_or_biased(rng, 5000),
        contract_root: gen_dc(rng, false),
        state_root: gen_dc(rng, false),
        s256: gen_dc(rng, false),
        vm_init: gen_dc(rng, false),
        nspb: small_or_biased(rng, 100),
        factor: gen_factor(rng),
        gpb: small_or_biased(rng, 100),
        old_version: rng.chance(1, 5),
    };
    if panic_stream {
        // outside the statement's quantifier: factor 0 and/or a zero units_per_gas
        match rng.below(6) {
            0 => c.factor = 0,
            1 => c.vm_init = Dc::Light { base: rng.below(10), upg: 0 },
            2 => c.s256 = Dc::Light { base: rng.below(10), upg: 0 },
            3 => c.contract_root = Dc::Light { base: rng.below(10), upg: 0 },
            4 => c.state_root = Dc::Light { base: rng.below(10), upg: 0 },
            _ => {
                c.factor = 0;
                c.s256 = Dc::Light { base: 1, upg: 0 };
            }
        }
    }
    c
}
/// a configuration in which min_gas is exactly `g` for a transaction without predicate
/// inputs and unique/absent signed inputs: everything free, VM initialisation base = g
fn cfg_with_min_gas(g: u64, factor: u64) -> Cfg {
    let mut c = Cfg::free();
    c.vm_init = Dc::Heavy { base: g, gpu: 0 };
    c.factor = factor;
    c
}

fn addr(rng: &mut Rng) -> Address {
    Address::from(rng.bytes32())
}
fn gen_witnesses(rng: &mut Rng, n: usize) -> Vec<Witness> {
    (0..n)
        .map(|_| {
            let len = match rng.below(6) {
                0 => 0,
                1 => 64,
                2 => rng.range(1, 9) as usize,
                3 => rng.range(500, 3000) as usize,
                _ => rng.range(0, 200) as usize,
            };
            Witness::from(rng.bytes(len))
        })
        .collect()
}
fn gen_input(rng: &mut Rng, nwit: usize) -> Input {
    let wi = match rng.below(5) {
        0 => 0u16,
        1 => rng.below(nwit as u64 + 2) as u16,
        2 => u16::MAX,
        _ => rng.below(3) as u16,
    };
    let pgas = small_or_biased(rng, 100_000);
    let plen = match rng.below(6) {
        0 => 1,
        1 => 8,
        2 => rng.range(100, 2000) as usize,
        _ => rng.range(1, 64) as usize,
    };
    let dlen = rng.range(1, 40) as usize;
    let utxo = UtxoId::new(Bytes32::from(rng.bytes32()), rng.below(100) as u16);
    let asset = AssetId::from(rng.bytes32());
    match rng.below(8) {
        0 | 1 => Input::coin_signed(utxo, addr(rng), rng.next(), asset, TxPointer::default(), wi),
        2 => Input::message_coin_signed(addr(rng), addr(rng), rng.next(), Nonce::from(rng.bytes32()), wi),
        3 => Input::message_data_signed(addr(rng), addr(rng), rng.next(), Nonce::from(rng.bytes32()), wi, rng.bytes(dlen)),
        4 => Input::coin_predicate(utxo, addr(rng), rng.next(), asset, TxPointer::default(), pgas, rng.bytes(plen), rng.bytes_upto(20)),
        5 => Input::message_coin_predicate(addr(rng), addr(rng), rng.next(), Nonce::from(rng.bytes32()), pgas, rng.bytes(plen), rng.bytes_upto(20)),
        6 => Input::message_data_predicate(addr(rng), addr(rng), rng.next(), Nonce::from(rng.bytes32()), pgas, rng.bytes(dlen), rng.bytes(plen), rng.bytes_upto(20)),
        _ => Input::contract(utxo, Bytes32::from(rng.bytes32()), Bytes32::from(rng.bytes32()), TxPointer::default(), ContractId::from(rng.bytes32())),
    }
}
fn gen_policies(rng: &mut Rng, wit_dyn_hint: u64) -> fuel_tx::policies::Policies {
    let mut p = fuel_tx::policies::Policies::new();
    if rng.chance(3, 4) {
        p = p.with_tip(small_or_biased(rng, 1000));
    }
    if rng.chance(3, 4) {
        let wl = match rng.below(6) {
            0 => wit_dyn_hint,
            1 => wit_dyn_hint.saturating_add(1),
            2 => wit_dyn_hint.saturating_sub(1),
            3 => rng.below(10_000),
            _ => rng.u64_biased(),
        };
        p = p.with_witness_limit(wl);
    }
    if rng.chance(7, 8) {
        let lim = match rng.below(4) {
            0 => u64::MAX - rng.below(2),
            1 => rng.below(1_000_000),
            _ => rng.u64_biased(),
        };
        p = p.with_max_fee(lim);
    }
    if rng.chance(1, 4) {
        p = p.with_expiration(BlockHeight::from(rng.below(1000) as u32));
    }
    if rng.chance(1, 8) {
        p = p.with_maturity(BlockHeight::from(rng.below(10) as u32));
    }
    p
}
fn gen_useds(rng: &mut Rng) -> Vec<u64> {
    let mut v = vec![0u64, rng.u64_biased(), rng.u64_biased(), small_or_biased(rng, 1_000_000)];
    if rng.bool() {
        v.push(u64::MAX);
    }
    if rng.bool() {
        v.push(1);
    }
    v
}

/// a free-form (not necessarily valid) transaction of the given kind through the public constructors
fn free_tx_case(out: &mut Out, rng: &mut Rng, kind: u64, cfg: &Cfg, price: u64, class: &str, with_model: bool) {
    let nwit = rng.below(4) as usize;
    let witnesses = gen_witnesses(rng, nwit);
    let nin = match rng.below(5) {
        0 => 0,
        1 => 1,
        _ => rng.range(1, 6) as usize,
    };
    let mut inputs: Vec<Input> = (0..nin).map(|_| gen_input(rng, nwit)).collect();
    if rng.chance(1, 3) && !inputs.is_empty() {
        // repeat one input's witness index on purpose (dedup path)
        let dup = inputs[rng.below(inputs.len() as u64) as usize].clone();
        inputs.push(dup);
    }
    let wit_dyn = witnesses.size_dynamic() as u64;
    let policies = gen_policies(rng, wit_dyn);
    let useds = gen_useds(rng);
    let run = TxRun { cfg, price, useds, ready: None, class, with_model };
    let wsel = |rng: &mut Rng| -> u16 {
        match rng.below(4) {
            0 => nwit as u16, // out of bounds -> length 0
            1 => u16::MAX,
            _ => rng.below(nwit.max(1) as u64) as u16,
        }
    };
    match kind {
        0 => {
            let gl = match rng.below(4) {
                0 => 0,
                1 => rng.below(10_000_000),
                _ => rng.u64_biased(),
            };
            let tx = Transaction::script(gl, rng.bytes_upto(64), rng.bytes_upto(64), policies, inputs, vec![], witnesses);
            let body = Body::Script(*tx.script_gas_limit());
            tx_case(out, &tx, body, &run);
        }
        1 => {
            let nslots = rng.below(5) as usize;
            let slots: Vec<StorageSlot> = (0..nslots).map(|_| StorageSlot::new(Bytes32::from(rng.bytes32()), Bytes32::from(rng.bytes32()))).collect();
            let tx = Transaction::create(wsel(rng), policies, Salt::from(rng.bytes32()), slots, inputs, vec![], witnesses);
            let body = Body::Create(*tx.bytecode_witness_index() as u64, tx.storage_slots().len() as u64);
            tx_case(out, &tx, body, &run);
        }
        2 => {
            let purpose = if rng.bool() {
                UpgradePurpose::ConsensusParameters { witness_index: wsel(rng), checksum: Bytes32::from(rng.bytes32()) }
            } else {
                UpgradePurpose::StateTransition { root: Bytes32::from(rng.bytes32()) }
            };
            let tx = Transaction::upgrade(purpose, policies, inputs, vec![], witnesses);
            let body = match *tx.upgrade_purpose() {
                UpgradePurpose::ConsensusParameters { witness_index, .. } => Body::UpgradeConsensus(witness_index as u64),
                UpgradePurpose::StateTransition { .. } => Body::UpgradeState,
            };
            tx_case(out, &tx, body, &run);
        }
        3 => {
            let b = UploadBody {
                root: Bytes32::from(rng.bytes32()),
                witness_index: wsel(rng),
                subsection_index: rng.below(4) as u16,
                subsections_number: *rng.pick(&[0u16, 1, 2, 7, 255, u16::MAX]),
                proof_set: (0..rng.below(5)).map(|_| Bytes32::from(rng.bytes32())).collect(),
            };
            let tx = Transaction::upload(b, policies, inputs, vec![], witnesses);
            let body = Body::Upload(tx.body().witness_index as u64, tx.body().subsections_number as u64);
            tx_case(out, &tx, body, &run);
        }
        _ => {
            let b = BlobBody { id: BlobId::from(rng.bytes32()), witness_index: wsel(rng) };
            let tx = Transaction::blob(b, policies, inputs, vec![], witnesses);
            let body = Body::Blob(tx.body().witness_index as u64);
            tx_case(out, &tx, body, &run);
        }
    }
}

fn permissive_params() -> ConsensusParameters {
    let mut p = ConsensusParameters::standard();
    p.set_block_gas_limit(u64::MAX);
    p.set_tx_params(TxParameters::DEFAULT.with_max_gas_per_tx(u64::MAX));
    p.set_gas_costs(Cfg::free().gas_costs());
    p.set_fee_params(FeeParameters::V1(FeeParametersV1 { gas_price_factor: 1, gas_per_byte: 0 }));
    p
}

/// valid transactions through TransactionBuilder -> into_checked_basic -> into_ready
fn valid_tx_case(out: &mut Out, rng: &mut Rng, kind: u64, cfg: &Cfg, price: u64, class: &str, with_model: bool) {
    use rand::SeedableRng;
    let params = permissive_params();
    let mut srng = rand::rngs::StdRng::seed_from_u64(rng.next());
    let limit = match rng.below(5) {
        0 => u64::MAX,
        1 => rng.below(1_000_000),
        2 => 0,
        _ => rng.u64_biased(),
    };
    let tip = small_or_biased(rng, 1000);
    let expiration = if rng.bool() { Some(rng.range(5, 50) as u32) } else { None };
    let heights: Vec<Option<u32>> = vec![None, Some(rng.below(60) as u32), expiration.map(|e| e + rng.below(2) as u32).or(Some(u32::MAX))];
    let useds = gen_useds(rng);
    let n_signed = rng.range(1, 3);
    let n_pred = rng.below(3);
    macro_rules! common {
        ($b:expr) => {{
            let b = $b;
            b.with_params(params.clone());
            b.max_fee_limit(limit);
            b.tip(tip);
            if let Some(e) = expiration {
                b.expiration(BlockHeight::from(e));
            }
            let shared = fuel_crypto::SecretKey::random(&mut srng);
            for i in 0..n_signed {
                let sk = if i > 0 && rng.bool() { shared.clone() } else { fuel_crypto::SecretKey::random(&mut srng) };
                let amount = if i == 0 { limit.max(1) } else { 0 };
                b.add_unsigned_coin_input(sk, UtxoId::new(Bytes32::from(rng.bytes32()), i as u16), amount, AssetId::default(), TxPointer::default());
            }
            for i in 0..n_pred {
                let pred = { let n_ = rng.range(1, 200) as usize; rng.bytes(n_) };
                let owner = Input::predicate_owner(&pred);
                b.add_input(Input::coin_predicate(
                    UtxoId::new(Bytes32::from(rng.bytes32()), 100 + i as u16), owner, 0, AssetId::default(), TxPointer::default(),
                    small_or_biased(rng, 100_000), pred, rng.bytes_upto(16)));
            }
            if rng.bool() {
                let dynsz = b.witnesses().to_vec().size_dynamic() as u64 + 8 + 64 * n_signed; // signatures are filled in by finalize
                b.witness_limit(dynsz.saturating_add(small_or_biased(rng, 10_000)));
            }
            b
        }};
    }
    let ready = Some((&params, 1u32, heights));
    let run = TxRun { cfg, price, useds, ready, class, with_model };
    match kind {
        0 => {
            let mut b = TransactionBuilder::script(rng.bytes_upto(40), rng.bytes_upto(40));
            b.script_gas_limit(match rng.below(3) { 0 => 0, 1 => rng.below(10_000_000), _ => rng.u64_biased() });
            let tx = common!(&mut b).finalize();
            let body = Body::Script(*tx.script_gas_limit());
            tx_case(out, &tx, body, &run);
        }
        1 => {
            let code = { let n_ = rng.range(1, 300) as usize; rng.bytes(n_) };
            let nslots = rng.below(4) as usize;
            let slots: Vec<StorageSlot> = (0..nslots).map(|_| StorageSlot::new(Bytes32::from(rng.bytes32()), Bytes32::from(rng.bytes32()))).collect();
            let mut b = TransactionBuilder::create(Witness::from(code), Salt::from(rng.bytes32()), slots);
            b.add_contract_created();
            let tx = common!(&mut b).finalize();
            let body = Body::Create(*tx.bytecode_witness_index() as u64, tx.storage_slots().len() as u64);
            tx_case(out, &tx, body, &run);
        }
        _ => {
            let data = { let n_ = rng.range(1, 400) as usize; rng.bytes(n_) };
            let mut b = TransactionBuilder::blob(BlobBody { id: BlobId::compute(&data), witness_index: 0 });
            b.add_witness(Witness::from(data));
            let tx = common!(&mut b).finalize();
            let body = Body::Blob(tx.body().witness_index as u64);
            tx_case(out, &tx, body, &run);
        }
    }
}

// ------------------------------------------------------------------ DependentCost::resolve
fn resolve_case(out: &mut Out, d: Dc, units: u64, with_model: bool) {
    out.oracle_evaluations += 1;
    let real = d.real();
    let r = guarded(|| real.resolve(units));
    let rw = guarded(|| real.resolve_without_base(units));
    // oracle: linear cost, saturating at u64::MAX, no panic unless units_per_gas = 0
    let want: Option<U256> = match d {
        Dc::Light { upg: 0, .. } => None,
        Dc::Light { base, upg } => Some(U256::from(base) + U256::from(units) / U256::from(upg)),
        Dc::Heavy { base, gpu } => Some(U256::from(base) + U256::from(units) * U256::from(gpu)),
    };
    let replay = json!({"kind":"resolve", "cost": d.json(), "units": units});
    match (&r, want) {
        (Ok(x), Some(w)) => {
            if U256::from(*x) != w.min(u64max()) {
                out.oracle_fail("resolve-value", &format!("resolve({:?}, {}) = {} but saturated linear cost = {}", d, units, x, w.min(u64max())), replay);
            }
        }
        (Err(p), Some(_)) => out.oracle_fail("panic-resolve", &format!("resolve({:?}, {}) panicked: {}", d, units, p), replay),
        (_, None) => out.count("resolve-units-per-gas-zero"),
    }
    if with_model {
        out.push(Case {
            coq: compact_numbers(&format!("CResolve {} {} {} {}", d.coq(), units, out_u64(&r), out_u64(&rw))),
            json: json!({"kind":"resolve", "cost": d.json(), "units": units, "result": r.as_ref().ok()}),
            key: format!("{:?}/{}/{:?}", d, units, r.as_ref().ok()),
            nontrivial: matches!(r, Ok(x) if x > 0) && units > 0,
            class: "resolve".into(),
        });
    }
}

// ------------------------------------------------------------------ F7 corpus case (DESIGN §7)
/// min_gas + used_gas = 2^64 + 1, price 1, factor 2.  Before the fix of `refund_fee` the u64 sum
/// saturated to 2^64 - 1 and the refund was one unit larger than the stated formula (oracle
/// class `refund-saturated-gas-sum`).  The sum is now taken in u128: this case must pass.
fn f7_witness(out: &mut Out, with_model: bool) {
    let mut cfg = Cfg::free();
    cfg.gpb = 1;
    cfg.factor = 2;
    let tx = Transaction::script(0, vec![], vec![], fuel_tx::policies::Policies::new().with_max_fee(u64::MAX), vec![], vec![], vec![]);
    let g = tx.min_gas(&cfg.gas_costs(), &cfg.fee_params());
    let used = (u64::MAX - g) + 2; // g + used = 2^64 + 1
    let body = Body::Script(0);
    let run = TxRun { cfg: &cfg, price: 1, useds: vec![0, used], ready: None, class: "f7-witness", with_model };
    tx_case(out, &tx, body, &run);
}

fn replay_case(out: &mut Out, v: &Value) {
    match v["kind"].as_str() {
        Some("resolve") => resolve_case(out, Dc::from_json(&v["cost"]), v["units"].as_u64().unwrap(), true),
        Some("tx") => {
            let cfg = Cfg::from_json(&v["cfg"]);
            let price = v["price"].as_u64().unwrap();
            let useds: Vec<u64> = v["useds"].as_array().map(|a| a.iter().filter_map(|x| x.as_u64()).collect()).unwrap_or_default();
            let t: Transaction = serde_json::from_value(v["tx"].clone()).expect("transaction json");
            let params = permissive_params();
            let ready = v["ready"].as_object().map(|o| {
                let hs: Vec<Option<u32>> = o["heights"].as_array().unwrap().iter().map(|x| x.as_u64().map(|h| h as u32)).collect();
                (&params, o["height"].as_u64().unwrap() as u32, hs)
            });
            let run = TxRun { cfg: &cfg, price, useds, ready, class: "replay", with_model: true };
            match t {
                Transaction::Script(tx) => {
                    let b = Body::Script(*tx.script_gas_limit());
                    tx_case(out, &tx, b, &run)
                }
                Transaction::Create(tx) => {
                    let b = Body::Create(*tx.bytecode_witness_index() as u64, tx.storage_slots().len() as u64);
                    tx_case(out, &tx, b, &run)
                }
                Transaction::Upgrade(tx) => {
                    let b = match *tx.upgrade_purpose() {
                        UpgradePurpose::ConsensusParameters { witness_index, .. } => Body::UpgradeConsensus(witness_index as u64),
                        UpgradePurpose::StateTransition { .. } => Body::UpgradeState,
                    };
                    tx_case(out, &tx, b, &run)
                }
                Transaction::Upload(tx) => {
                    let b = Body::Upload(tx.body().witness_index as u64, tx.body().subsections_number as u64);
                    tx_case(out, &tx, b, &run)
                }
                Transaction::Blob(tx) => {
                    let b = Body::Blob(tx.body().witness_index as u64);
                    tx_case(out, &tx, b, &run)
                }
                Transaction::Mint(_) => eprintln!("fee: Mint is not chargeable"),
            }
        }
        k => eprintln!("fee: unknown replay kind {:?}", k),
    }
}

fn run_c18(args: &Args, out: &mut Out) {
    let mut rng = Rng::new(args.seed);
    if let Some(p) = &args.replay {
        let v = read_replay(p);
        replay_case(out, &v);
        return;
    }
    let model = !args.oracle_only;
    // 0. the F7 corpus case (fixed finding), always first
    f7_witness(out, model);

    // 1. DependentCost::resolve
    let n_res = args.scale(300, 5_000);
    for i in 0..n_res {
        let d = gen_dc(&mut rng, i % 10 == 0);
        let units = rng.u64_biased();
        resolve_case(out, d, units, model);
    }

    // 2. raw arithmetic (gas_to_fee is private: it is driven through min_fee / max_fee /
    //    refund_fee of an input-less script tx under a configuration in which min_gas is an
    //    arbitrary chosen u64)
    let n_arith = args.scale(500, 20_000);
    for _ in 0..n_arith {
        let g = rng.u64_biased();
        let cfg = cfg_with_min_gas(g, gen_factor(&mut rng));
        let price = gen_price(&mut rng);
        let mut pol = fuel_tx::policies::Policies::new().with_max_fee(match rng.below(3) { 0 => u64::MAX, _ => rng.u64_biased() });
        if rng.bool() {
            pol = pol.with_tip(rng.u64_biased());
        }
        if rng.chance(1, 3) {
            pol = pol.with_witness_limit(rng.u64_biased());
        }
        let gl = if rng.bool() { 0 } else { rng.u64_biased() };
        let tx = Transaction::script(gl, vec![], vec![], pol, vec![], vec![], vec![]);
        let mut useds = gen_useds(&mut rng);
        // products near 2^64 and 2^128
        if price > 0 {
            useds.push((u64::MAX / price).saturating_sub(g));
        }
        let run = TxRun { cfg: &cfg, price, useds, ready: None, class: "arith", with_model: model };
        tx_case(out, &tx, Body::Script(gl), &run);
    }

    // 3. free-form transactions of the five kinds
    let n_free = args.scale(750, 20_000);
    for i in 0..n_free {
        let cfg = gen_cfg(&mut rng, false);
        let price = gen_price(&mut rng);
        free_tx_case(out, &mut rng, (i % 5) as u64, &cfg, price, "free", model);
    }

    // 4. valid transactions -> into_checked_basic -> into_ready
    let n_valid = args.scale(180, 2_000);
    for i in 0..n_valid {
        let mut cfg = gen_cfg(&mut rng, false);
        // keep a good share of the fees inside the u64 range so that all three outcomes occur
        let price = if rng.bool() { rng.range(0, 50) } else { gen_price(&mut rng) };
        if rng.bool() {
            cfg.factor = *rng.pick(&[1u64, 2, 92, 1_000_000_000]);
        }
        valid_tx_case(out, &mut rng, (i % 3) as u64, &cfg, price, "valid", model);
    }

    // 4b. implementation-only volume (oracle only, native speed; the model is not run on these)
    let n_extra = args.scale(20_000, 1_500_000);
    for i in 0..n_extra {
        if i % 4 == 0 {
            let cfg = gen_cfg(&mut rng, false);
            let price = gen_price(&mut rng);
            free_tx_case(out, &mut rng, ((i / 4) % 5) as u64, &cfg, price, "oracle-only", false);
        } else {
            let g = rng.u64_biased();
            let cfg = cfg_with_min_gas(g, gen_factor(&mut rng));
            let price = gen_price(&mut rng);
            let mut pol = fuel_tx::policies::Policies::new().with_max_fee(match rng.below(3) { 0 => u64::MAX, _ => rng.u64_biased() });
            if rng.bool() {
                pol = pol.with_tip(rng.u64_biased());
            }
            let gl = if rng.bool() { 0 } else { rng.u64_biased() };
            let tx = Transaction::script(gl, vec![], vec![], pol, vec![], vec![], vec![]);
            let useds = gen_useds(&mut rng);
            let run = TxRun { cfg: &cfg, price, useds, ready: None, class: "oracle-only", with_model: false };
            tx_case(out, &tx, Body::Script(gl), &run);
        }
        out.count("oracle-only");
    }

    // 5. outside the quantifier (factor 0 / units_per_gas 0): the code panics, and so must the model
    let n_panic = args.scale(50, 300);
    for i in 0..n_panic {
        let cfg = gen_cfg(&mut rng, true);
        let price = gen_price(&mut rng);
        free_tx_case(out, &mut rng, (i % 5) as u64, &cfg, price, "panic-config", model);
    }
}

fn main() {
    quiet_panics();
    let args = Args::parse();
    let mut out = Out::new();
    let header = "From Coq Require Import Uint63.\nFrom FV Require Import Base.Bytes Fee.FeeModel Run.Fee.\nOpen Scope N_scope.";
    match args.prop.as_str() {
        "C18" => {
            run_c18(&args, &mut out);
            out.write(&args, header, "fee_case", "bad_fee");
        }
        p => {
            eprintln!("fee: unknown property {p}");
            std::process::exit(2);
        }
    }
}
