//! Binary Merkle family (C09, C10, C11): run the real fuel-merkle code, print cases for the
//! Gallina L1 model, and check the property directly on the implementation (oracle).
use fuel_merkle::binary::{self, in_memory, root_calculator::MerkleRootCalculator, Primitive};
use fuel_merkle::common::StorageMap;
use fuel_merkle::storage::Mappable;
use fvh::*;
use serde_json::json;

#[derive(Debug)]
struct Tbl;
impl Mappable for Tbl {
    type Key = Self::OwnedKey;
    type OwnedKey = u64;
    type OwnedValue = Primitive;
    type Value = Self::OwnedValue;
}

// ---------- independent oracle: RFC 6962 MTH written recursively with fuel_crypto::Hasher
fn sha(parts: &[&[u8]]) -> [u8; 32] {
    let mut h = fuel_crypto::Hasher::default();
    for p in parts {
        h.input(p);
    }
    *h.digest()
}
fn mth(leaves: &[Vec<u8>]) -> [u8; 32] {
    match leaves.len() {
        0 => sha(&[]),
        1 => sha(&[&[0u8], &leaves[0]]),
        n => {
            let mut k = 1usize;
            while k * 2 < n {
                k *= 2;
            }
            let l = mth(&leaves[..k]);
            let r = mth(&leaves[k..]);
            sha(&[&[1u8], &l, &r])
        }
    }
}
fn mth_hashes(hs: &[[u8; 32]]) -> [u8; 32] {
    match hs.len() {
        0 => sha(&[]),
        1 => hs[0],
        n => {
            let mut k = 1usize;
            while k * 2 < n {
                k *= 2;
            }
            sha(&[&[1u8], &mth_hashes(&hs[..k]), &mth_hashes(&hs[k..])])
        }
    }
}
/// RFC 6962 audit path, leaf-to-root
fn rfc_path(m: usize, hs: &[[u8; 32]]) -> Vec<[u8; 32]> {
    let n = hs.len();
    if n <= 1 {
        return vec![];
    }
    let mut k = 1usize;
    while k * 2 < n {
        k *= 2;
    }
    if m < k {
        let mut p = rfc_path(m, &hs[..k]);
        p.push(mth_hashes(&hs[k..]));
        p
    } else {
        let mut p = rfc_path(m - k, &hs[k..]);
        p.push(mth_hashes(&hs[..k]));
        p
    }
}
/// RFC recomputation: None if the path has the wrong length or i >= n
fn rfc_root_from_path(h: [u8; 32], p: &[[u8; 32]], i: u64, n: u64) -> Option<[u8; 32]> {
    if n == 0 || i >= n {
        return None;
    }
    if n == 1 {
        return if p.is_empty() { Some(h) } else { None };
    }
    let mut k = 1u64;
    while k.checked_mul(2).map(|x| x < n).unwrap_or(false) {
        k *= 2;
    }
    let (last, rest) = p.split_last()?;
    if i < k {
        let r = rfc_root_from_path(h, rest, i, k)?;
        Some(sha(&[&[1u8], &r, last]))
    } else {
        let r = rfc_root_from_path(h, rest, i - k, n - k)?;
        Some(sha(&[&[1u8], last, &r]))
    }
}

fn gen_leaf(rng: &mut Rng) -> Vec<u8> {
    let len = match rng.below(12) {
        0 => 0,
        1 => 1,
        2 => 31,
        3 => 32,
        4 => 33,
        5 => 55,
        6 => 56,
        7 => 64,
        8 => rng.range(100, 300) as usize,
        _ => rng.range(0, 40) as usize,
    };
    rng.bytes(len)
}

fn leaves_json(ls: &[Vec<u8>]) -> serde_json::Value {
    json!(ls.iter().map(|l| hexs(l)).collect::<Vec<_>>())
}
fn coq_leaves(ls: &[Vec<u8>]) -> String {
    coq_list(&ls.iter().map(|l| coq_bytes(l)).collect::<Vec<_>>())
}

// ------------------------------------------------------------------ C09
fn roots_of(leaves: &[Vec<u8>]) -> Result<[[u8; 32]; 6], String> {
    guarded(|| {
        let mut calc = MerkleRootCalculator::new();
        for l in leaves {
            calc.push(l);
        }
        let r_calc = calc.root();
        let mut im = in_memory::MerkleTree::new();
        for l in leaves {
            im.push(l);
        }
        let r_im = im.root();
        let mut sm = StorageMap::<Tbl>::new();
        let mut st = binary::MerkleTree::new(&mut sm);
        for l in leaves {
            st.push(l).unwrap();
        }
        let r_st = st.root();
        let r_h = MerkleRootCalculator::new_from_existing_leaves(leaves.iter().map(|l| binary::leaf_sum(l))).root();
        let r_it = MerkleRootCalculator::new().root_from_iterator(leaves.iter());
        let r_eph: [u8; 32] = *fuel_vm::crypto::ephemeral_merkle_root(leaves.iter());
        [r_calc, r_im, r_st, r_h, r_it, r_eph]
    })
}

fn c09_case(out: &mut Out, leaves: Vec<Vec<u8>>, class: &str) {
    let n = leaves.len();
    out.oracle_evaluations += 1;
    match roots_of(&leaves) {
        Err(p) => out.oracle_fail("panic", &format!("root computation panicked: {p}"), json!({"kind":"roots","leaves":leaves_json(&leaves)})),
        Ok(r) => {
            let want = mth(&leaves);
            let names = ["root_calculator", "in_memory", "storage_backed", "from_leaf_hashes", "root_from_iterator", "ephemeral_merkle_root"];
            for (i, x) in r.iter().enumerate() {
                if *x != want {
                    out.oracle_fail(
                        "root-mismatch",
                        &format!("{} root != RFC 6962 MTH for {} leaves", names[i], n),
                        json!({"kind":"roots","leaves":leaves_json(&leaves),"which":names[i],"got":hexs(x),"want":hexs(&want)}),
                    );
                }
            }
            let coq = format!(
                "{{| rc_leaves := {}; rc_calc := {}; rc_inmem := {}; rc_storage := {}; rc_hashes := {} |}}",
                coq_leaves(&leaves), coq_bytes(&r[0]), coq_bytes(&r[1]), coq_bytes(&r[2]), coq_bytes(&r[3])
            );
            out.push(Case {
                coq,
                json: json!({"kind":"roots","n":n,"leaves":leaves_json(&leaves),"root":hexs(&r[0])}),
                key: format!("{}:{}", n, hexs(&r[0])),
                nontrivial: n >= 2,
                class: class.to_string(),
            });
        }
    }
}

fn receipts_oracle(out: &mut Out, rng: &mut Rng, count: usize) {
    use fuel_tx::Receipt;
    use fuel_types::canonical::Serialize;
    use fuel_vm::interpreter::ReceiptsCtx;
    let mut rs = vec![];
    for _ in 0..count {
        let id = fuel_types::ContractId::from(rng.bytes32());
        let r = match rng.below(5) {
            0 => Receipt::log(id, rng.next(), rng.next(), rng.next(), rng.next(), rng.next(), rng.next()),
            1 => Receipt::ret(id, rng.next(), rng.next(), rng.next()),
            2 => Receipt::log_data(id, rng.next(), rng.next(), rng.next(), rng.next(), rng.next(), rng.bytes_upto(39)),
            3 => Receipt::return_data(id, rng.next(), rng.next(), rng.next(), rng.bytes_upto(39)),
            _ => Receipt::transfer(id, fuel_types::ContractId::from(rng.bytes32()), rng.next(), fuel_types::AssetId::from(rng.bytes32()), rng.next(), rng.next()),
        };
        rs.push(r);
    }
    out.oracle_evaluations += 1;
    let res = guarded(|| {
        let mut ctx = ReceiptsCtx::default();
        for r in &rs {
            ctx.push(r.clone()).unwrap();
        }
        *ctx.root()
    });
    let leaves: Vec<Vec<u8>> = rs.iter().map(|r| r.to_bytes()).collect();
    let want = mth(&leaves);
    match res {
        Ok(got) if got == want => out.count("receipts_root_ok"),
        Ok(got) => out.oracle_fail("receipts-root-mismatch", &format!("receipts root != MTH of encoded receipts ({} receipts)", count),
            json!({"kind":"receipts","leaves":leaves_json(&leaves),"got":hexs(&got),"want":hexs(&want)})),
        Err(p) => out.oracle_fail("panic", &format!("receipts root panicked: {p}"), json!({"kind":"receipts","leaves":leaves_json(&leaves)})),
    }
}

fn run_c09(args: &Args, out: &mut Out) {
    let mut rng = Rng::new(args.seed);
    if let Some(p) = &args.replay {
        let v = read_replay(p);
        let leaves: Vec<Vec<u8>> = v["leaves"].as_array().unwrap().iter().map(|x| hex::decode(x.as_str().unwrap()).unwrap()).collect();
        c09_case(out, leaves, "replay");
        return;
    }
    // dense small counts
    let dense = args.scale(40, 300);
    for n in 0..=dense {
        let leaves = (0..n).map(|_| gen_leaf(&mut rng)).collect();
        c09_case(out, leaves, "dense");
    }
    // powers of two +/- 1
    let maxk = if args.thorough() { 12 } else { 8 };
    for k in 1..=maxk {
        for d in [-1i64, 0, 1] {
            let n = ((1i64 << k) + d) as usize;
            if n <= dense {
                continue;
            }
            let leaves = (0..n).map(|_| rng.bytes_upto(8)).collect();
            c09_case(out, leaves, "pow2");
        }
    }
    // special leaf contents: all empty, identical leaves, one large leaf
    for n in [1usize, 2, 3, 5, 8, 13] {
        c09_case(out, vec![vec![]; n], "empty-leaves");
        c09_case(out, vec![vec![0xAB; 7]; n], "identical-leaves");
    }
    let big = if args.thorough() { 16384 } else { 2048 };
    c09_case(out, vec![rng.bytes(big), rng.bytes(1), rng.bytes(big + 1)], "large-leaf");
    // impl-only oracle volume: larger counts (model not run on these)
    let extra = args.scale(30, 400);
    for _ in 0..extra {
        let n = match rng.below(4) {
            0 => (1usize << rng.range(1, 13)) + rng.below(3) as usize - 1,
            _ => rng.range(0, 3000) as usize,
        };
        let leaves: Vec<Vec<u8>> = (0..n).map(|_| rng.bytes_upto(4)).collect();
        out.oracle_evaluations += 1;
        match roots_of(&leaves) {
            Ok(r) => {
                let want = mth(&leaves);
                if r.iter().any(|x| *x != want) {
                    out.oracle_fail("root-mismatch", &format!("a root != MTH for {} leaves", n), json!({"kind":"roots","leaves":leaves_json(&leaves)}));
                }
                out.count("oracle-only");
            }
            Err(p) => out.oracle_fail("panic", &p, json!({"kind":"roots","leaves":leaves_json(&leaves)})),
        }
    }
    for c in [0usize, 1, 2, 3, 7, 8, 9, 100] {
        receipts_oracle(out, &mut rng, c);
    }
}

fn main() {
    quiet_panics();
    let args = Args::parse();
    let mut out = Out::new();
    let header = "From FV Require Import Base.Bytes Run.Bmt.\nOpen Scope N_scope.";
    match args.prop.as_str() {
        "C09" => {
            run_c09(&args, &mut out);
            out.write(&args, header, "roots_case", "bad_roots");
        }
        p => {
            eprintln!("bmt: unknown property {p}");
            std::process::exit(2);
        }
    }
    let _ = (rfc_path as fn(usize, &[[u8; 32]]) -> Vec<[u8; 32]>, rfc_root_from_path as fn([u8; 32], &[[u8; 32]], u64, u64) -> Option<[u8; 32]>);
}
