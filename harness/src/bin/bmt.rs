//! Binary Merkle family (C09, C10, C11): run the real fuel-merkle code, print cases for the
//! Gallina L1 model, and check the property directly on the implementation (oracle).
use fuel_merkle::binary::{self, in_memory, root_calculator::MerkleRootCalculator, Primitive};
use fuel_merkle::common::StorageMap;
use fuel_merkle::storage::Mappable;
use fvh::*;
use serde_json::json;

#[derive(Debug)]
struct Tbl;
impl Mappable for Tbl {
    type Key = Self::OwnedKey;
    type OwnedKey = u64;
    type OwnedValue = Primitive;
    type Value = Self::OwnedValue;
}

// ---------- independent oracle: RFC 6962 MTH written recursively with fuel_crypto::Hasher
fn sha(parts: &[&[u8]]) -> [u8; 32] {
    let mut h = fuel_crypto::Hasher::default();
    for p in parts {
        h.input(p);
    }
    *h.digest()
}
fn mth(leaves: &[Vec<u8>]) -> [u8; 32] {
    match leaves.len() {
        0 => sha(&[]),
        1 => sha(&[&[0u8], &leaves[0]]),
        n => {
            let mut k = 1usize;
            while k * 2 < n {
                k *= 2;
            }
            let l = mth(&leaves[..k]);
            let r = mth(&leaves[k..]);
            sha(&[&[1u8], &l, &r])
        }
    }
}
fn mth_hashes(hs: &[[u8; 32]]) -> [u8; 32] {
    match hs.len() {
        0 => sha(&[]),
        1 => hs[0],
        n => {
            let mut k = 1usize;
            while k * 2 < n {
                k *= 2;
            }
            sha(&[&[1u8], &mth_hashes(&hs[..k]), &mth_hashes(&hs[k..])])
        }
    }
}
/// RFC 6962 audit path, leaf-to-root
fn rfc_path(m: usize, hs: &[[u8; 32]]) -> Vec<[u8; 32]> {
    let n = hs.len();
    if n <= 1 {
        return vec![];
    }
    let mut k = 1usize;
    while k * 2 < n {
        k *= 2;
    }
    if m < k {
        let mut p = rfc_path(m, &hs[..k]);
        p.push(mth_hashes(&hs[k..]));
        p
    } else {
        let mut p = rfc_path(m - k, &hs[k..]);
        p.push(mth_hashes(&hs[..k]));
        p
    }
}
/// RFC recomputation: None if the path has the wrong length or i >= n
fn rfc_root_from_path(h: [u8; 32], p: &[[u8; 32]], i: u64, n: u64) -> Option<[u8; 32]> {
    if n == 0 || i >= n {
        return None;
    }
    if n == 1 {
        return if p.is_empty() { Some(h) } else { None };
    }
    let mut k = 1u64;
    while k.checked_mul(2).map(|x| x < n).unwrap_or(false) {
        k *= 2;
    }
    let (last, rest) = p.split_last()?;
    if i < k {
        let r = rfc_root_from_path(h, rest, i, k)?;
        Some(sha(&[&[1u8], &r, last]))
    } else {
        let r = rfc_root_from_path(h, rest, i - k, n - k)?;
        Some(sha(&[&[1u8], last, &r]))
    }
}

fn gen_leaf(rng: &mut Rng) -> Vec<u8> {
    let len = match rng.below(12) {
        0 => 0,
        1 => 1,
        2 => 31,
        3 => 32,
        4 => 33,
        5 => 55,
        6 => 56,
        7 => 64,
        8 => rng.range(100, 300) as usize,
        _ => rng.range(0, 40) as usize,
    };
    rng.bytes(len)
}

fn leaves_json(ls: &[Vec<u8>]) -> serde_json::Value {
    json!(ls.iter().map(|l| hexs(l)).collect::<Vec<_>>())
}
fn coq_leaves(ls: &[Vec<u8>]) -> String {
    coq_list(&ls.iter().map(|l| coq_bytes(l)).collect::<Vec<_>>())
}

// ------------------------------------------------------------------ C09
fn roots_of(leaves: &[Vec<u8>]) -> Result<[[u8; 32]; 6], String> {
    guarded(|| {
        let mut calc = MerkleRootCalculator::new();
        for l in leaves {
            calc.push(l);
        }
        let r_calc = calc.root();
        let mut im = in_memory::MerkleTree::new();
        for l in leaves {
            im.push(l);
        }
        let r_im = im.root();
        let mut sm = StorageMap::<Tbl>::new();
        let mut st = binary::MerkleTree::new(&mut sm);
        for l in leaves {
            st.push(l).unwrap();
        }
        let r_st = st.root();
        let r_h = MerkleRootCalculator::new_from_existing_leaves(leaves.iter().map(|l| binary::leaf_sum(l))).root();
        let r_it = MerkleRootCalculator::new().root_from_iterator(leaves.iter());
        let r_eph: [u8; 32] = *fuel_vm::crypto::ephemeral_merkle_root(leaves.iter());
        [r_calc, r_im, r_st, r_h, r_it, r_eph]
    })
}

fn c09_case(out: &mut Out, leaves: Vec<Vec<u8>>, class: &str) {
    let n = leaves.len();
    out.oracle_evaluations += 1;
    match roots_of(&leaves) {
        Err(p) => out.oracle_fail("panic", &format!("root computation panicked: {p}"), json!({"kind":"roots","leaves":leaves_json(&leaves)})),
        Ok(r) => {
            let want = mth(&leaves);
            let names = ["root_calculator", "in_memory", "storage_backed", "from_leaf_hashes", "root_from_iterator", "ephemeral_merkle_root"];
            for (i, x) in r.iter().enumerate() {
                if *x != want {
                    out.oracle_fail(
                        "root-mismatch",
                        &format!("{} root != RFC 6962 MTH for {} leaves", names[i], n),
                        json!({"kind":"roots","leaves":leaves_json(&leaves),"which":names[i],"got":hexs(x),"want":hexs(&want)}),
                    );
                }
            }
            let coq = format!(
                "{{| rc_leaves := {}; rc_calc := {}; rc_inmem := {}; rc_storage := {}; rc_hashes := {} |}}",
                coq_leaves(&leaves), coq_bytes(&r[0]), coq_bytes(&r[1]), coq_bytes(&r[2]), coq_bytes(&r[3])
            );
            out.push(Case {
                coq,
                json: json!({"kind":"roots","n":n,"leaves":leaves_json(&leaves),"root":hexs(&r[0])}),
                key: format!("{}:{}", n, hexs(&r[0])),
                nontrivial: n >= 2,
                class: class.to_string(),
            });
        }
    }
}

fn receipts_oracle(out: &mut Out, rng: &mut Rng, count: usize) {
    use fuel_tx::Receipt;
    use fuel_types::canonical::Serialize;
    use fuel_vm::interpreter::ReceiptsCtx;
    let mut rs = vec![];
    for _ in 0..count {
        let id = fuel_types::ContractId::from(rng.bytes32());
        let r = match rng.below(5) {
            0 => Receipt::log(id, rng.next(), rng.next(), rng.next(), rng.next(), rng.next(), rng.next()),
            1 => Receipt::ret(id, rng.next(), rng.next(), rng.next()),
            2 => Receipt::log_data(id, rng.next(), rng.next(), rng.next(), rng.next(), rng.next(), rng.bytes_upto(39)),
            3 => Receipt::return_data(id, rng.next(), rng.next(), rng.next(), rng.bytes_upto(39)),
            _ => Receipt::transfer(id, fuel_types::ContractId::from(rng.bytes32()), rng.next(), fuel_types::AssetId::from(rng.bytes32()), rng.next(), rng.next()),
        };
        rs.push(r);
    }
    out.oracle_evaluations += 1;
    let res = guarded(|| {
        let mut ctx = ReceiptsCtx::default();
        for r in &rs {
            ctx.push(r.clone()).unwrap();
        }
        *ctx.root()
    });
    let leaves: Vec<Vec<u8>> = rs.iter().map(|r| r.to_bytes()).collect();
    let want = mth(&leaves);
    match res {
        Ok(got) if got == want => out.count("receipts_root_ok"),
        Ok(got) => out.oracle_fail("receipts-root-mismatch", &format!("receipts root != MTH of encoded receipts ({} receipts)", count),
            json!({"kind":"receipts","leaves":leaves_json(&leaves),"got":hexs(&got),"want":hexs(&want)})),
        Err(p) => out.oracle_fail("panic", &format!("receipts root panicked: {p}"), json!({"kind":"receipts","leaves":leaves_json(&leaves)})),
    }
}

/// Fill a ReceiptsCtx up to its limit, keep pushing (rejected receipts), then append the
/// epilogue the VM appends (panic + script result); the root must be the MTH of exactly the
/// receipts the context holds, after every phase.
fn receipts_limit_oracle(out: &mut Out, rng: &mut Rng) {
    use fuel_tx::{Receipt, ScriptExecutionResult};
    use fuel_types::canonical::Serialize;
    use fuel_vm::interpreter::ReceiptsCtx;
    out.oracle_evaluations += 1;
    let id = fuel_types::ContractId::from(rng.bytes32());
    let res = guarded(|| {
        let mut ctx = ReceiptsCtx::default();
        let mut bad: Option<String> = None;
        let mut rejected = 0usize;
        let check = |ctx: &ReceiptsCtx, phase: &str| -> Option<String> {
            let leaves: Vec<Vec<u8>> = ctx.as_ref().iter().map(|r| r.to_bytes()).collect();
            if *ctx.root() != mth(&leaves) { Some(format!("{phase}: root != MTH of the {} held receipts", leaves.len())) } else { None }
        };
        for k in 0..70_000u64 {
            let r = Receipt::log(id, k, 1, 2, 3, 4, 5);
            if ctx.push(r).is_err() { rejected += 1; }
            if k == 65_530 || k == 65_533 || k == 65_534 || k == 65_540 {
                if bad.is_none() { bad = check(&ctx, &format!("after {} pushes", k + 1)); }
            }
        }
        if bad.is_none() { bad = check(&ctx, "after rejected pushes"); }
        let _ = ctx.push(Receipt::panic(id, fuel_asm::PanicInstruction::error(fuel_asm::PanicReason::TooManyReceipts, 0), 0, 0));
        let _ = ctx.push(Receipt::script_result(ScriptExecutionResult::Panic, 7));
        if bad.is_none() { bad = check(&ctx, "after epilogue"); }
        (bad, rejected, ctx.as_ref().len())
    });
    match res {
        Ok((None, rejected, len)) => { out.count("receipts_limit_ok"); out.notes.push(format!("receipts limit: {len} held, {rejected} rejected")); }
        Ok((Some(b), _, _)) => out.oracle_fail("receipts-root-at-limit", &b, json!({"kind":"receipts-limit"})),
        Err(p) => out.oracle_fail("panic", &format!("receipts limit scenario panicked: {p}"), json!({"kind":"receipts-limit"})),
    }
}

fn run_c09(args: &Args, out: &mut Out) {
    let mut rng = Rng::new(args.seed);
    if let Some(p) = &args.replay {
        let v = read_replay(p);
        if v["kind"] == "receipts-limit" {
            receipts_limit_oracle(out, &mut rng);
            return;
        }
        let leaves: Vec<Vec<u8>> = v["leaves"].as_array().unwrap().iter().map(|x| hex::decode(x.as_str().unwrap()).unwrap()).collect();
        c09_case(out, leaves, "replay");
        return;
    }
    // dense small counts
    let dense = args.scale(40, 300);
    for n in 0..=dense {
        let leaves = (0..n).map(|_| gen_leaf(&mut rng)).collect();
        c09_case(out, leaves, "dense");
    }
    // powers of two +/- 1
    let maxk = if args.thorough() { 12 } else { 8 };
    for k in 1..=maxk {
        for d in [-1i64, 0, 1] {
            let n = ((1i64 << k) + d) as usize;
            if n <= dense {
                continue;
            }
            let leaves = (0..n).map(|_| rng.bytes_upto(8)).collect();
            c09_case(out, leaves, "pow2");
        }
    }
    // special leaf contents: all empty, identical leaves, one large leaf
    for n in [1usize, 2, 3, 5, 8, 13] {
        c09_case(out, vec![vec![]; n], "empty-leaves");
        c09_case(out, vec![vec![0xAB; 7]; n], "identical-leaves");
    }
    let big = if args.thorough() { 16384 } else { 2048 };
    c09_case(out, vec![rng.bytes(big), rng.bytes(1), rng.bytes(big + 1)], "large-leaf");
    // impl-only oracle volume: larger counts (model not run on these)
    let extra = args.scale(30, 400);
    for _ in 0..extra {
        let n = match rng.below(4) {
            0 => (1usize << rng.range(1, 13)) + rng.below(3) as usize - 1,
            _ => rng.range(0, 3000) as usize,
        };
        let leaves: Vec<Vec<u8>> = (0..n).map(|_| rng.bytes_upto(4)).collect();
        out.oracle_evaluations += 1;
        match roots_of(&leaves) {
            Ok(r) => {
                let want = mth(&leaves);
                if r.iter().any(|x| *x != want) {
                    out.oracle_fail("root-mismatch", &format!("a root != MTH for {} leaves", n), json!({"kind":"roots","leaves":leaves_json(&leaves)}));
                }
                out.count("oracle-only");
            }
            Err(p) => out.oracle_fail("panic", &p, json!({"kind":"roots","leaves":leaves_json(&leaves)})),
        }
    }
    for c in [0usize, 1, 2, 3, 7, 8, 9, 100] {
        receipts_oracle(out, &mut rng, c);
    }
    receipts_limit_oracle(out, &mut rng);
}


// ------------------------------------------------------------------ C10
fn hs_json(p: &[[u8; 32]]) -> serde_json::Value {
    json!(p.iter().map(|h| hexs(h)).collect::<Vec<_>>())
}
fn coq_hs(p: &[[u8; 32]]) -> String {
    coq_list(&p.iter().map(|h| coq_bytes(h)).collect::<Vec<_>>())
}

/// prove(i) on the storage-backed tree built from `leaves`; model must give the same
/// (root, proof) or the same refusal; oracle: proof == RFC PATH, verify accepts.
fn c10_prove_case(out: &mut Out, leaves: &[Vec<u8>], i: u64, class: &str) {
    let n = leaves.len();
    out.oracle_evaluations += 1;
    let res = guarded(|| {
        let mut sm = StorageMap::<Tbl>::new();
        let mut st = binary::MerkleTree::new(&mut sm);
        for l in leaves {
            st.push(l).unwrap();
        }
        let a = st.prove(i).ok();
        let mut im = in_memory::MerkleTree::new();
        for l in leaves {
            im.push(l);
        }
        let b = im.prove(i);
        (a, b)
    });
    let rj = json!({"kind":"prove","leaves":leaves_json(leaves),"index":i});
    match res {
        Err(p) => out.oracle_fail("prove-panic", &format!("prove({i}) on {n} leaves panicked: {p}"), rj),
        Ok((a, b)) => {
            if a != b {
                out.oracle_fail("prove-inmem-vs-storage", &format!("in-memory and storage-backed prove({i}) differ for {n} leaves"), rj.clone());
            }
            let hs: Vec<[u8; 32]> = leaves.iter().map(|l| sha(&[&[0u8], l])).collect();
            if (i as usize) < n {
                match &a {
                    None => out.oracle_fail("prove-refused-valid-index", &format!("prove({i}) refused for {n} leaves"), rj.clone()),
                    Some((root, proof)) => {
                        let want_root = mth(leaves);
                        let want_path = rfc_path(i as usize, &hs);
                        if *root != want_root || *proof != want_path {
                            out.oracle_fail("prove-not-rfc-path", &format!("prove({i}) for {n} leaves is not (MTH, RFC 6962 PATH)"), rj.clone());
                        }
                        let ok = guarded(|| binary::verify(root, &leaves[i as usize], proof, i, n as u64)).unwrap_or(false);
                        if !ok {
                            out.oracle_fail("proof-does-not-verify", &format!("prove({i}) for {n} leaves does not verify"), rj.clone());
                        }
                    }
                }
            } else if a.is_some() {
                out.oracle_fail("prove-accepted-invalid-index", &format!("prove({i}) accepted for {n} leaves"), rj.clone());
            }
            let coq_res = match &a {
                Some((root, proof)) => format!("(Some ({}, {}))", coq_bytes(root), coq_hs(proof)),
                None => "None".to_string(),
            };
            out.push(Case {
                coq: format!("(CProve {} {} {})", coq_leaves(leaves), i, coq_res),
                json: json!({"kind":"prove","n":n,"index":i,"leaves":leaves_json(leaves),"ok":a.is_some()}),
                key: format!("prove:{}:{}", n, i),
                nontrivial: n >= 2,
                class: class.to_string(),
            });
        }
    }
}

/// verify on an arbitrary tuple; model verdict must equal Rust's; oracle: verdict ==
/// (RFC recomputation from the tuple reaches the root).
fn c10_verify_case(out: &mut Out, root: [u8; 32], data: &[u8], proof: &[[u8; 32]], i: u64, n: u64, class: &str) {
    out.oracle_evaluations += 1;
    let rj = json!({"kind":"verify","root":hexs(&root),"data":hexs(data),"proof":hs_json(proof),"index":i,"count":n});
    let pv: Vec<[u8; 32]> = proof.to_vec();
    match guarded(|| binary::verify(&root, &data, &pv, i, n)) {
        Err(p) => out.oracle_fail("verify-panic", &format!("verify panicked (index {i}, count {n}, proof len {}): {p}", proof.len()), rj),
        Ok(got) => {
            let want = rfc_root_from_path(sha(&[&[0u8], data]), proof, i, n) == Some(root);
            if got != want {
                out.oracle_fail(
                    if got { "verify-accepts-wrong-tuple" } else { "verify-rejects-valid-tuple" },
                    &format!("verify = {got} but RFC recomputation says {want} (index {i}, count {n}, proof len {})", proof.len()),
                    rj.clone(),
                );
            }
            out.push(Case {
                coq: format!("(CVerify {} {} {} {} {} {})", coq_bytes(&root), coq_bytes(data), coq_hs(proof), i, n, coq_bool(got)),
                json: rj,
                key: format!("verify:{}:{}:{}:{}", n, i, proof.len(), got),
                nontrivial: n >= 2,
                class: class.to_string(),
            });
        }
    }
}

fn run_c10(args: &Args, out: &mut Out) {
    let mut rng = Rng::new(args.seed);
    if let Some(p) = &args.replay {
        let v = read_replay(p);
        let unhex = |x: &serde_json::Value| hex::decode(x.as_str().unwrap()).unwrap();
        if v["kind"] == "prove" {
            let leaves: Vec<Vec<u8>> = v["leaves"].as_array().unwrap().iter().map(unhex).collect();
            c10_prove_case(out, &leaves, v["index"].as_u64().unwrap(), "replay");
        } else {
            let mut root = [0u8; 32];
            root.copy_from_slice(&unhex(&v["root"]));
            let proof: Vec<[u8; 32]> = v["proof"].as_array().unwrap().iter().map(|x| { let mut a = [0u8; 32]; a.copy_from_slice(&unhex(x)); a }).collect();
            c10_verify_case(out, root, &unhex(&v["data"]), &proof, v["index"].as_u64().unwrap(), v["count"].as_u64().unwrap(), "replay");
        }
        return;
    }
    // all (n, i) for small n (+ one index beyond)
    let maxn = args.scale(18, 64);
    for n in 0..=maxn {
        let leaves: Vec<Vec<u8>> = (0..n).map(|_| rng.bytes_upto(6)).collect();
        for i in 0..=(n as u64) {
            c10_prove_case(out, &leaves, i, "all-pairs");
        }
    }
    // sampled larger trees
    let samples = args.scale(12, 200);
    for _ in 0..samples {
        let n = match rng.below(3) { 0 => (1usize << rng.range(5, 9)) + rng.below(3) as usize - 1, _ => rng.range(65, 700) as usize };
        let leaves: Vec<Vec<u8>> = (0..n).map(|_| rng.bytes_upto(3)).collect();
        let i = match rng.below(4) { 0 => 0, 1 => n as u64 - 1, 2 => n as u64, _ => rng.below(n as u64) };
        c10_prove_case(out, &leaves, i, "sampled");
    }
    // proofs of trees that were reloaded / refilled over storage still holding a longer history
    // (the tree "of n leaves" of the statement need not be freshly built)
    for (long, short) in [(8u64, 7u64), (8, 5), (16, 15), (16, 9), (12, 11), (4, 3), (13, 8)] {
        let mut ops: Vec<Op> = (0..long).map(|x| Op::Push(vec![x as u8, 7])).collect();
        ops.push(Op::Load(short));
        ops.extend((0..=short).map(Op::Prove));
        c11_case(out, ops, "prove-after-reload");
        let mut ops: Vec<Op> = (0..long).map(|x| Op::Push(vec![x as u8, 8])).collect();
        ops.push(Op::Reset);
        ops.extend((0..short).map(|x| Op::Push(vec![x as u8, 9])));
        ops.extend((0..=short).map(Op::Prove));
        c11_case(out, ops, "prove-after-reset-refill");
    }
    // structured mutations of valid proofs
    let muts = args.scale(60, 1500);
    for _ in 0..muts {
        let n = match rng.below(5) { 0 => 1, 1 => 2, 2 => (1usize << rng.range(1, 6)) + rng.below(3) as usize - 1, _ => rng.range(1, 70) as usize }.max(1);
        let leaves: Vec<Vec<u8>> = (0..n).map(|_| rng.bytes_upto(5)).collect();
        let i = rng.below(n as u64);
        let hs: Vec<[u8; 32]> = leaves.iter().map(|l| sha(&[&[0u8], l])).collect();
        let root = mth(&leaves);
        let mut proof = rfc_path(i as usize, &hs);
        let mut data = leaves[i as usize].clone();
        let (mut idx, mut cnt, mut r) = (i, n as u64, root);
        let class = match rng.below(12) {
            0 => "valid".to_string(),
            1 => { if !proof.is_empty() { proof.pop(); } "drop-last".into() }
            2 => { if !proof.is_empty() { proof.remove(0); } "drop-first".into() }
            3 => { proof.push(rng.bytes32()); "append".into() }
            4 => { if proof.len() >= 2 { let a = rng.below(proof.len() as u64) as usize; let b = rng.below(proof.len() as u64) as usize; proof.swap(a, b); } "swap".into() }
            5 => { if !proof.is_empty() { let a = rng.below(proof.len() as u64) as usize; proof[a][rng.below(32) as usize] ^= 1 << rng.below(8); } "flip-bit".into() }
            6 => { idx = if rng.bool() { i + 1 } else { i.wrapping_sub(1) }; "index-off-by-one".into() }
            7 => { cnt = if rng.bool() { n as u64 + 1 } else { n as u64 - 1 }; "count-off-by-one".into() }
            8 => { cnt = rng.range(1, 2 * n as u64 + 2); "count-other".into() }
            9 => { data.push(0); "data-changed".into() }
            10 => { r[rng.below(32) as usize] ^= 1; "root-changed".into() }
            _ => { idx = rng.below(2 * n as u64 + 1); cnt = rng.below(2 * n as u64 + 2); "random-index-count".into() }
        };
        c10_verify_case(out, r, &data, &proof, idx, cnt, &format!("mut-{class}"));
    }
    // relabelling: an honest proof for (i, n) presented under every other (i', n') label
    let rl_max = args.scale(9, 13);
    for n in 1..=rl_max {
        let leaves: Vec<Vec<u8>> = (0..n).map(|_| rng.bytes_upto(3)).collect();
        let hs: Vec<[u8; 32]> = leaves.iter().map(|l| sha(&[&[0u8], l])).collect();
        let root = mth(&leaves);
        for i in 0..n {
            let proof = rfc_path(i, &hs);
            for n2 in 1..=(n as u64 + 3) {
                for i2 in 0..n2 {
                    if (i2, n2) == (i as u64, n as u64) { continue; }
                    // keep the volume down: only labels whose own path is not longer than the proof
                    c10_verify_case(out, root, &leaves[i], &proof, i2, n2, "mut-relabel");
                }
            }
        }
    }
    // boundary tuples: count 0/1 with non-empty proof, huge counts with short proofs
    let z = [0u8; 32];
    for (i, n, plen) in [(0u64, 0u64, 0usize), (0, 0, 1), (0, 1, 1), (1, 1, 0), (0, 2, 0), (5, 1u64 << 40, 40), (0, 1u64 << 62, 62), ((1u64 << 62) - 1, 1u64 << 62, 62), (3, (1u64 << 63) - 1, 63), (3, 1u64 << 63, 63), (3, (1u64 << 63) + 1, 64), (1u64 << 63, (1u64 << 63) + 1, 1), (0, u64::MAX, 64), (u64::MAX - 1, u64::MAX, 64), (u64::MAX - 1, u64::MAX, 63), (u64::MAX, u64::MAX, 64)] {
        let proof: Vec<[u8; 32]> = (0..plen).map(|_| rng.bytes32()).collect();
        c10_verify_case(out, z, b"x", &proof, i, n, "boundary");
        // the same tuple with the root that the RFC recomputation yields (valid iff the length fits)
        if let Some(r) = rfc_root_from_path(sha(&[&[0u8], b"x"]), &proof, i, n) {
            c10_verify_case(out, r, b"x", &proof, i, n, "boundary-valid");
        }
    }
}

// ------------------------------------------------------------------ C11
#[derive(Clone, Debug)]
enum Op {
    Push(Vec<u8>),
    Reset,
    Load(u64),
    Prove(u64),
    Root,
}

fn op_json(o: &Op) -> serde_json::Value {
    match o {
        Op::Push(d) => json!({"op":"push","data":hexs(d)}),
        Op::Reset => json!({"op":"reset"}),
        Op::Load(k) => json!({"op":"load","count":k}),
        Op::Prove(i) => json!({"op":"prove","index":i}),
        Op::Root => json!({"op":"root"}),
    }
}
fn op_from_json(v: &serde_json::Value) -> Op {
    match v["op"].as_str().unwrap() {
        "push" => Op::Push(hex::decode(v["data"].as_str().unwrap()).unwrap()),
        "reset" => Op::Reset,
        "load" => Op::Load(v["count"].as_u64().unwrap()),
        "prove" => Op::Prove(v["index"].as_u64().unwrap()),
        _ => Op::Root,
    }
}

/// observable output of one op: Coq term + canonical string
#[derive(Clone, PartialEq, Debug)]
enum Obs {
    Unit,
    Root([u8; 32], u64),
    Proof(Option<([u8; 32], Vec<[u8; 32]>)>),
    LoadOk(bool),
}
fn obs_coq(o: &Obs) -> String {
    match o {
        Obs::Unit => "OUnit".into(),
        Obs::Root(r, c) => format!("(ORoot {} {})", coq_bytes(r), c),
        Obs::Proof(None) => "(OProof None)".into(),
        Obs::Proof(Some((r, p))) => format!("(OProof (Some ({}, {})))", coq_bytes(r), coq_hs(p)),
        Obs::LoadOk(b) => format!("(OLoad {})", coq_bool(*b)),
    }
}

/// run a history on the real storage-backed tree (shared StorageMap so that load works)
fn run_history_storage(ops: &[Op]) -> Result<Vec<Obs>, String> {
    guarded(|| {
        let mut sm = StorageMap::<Tbl>::new();
        let mut obs = vec![];
        // The tree borrows the map mutably; to reload we drop the tree and call load on the same map.
        let mut tree = binary::MerkleTree::new(&mut sm);
        for o in ops {
            match o {
                Op::Push(d) => { tree.push(d).unwrap(); obs.push(Obs::Unit); }
                Op::Reset => { tree.reset(); obs.push(Obs::Unit); }
                Op::Root => obs.push(Obs::Root(tree.root(), tree.leaves_count())),
                Op::Prove(i) => obs.push(Obs::Proof(tree.prove(*i).ok())),
                Op::Load(k) => {
                    drop(tree);
                    match binary::MerkleTree::load(&mut sm, *k) {
                        Ok(t) => { tree = t; obs.push(Obs::LoadOk(true)); }
                        Err(_) => { tree = binary::MerkleTree::new(&mut sm); obs.push(Obs::LoadOk(false)); }
                    }
                }
            }
        }
        obs
    })
}

/// spec: a fresh tree holding exactly `cur` leaves
fn fresh_obs(cur: &[Vec<u8>], o: &Op) -> Obs {
    let hs: Vec<[u8; 32]> = cur.iter().map(|l| sha(&[&[0u8], l])).collect();
    match o {
        Op::Root => Obs::Root(mth(cur), cur.len() as u64),
        Op::Prove(i) => {
            if (*i as usize) < cur.len() { Obs::Proof(Some((mth(cur), rfc_path(*i as usize, &hs)))) } else { Obs::Proof(None) }
        }
        _ => Obs::Unit,
    }
}

fn c11_case(out: &mut Out, ops: Vec<Op>, class: &str) {
    out.oracle_evaluations += 1;
    let rj = json!({"kind":"history","ops":ops.iter().map(op_json).collect::<Vec<_>>()});
    match run_history_storage(&ops) {
        Err(p) => {
            let has_reset = ops.iter().any(|o| matches!(o, Op::Reset));
            out.oracle_fail(if has_reset { "panic-after-reset" } else { "panic" }, &format!("history panicked: {p}"), rj);
        }
        Ok(obs) => {
            // oracle: compare with the fresh-tree spec
            let mut cur: Vec<Vec<u8>> = vec![];
            let mut bad: Option<String> = None;
            let mut since_reset = false;
            for (k, o) in ops.iter().enumerate() {
                match o {
                    Op::Push(d) => cur.push(d.clone()),
                    Op::Reset => { cur.clear(); since_reset = true; }
                    Op::Load(c) => {
                        let ok = (*c as usize) <= cur.len();
                        if obs[k] != Obs::LoadOk(ok) && ok {
                            bad = Some(format!("op {k}: load({c}) failed with {} leaves recorded", cur.len()));
                        }
                        if ok { cur.truncate(*c as usize); }
                    }
                    _ => {
                        let want = fresh_obs(&cur, o);
                        if obs[k] != want && bad.is_none() {
                            bad = Some(format!("op {k} ({:?}) differs from a fresh tree of {} leaves{}", o, cur.len(), if since_reset { " (after a reset)" } else { "" }));
                        }
                    }
                }
            }
            if let Some(b) = bad {
                let has_reset = ops.iter().any(|o| matches!(o, Op::Reset));
                out.oracle_fail(if has_reset { "stale-after-reset" } else { "history-differs-from-fresh-tree" }, &b, rj.clone());
            }
            let coq_ops: Vec<String> = ops.iter().map(|o| match o {
                Op::Push(d) => format!("(HPush {})", coq_bytes(d)),
                Op::Reset => "HReset".into(),
                Op::Load(k) => format!("(HLoad {})", k),
                Op::Prove(i) => format!("(HProve {})", i),
                Op::Root => "HRoot".into(),
            }).collect();
            let coq_obs: Vec<String> = obs.iter().map(obs_coq).collect();
            out.push(Case {
                coq: format!("(CHistory {} {})", coq_list(&coq_ops), coq_list(&coq_obs)),
                json: rj,
                key: format!("{:?}", ops.iter().map(|o| match o { Op::Push(_) => 'p', Op::Reset => 'r', Op::Load(_) => 'l', Op::Prove(_) => 'v', Op::Root => 'o' }).collect::<String>()),
                nontrivial: ops.len() >= 3,
                class: class.to_string(),
            });
        }
    }
}

fn gen_history(rng: &mut Rng, max_ops: usize, with_reset: bool) -> Vec<Op> {
    let len = rng.range(1, max_ops as u64) as usize;
    let mut ops = vec![];
    let mut count: u64 = 0;
    for _ in 0..len {
        let o = match rng.below(12) {
            0..=5 => { count += 1; Op::Push(rng.bytes_upto(4)) }
            6 => Op::Root,
            7 | 8 => Op::Prove(match rng.below(4) { 0 => count, 1 => count + 1, _ => rng.below(count.max(1)) }),
            9 => if with_reset { count = 0; Op::Reset } else { Op::Root },
            _ => { let k = rng.below(count + 1); count = k; Op::Load(k) }
        };
        ops.push(o);
    }
    ops.push(Op::Root);
    if count > 0 { ops.push(Op::Prove(count - 1)); }
    ops.push(Op::Prove(count));
    ops
}

fn run_c11(args: &Args, out: &mut Out) {
    let mut rng = Rng::new(args.seed);
    if let Some(p) = &args.replay {
        let v = read_replay(p);
        let ops: Vec<Op> = v["ops"].as_array().unwrap().iter().map(op_from_json).collect();
        c11_case(out, ops, "replay");
        return;
    }
    // corpus: the reset witnesses from DESIGN §7 F4 run first
    let d = |x: u8| Op::Push(vec![x]);
    c11_case(out, vec![d(1), d(2), d(3), Op::Reset, Op::Prove(0)], "corpus-reset-prove");
    c11_case(out, vec![d(1), d(2), d(3), Op::Reset, d(4), d(5), Op::Root, Op::Prove(0), Op::Prove(1), Op::Prove(3)], "corpus-reset-push-prove");
    c11_case(out, vec![d(1), d(2), d(3), d(4), d(5), Op::Load(3), Op::Root, Op::Prove(2), Op::Prove(3), d(9), Op::Root, Op::Prove(3)], "corpus-load");
    // structured sweeps: a longer history, then reset / reload at a shorter count, refill with
    // DIFFERENT data up to every shorter count, and request every proof (stale nodes of the longer
    // history are still in storage at the positions the shorter tree computes on the fly)
    let lmax = args.scale(11, 40) as u64;
    for long in 1..=lmax {
        for short in 1..=long {
            if !args.thorough() && (long + short) % 3 != 0 && long > 8 { continue; }
            let mut ops: Vec<Op> = (0..long).map(|x| Op::Push(vec![x as u8, 1])).collect();
            ops.push(Op::Reset);
            ops.extend((0..short).map(|x| Op::Push(vec![x as u8, 2])));
            ops.push(Op::Root);
            ops.extend((0..=short).map(Op::Prove));
            c11_case(out, ops, "sweep-reset-refill");
            let mut ops: Vec<Op> = (0..long).map(|x| Op::Push(vec![x as u8, 3])).collect();
            ops.push(Op::Load(short));
            ops.push(Op::Root);
            ops.extend((0..=short).map(Op::Prove));
            ops.push(Op::Push(vec![9, 9]));
            ops.extend((0..=short + 1).map(Op::Prove));
            c11_case(out, ops, "sweep-reload");
        }
    }
    let n = args.scale(150, 5000);
    for k in 0..n {
        let ops = gen_history(&mut rng, if k % 5 == 0 { 40 } else { 14 }, k % 3 != 0);
        c11_case(out, ops, if k % 3 != 0 { "with-reset" } else { "push-load-prove" });
    }
}

fn main() {
    quiet_panics();
    let args = Args::parse();
    let mut out = Out::new();
    let header = "From FV Require Import Base.Bytes Merkle.BinaryModel Run.Bmt.\nOpen Scope N_scope.";
    match args.prop.as_str() {
        "C09" => {
            run_c09(&args, &mut out);
            out.write(&args, header, "roots_case", "bad_roots");
        }
        "C10" => {
            run_c10(&args, &mut out);
            out.write(&args, header, "bcase", "bad_bcases");
        }
        "C11" => {
            run_c11(&args, &mut out);
            out.write(&args, header, "bcase", "bad_bcases");
        }
        p => {
            eprintln!("bmt: unknown property {p}");
            std::process::exit(2);
        }
    }
}
