//! Upgrade family (C35): histories of Create / Blob / Upload / Upgrade transactions (and block
//! production moving the current versions) run through the real `Interpreter` / `Transactor`
//! entry points on ONE `MemoryStorage`.  After every event the verdict (Ok / error kind) and a
//! canonical sorted dump of the tables are recorded; the Gallina L1 model (coq/Upgrade/
//! UpgradeModel.v, via coq/Run/Upgrade.v) replays the history and must reproduce every verdict
//! and every dump.  Independently, a reference state machine written here from the property
//! text is run alongside (implementation-level oracle): verdicts and tables must agree with it
//! and a failed transaction must leave the tables (and the whole `MemoryStorage`) unchanged.
use fuel_vm::checked_transaction::{Checked, IntoChecked};
use fuel_vm::fuel_asm::{op, PanicReason};
use fuel_vm::fuel_crypto::Hasher;
use fuel_vm::fuel_storage::{StorageAsRef, StorageInspect};
use fuel_vm::fuel_tx::{
    field::UpgradePurpose as UpgradePurposeField, policies::Policies, BlobBody, BlobIdExt, BlobId, Bytes32, ConsensusParameters, Contract, ContractId, Input, Output, Salt,
    StorageSlot, Transaction, UpgradePurpose, UploadSubsection, Witness,
};
use fuel_vm::fuel_types::AssetId;
use fuel_vm::interpreter::{Interpreter, InterpreterParams, MemoryInstance};
use fuel_vm::prelude::{Blob, Create, InterpreterStorage, Script, Upgrade, Upload};
use fuel_vm::storage::{BlobData, ContractsRawCode, MemoryStorage, UploadedBytecode};
use fuel_vm::transactor::Transactor;
use fuel_vm::error::{Bug, BugVariant, InterpreterError};
use fvh::*;
use serde_json::{json, Value};
use std::collections::{BTreeMap, BTreeSet};
use std::convert::Infallible;

const AMOUNT: u64 = 1000;
type B32 = [u8; 32];

// ------------------------------------------------------------------ neutral history events
#[derive(Clone, Debug, PartialEq)]
enum Ev {
    /// `via`: 0 Interpreter::{deploy,..}(Ready) 1 Interpreter::transact(Ready)
    ///        2 Transactor::{deploy,..}(Checked) 3 Transactor::transact(Checked)
    Deploy { salt: B32, code: Vec<u8>, slots: Vec<(B32, B32)>, via: u8 },
    Blob { data: Vec<u8>, via: u8 },
    /// subsection `idx` of `split_bytecode(bytecode, chunk)`
    Upload { bytecode: Vec<u8>, chunk: usize, idx: usize, via: u8 },
    /// ConsensusParameters::standard() with block_gas_limit := variant
    UpgradeCp { variant: u64, via: u8 },
    UpgradeSt { root: B32, via: u8 },
    SetCp(u32),
    SetSt(u32),
}

fn ev_json(e: &Ev) -> Value {
    match e {
        Ev::Deploy { salt, code, slots, via } => json!({"k":"deploy","salt":hexs(salt),"code":hexs(code),
            "slots": slots.iter().map(|(k,v)| json!([hexs(k),hexs(v)])).collect::<Vec<_>>(), "via": via}),
        Ev::Blob { data, via } => json!({"k":"blob","data":hexs(data),"via":via}),
        Ev::Upload { bytecode, chunk, idx, via } => json!({"k":"upload","bytecode":hexs(bytecode),"chunk":chunk,"idx":idx,"via":via}),
        Ev::UpgradeCp { variant, via } => json!({"k":"upgrade_cp","variant":variant,"via":via}),
        Ev::UpgradeSt { root, via } => json!({"k":"upgrade_st","root":hexs(root),"via":via}),
        Ev::SetCp(v) => json!({"k":"set_cp","v":v}),
        Ev::SetSt(v) => json!({"k":"set_st","v":v}),
    }
}
fn b32(v: &Value) -> B32 {
    let b = hex::decode(v.as_str().unwrap()).unwrap();
    let mut a = [0u8; 32];
    a.copy_from_slice(&b);
    a
}
fn hx(v: &Value) -> Vec<u8> {
    hex::decode(v.as_str().unwrap()).unwrap()
}
fn ev_from_json(v: &Value) -> Ev {
    let via = v["via"].as_u64().unwrap_or(0) as u8;
    match v["k"].as_str().unwrap() {
        "deploy" => Ev::Deploy {
            salt: b32(&v["salt"]),
            code: hx(&v["code"]),
            slots: v["slots"].as_array().unwrap().iter().map(|p| (b32(&p[0]), b32(&p[1]))).collect(),
            via,
        },
        "blob" => Ev::Blob { data: hx(&v["data"]), via },
        "upload" => Ev::Upload { bytecode: hx(&v["bytecode"]), chunk: v["chunk"].as_u64().unwrap() as usize, idx: v["idx"].as_u64().unwrap() as usize, via },
        "upgrade_cp" => Ev::UpgradeCp { variant: v["variant"].as_u64().unwrap(), via },
        "upgrade_st" => Ev::UpgradeSt { root: b32(&v["root"]), via },
        "set_cp" => Ev::SetCp(v["v"].as_u64().unwrap() as u32),
        "set_st" => Ev::SetSt(v["v"].as_u64().unwrap() as u32),
        k => panic!("unknown event kind {k}"),
    }
}
fn ev_kind(e: &Ev) -> &'static str {
    match e {
        Ev::Deploy { .. } => "deploy",
        Ev::Blob { .. } => "blob",
        Ev::Upload { .. } => "upload",
        Ev::UpgradeCp { .. } => "consensus-upgrade",
        Ev::UpgradeSt { .. } => "state-transition-upgrade",
        Ev::SetCp(_) => "set-cp-version",
        Ev::SetSt(_) => "set-st-version",
    }
}

// ------------------------------------------------------------------ verdicts
#[derive(Clone, Copy, Debug, PartialEq, Eq, PartialOrd, Ord)]
enum Verdict {
    Ok,
    ContractIdAlreadyDeployed,
    BlobIdAlreadyUploaded,
    BytecodeAlreadyUploaded,
    ThePartIsNotSequentiallyConnected,
    UnknownStateTransactionBytecodeRoot,
    OverridingConsensusParameters,
    OverridingStateTransactionBytecode,
    ArithmeticOverflow,
    BugNextSubsectionIndexIsHigherThanTotalNumberOfParts,
    BugUncomputableRefund,
    /// anything else (host panic, check error, other panic reason): never produced by the model
    Other,
}
impl Verdict {
    fn coq(self) -> String {
        match self {
            Verdict::Ok => "Ok".into(),
            Verdict::Other => "(Err MalformedTransaction)".into(),
            v => format!("(Err {:?})", v),
        }
    }
}
fn verdict_of(r: &Result<(), InterpreterError<Infallible>>) -> Verdict {
    match r {
        Ok(()) => Verdict::Ok,
        Err(e) => verdict_of_err(e),
    }
}
fn verdict_of_err(e: &InterpreterError<Infallible>) -> Verdict {
    match e {
        InterpreterError::Panic(p) => match p {
            PanicReason::ContractIdAlreadyDeployed => Verdict::ContractIdAlreadyDeployed,
            PanicReason::BlobIdAlreadyUploaded => Verdict::BlobIdAlreadyUploaded,
            PanicReason::BytecodeAlreadyUploaded => Verdict::BytecodeAlreadyUploaded,
            PanicReason::ThePartIsNotSequentiallyConnected => Verdict::ThePartIsNotSequentiallyConnected,
            PanicReason::UnknownStateTransactionBytecodeRoot => Verdict::UnknownStateTransactionBytecodeRoot,
            PanicReason::OverridingConsensusParameters => Verdict::OverridingConsensusParameters,
            PanicReason::OverridingStateTransactionBytecode => Verdict::OverridingStateTransactionBytecode,
            PanicReason::ArithmeticOverflow => Verdict::ArithmeticOverflow,
            _ => Verdict::Other,
        },
        InterpreterError::Bug(b) => bug_verdict(b),
        _ => Verdict::Other,
    }
}
fn bug_verdict(b: &Bug) -> Verdict {
    let s = format!("{:?}", b);
    if s.contains(&format!("{:?}", BugVariant::NextSubsectionIndexIsHigherThanTotalNumberOfParts)) {
        Verdict::BugNextSubsectionIndexIsHigherThanTotalNumberOfParts
    } else if s.contains(&format!("{:?}", BugVariant::UncomputableRefund)) {
        Verdict::BugUncomputableRefund
    } else {
        Verdict::Other
    }
}

// ------------------------------------------------------------------ canonical dump
#[derive(Clone, Debug, PartialEq, Eq, Default)]
struct Dump {
    contracts: BTreeMap<B32, Vec<u8>>,
    state: BTreeMap<(B32, B32), Vec<u8>>,
    blobs: BTreeMap<B32, Vec<u8>>,
    /// root -> (completed?, bytecode so far, uploaded_subsections_number (0 when completed))
    uploads: BTreeMap<B32, (bool, Vec<u8>, u16)>,
    cpv: BTreeMap<u32, B32>,
    stv: BTreeMap<u32, B32>,
    cp_cur: u32,
    st_cur: u32,
}
/// Per-case interner: every 32-byte identifier / longer byte string is bound once by a `let`
/// in front of the case term and referred to by name afterwards (string literals are what makes
/// elaboration of a case file slow).
#[derive(Default)]
struct Interner {
    names: BTreeMap<Vec<u8>, String>,
    bnames: BTreeMap<Vec<u8>, String>,
    lets: Vec<String>,
}
impl Interner {
    fn id(&mut self, b: &B32) -> String {
        if let Some(n) = self.names.get(&b[..]) {
            return n.clone();
        }
        let n = format!("i{}", self.names.len());
        self.lets.push(format!("let {} := idn \"{}\" in", n, hex::encode(b)));
        self.names.insert(b.to_vec(), n.clone());
        n
    }
    fn bytes(&mut self, b: &[u8]) -> String {
        if b.len() < 4 {
            return coq_bytes(b);
        }
        if let Some(n) = self.bnames.get(b) {
            return n.clone();
        }
        let n = format!("b{}", self.bnames.len());
        self.lets.push(format!("let {} := hex \"{}\" in", n, hex::encode(b)));
        self.bnames.insert(b.to_vec(), n.clone());
        n
    }
}
impl Dump {
    fn coq(&self, it: &mut Interner) -> String {
        let contracts: Vec<String> = self.contracts.iter().map(|(k, v)| coq_pair(&it.id(k), &it.bytes(v))).collect();
        let state: Vec<String> = self.state.iter().map(|((c, k), v)| { let ck = coq_pair(&it.id(c), &it.id(k)); coq_pair(&ck, &it.bytes(v)) }).collect();
        let blobs: Vec<String> = self.blobs.iter().map(|(k, v)| coq_pair(&it.id(k), &it.bytes(v))).collect();
        let uploads: Vec<String> = self
            .uploads
            .iter()
            .map(|(k, (c, b, n))| {
                let u = if *c { format!("(Completed {})", it.bytes(b)) } else { format!("(Uncompleted {} {})", it.bytes(b), n) };
                coq_pair(&it.id(k), &u)
            })
            .collect();
        let cpv: Vec<String> = self.cpv.iter().map(|(k, v)| coq_pair(&coq_n(*k as u64), &it.bytes(v))).collect();
        let stv: Vec<String> = self.stv.iter().map(|(k, v)| coq_pair(&coq_n(*k as u64), &it.id(v))).collect();
        format!(
            "{{| m_contracts := {}; m_state := {}; m_blobs := {}; m_uploads := {}; m_cpv := {}; m_stv := {}; m_cp_cur := {}; m_st_cur := {} |}}",
            coq_list(&contracts), coq_list(&state), coq_list(&blobs), coq_list(&uploads), coq_list(&cpv), coq_list(&stv), self.cp_cur, self.st_cur
        )
    }
    fn json(&self) -> Value {
        json!({
            "contracts": self.contracts.iter().map(|(k,v)| json!([hexs(k),hexs(v)])).collect::<Vec<_>>(),
            "state": self.state.iter().map(|((c,k),v)| json!([hexs(c),hexs(k),hexs(v)])).collect::<Vec<_>>(),
            "blobs": self.blobs.iter().map(|(k,v)| json!([hexs(k),hexs(v)])).collect::<Vec<_>>(),
            "uploads": self.uploads.iter().map(|(k,(c,b,n))| json!([hexs(k),c,hexs(b),n])).collect::<Vec<_>>(),
            "cp_versions": self.cpv.iter().map(|(k,v)| json!([k,hexs(v)])).collect::<Vec<_>>(),
            "st_versions": self.stv.iter().map(|(k,v)| json!([k,hexs(v)])).collect::<Vec<_>>(),
            "cp_cur": self.cp_cur, "st_cur": self.st_cur,
        })
    }
}

fn cp_identity(cp: &ConsensusParameters) -> B32 {
    *Hasher::hash(postcard::to_allocvec(cp).expect("serializable consensus parameters"))
}

/// Universe of ids the history ever mentions (contracts / blobs have no iterator in MemoryStorage).
#[derive(Default)]
struct Universe {
    contracts: BTreeSet<B32>,
    blobs: BTreeSet<B32>,
}

fn dump_storage(st: &mut MemoryStorage, u: &Universe) -> Dump {
    let mut d = Dump::default();
    for id in &u.contracts {
        let cid = ContractId::from(*id);
        if let Some(c) = <MemoryStorage as StorageInspect<ContractsRawCode>>::get(st, &cid).unwrap() {
            d.contracts.insert(*id, c.as_ref().as_ref().to_vec());
        }
    }
    for (k, v) in st.all_contract_state() {
        let c: B32 = **k.contract_id();
        let s: B32 = **k.state_key();
        d.state.insert((c, s), v.as_ref().to_vec());
    }
    for id in &u.blobs {
        let bid = BlobId::from(*id);
        if let Some(b) = st.storage_as_ref::<BlobData>().get(&bid).unwrap() {
            d.blobs.insert(*id, b.as_ref().as_ref().to_vec());
        }
    }
    for (root, ub) in st.state_transition_bytecodes_mut().iter() {
        let e = match ub {
            UploadedBytecode::Uncompleted { bytecode, uploaded_subsections_number } => (false, bytecode.clone(), *uploaded_subsections_number),
            UploadedBytecode::Completed(b) => (true, b.clone(), 0),
        };
        d.uploads.insert(**root, e);
    }
    for (v, cp) in st.consensus_parameters_versions_mut().iter() {
        d.cpv.insert(*v, cp_identity(cp));
    }
    for (v, r) in st.state_transition_bytecodes_versions_mut().iter() {
        d.stv.insert(*v, **r);
    }
    d.cp_cur = st.consensus_parameters_version().unwrap();
    d.st_cur = st.state_transition_version().unwrap();
    d
}

// ------------------------------------------------------------------ reference state machine
// Written from the property text only.
#[derive(Clone, Default)]
struct RefMachine {
    contracts: BTreeMap<B32, (Vec<u8>, BTreeMap<B32, B32>)>,
    blobs: BTreeMap<B32, Vec<u8>>,
    /// root -> (parts so far, total, complete?)
    uploads: BTreeMap<B32, (Vec<Vec<u8>>, u16, bool)>,
    cpv: BTreeMap<u32, B32>,
    stv: BTreeMap<u32, B32>,
    cp_cur: u32,
    st_cur: u32,
}
/// abstract content of a transaction, as the reference machine (and the Coq model) sees it
#[derive(Clone, Debug)]
enum Abs {
    Deploy { id: B32, code: Vec<u8>, slots: Vec<(B32, B32)> },
    Blob { id: B32, data: Vec<u8> },
    Upload { root: B32, idx: u16, total: u16, part: Vec<u8> },
    UpgradeCp { ident: B32 },
    UpgradeSt { root: B32 },
    SetCp(u32),
    SetSt(u32),
}
impl Abs {
    fn coq(&self, it: &mut Interner) -> String {
        match self {
            Abs::Deploy { id, code, slots } => {
                let sl: Vec<String> = slots.iter().map(|(k, v)| coq_pair(&it.id(k), &it.bytes(v))).collect();
                format!("ETx (Deploy {} {} {})", it.id(id), it.bytes(code), coq_list(&sl))
            }
            Abs::Blob { id, data } => format!("ETx (Blob {} {})", it.id(id), it.bytes(data)),
            Abs::Upload { root, idx, total, part } => format!("ETx (Upload {} {} {} {})", it.id(root), idx, total, it.bytes(part)),
            Abs::UpgradeCp { ident } => format!("ETx (UpgradeConsensus {})", it.bytes(ident)),
            Abs::UpgradeSt { root } => format!("ETx (UpgradeStateTransition {})", it.id(root)),
            Abs::SetCp(v) => format!("ESetCpVersion {}", v),
            Abs::SetSt(v) => format!("ESetStVersion {}", v),
        }
    }
}
impl RefMachine {
    fn next(v: u32) -> u32 {
        v.saturating_add(1)
    }
    /// failed => self unchanged
    fn apply(&mut self, a: &Abs) -> Verdict {
        match a {
            Abs::Deploy { id, code, slots } => {
                if self.contracts.contains_key(id) {
                    return Verdict::ContractIdAlreadyDeployed;
                }
                self.contracts.insert(*id, (code.clone(), slots.iter().cloned().collect()));
                Verdict::Ok
            }
            Abs::Blob { id, data } => {
                if self.blobs.contains_key(id) {
                    return Verdict::BlobIdAlreadyUploaded;
                }
                self.blobs.insert(*id, data.clone());
                Verdict::Ok
            }
            Abs::Upload { root, idx, total, part } => {
                let e = self.uploads.get(root).cloned().unwrap_or((vec![], *total, false));
                if e.2 {
                    return Verdict::BytecodeAlreadyUploaded;
                }
                if *idx as usize != e.0.len() {
                    return Verdict::ThePartIsNotSequentiallyConnected;
                }
                let mut parts = e.0;
                parts.push(part.clone());
                let complete = parts.len() == *total as usize;
                self.uploads.insert(*root, (parts, *total, complete));
                Verdict::Ok
            }
            Abs::UpgradeCp { ident } => {
                let v = Self::next(self.cp_cur);
                if self.cpv.contains_key(&v) {
                    return Verdict::OverridingConsensusParameters;
                }
                self.cpv.insert(v, *ident);
                Verdict::Ok
            }
            Abs::UpgradeSt { root } => {
                if !self.uploads.get(root).map(|e| e.2).unwrap_or(false) {
                    return Verdict::UnknownStateTransactionBytecodeRoot;
                }
                let v = Self::next(self.st_cur);
                if self.stv.contains_key(&v) {
                    return Verdict::OverridingStateTransactionBytecode;
                }
                self.stv.insert(v, *root);
                Verdict::Ok
            }
            Abs::SetCp(v) => {
                self.cp_cur = *v;
                Verdict::Ok
            }
            Abs::SetSt(v) => {
                self.st_cur = *v;
                Verdict::Ok
            }
        }
    }
    fn dump(&self) -> Dump {
        let mut d = Dump::default();
        for (id, (code, slots)) in &self.contracts {
            d.contracts.insert(*id, code.clone());
            for (k, v) in slots {
                d.state.insert((*id, *k), v.to_vec());
            }
        }
        d.blobs = self.blobs.clone();
        for (r, (parts, _total, complete)) in &self.uploads {
            let n = if *complete { 0 } else { parts.len() as u16 };
            d.uploads.insert(*r, (*complete, parts.concat(), n));
        }
        d.cpv = self.cpv.clone();
        d.stv = self.stv.clone();
        d.cp_cur = self.cp_cur;
        d.st_cur = self.st_cur;
        d
    }
}

// ------------------------------------------------------------------ building real transactions
fn predicate() -> Vec<u8> {
    vec![op::ret(1)].into_iter().collect()
}
fn owner() -> fuel_vm::fuel_types::Address {
    Input::predicate_owner(predicate())
}
fn valid_input() -> Input {
    Input::coin_predicate(Default::default(), owner(), AMOUNT, AssetId::BASE, Default::default(), Default::default(), predicate(), vec![])
}
fn check_params() -> ConsensusParameters {
    let mut cp = ConsensusParameters::standard();
    cp.set_privileged_address(owner());
    cp
}
fn cp_variant(variant: u64) -> ConsensusParameters {
    let mut cp = ConsensusParameters::standard();
    cp.set_block_gas_limit(variant);
    cp
}

enum Built {
    Create(Checked<Create>),
    Blob(Checked<Blob>),
    Upload(Checked<Upload>),
    Upgrade(Checked<Upgrade>),
    Env,
}

/// Build the real (checked) transaction of an event + its abstract content.
fn build(e: &Ev) -> Result<(Built, Abs), String> {
    let policies = Policies::new().with_max_fee(AMOUNT);
    let params = check_params();
    match e {
        Ev::Deploy { salt, code, slots, .. } => {
            let salt_ = Salt::from(*salt);
            let mut sl: Vec<StorageSlot> = slots.iter().map(|(k, v)| StorageSlot::new(Bytes32::from(*k), Bytes32::from(*v))).collect();
            sl.sort();
            let root = Contract::root_from_code(code);
            let state_root = Contract::initial_state_root(sl.iter());
            let id = Contract::id(&salt_, &root, &state_root);
            let tx = Transaction::create(
                0,
                policies,
                salt_,
                sl.clone(),
                vec![valid_input()],
                vec![Output::contract_created(id, state_root), Output::change(owner(), 0, AssetId::BASE)],
                vec![Witness::from(code.clone())],
            );
            let c = tx.into_checked_basic(1u32.into(), &params).map_err(|e| format!("create check: {e:?}"))?;
            let slots_sorted: Vec<(B32, B32)> = sl.iter().map(|s| (**s.key(), **s.value())).collect();
            Ok((Built::Create(c), Abs::Deploy { id: *id, code: code.clone(), slots: slots_sorted }))
        }
        Ev::Blob { data, .. } => {
            let id = BlobId::compute(data);
            let tx = Transaction::blob(
                BlobBody { id, witness_index: 0 },
                policies,
                vec![valid_input()],
                vec![Output::change(owner(), 0, AssetId::BASE)],
                vec![Witness::from(data.clone())],
            );
            let c = tx.into_checked_basic(1u32.into(), &params).map_err(|e| format!("blob check: {e:?}"))?;
            Ok((Built::Blob(c), Abs::Blob { id: *id, data: data.clone() }))
        }
        Ev::Upload { bytecode, chunk, idx, .. } => {
            let subs = UploadSubsection::split_bytecode(bytecode, *chunk).map_err(|e| format!("split: {e:?}"))?;
            let sub = subs.get(*idx).ok_or("subsection index out of range")?.clone();
            let abs = Abs::Upload { root: *sub.root, idx: sub.subsection_index, total: sub.subsections_number, part: sub.subsection.clone() };
            let tx = Transaction::upload_from_subsection(sub, policies, vec![valid_input()], vec![Output::change(owner(), 0, AssetId::BASE)], vec![]);
            let c = tx.into_checked_basic(1u32.into(), &params).map_err(|e| format!("upload check: {e:?}"))?;
            Ok((Built::Upload(c), abs))
        }
        Ev::UpgradeCp { variant, .. } => {
            let cp = cp_variant(*variant);
            let tx = Transaction::upgrade_consensus_parameters(&cp, policies, vec![valid_input()], vec![Output::change(owner(), 0, AssetId::BASE)], vec![])
                .map_err(|e| format!("upgrade build: {e:?}"))?;
            let ident = match tx.upgrade_purpose() {
                UpgradePurpose::ConsensusParameters { checksum, .. } => **checksum,
                _ => unreachable!(),
            };
            let c = tx.into_checked_basic(1u32.into(), &params).map_err(|e| format!("upgrade check: {e:?}"))?;
            Ok((Built::Upgrade(c), Abs::UpgradeCp { ident }))
        }
        Ev::UpgradeSt { root, .. } => {
            let tx = Transaction::upgrade(
                UpgradePurpose::StateTransition { root: Bytes32::from(*root) },
                policies,
                vec![valid_input()],
                vec![Output::change(owner(), 0, AssetId::BASE)],
                vec![],
            );
            let c = tx.into_checked_basic(1u32.into(), &params).map_err(|e| format!("upgrade check: {e:?}"))?;
            Ok((Built::Upgrade(c), Abs::UpgradeSt { root: *root }))
        }
        Ev::SetCp(v) => Ok((Built::Env, Abs::SetCp(*v))),
        Ev::SetSt(v) => Ok((Built::Env, Abs::SetSt(*v))),
    }
}


macro_rules! run_tx {
    ($storage:expr, $via:expr, $checked:expr, $ty:ty, $direct:ident, $tdirect:ident) => {{
        let st: &mut MemoryStorage = $storage;
        let r: Verdict = match $via {
            0 => {
                let mut vm = Interpreter::<MemoryInstance, &mut MemoryStorage, Script>::with_storage(MemoryInstance::new(), st, InterpreterParams::default());
                verdict_of(&vm.$direct($checked.test_into_ready()).map(|_| ()))
            }
            1 => {
                let mut vm = Interpreter::<MemoryInstance, &mut MemoryStorage, $ty>::with_storage(MemoryInstance::new(), st, InterpreterParams::default());
                verdict_of(&vm.transact($checked.test_into_ready()).map(|_| ()))
            }
            2 => {
                let mut t = Transactor::<MemoryInstance, &mut MemoryStorage, Script>::new(MemoryInstance::new(), st, InterpreterParams::default());
                verdict_of(&t.$tdirect($checked).map(|_| ()))
            }
            _ => {
                let mut t = Transactor::<MemoryInstance, &mut MemoryStorage, $ty>::new(MemoryInstance::new(), st, InterpreterParams::default());
                t.transact($checked);
                match t.result() {
                    Ok(_) => Verdict::Ok,
                    Err(e) => verdict_of_err(e),
                }
            }
        };
        r
    }};
}

fn via_of(e: &Ev) -> u8 {
    match e {
        Ev::Deploy { via, .. } | Ev::Blob { via, .. } | Ev::Upload { via, .. } | Ev::UpgradeCp { via, .. } | Ev::UpgradeSt { via, .. } => *via,
        _ => 0,
    }
}

fn execute(storage: &mut MemoryStorage, e: &Ev, built: Built) -> Verdict {
    let via = via_of(e) % 4;
    match built {
        Built::Create(c) => run_tx!(storage, via, c, Create, deploy, deploy),
        Built::Blob(c) => run_tx!(storage, via, c, Blob, blob, blob),
        Built::Upload(c) => run_tx!(storage, via, c, Upload, upload, upload),
        Built::Upgrade(c) => run_tx!(storage, via, c, Upgrade, upgrade, upgrade),
        Built::Env => {
            match e {
                Ev::SetCp(v) => storage.set_consensus_parameters_version(*v),
                Ev::SetSt(v) => storage.set_state_transition_version(*v),
                _ => {}
            }
            Verdict::Ok
        }
    }
}

// ------------------------------------------------------------------ one history
struct Limiter {
    per_class: BTreeMap<String, u32>,
}
impl Limiter {
    fn report(&mut self, out: &mut Out, class: &str, what: &str, replay: Value) {
        let n = self.per_class.entry(class.to_string()).or_insert(0);
        *n += 1;
        out.count(&format!("oracle-fail:{class}"));
        if *n <= 2 {
            out.oracle_fail(class, what, replay);
        }
    }
}

fn history_json(cp0: u32, st0: u32, evs: &[Ev]) -> Value {
    json!({"kind":"history","cp0":cp0,"st0":st0,"events":evs.iter().map(ev_json).collect::<Vec<_>>()})
}

fn diff_tables(a: &Dump, b: &Dump) -> Vec<&'static str> {
    let mut v = vec![];
    if a.contracts != b.contracts { v.push("contracts"); }
    if a.state != b.state { v.push("contract_state"); }
    if a.blobs != b.blobs { v.push("blobs"); }
    if a.uploads != b.uploads { v.push("uploaded_bytecodes"); }
    if a.cpv != b.cpv { v.push("consensus_parameters_versions"); }
    if a.stv != b.stv { v.push("state_transition_versions"); }
    if a.cp_cur != b.cp_cur || a.st_cur != b.st_cur { v.push("current_versions"); }
    v
}

fn run_history(out: &mut Out, lim: &mut Limiter, cp0: u32, st0: u32, evs: &[Ev], class: &str, model_case: bool) {
    let mut storage = MemoryStorage::new_with_versions(1u32.into(), ContractId::default(), cp0, st0);
    let mut reference = RefMachine { cp_cur: cp0, st_cur: st0, ..Default::default() };
    let mut uni = Universe::default();
    let mut it = Interner::default();
    let mut steps: Vec<String> = vec![];
    let mut steps_json: Vec<Value> = vec![];
    let mut oracle_live = true;
    let (mut n_ok, mut n_err) = (0u32, 0u32);
    let mut kinds = BTreeSet::new();
    for (i, e) in evs.iter().enumerate() {
        let (built, abs) = match build(e) {
            Ok(x) => x,
            Err(msg) => {
                out.notes.push(format!("event {i} of a generated history could not be built: {msg}"));
                out.count("unbuildable-event");
                break;
            }
        };
        match &abs {
            Abs::Deploy { id, .. } => { uni.contracts.insert(*id); }
            Abs::Blob { id, .. } => { uni.blobs.insert(*id); }
            _ => {}
        }
        let before = dump_storage(&mut storage, &uni);
        let before_dbg = format!("{:?}", storage);
        let res = guarded(|| execute(&mut storage, e, built));
        let verdict = match &res {
            Ok(v) => *v,
            Err(_) => Verdict::Other,
        };
        let after = dump_storage(&mut storage, &uni);
        let after_dbg = format!("{:?}", storage);
        if verdict == Verdict::Ok { n_ok += 1 } else { n_err += 1 }
        kinds.insert(ev_kind(e));
        out.count(&format!("ev:{}:{}", ev_kind(e), if verdict == Verdict::Ok { "ok".to_string() } else { format!("{:?}", verdict) }));
        // `None` = the dump is identical to the previous one (the model must then be unchanged too)
        let d = if after == before { "None".to_string() } else { format!("(Some {})", after.coq(&mut it)) };
        steps.push(format!("({}, {}, {})", abs.coq(&mut it), verdict.coq(), d));
        steps_json.push(json!({"event": ev_json(e), "verdict": format!("{:?}", verdict)}));

        // ---------------- implementation-level oracle
        out.oracle_evaluations += 1;
        let replay = history_json(cp0, st0, &evs[..=i]);
        if let Err(p) = &res {
            lim.report(out, "host-panic", &format!("{} transaction panicked the host at step {i}: {p}", ev_kind(e)), replay.clone());
        }
        // (a) failed transaction => nothing changed (tables of the dump AND the whole MemoryStorage)
        if verdict != Verdict::Ok && (before != after || before_dbg != after_dbg) {
            let changed = diff_tables(&before, &after);
            let cls = match e {
                Ev::UpgradeCp { .. } | Ev::UpgradeSt { .. } if changed.iter().all(|t| t.ends_with("versions")) && !changed.is_empty() => {
                    "failed-upgrade-overwrites-version".to_string()
                }
                _ => format!("failed-{}-changes-storage", ev_kind(e)),
            };
            lim.report(
                out,
                &cls,
                &format!(
                    "step {i}: {} transaction failed with {:?} but changed {:?} (before {} / after {})",
                    ev_kind(e), verdict, changed,
                    serde_json::to_string(&json!({"cpv": before.json()["cp_versions"], "stv": before.json()["st_versions"]})).unwrap(),
                    serde_json::to_string(&json!({"cpv": after.json()["cp_versions"], "stv": after.json()["st_versions"]})).unwrap()
                ),
                replay.clone(),
            );
        }
        if oracle_live {
            let want = reference.apply(&abs);
            let want_dump = reference.dump();
            if want != verdict {
                lim.report(out, &format!("verdict-mismatch-{}", ev_kind(e)),
                    &format!("step {i}: {} transaction: implementation answered {:?}, specification says {:?}", ev_kind(e), verdict, want), replay.clone());
                oracle_live = false;
            } else if want_dump != after {
                let changed = diff_tables(&want_dump, &after);
                if verdict == Verdict::Ok {
                    lim.report(out, &format!("tables-mismatch-after-{}", ev_kind(e)),
                        &format!("step {i}: after a successful {} transaction the tables {:?} differ from the specification", ev_kind(e), changed), replay.clone());
                    oracle_live = false;
                } else {
                    // already reported under (a); re-synchronise the version tables and go on
                    reference.cpv = after.cpv.clone();
                    reference.stv = after.stv.clone();
                    if reference.dump() != after {
                        oracle_live = false;
                    }
                }
            }
        }
    }
    if model_case {
        let coq = format!("({}\n {{| hc_cp0 := {}; hc_st0 := {}; hc_steps := [\n   {}] |}})", it.lets.join("\n "), cp0, st0, steps.join(";\n   "));
        let key = format!("{:x}", u64::from_be_bytes(Hasher::hash(coq.as_bytes())[..8].try_into().unwrap()));
        out.push(Case {
            coq,
            json: json!({"kind":"history","cp0":cp0,"st0":st0,"steps":steps_json}),
            key,
            nontrivial: n_ok >= 1 && n_err >= 1 && kinds.len() >= 3,
            class: class.to_string(),
        });
    } else {
        out.count(&format!("oracle-only:{class}"));
    }
}

// ------------------------------------------------------------------ generators
struct Pools {
    contracts: Vec<(B32, Vec<u8>, Vec<(B32, B32)>)>,
    blobs: Vec<Vec<u8>>,
    bytecodes: Vec<(Vec<u8>, usize, usize, B32)>, // bytecode, chunk, number of subsections, root
    variants: Vec<u64>,
}
fn gen_pools(rng: &mut Rng) -> Pools {
    let mut contracts = vec![];
    for _ in 0..rng.range(2, 4) {
        let code_len = *rng.pick(&[0usize, 1, 4, 7, 8, 12, 20]);
        let code = rng.bytes(code_len);
        let mut slots = vec![];
        for _ in 0..rng.below(3) {
            let mut k = [0u8; 32];
            k[31] = rng.below(4) as u8; // few keys: equal keys across contracts are common
            if rng.chance(1, 4) { k[0] = 0xff; }
            if !slots.iter().any(|(kk, _): &(B32, B32)| *kk == k) {
                slots.push((k, rng.bytes32()));
            }
        }
        contracts.push((rng.bytes32(), code, slots));
    }
    // same code & slots under another salt: different id
    if rng.chance(1, 2) {
        let c = contracts[0].clone();
        contracts.push((rng.bytes32(), c.1, c.2));
    }
    let mut blobs = vec![];
    for _ in 0..rng.range(2, 3) {
        let blob_len = *rng.pick(&[0usize, 1, 5, 8, 16]);
        blobs.push(rng.bytes(blob_len));
    }
    let mut bytecodes = vec![];
    for _ in 0..rng.range(2, 4) {
        let len = rng.range(1, 28) as usize;
        let bc = rng.bytes(len);
        let chunk = *rng.pick(&[len, len.div_ceil(2), len.div_ceil(3), 4, 5, 7]).max(&1);
        let chunk = chunk.max(len.div_ceil(6)); // at most 6 subsections
        let subs = UploadSubsection::split_bytecode(&bc, chunk).unwrap();
        bytecodes.push((bc, chunk, subs.len(), *subs[0].root));
    }
    // the same bytecode split differently: a different root whose parts interleave with the first
    if rng.chance(1, 2) {
        let bc = bytecodes[0].0.clone();
        let chunk = (bytecodes[0].1 + 1).min(bc.len()).max(1);
        let subs = UploadSubsection::split_bytecode(&bc, chunk).unwrap();
        if *subs[0].root != bytecodes[0].3 {
            bytecodes.push((bc, chunk, subs.len(), *subs[0].root));
        }
    }
    let variants = vec![rng.range(1, 1 << 40), rng.range(1, 1 << 40), 30_000_000];
    Pools { contracts, blobs, bytecodes, variants }
}

fn gen_history(rng: &mut Rng, len: usize) -> (u32, u32, Vec<Ev>) {
    let p = gen_pools(rng);
    let pick_ver = |rng: &mut Rng| match rng.below(10) {
        0 => u32::MAX - 1,
        1 => u32::MAX,
        2..=5 => 0,
        _ => rng.below(200) as u32,
    };
    let (cp0, st0) = (pick_ver(rng), pick_ver(rng));
    let (mut cp_cur, mut st_cur) = (cp0, st0);
    // generator-side bookkeeping only steers towards interesting events; it is not the oracle
    let mut next_idx: Vec<usize> = vec![0; p.bytecodes.len()];
    let mut evs = vec![];
    while evs.len() < len {
        let via = rng.below(4) as u8;
        let e = match rng.below(100) {
            0..=14 => {
                let c = rng.pick(&p.contracts).clone();
                Ev::Deploy { salt: c.0, code: c.1, slots: c.2, via }
            }
            15..=26 => Ev::Blob { data: rng.pick(&p.blobs).clone(), via },
            27..=59 => {
                let b = rng.below(p.bytecodes.len() as u64) as usize;
                let (bc, chunk, n, _) = p.bytecodes[b].clone();
                let idx = match rng.below(10) {
                    0..=5 => next_idx[b].min(n - 1),                 // the expected one (or a re-send of the last)
                    6 => next_idx[b].saturating_sub(1),               // duplicate of the previous one
                    7 => (next_idx[b] + 1).min(n - 1),                // skipping ahead
                    _ => rng.below(n as u64) as usize,                // anywhere
                };
                if idx == next_idx[b] && next_idx[b] < n {
                    next_idx[b] += 1;
                }
                Ev::Upload { bytecode: bc, chunk, idx, via }
            }
            60..=71 => Ev::UpgradeCp { variant: *rng.pick(&p.variants), via },
            72..=85 => {
                // prefer roots the generator believes complete (so that Ok / Overriding are frequent)
                let done: Vec<B32> = p.bytecodes.iter().zip(next_idx.iter()).filter(|(b, n)| **n >= b.2).map(|(b, _)| b.3).collect();
                let root = if rng.chance(1, 10) {
                    rng.bytes32()
                } else if !done.is_empty() && rng.chance(3, 4) {
                    *rng.pick(&done)
                } else {
                    rng.pick(&p.bytecodes).3
                };
                Ev::UpgradeSt { root, via }
            }
            86..=92 => {
                cp_cur = match rng.below(8) {
                    0 => cp_cur,                              // stays stale
                    1 => rng.below(300) as u32,               // jumps (also backwards)
                    2 => *rng.pick(&[u32::MAX, u32::MAX - 1, u32::MAX - 2]),
                    _ => cp_cur.saturating_add(1),            // block production catches up
                };
                Ev::SetCp(cp_cur)
            }
            _ => {
                st_cur = match rng.below(8) {
                    0 => st_cur,
                    1 => rng.below(300) as u32,
                    2 => *rng.pick(&[u32::MAX, u32::MAX - 1, u32::MAX - 2]),
                    _ => st_cur.saturating_add(1),
                };
                Ev::SetSt(st_cur)
            }
        };
        evs.push(e);
    }
    (cp0, st0, evs)
}

/// Fixed corpus, run first: the two witnesses of finding F8 (repaired by the `fix:` commit in
/// upgrade_inner; they now must pass — class `failed-upgrade-overwrites-version` would report a
/// regression) and the textbook sequences.
fn corpus() -> Vec<(&'static str, u32, u32, Vec<Ev>)> {
    let bc1: Vec<u8> = (1..=10).collect();
    let bc2: Vec<u8> = (100..=107).collect();
    let root = |bc: &Vec<u8>, chunk: usize| *UploadSubsection::split_bytecode(bc, chunk).unwrap()[0].root;
    let up = |bc: &Vec<u8>, chunk: usize, idx: usize, via: u8| Ev::Upload { bytecode: bc.clone(), chunk, idx, via };
    let mut k1 = [0u8; 32];
    k1[31] = 1;
    let mut k2 = [0u8; 32];
    k2[31] = 2;
    vec![
        // F8 regression (consensus parameters): second upgrade against the stale version 0 must not overwrite version 1
        ("corpus-f8-consensus", 0, 0, vec![Ev::UpgradeCp { variant: 111, via: 0 }, Ev::UpgradeCp { variant: 222, via: 0 }]),
        // F8 regression (state transition): two completed roots, second upgrade against the stale version 5
        ("corpus-f8-state-transition", 0, 5, vec![
            up(&bc1, 10, 0, 0), up(&bc2, 8, 0, 1),
            Ev::UpgradeSt { root: root(&bc1, 10), via: 1 }, Ev::UpgradeSt { root: root(&bc2, 8), via: 3 },
        ]),
        // same, then the chain catches up and the next upgrade succeeds under current+1
        ("corpus-upgrade-sequence", 7, 7, vec![
            Ev::UpgradeCp { variant: 5, via: 2 }, Ev::SetCp(8), Ev::UpgradeCp { variant: 6, via: 3 }, Ev::UpgradeCp { variant: 5, via: 1 },
            Ev::SetCp(u32::MAX), Ev::UpgradeCp { variant: 9, via: 0 }, Ev::UpgradeCp { variant: 10, via: 0 },
        ]),
        // interleaved uploads of two roots, duplicates, out of order, after completion, upgrade before/after completion
        ("corpus-interleaved-uploads", 0, 0, vec![
            up(&bc1, 4, 1, 0), up(&bc1, 4, 0, 1), up(&bc2, 3, 0, 2), up(&bc1, 4, 0, 3), Ev::UpgradeSt { root: root(&bc1, 4), via: 0 },
            up(&bc1, 4, 2, 0), up(&bc1, 4, 1, 1), up(&bc2, 3, 1, 2), up(&bc1, 4, 2, 3), up(&bc1, 4, 2, 0),
            Ev::UpgradeSt { root: root(&bc1, 4), via: 2 }, up(&bc2, 3, 2, 0), Ev::UpgradeSt { root: root(&bc2, 3), via: 1 },
            Ev::SetSt(1), Ev::UpgradeSt { root: root(&bc2, 3), via: 1 },
        ]),
        // contracts and blobs: re-deployment / re-upload, same code under two salts, slots
        ("corpus-deploy-blob", 0, 0, vec![
            Ev::Deploy { salt: [1; 32], code: vec![1, 2, 3], slots: vec![(k1, [9; 32]), (k2, [8; 32])], via: 0 },
            Ev::Deploy { salt: [1; 32], code: vec![1, 2, 3], slots: vec![(k1, [9; 32]), (k2, [8; 32])], via: 1 },
            Ev::Deploy { salt: [2; 32], code: vec![1, 2, 3], slots: vec![(k1, [7; 32])], via: 2 },
            Ev::Deploy { salt: [3; 32], code: vec![], slots: vec![], via: 3 },
            Ev::Blob { data: vec![5, 5], via: 0 }, Ev::Blob { data: vec![5, 5], via: 1 }, Ev::Blob { data: vec![], via: 2 }, Ev::Blob { data: vec![], via: 3 },
            Ev::Deploy { salt: [2; 32], code: vec![1, 2, 3], slots: vec![(k1, [7; 32])], via: 0 },
        ]),
    ]
}

fn run_c35(args: &Args, out: &mut Out) {
    let mut rng = Rng::new(args.seed);
    let mut lim = Limiter { per_class: BTreeMap::new() };
    if let Some(p) = &args.replay {
        let v = read_replay(p);
        let evs: Vec<Ev> = v["events"].as_array().unwrap().iter().map(ev_from_json).collect();
        run_history(out, &mut lim, v["cp0"].as_u64().unwrap_or(0) as u32, v["st0"].as_u64().unwrap_or(0) as u32, &evs, "replay", true);
        return;
    }
    let model = !args.oracle_only;
    for (name, cp0, st0, evs) in corpus() {
        run_history(out, &mut lim, cp0, st0, &evs, name, model);
    }
    // structured mostly-valid stream: random histories (<= 30 events)
    let n = args.scale(150, 4000);
    for _ in 0..n {
        let len = rng.range(4, 30) as usize;
        let (cp0, st0, evs) = gen_history(&mut rng, len);
        run_history(out, &mut lim, cp0, st0, &evs, "random-history", model);
    }
    // boundary stream: short histories around the version saturation and stale versions
    let m = args.scale(30, 600);
    for _ in 0..m {
        let cur = *rng.pick(&[u32::MAX, u32::MAX - 1, u32::MAX - 2, 0, 1]);
        let bcs: Vec<Vec<u8>> = vec![rng.bytes(3), rng.bytes(5)];
        let roots: Vec<B32> = bcs.iter().map(|b| *UploadSubsection::split_bytecode(b, b.len()).unwrap()[0].root).collect();
        let mut evs = vec![
            Ev::Upload { bytecode: bcs[0].clone(), chunk: bcs[0].len(), idx: 0, via: rng.below(4) as u8 },
            Ev::Upload { bytecode: bcs[1].clone(), chunk: bcs[1].len(), idx: 0, via: rng.below(4) as u8 },
        ];
        for _ in 0..rng.range(2, 8) {
            evs.push(match rng.below(8) {
                0 => Ev::SetCp(*rng.pick(&[u32::MAX, u32::MAX - 1, cur, 0])),
                1 => Ev::SetSt(*rng.pick(&[u32::MAX, u32::MAX - 1, cur, 0])),
                2..=4 => Ev::UpgradeSt { root: *rng.pick(&roots), via: rng.below(4) as u8 },
                _ => Ev::UpgradeCp { variant: rng.range(1, 4), via: rng.below(4) as u8 },
            });
        }
        run_history(out, &mut lim, cur, cur, &evs, "version-boundary", model);
    }
    // implementation-only volume (oracle without model cases)
    let extra = if args.oracle_only { args.scale(3000, 30000) } else { args.scale(1500, 40000) };
    for _ in 0..extra {
        let len = rng.range(4, 30) as usize;
        let (cp0, st0, evs) = gen_history(&mut rng, len);
        run_history(out, &mut lim, cp0, st0, &evs, "random-history", false);
    }
}

fn main() {
    quiet_panics();
    let args = Args::parse();
    let mut out = Out::new();
    let header = "From FV Require Import Base.Bytes Upgrade.UpgradeSpec Upgrade.UpgradeModel Run.Upgrade.\nOpen Scope N_scope.";
    match args.prop.as_str() {
        "C35" => {
            run_c35(&args, &mut out);
            out.write(&args, header, "hist_case", "bad_hist");
        }
        p => {
            eprintln!("upgrade: unknown property {p}");
            std::process::exit(2);
        }
    }
}
