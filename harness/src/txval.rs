//! Neutral value form of transactions (mirrors `val` of coq/Codec/Schema.v), conversion from/to
//! the real fuel-tx types, and generators — shared by the harness binaries of C03 (txid), C04
//! (offsets) and C05 (gtf) through `#[path]` (lib.rs is not touched).
//!
//! The `Val`/`Proto` part is a verbatim copy of the corresponding part of bin/codec.rs (the
//! codec family's printer, which is validated against the Gallina codec on every C01 run); that
//! file is read-only for this family and its items are private, hence the copy.
#![allow(dead_code)]
use fuel_tx::field::*;
use fuel_tx::field::{BlobId as _, Policies as _, Salt as _, Script as _, TxPointer as _, UpgradePurpose as _};
use fuel_tx::policies::{Policies, PolicyType};
use fuel_tx::{
    Blob, BlobBody, Cacheable, Create, Input, Mint, Output, Script, StorageSlot,
    Transaction, TxPointer, Upgrade, UpgradePurpose, Upload, UploadBody, UtxoId, Witness,
};
use fuel_types::canonical::{Deserialize, Serialize};
use fuel_types::{BlobId, Bytes32, ChainId, Salt};
use fvh::*;
use serde_json::json;

pub const LIMIT: usize = fuel_types::canonical::VEC_DECODE_LIMIT;

// ------------------------------------------------------------------------------- neutral values
#[derive(Clone, PartialEq, Debug)]
pub enum Val {
    Unit,
    N(u128),
    B(Vec<u8>),
    L(Vec<Val>),
    S(Vec<Val>),
    E(usize, Vec<Val>),
}
impl Val {
    pub fn coq(&self) -> String {
        fn list(vs: &[Val]) -> String {
            coq_list(&vs.iter().map(|v| v.coq()).collect::<Vec<_>>())
        }
        match self {
            Val::Unit => "VUnit".into(),
            Val::N(n) => format!("(VN {})", n),
            Val::B(b) => format!("(VB {})", coq_pk(b)),
            Val::L(vs) => format!("(VL {})", list(vs)),
            Val::S(vs) => format!("(VS {})", list(vs)),
            Val::E(i, vs) => format!("(VE {} {})", i, list(vs)),
        }
    }
    pub fn json(&self) -> serde_json::Value {
        match self {
            Val::Unit => json!(null),
            Val::N(n) => json!({"n": n.to_string()}),
            Val::B(b) => json!({"b": hexs(b)}),
            Val::L(vs) => json!({"l": vs.iter().map(|v| v.json()).collect::<Vec<_>>()}),
            Val::S(vs) => json!({"s": vs.iter().map(|v| v.json()).collect::<Vec<_>>()}),
            Val::E(i, vs) => json!({"e": i, "f": vs.iter().map(|v| v.json()).collect::<Vec<_>>()}),
        }
    }
    pub fn from_json(j: &serde_json::Value) -> Option<Val> {
        if j.is_null() {
            return Some(Val::Unit);
        }
        let list = |x: &serde_json::Value| -> Option<Vec<Val>> { x.as_array()?.iter().map(Val::from_json).collect() };
        if let Some(n) = j.get("n") {
            return Some(Val::N(n.as_str()?.parse().ok()?));
        }
        if let Some(b) = j.get("b") {
            return Some(Val::B(hex::decode(b.as_str()?).ok()?));
        }
        if let Some(l) = j.get("l") {
            return Some(Val::L(list(l)?));
        }
        if let Some(s) = j.get("s") {
            return Some(Val::S(list(s)?));
        }
        if let Some(e) = j.get("e") {
            return Some(Val::E(e.as_u64()? as usize, list(j.get("f")?)?));
        }
        None
    }
    pub fn n(&self) -> Option<u128> {
        if let Val::N(n) = self { Some(*n) } else { None }
    }
    pub fn b(&self) -> Option<&Vec<u8>> {
        if let Val::B(b) = self { Some(b) } else { None }
    }
    pub fn s(&self) -> Option<&Vec<Val>> {
        if let Val::S(s) = self { Some(s) } else { None }
    }
    pub fn l(&self) -> Option<&Vec<Val>> {
        if let Val::L(s) = self { Some(s) } else { None }
    }
    pub fn b32(&self) -> Option<[u8; 32]> {
        self.b()?.as_slice().try_into().ok()
    }
}
/// `(pk len [w1; ..]%uint63)`: 7 bytes per primitive integer (see Run/Codec.v)
pub fn coq_pk(b: &[u8]) -> String {
    let mut s = format!("(pk {} [", b.len());
    for (i, ch) in b.chunks(7).enumerate() {
        if i > 0 {
            s.push_str("; ");
        }
        s.push_str("0x");
        s.push_str(&hex::encode(ch));
    }
    s.push_str("]%uint63)");
    s
}
pub fn vb<T: AsRef<[u8]>>(x: &T) -> Val {
    Val::B(x.as_ref().to_vec())
}
pub fn vn<T: Into<u128>>(x: T) -> Val {
    Val::N(x.into())
}

// ------------------------------------------------------------------------------- protocol types
/// A protocol type with a canonical codec, its schema name in Gen/Schemas.v, its neutral form,
/// equality modulo the fields C01 exempts, and the input class (if any) on which the round trip
/// is known to be impossible.
pub trait Proto: Serialize + Deserialize + Clone {
    const TY: &'static str;
    fn to_val(&self) -> Val;
    fn from_val(v: &Val) -> Option<Self>;
    /// equality modulo receipt `data`, panic `reason`, panic `contract_id`, `metadata`
    fn eq_exempt(&self, o: &Self) -> bool;
    /// precise name of the ill-formedness class of this value (None = well-formed)
    fn class(&self) -> Option<&'static str> {
        None
    }
}

macro_rules! eq_by_partial_eq {
    () => {
        fn eq_exempt(&self, o: &Self) -> bool {
            self == o
        }
    };
}

impl Proto for UtxoId {
    const TY: &'static str = "S_UtxoId";
    fn to_val(&self) -> Val {
        Val::S(vec![vb(self.tx_id()), vn(self.output_index())])
    }
    fn from_val(v: &Val) -> Option<Self> {
        let s = v.s()?;
        Some(UtxoId::new(s[0].b32()?.into(), s[1].n()? as u16))
    }
    eq_by_partial_eq!();
}
impl Proto for TxPointer {
    const TY: &'static str = "S_TxPointer";
    fn to_val(&self) -> Val {
        Val::S(vec![vn(*self.block_height()), vn(self.tx_index())])
    }
    fn from_val(v: &Val) -> Option<Self> {
        let s = v.s()?;
        Some(TxPointer::new((s[0].n()? as u32).into(), s[1].n()? as u16))
    }
    eq_by_partial_eq!();
}
impl Proto for StorageSlot {
    const TY: &'static str = "S_StorageSlot";
    fn to_val(&self) -> Val {
        Val::S(vec![vb(self.key()), vb(self.value())])
    }
    fn from_val(v: &Val) -> Option<Self> {
        let s = v.s()?;
        Some(StorageSlot::new(s[0].b32()?.into(), s[1].b32()?.into()))
    }
    eq_by_partial_eq!();
}
impl Proto for Witness {
    const TY: &'static str = "S_Witness";
    fn to_val(&self) -> Val {
        Val::S(vec![Val::B(self.as_vec().clone())])
    }
    fn from_val(v: &Val) -> Option<Self> {
        Some(Witness::from(v.s()?[0].b()?.clone()))
    }
    eq_by_partial_eq!();
    fn class(&self) -> Option<&'static str> {
        if self.as_vec().len() > LIMIT { Some("vector-above-decode-limit") } else { None }
    }
}

pub const POLICY_TYPES: [PolicyType; 6] = [
    PolicyType::Tip,
    PolicyType::WitnessLimit,
    PolicyType::Maturity,
    PolicyType::MaxFee,
    PolicyType::Expiration,
    PolicyType::Owner,
];
/// raw `values` array: the field is private; the legacy serde layout exposes the first four
/// entries even when their bits are unset (entries 4, 5 are only serialised when set, and every
/// constructor zeroes them when unset)
pub fn policies_raw_values(p: &Policies) -> [u64; 6] {
    let mut vals = [0u64; 6];
    for (i, t) in POLICY_TYPES.iter().enumerate() {
        vals[i] = p.get(*t).unwrap_or(0);
    }
    if let Ok(j) = serde_json::to_value(p) {
        if let Some(a) = j.get("values").and_then(|a| a.as_array()) {
            if a.len() == 4 && p.bits() & 0x30 == 0 {
                for i in 0..4 {
                    vals[i] = a[i].as_u64().unwrap_or(vals[i]);
                }
            }
        }
    }
    vals
}
pub fn policies_from_raw(bits: u32, vals: [u64; 6]) -> Option<Policies> {
    if bits < 64 {
        let mut p = Policies::new();
        let mut plain = true;
        for (i, t) in POLICY_TYPES.iter().enumerate() {
            if bits & (1 << i) != 0 {
                p.set(*t, Some(vals[i]));
            } else if vals[i] != 0 {
                plain = false;
            }
        }
        if plain {
            return Some(p);
        }
        // unset bit with a non-zero value: only reachable through the legacy serde layout
        if bits & 0x30 == 0 && vals[4] == 0 && vals[5] == 0 {
            let j = json!({"bits": bits_names(bits), "values": [vals[0], vals[1], vals[2], vals[3]]});
            return serde_json::from_value(j).ok();
        }
        return None;
    }
    // unknown bits: bitflags' binary serde keeps them (from_bits_retain)
    let mut set = vec![];
    for i in 0..6 {
        if bits & (1 << i) != 0 {
            set.push(vals[i]);
        }
    }
    let enc = if bits & 0x30 == 0 {
        postcard::to_allocvec(&(bits, [vals[0], vals[1], vals[2], vals[3]])).ok()?
    } else {
        postcard::to_allocvec(&(bits, set)).ok()?
    };
    postcard::from_bytes(&enc).ok()
}
pub fn bits_names(bits: u32) -> String {
    let names = ["Tip", "WitnessLimit", "Maturity", "MaxFee", "Expiration", "Owner"];
    let v: Vec<&str> = (0..6).filter(|i| bits & (1 << i) != 0).map(|i| names[i]).collect();
    v.join(" | ")
}
impl Proto for Policies {
    const TY: &'static str = "S_Policies";
    fn to_val(&self) -> Val {
        let mut v = vec![vn(self.bits())];
        v.extend(policies_raw_values(self).iter().map(|x| vn(*x)));
        Val::S(v)
    }
    fn from_val(v: &Val) -> Option<Self> {
        let s = v.s()?;
        let mut vals = [0u64; 6];
        for i in 0..6 {
            vals[i] = s[i + 1].n()? as u64;
        }
        policies_from_raw(s[0].n()? as u32, vals)
    }
    eq_by_partial_eq!();
    fn class(&self) -> Option<&'static str> {
        let raw = policies_raw_values(self);
        if self.bits() >= 64 {
            return Some("policy-unknown-bits");
        }
        if (0..6).any(|i| self.bits() & (1 << i) == 0 && raw[i] != 0) {
            return Some("policy-unset-bit-nonzero-value");
        }
        if self.get(PolicyType::Maturity).map(|m| m > u32::MAX as u64).unwrap_or(false) {
            return Some("policy-maturity-above-u32");
        }
        if self.get(PolicyType::Expiration).map(|m| m > u32::MAX as u64).unwrap_or(false) {
            return Some("policy-expiration-above-u32");
        }
        None
    }
}

pub fn out_contract_val(c: &fuel_tx::output::contract::Contract) -> Val {
    Val::S(vec![vn(c.input_index), vb(&c.balance_root), vb(&c.state_root)])
}
pub fn out_contract_from(v: &Val) -> Option<fuel_tx::output::contract::Contract> {
    let s = v.s()?;
    Some(fuel_tx::output::contract::Contract {
        input_index: s[0].n()? as u16,
        balance_root: s[1].b32()?.into(),
        state_root: s[2].b32()?.into(),
    })
}
impl Proto for Output {
    const TY: &'static str = "S_Output";
    fn to_val(&self) -> Val {
        match self {
            Output::Coin { to, amount, asset_id } => Val::E(0, vec![vb(to), vn(*amount), vb(asset_id)]),
            Output::Contract(c) => Val::E(1, vec![out_contract_val(c)]),
            Output::Change { to, amount, asset_id } => Val::E(2, vec![vb(to), vn(*amount), vb(asset_id)]),
            Output::Variable { to, amount, asset_id } => Val::E(3, vec![vb(to), vn(*amount), vb(asset_id)]),
            Output::ContractCreated { contract_id, state_root } => Val::E(4, vec![vb(contract_id), vb(state_root)]),
        }
    }
    fn from_val(v: &Val) -> Option<Self> {
        let Val::E(i, f) = v else { return None };
        Some(match i {
            0 => Output::Coin { to: f[0].b32()?.into(), amount: f[1].n()? as u64, asset_id: f[2].b32()?.into() },
            1 => Output::Contract(out_contract_from(&f[0])?),
            2 => Output::Change { to: f[0].b32()?.into(), amount: f[1].n()? as u64, asset_id: f[2].b32()?.into() },
            3 => Output::Variable { to: f[0].b32()?.into(), amount: f[1].n()? as u64, asset_id: f[2].b32()?.into() },
            4 => Output::ContractCreated { contract_id: f[0].b32()?.into(), state_root: f[1].b32()?.into() },
            _ => return None,
        })
    }
    eq_by_partial_eq!();
}

pub fn in_contract_val(c: &fuel_tx::input::contract::Contract) -> Val {
    Val::S(vec![c.utxo_id.to_val(), vb(&c.balance_root), vb(&c.state_root), c.tx_pointer.to_val(), vb(&c.contract_id)])
}
pub fn in_contract_from(v: &Val) -> Option<fuel_tx::input::contract::Contract> {
    let s = v.s()?;
    Some(fuel_tx::input::contract::Contract {
        utxo_id: UtxoId::from_val(&s[0])?,
        balance_root: s[1].b32()?.into(),
        state_root: s[2].b32()?.into(),
        tx_pointer: TxPointer::from_val(&s[3])?,
        contract_id: s[4].b32()?.into(),
    })
}
pub fn pcode(b: &[u8]) -> Val {
    Val::S(vec![Val::B(b.to_vec())])
}
impl Proto for Input {
    const TY: &'static str = "S_Input";
    fn to_val(&self) -> Val {
        use Val::Unit as U;
        match self {
            Input::CoinSigned(c) => Val::E(0, vec![Val::S(vec![
                c.utxo_id.to_val(), vb(&c.owner), vn(c.amount), vb(&c.asset_id), c.tx_pointer.to_val(),
                vn(c.witness_index), U, U, U])]),
            Input::CoinPredicate(c) => Val::E(1, vec![Val::S(vec![
                c.utxo_id.to_val(), vb(&c.owner), vn(c.amount), vb(&c.asset_id), c.tx_pointer.to_val(),
                U, vn(c.predicate_gas_used), pcode(&c.predicate), Val::B(c.predicate_data.to_vec())])]),
            Input::Contract(c) => Val::E(2, vec![in_contract_val(c)]),
            Input::MessageCoinSigned(m) => Val::E(3, vec![Val::S(vec![
                vb(&m.sender), vb(&m.recipient), vn(m.amount), vb(&m.nonce), vn(m.witness_index), U, U, U, U])]),
            Input::MessageCoinPredicate(m) => Val::E(4, vec![Val::S(vec![
                vb(&m.sender), vb(&m.recipient), vn(m.amount), vb(&m.nonce), U, vn(m.predicate_gas_used), U,
                pcode(&m.predicate), Val::B(m.predicate_data.to_vec())])]),
            Input::MessageDataSigned(m) => Val::E(5, vec![Val::S(vec![
                vb(&m.sender), vb(&m.recipient), vn(m.amount), vb(&m.nonce), vn(m.witness_index), U,
                Val::B(m.data.to_vec()), U, U])]),
            Input::MessageDataPredicate(m) => Val::E(6, vec![Val::S(vec![
                vb(&m.sender), vb(&m.recipient), vn(m.amount), vb(&m.nonce), U, vn(m.predicate_gas_used),
                Val::B(m.data.to_vec()), pcode(&m.predicate), Val::B(m.predicate_data.to_vec())])]),
        }
    }
    fn from_val(v: &Val) -> Option<Self> {
        let Val::E(i, f) = v else { return None };
        if *i == 2 {
            return Some(Input::Contract(in_contract_from(&f[0])?));
        }
        let s = f[0].s()?;
        let pc = |x: &Val| -> Option<Vec<u8>> { Some(x.s()?[0].b()?.clone()) };
        Some(match i {
            0 => Input::coin_signed(UtxoId::from_val(&s[0])?, s[1].b32()?.into(), s[2].n()? as u64, s[3].b32()?.into(),
                                    TxPointer::from_val(&s[4])?, s[5].n()? as u16),
            1 => Input::coin_predicate(UtxoId::from_val(&s[0])?, s[1].b32()?.into(), s[2].n()? as u64, s[3].b32()?.into(),
                                       TxPointer::from_val(&s[4])?, s[6].n()? as u64, pc(&s[7])?, s[8].b()?.clone()),
            3 => Input::message_coin_signed(s[0].b32()?.into(), s[1].b32()?.into(), s[2].n()? as u64, s[3].b32()?.into(), s[4].n()? as u16),
            4 => Input::message_coin_predicate(s[0].b32()?.into(), s[1].b32()?.into(), s[2].n()? as u64, s[3].b32()?.into(),
                                               s[5].n()? as u64, pc(&s[7])?, s[8].b()?.clone()),
            5 => Input::message_data_signed(s[0].b32()?.into(), s[1].b32()?.into(), s[2].n()? as u64, s[3].b32()?.into(),
                                            s[4].n()? as u16, s[6].b()?.clone()),
            6 => Input::message_data_predicate(s[0].b32()?.into(), s[1].b32()?.into(), s[2].n()? as u64, s[3].b32()?.into(),
                                               s[5].n()? as u64, s[6].b()?.clone(), pc(&s[7])?, s[8].b()?.clone()),
            _ => return None,
        })
    }
    eq_by_partial_eq!();
    fn class(&self) -> Option<&'static str> {
        match self {
            Input::MessageDataSigned(m) if m.data.is_empty() => Some("empty-data-message-input"),
            Input::MessageDataPredicate(m) if m.data.is_empty() => Some("empty-data-message-input"),
            Input::CoinPredicate(c) if c.predicate.is_empty() => Some("empty-predicate-input"),
            Input::MessageCoinPredicate(m) if m.predicate.is_empty() => Some("empty-predicate-input"),
            Input::MessageDataPredicate(m) if m.predicate.is_empty() => Some("empty-predicate-input"),
            _ => None,
        }
    }
}


impl Proto for UpgradePurpose {
    const TY: &'static str = "S_UpgradePurpose";
    fn to_val(&self) -> Val {
        match self {
            UpgradePurpose::ConsensusParameters { witness_index, checksum } => Val::E(0, vec![vn(*witness_index), vb(checksum)]),
            UpgradePurpose::StateTransition { root } => Val::E(1, vec![vb(root)]),
        }
    }
    fn from_val(v: &Val) -> Option<Self> {
        let Val::E(i, f) = v else { return None };
        Some(match i {
            0 => UpgradePurpose::ConsensusParameters { witness_index: f[0].n()? as u16, checksum: f[1].b32()?.into() },
            1 => UpgradePurpose::StateTransition { root: f[0].b32()?.into() },
            _ => return None,
        })
    }
    eq_by_partial_eq!();
}

// ---- transactions
pub fn list_val<T: Proto>(xs: &[T]) -> Val {
    Val::L(xs.iter().map(|x| x.to_val()).collect())
}
pub fn list_from<T: Proto>(v: &Val) -> Option<Vec<T>> {
    v.l()?.iter().map(T::from_val).collect()
}
pub fn meta_val(computed: bool) -> Val {
    if computed { vn(1u8) } else { Val::Unit }
}
pub fn common_class(p: &Policies, ins: &[Input], wits: &[Witness]) -> Option<&'static str> {
    p.class().or_else(|| ins.iter().find_map(|i| i.class())).or_else(|| wits.iter().find_map(|w| w.class()))
}
pub fn chain() -> ChainId {
    ChainId::new(0)
}
macro_rules! chargeable_tail {
    ($tx:expr) => {
        vec![$tx.policies().to_val(), list_val($tx.inputs()), list_val($tx.outputs()), list_val($tx.witnesses()), meta_val($tx.is_computed())]
    };
}
pub fn finish<T: Cacheable>(mut tx: T, meta: &Val) -> Option<T> {
    if *meta != Val::Unit {
        tx.precompute(&chain()).ok()?;
    }
    Some(tx)
}
impl Proto for Script {
    const TY: &'static str = "S_Script";
    fn to_val(&self) -> Val {
        let body = Val::S(vec![vn(*self.script_gas_limit()), vb(self.receipts_root()), pcode(self.script()), Val::B(self.script_data().clone())]);
        let mut v = vec![body];
        v.extend(chargeable_tail!(self));
        Val::S(v)
    }
    fn from_val(v: &Val) -> Option<Self> {
        let s = v.s()?;
        let b = s[0].s()?;
        let mut tx = Transaction::script(b[0].n()? as u64, b[2].s()?[0].b()?.clone(), b[3].b()?.clone(), Policies::from_val(&s[1])?,
                                         list_from(&s[2])?, list_from(&s[3])?, list_from(&s[4])?);
        *tx.receipts_root_mut() = b[1].b32()?.into();
        finish(tx, &s[5])
    }
    eq_by_partial_eq!();
    fn class(&self) -> Option<&'static str> {
        common_class(self.policies(), self.inputs(), self.witnesses())
    }
}
impl Proto for Create {
    const TY: &'static str = "S_Create";
    fn to_val(&self) -> Val {
        let body = Val::S(vec![vn(*self.bytecode_witness_index()), vb(self.salt()), list_val(self.storage_slots())]);
        let mut v = vec![body];
        v.extend(chargeable_tail!(self));
        Val::S(v)
    }
    fn from_val(v: &Val) -> Option<Self> {
        let s = v.s()?;
        let b = s[0].s()?;
        let slots: Vec<StorageSlot> = list_from(&b[2])?;
        let tx = Transaction::create(b[0].n()? as u16, Policies::from_val(&s[1])?, Salt::from(b[1].b32()?), slots.clone(),
                                     list_from(&s[2])?, list_from(&s[3])?, list_from(&s[4])?);
        if tx.storage_slots() != &slots {
            return None;          // the public constructors sort the slots; an unsorted list only arises by decoding
        }
        finish(tx, &s[5])
    }
    eq_by_partial_eq!();
    fn class(&self) -> Option<&'static str> {
        common_class(self.policies(), self.inputs(), self.witnesses())
    }
}
impl Proto for Upgrade {
    const TY: &'static str = "S_Upgrade";
    fn to_val(&self) -> Val {
        let mut v = vec![Val::S(vec![self.upgrade_purpose().to_val()])];
        v.extend(chargeable_tail!(self));
        Val::S(v)
    }
    fn from_val(v: &Val) -> Option<Self> {
        let s = v.s()?;
        let tx = Transaction::upgrade(UpgradePurpose::from_val(&s[0].s()?[0])?, Policies::from_val(&s[1])?,
                                      list_from(&s[2])?, list_from(&s[3])?, list_from(&s[4])?);
        finish(tx, &s[5])
    }
    eq_by_partial_eq!();
    fn class(&self) -> Option<&'static str> {
        common_class(self.policies(), self.inputs(), self.witnesses())
    }
}
impl Proto for Upload {
    const TY: &'static str = "S_Upload";
    fn to_val(&self) -> Val {
        let body = Val::S(vec![vb(self.bytecode_root()), vn(*self.bytecode_witness_index()), vn(*self.subsection_index()),
                               vn(*self.subsections_number()), Val::L(self.proof_set().iter().map(|p| vb(p)).collect())]);
        let mut v = vec![body];
        v.extend(chargeable_tail!(self));
        Val::S(v)
    }
    fn from_val(v: &Val) -> Option<Self> {
        let s = v.s()?;
        let b = s[0].s()?;
        let proof: Option<Vec<Bytes32>> = b[4].l()?.iter().map(|x| x.b32().map(Into::into)).collect();
        let body = UploadBody { root: b[0].b32()?.into(), witness_index: b[1].n()? as u16, subsection_index: b[2].n()? as u16,
                                subsections_number: b[3].n()? as u16, proof_set: proof? };
        let tx = Transaction::upload(body, Policies::from_val(&s[1])?, list_from(&s[2])?, list_from(&s[3])?, list_from(&s[4])?);
        finish(tx, &s[5])
    }
    eq_by_partial_eq!();
    fn class(&self) -> Option<&'static str> {
        common_class(self.policies(), self.inputs(), self.witnesses())
    }
}
impl Proto for Blob {
    const TY: &'static str = "S_Blob";
    fn to_val(&self) -> Val {
        let mut v = vec![Val::S(vec![vb(self.blob_id()), vn(*self.bytecode_witness_index())])];
        v.extend(chargeable_tail!(self));
        Val::S(v)
    }
    fn from_val(v: &Val) -> Option<Self> {
        let s = v.s()?;
        let b = s[0].s()?;
        let body = BlobBody { id: BlobId::from(b[0].b32()?), witness_index: b[1].n()? as u16 };
        let tx = Transaction::blob(body, Policies::from_val(&s[1])?, list_from(&s[2])?, list_from(&s[3])?, list_from(&s[4])?);
        finish(tx, &s[5])
    }
    eq_by_partial_eq!();
    fn class(&self) -> Option<&'static str> {
        common_class(self.policies(), self.inputs(), self.witnesses())
    }
}
impl Proto for Mint {
    const TY: &'static str = "S_Mint";
    fn to_val(&self) -> Val {
        Val::S(vec![self.tx_pointer().to_val(), in_contract_val(self.input_contract()), out_contract_val(self.output_contract()),
                    vn(*self.mint_amount()), vb(self.mint_asset_id()), vn(*self.gas_price()), meta_val(self.is_computed())])
    }
    fn from_val(v: &Val) -> Option<Self> {
        let s = v.s()?;
        let tx = Transaction::mint(TxPointer::from_val(&s[0])?, in_contract_from(&s[1])?, out_contract_from(&s[2])?,
                                   s[3].n()? as u64, s[4].b32()?.into(), s[5].n()? as u64);
        finish(tx, &s[6])
    }
    eq_by_partial_eq!();
}
impl Proto for Transaction {
    const TY: &'static str = "S_Transaction";
    fn to_val(&self) -> Val {
        match self {
            Transaction::Script(t) => Val::E(0, vec![t.to_val()]),
            Transaction::Create(t) => Val::E(1, vec![t.to_val()]),
            Transaction::Mint(t) => Val::E(2, vec![t.to_val()]),
            Transaction::Upgrade(t) => Val::E(3, vec![t.to_val()]),
            Transaction::Upload(t) => Val::E(4, vec![t.to_val()]),
            Transaction::Blob(t) => Val::E(5, vec![t.to_val()]),
        }
    }
    fn from_val(v: &Val) -> Option<Self> {
        let Val::E(i, f) = v else { return None };
        Some(match i {
            0 => Script::from_val(&f[0])?.into(),
            1 => Create::from_val(&f[0])?.into(),
            2 => Mint::from_val(&f[0])?.into(),
            3 => Upgrade::from_val(&f[0])?.into(),
            4 => Upload::from_val(&f[0])?.into(),
            5 => Blob::from_val(&f[0])?.into(),
            _ => return None,
        })
    }
    eq_by_partial_eq!();
    fn class(&self) -> Option<&'static str> {
        match self {
            Transaction::Script(t) => t.class(),
            Transaction::Create(t) => t.class(),
            Transaction::Mint(_) => None,
            Transaction::Upgrade(t) => t.class(),
            Transaction::Upload(t) => t.class(),
            Transaction::Blob(t) => t.class(),
        }
    }
}

// ------------------------------------------------------------------------------- generators
pub fn b32(rng: &mut Rng) -> [u8; 32] {
    match rng.below(8) {
        0 => [0u8; 32],
        1 => [0xff; 32],
        _ => rng.bytes32(),
    }
}
/// byte-vector length classes: every length 0..=17, 255..=257, (thorough) 16383..=16385, random
pub fn blen(rng: &mut Rng, thorough: bool, nonempty: bool) -> usize {
    let l = match rng.below(10) {
        0..=4 => rng.below(18) as usize,
        5 => 255 + rng.below(3) as usize,
        6 if thorough => 16383 + rng.below(3) as usize,
        7 => rng.range(18, 80) as usize,
        _ => rng.below(40) as usize,
    };
    if nonempty && l == 0 { 1 + rng.below(17) as usize } else { l }
}
pub fn gen_utxo(rng: &mut Rng) -> UtxoId {
    UtxoId::new(b32(rng).into(), rng.u64_biased() as u16)
}
pub fn gen_txptr(rng: &mut Rng) -> TxPointer {
    TxPointer::new((rng.u64_biased() as u32).into(), rng.u64_biased() as u16)
}
/// well-formed policies for a given mask
pub fn gen_policies_mask(rng: &mut Rng, mask: u32) -> Policies {
    let mut p = Policies::new();
    for (i, t) in POLICY_TYPES.iter().enumerate() {
        if mask & (1 << i) != 0 {
            let v = match t {
                PolicyType::Maturity | PolicyType::Expiration => rng.u64_biased() & 0xffff_ffff,
                _ => rng.u64_biased(),
            };
            p.set(*t, Some(v));
        }
    }
    p
}
pub fn gen_policies(rng: &mut Rng) -> Policies {
    let m = rng.below(64) as u32;
    gen_policies_mask(rng, m)
}
/// kind 0..6 in the order of `enum Input`; lengths of (predicate, predicate_data, data)
pub fn gen_input_kind(rng: &mut Rng, kind: usize, pl: usize, pdl: usize, dl: usize) -> Input {
    let amount = rng.u64_biased();
    let gas = rng.u64_biased();
    let wi = rng.u64_biased() as u16;
    match kind {
        0 => Input::coin_signed(gen_utxo(rng), b32(rng).into(), amount, b32(rng).into(), gen_txptr(rng), wi),
        1 => Input::coin_predicate(gen_utxo(rng), b32(rng).into(), amount, b32(rng).into(), gen_txptr(rng), gas, rng.bytes(pl), rng.bytes(pdl)),
        2 => Input::contract(gen_utxo(rng), b32(rng).into(), b32(rng).into(), gen_txptr(rng), b32(rng).into()),
        3 => Input::message_coin_signed(b32(rng).into(), b32(rng).into(), amount, b32(rng).into(), wi),
        4 => Input::message_coin_predicate(b32(rng).into(), b32(rng).into(), amount, b32(rng).into(), gas, rng.bytes(pl), rng.bytes(pdl)),
        5 => Input::message_data_signed(b32(rng).into(), b32(rng).into(), amount, b32(rng).into(), wi, rng.bytes(dl)),
        _ => Input::message_data_predicate(b32(rng).into(), b32(rng).into(), amount, b32(rng).into(), gas, rng.bytes(dl), rng.bytes(pl), rng.bytes(pdl)),
    }
}
pub fn gen_input(rng: &mut Rng, thorough: bool) -> Input {
    let k = rng.below(7) as usize;
    let (pl, pdl, dl) = (blen(rng, thorough, true), blen(rng, thorough, false), blen(rng, thorough, true));
    gen_input_kind(rng, k, pl, pdl, dl)
}
pub fn gen_output_kind(rng: &mut Rng, kind: usize) -> Output {
    match kind {
        0 => Output::coin(b32(rng).into(), rng.u64_biased(), b32(rng).into()),
        1 => Output::contract(rng.u64_biased() as u16, b32(rng).into(), b32(rng).into()),
        2 => Output::change(b32(rng).into(), rng.u64_biased(), b32(rng).into()),
        3 => Output::variable(b32(rng).into(), rng.u64_biased(), b32(rng).into()),
        _ => Output::contract_created(b32(rng).into(), b32(rng).into()),
    }
}
pub fn gen_output(rng: &mut Rng) -> Output {
    let k = rng.below(5) as usize;
    gen_output_kind(rng, k)
}
pub fn gen_witness(rng: &mut Rng, thorough: bool) -> Witness {
    let n = blen(rng, thorough, false);
    rng.bytes(n).into()
}
pub fn gen_purpose(rng: &mut Rng) -> UpgradePurpose {
    if rng.bool() {
        UpgradePurpose::ConsensusParameters { witness_index: rng.u64_biased() as u16, checksum: b32(rng).into() }
    } else {
        UpgradePurpose::StateTransition { root: b32(rng).into() }
    }
}
pub struct Parts {
    pub policies: Policies,
    pub inputs: Vec<Input>,
    pub outputs: Vec<Output>,
    pub witnesses: Vec<Witness>,
}
pub fn gen_parts(rng: &mut Rng, thorough: bool) -> Parts {
    let ni = rng.below(4) as usize;
    let no = rng.below(4) as usize;
    let nw = rng.below(4) as usize;
    Parts {
        policies: gen_policies(rng),
        inputs: (0..ni).map(|_| gen_input(rng, thorough)).collect(),
        outputs: (0..no).map(|_| gen_output(rng)).collect(),
        witnesses: (0..nw).map(|_| gen_witness(rng, thorough)).collect(),
    }
}

// ------------------------------------------------------------------------------- kinds
pub const KIND_NAMES: [&str; 6] = ["Script", "Create", "Mint", "Upgrade", "Upload", "Blob"];
/// index in `enum Transaction` (= index of the neutral form `VE i [x]` of S_Transaction)
pub fn kind_index(tx: &Transaction) -> usize {
    match tx {
        Transaction::Script(_) => 0,
        Transaction::Create(_) => 1,
        Transaction::Mint(_) => 2,
        Transaction::Upgrade(_) => 3,
        Transaction::Upload(_) => 4,
        Transaction::Blob(_) => 5,
    }
}
/// the neutral value of the kind (payload of the Transaction-level `VE i [x]`)
pub fn kind_val(tx: &Transaction) -> Val {
    match tx.to_val() {
        Val::E(_, mut f) => f.remove(0),
        v => v,
    }
}
pub fn tx_from_kind_val(kind: usize, v: &Val) -> Option<Transaction> {
    Transaction::from_val(&Val::E(kind, vec![v.clone()]))
}
/// a transaction of the given kind without cached metadata
pub fn gen_tx_uncached(rng: &mut Rng, kind: usize, thorough: bool, max_items: u64) -> Transaction {
    let ni = rng.below(max_items + 1) as usize;
    let no = rng.below(max_items + 1) as usize;
    let nw = rng.below(max_items + 1) as usize;
    let p = Parts {
        policies: gen_policies(rng),
        inputs: (0..ni).map(|_| gen_input(rng, thorough)).collect(),
        outputs: (0..no).map(|_| gen_output(rng)).collect(),
        witnesses: (0..nw).map(|_| gen_witness(rng, thorough)).collect(),
    };
    gen_tx_from_parts(rng, kind, thorough, p)
}
pub fn gen_tx_from_parts(rng: &mut Rng, kind: usize, thorough: bool, p: Parts) -> Transaction {
    match kind {
        0 => {
            let (sl, dl) = (blen(rng, thorough, false), blen(rng, thorough, false));
            let mut t = Transaction::script(rng.u64_biased(), rng.bytes(sl), rng.bytes(dl), p.policies, p.inputs, p.outputs, p.witnesses);
            *t.receipts_root_mut() = b32(rng).into();
            t.into()
        }
        1 => {
            let ns = rng.below(4) as usize;
            let slots = (0..ns).map(|_| StorageSlot::new(b32(rng).into(), b32(rng).into())).collect();
            Transaction::create(rng.u64_biased() as u16, p.policies, b32(rng).into(), slots, p.inputs, p.outputs, p.witnesses).into()
        }
        2 => Transaction::mint(
            gen_txptr(rng),
            fuel_tx::input::contract::Contract { utxo_id: gen_utxo(rng), balance_root: b32(rng).into(), state_root: b32(rng).into(), tx_pointer: gen_txptr(rng), contract_id: b32(rng).into() },
            fuel_tx::output::contract::Contract { input_index: rng.u64_biased() as u16, balance_root: b32(rng).into(), state_root: b32(rng).into() },
            rng.u64_biased(),
            b32(rng).into(),
            rng.u64_biased(),
        )
        .into(),
        3 => Transaction::upgrade(gen_purpose(rng), p.policies, p.inputs, p.outputs, p.witnesses).into(),
        4 => {
            let np = rng.below(5) as usize;
            let body = UploadBody {
                root: b32(rng).into(),
                witness_index: rng.u64_biased() as u16,
                subsection_index: rng.u64_biased() as u16,
                subsections_number: rng.u64_biased() as u16,
                proof_set: (0..np).map(|_| b32(rng).into()).collect(),
            };
            Transaction::upload(body, p.policies, p.inputs, p.outputs, p.witnesses).into()
        }
        _ => Transaction::blob(BlobBody { id: b32(rng).into(), witness_index: rng.u64_biased() as u16 }, p.policies, p.inputs, p.outputs, p.witnesses).into(),
    }
}

// ------------------------------------------------------------------------------- schema walk
#[path = "gen/tx_schema.rs"]
pub mod tx_schema;
use tx_schema::Ty;

pub fn resolve(t: &'static Ty) -> &'static Ty {
    match t {
        Ty::Ref(r) => resolve(r),
        _ => t,
    }
}
pub fn kind_schema(kind: usize) -> &'static Ty {
    match kind {
        0 => &tx_schema::S_SCRIPT,
        1 => &tx_schema::S_CREATE,
        2 => &tx_schema::S_MINT,
        3 => &tx_schema::S_UPGRADE,
        4 => &tx_schema::S_UPLOAD,
        _ => &tx_schema::S_BLOB,
    }
}
/// index of the component schema of `Ty::Input` for variant i of `enum Input`
pub const INPUT_COMPONENT: [usize; 7] = [1, 2, 3, 5, 6, 7, 8];
pub const POLICY_NAMES: [&str; 6] = ["Tip", "WitnessLimit", "Maturity", "MaxFee", "Expiration", "Owner"];

#[derive(Clone, Debug, PartialEq)]
pub enum Step {
    /// field `name` = child `idx` of a struct value / of an enum variant's field list
    Field(&'static str, usize),
    /// name of the enum variant (no navigation)
    Variant(&'static str),
    /// payload of a tuple-like hand-written enum (`Input`, `Transaction`): child 0 of `VE i [x]`
    Payload,
    /// element of a vector
    Elem(usize),
}
#[derive(Clone)]
pub struct Leaf {
    pub steps: Vec<Step>,
    pub ty: &'static Ty,
}
impl Leaf {
    /// field / variant names only: the path of Coq's TxId/IdSpec.v
    pub fn names(&self) -> Vec<&'static str> {
        self.steps.iter().filter_map(|s| match s { Step::Field(n, _) | Step::Variant(n) => Some(*n), _ => None }).collect()
    }
    pub fn show(&self) -> String {
        let mut s = String::new();
        for st in &self.steps {
            match st {
                Step::Field(n, _) => { if !s.is_empty() { s.push('.'); } s.push_str(n); }
                Step::Variant(n) => { if !s.is_empty() { s.push('.'); } s.push_str(n); }
                Step::Elem(i) => s.push_str(&format!("[{}]", i)),
                Step::Payload => {}
            }
        }
        s
    }
}
pub fn nav<'a>(v: &'a Val, steps: &[Step]) -> Option<&'a Val> {
    let mut cur = v;
    for st in steps {
        cur = match (cur, st) {
            (Val::S(vs), Step::Field(_, i)) | (Val::E(_, vs), Step::Field(_, i)) => vs.get(*i)?,
            (Val::L(vs), Step::Elem(i)) => vs.get(*i)?,
            (Val::E(_, vs), Step::Payload) => vs.first()?,
            (c, Step::Variant(_)) => c,
            _ => return None,
        };
    }
    Some(cur)
}
pub fn nav_mut<'a>(v: &'a mut Val, steps: &[Step]) -> Option<&'a mut Val> {
    let mut cur = v;
    for st in steps {
        cur = match (cur, st) {
            (Val::S(vs), Step::Field(_, i)) | (Val::E(_, vs), Step::Field(_, i)) => vs.get_mut(*i)?,
            (Val::L(vs), Step::Elem(i)) => vs.get_mut(*i)?,
            (Val::E(_, vs), Step::Payload) => vs.first_mut()?,
            (c, Step::Variant(_)) => c,
            _ => return None,
        };
    }
    Some(cur)
}
/// Every encoded position of a value, enumerated from the schema: integer / byte-array /
/// byte-vector leaves, `Policies`, and every vector (as a whole: its length is a field too).
/// `#[canonical(skip)]` fields and `Empty<_>` fields are not part of the encoding.
pub fn leaves(t: &'static Ty, v: &Val, pre: &mut Vec<Step>, out: &mut Vec<Leaf>) {
    let t = resolve(t);
    match (t, v) {
        (Ty::UInt(_), Val::N(_)) | (Ty::BytesN(_), Val::B(_)) | (Ty::ByteVec, Val::B(_)) | (Ty::Policies, Val::S(_)) => {
            out.push(Leaf { steps: pre.clone(), ty: t })
        }
        (Ty::Vec(te), Val::L(vs)) => {
            out.push(Leaf { steps: pre.clone(), ty: t });
            for (i, x) in vs.iter().enumerate() {
                pre.push(Step::Elem(i));
                leaves(te, x, pre, out);
                pre.pop();
            }
        }
        (Ty::Struct(_, fs), Val::S(vs)) => {
            for (i, f) in fs.iter().enumerate() {
                if f.skip { continue; }
                pre.push(Step::Field(f.name, i));
                leaves(f.ty, &vs[i], pre, out);
                pre.pop();
            }
        }
        (Ty::Enum(vars), Val::E(k, vs)) => {
            let (name, _, fs) = &vars[*k];
            pre.push(Step::Variant(name));
            for (i, f) in fs.iter().enumerate() {
                if f.skip { continue; }
                pre.push(Step::Field(f.name, i));
                leaves(f.ty, &vs[i], pre, out);
                pre.pop();
            }
            pre.pop();
        }
        (Ty::Input(comps), Val::E(k, vs)) => {
            pre.push(Step::Variant(tx_schema::INPUT_VARIANTS[*k]));
            pre.push(Step::Payload);
            leaves(comps[INPUT_COMPONENT[*k]], &vs[0], pre, out);
            pre.pop();
            pre.pop();
        }
        (Ty::Peek(alts), Val::E(k, vs)) => {
            pre.push(Step::Variant(alts[*k].0));
            pre.push(Step::Payload);
            leaves(alts[*k].2, &vs[0], pre, out);
            pre.pop();
            pre.pop();
        }
        (Ty::Empty(_), _) | (Ty::Opaque, _) => {}
        (t, v) => panic!("schema/value mismatch at {:?}: {:?} vs {}", pre, v, ty_name(t)),
    }
}
pub fn ty_name(t: &Ty) -> &'static str {
    match t {
        Ty::UInt(_) => "UInt", Ty::BytesN(_) => "BytesN", Ty::ByteVec => "ByteVec", Ty::Vec(_) => "Vec",
        Ty::Empty(_) => "Empty", Ty::Opaque => "Opaque", Ty::Policies => "Policies", Ty::Struct(..) => "Struct",
        Ty::Enum(_) => "Enum", Ty::Input(_) => "Input", Ty::Peek(_) => "Peek", Ty::Ref(_) => "Ref",
    }
}
/// every abstract path (names only) that the schema can produce: used to report coverage
pub fn schema_paths(t: &'static Ty, pre: &mut Vec<&'static str>, out: &mut Vec<Vec<&'static str>>) {
    let t = resolve(t);
    match t {
        Ty::UInt(_) | Ty::BytesN(_) | Ty::ByteVec | Ty::Policies => out.push(pre.clone()),
        Ty::Vec(te) => { out.push(pre.clone()); schema_paths(te, pre, out); }
        Ty::Struct(_, fs) => for f in fs.iter() {
            if f.skip { continue; }
            pre.push(f.name); schema_paths(f.ty, pre, out); pre.pop();
        },
        Ty::Enum(vars) => for (name, _, fs) in vars.iter() {
            pre.push(name);
            if fs.is_empty() { out.push(pre.clone()); }
            for f in fs.iter() {
                if f.skip { continue; }
                pre.push(f.name); schema_paths(f.ty, pre, out); pre.pop();
            }
            pre.pop();
        },
        Ty::Input(comps) => for k in 0..7 {
            pre.push(tx_schema::INPUT_VARIANTS[k]); schema_paths(comps[INPUT_COMPONENT[k]], pre, out); pre.pop();
        },
        Ty::Peek(alts) => for (name, _, a) in alts.iter() {
            pre.push(name); schema_paths(a, pre, out); pre.pop();
        },
        Ty::Empty(_) | Ty::Opaque | Ty::Ref(_) => {}
    }
}
