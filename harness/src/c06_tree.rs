//! Serde data-model tree, a recording `Serializer` and a tree-driven `Deserializer`
//! (used by the `serde` harness binary, C06; included with `#[path]`).
#![allow(dead_code)]
use serde::de::{self, DeserializeSeed, IntoDeserializer, Visitor};
use serde::ser::{self, Serialize};
use std::fmt;

#[derive(Clone, Debug, PartialEq)]
pub enum T {
    Unit,
    Bool(bool),
    U(u32, u128),
    Str(String),
    Bytes(Vec<u8>),
    None,
    Some(Box<T>),
    Seq(Vec<T>),
    Tuple(Vec<T>),
    Newtype(String, Box<T>),
    UnitStruct(String),
    TupleStruct(String, Vec<T>),
    Struct(String, Vec<(String, T)>),
    Map(Vec<(T, T)>),
    VarUnit(String, u32, String),
    VarNewtype(String, u32, String, Box<T>),
    VarTuple(String, u32, String, Vec<T>),
    VarStruct(String, u32, String, Vec<(String, T)>),
}

fn cstr(s: &str) -> String {
    format!("\"{}\"", s.replace('"', "\"\""))
}
fn clist(xs: Vec<String>) -> String {
    format!("[{}]", xs.join("; "))
}
impl T {
    pub fn coq(&self) -> String {
        let fs = |f: &Vec<(String, T)>| clist(f.iter().map(|(k, v)| format!("({}%string, {})", cstr(k), v.coq())).collect());
        let ls = |l: &Vec<T>| clist(l.iter().map(|v| v.coq()).collect());
        match self {
            T::Unit => "DUnit".into(),
            T::Bool(b) => format!("(DBool {})", b),
            T::U(w, n) => format!("(DU {} {})", w, n),
            T::Str(s) => format!("(DStr {})", cstr(s)),
            T::Bytes(b) => format!("(DBytes (hex \"{}\"))", hex::encode(b)),
            T::None => "DNone".into(),
            T::Some(v) => format!("(DSome {})", v.coq()),
            T::Seq(l) => format!("(DSeq {})", ls(l)),
            T::Tuple(l) => format!("(DTuple {})", ls(l)),
            T::Newtype(n, v) => format!("(DNewtype {} {})", cstr(n), v.coq()),
            T::UnitStruct(n) => format!("(DUnitStruct {})", cstr(n)),
            T::TupleStruct(n, l) => format!("(DTupleStruct {} {})", cstr(n), ls(l)),
            T::Struct(n, f) => format!("(DStruct {} {})", cstr(n), fs(f)),
            T::Map(kv) => format!("(DMap {})", clist(kv.iter().map(|(k, v)| format!("({}, {})", k.coq(), v.coq())).collect())),
            T::VarUnit(t, i, n) => format!("(DVarUnit {} {} {})", cstr(t), i, cstr(n)),
            T::VarNewtype(t, i, n, v) => format!("(DVarNewtype {} {} {} {})", cstr(t), i, cstr(n), v.coq()),
            T::VarTuple(t, i, n, l) => format!("(DVarTuple {} {} {} {})", cstr(t), i, cstr(n), ls(l)),
            T::VarStruct(t, i, n, f) => format!("(DVarStruct {} {} {} {})", cstr(t), i, cstr(n), fs(f)),
        }
    }
    pub fn json(&self) -> serde_json::Value {
        use serde_json::json;
        let fs = |f: &Vec<(String, T)>| serde_json::Value::Array(f.iter().map(|(k, v)| json!([k, v.json()])).collect());
        let ls = |l: &Vec<T>| serde_json::Value::Array(l.iter().map(|v| v.json()).collect());
        match self {
            T::Unit => json!({"t":"unit"}),
            T::Bool(b) => json!({"t":"bool","v":b}),
            T::U(w, n) => json!({"t":"u","w":w,"v":n.to_string()}),
            T::Str(s) => json!({"t":"str","v":s}),
            T::Bytes(b) => json!({"t":"bytes","v":hex::encode(b)}),
            T::None => json!({"t":"none"}),
            T::Some(v) => json!({"t":"some","v":v.json()}),
            T::Seq(l) => json!({"t":"seq","v":ls(l)}),
            T::Tuple(l) => json!({"t":"tuple","v":ls(l)}),
            T::Newtype(n, v) => json!({"t":"newtype","n":n,"v":v.json()}),
            T::UnitStruct(n) => json!({"t":"unitstruct","n":n}),
            T::TupleStruct(n, l) => json!({"t":"tuplestruct","n":n,"v":ls(l)}),
            T::Struct(n, f) => json!({"t":"struct","n":n,"v":fs(f)}),
            T::Map(kv) => json!({"t":"map","v":kv.iter().map(|(k,v)| json!([k.json(), v.json()])).collect::<Vec<_>>()}),
            T::VarUnit(t, i, n) => json!({"t":"varunit","ty":t,"i":i,"n":n}),
            T::VarNewtype(t, i, n, v) => json!({"t":"varnewtype","ty":t,"i":i,"n":n,"v":v.json()}),
            T::VarTuple(t, i, n, l) => json!({"t":"vartuple","ty":t,"i":i,"n":n,"v":ls(l)}),
            T::VarStruct(t, i, n, f) => json!({"t":"varstruct","ty":t,"i":i,"n":n,"v":fs(f)}),
        }
    }
    pub fn from_json(j: &serde_json::Value) -> Option<T> {
        let s = |k: &str| j.get(k).and_then(|x| x.as_str()).map(|x| x.to_string());
        let ls = |x: &serde_json::Value| -> Option<Vec<T>> { x.as_array()?.iter().map(T::from_json).collect() };
        let fs = |x: &serde_json::Value| -> Option<Vec<(String, T)>> {
            x.as_array()?.iter().map(|p| Some((p.get(0)?.as_str()?.to_string(), T::from_json(p.get(1)?)?))).collect()
        };
        let i = || j.get("i").and_then(|x| x.as_u64()).map(|x| x as u32);
        Some(match j.get("t")?.as_str()? {
            "unit" => T::Unit,
            "bool" => T::Bool(j.get("v")?.as_bool()?),
            "u" => T::U(j.get("w")?.as_u64()? as u32, s("v")?.parse().ok()?),
            "str" => T::Str(s("v")?),
            "bytes" => T::Bytes(hex::decode(s("v")?).ok()?),
            "none" => T::None,
            "some" => T::Some(Box::new(T::from_json(j.get("v")?)?)),
            "seq" => T::Seq(ls(j.get("v")?)?),
            "tuple" => T::Tuple(ls(j.get("v")?)?),
            "newtype" => T::Newtype(s("n")?, Box::new(T::from_json(j.get("v")?)?)),
            "unitstruct" => T::UnitStruct(s("n")?),
            "tuplestruct" => T::TupleStruct(s("n")?, ls(j.get("v")?)?),
            "struct" => T::Struct(s("n")?, fs(j.get("v")?)?),
            "map" => T::Map(j.get("v")?.as_array()?.iter().map(|p| Some((T::from_json(p.get(0)?)?, T::from_json(p.get(1)?)?))).collect::<Option<Vec<_>>>()?),
            "varunit" => T::VarUnit(s("ty")?, i()?, s("n")?),
            "varnewtype" => T::VarNewtype(s("ty")?, i()?, s("n")?, Box::new(T::from_json(j.get("v")?)?)),
            "vartuple" => T::VarTuple(s("ty")?, i()?, s("n")?, ls(j.get("v")?)?),
            "varstruct" => T::VarStruct(s("ty")?, i()?, s("n")?, fs(j.get("v")?)?),
            _ => return None,
        })
    }
    /// number of nodes
    pub fn size(&self) -> usize {
        1 + match self {
            T::Some(v) | T::Newtype(_, v) | T::VarNewtype(_, _, _, v) => v.size(),
            T::Seq(l) | T::Tuple(l) | T::TupleStruct(_, l) | T::VarTuple(_, _, _, l) => l.iter().map(|x| x.size()).sum(),
            T::Struct(_, f) | T::VarStruct(_, _, _, f) => f.iter().map(|x| x.1.size()).sum(),
            T::Map(kv) => kv.iter().map(|x| x.0.size() + x.1.size()).sum(),
            _ => 0,
        }
    }
}

// =============================================================================== recording Serializer
#[derive(Debug)]
pub struct TErr(pub String);
impl fmt::Display for TErr {
    fn fmt(&self, f: &mut fmt::Formatter) -> fmt::Result {
        f.write_str(&self.0)
    }
}
impl std::error::Error for TErr {}
impl ser::Error for TErr {
    fn custom<M: fmt::Display>(m: M) -> Self {
        TErr(m.to_string())
    }
}
impl de::Error for TErr {
    fn custom<M: fmt::Display>(m: M) -> Self {
        TErr(m.to_string())
    }
}

#[derive(Clone, Copy)]
pub struct TreeSer {
    pub hr: bool,
}
pub fn record<V: Serialize + ?Sized>(v: &V, hr: bool) -> Result<T, TErr> {
    v.serialize(TreeSer { hr })
}

pub struct SeqRec {
    hr: bool,
    kind: u8, // 0 seq 1 tuple 2 tuplestruct 3 vartuple
    name: String,
    idx: u32,
    vname: String,
    items: Vec<T>,
}
pub struct FieldRec {
    hr: bool,
    variant: bool,
    name: String,
    idx: u32,
    vname: String,
    fields: Vec<(String, T)>,
}
pub struct MapRec {
    hr: bool,
    key: Option<T>,
    items: Vec<(T, T)>,
}
impl SeqRec {
    fn push<V: Serialize + ?Sized>(&mut self, v: &V) -> Result<(), TErr> {
        self.items.push(record(v, self.hr)?);
        Ok(())
    }
    fn finish(self) -> T {
        match self.kind {
            0 => T::Seq(self.items),
            1 => T::Tuple(self.items),
            2 => T::TupleStruct(self.name, self.items),
            _ => T::VarTuple(self.name, self.idx, self.vname, self.items),
        }
    }
}
impl ser::SerializeSeq for SeqRec {
    type Ok = T;
    type Error = TErr;
    fn serialize_element<V: Serialize + ?Sized>(&mut self, v: &V) -> Result<(), TErr> {
        self.push(v)
    }
    fn end(self) -> Result<T, TErr> {
        Ok(self.finish())
    }
}
impl ser::SerializeTuple for SeqRec {
    type Ok = T;
    type Error = TErr;
    fn serialize_element<V: Serialize + ?Sized>(&mut self, v: &V) -> Result<(), TErr> {
        self.push(v)
    }
    fn end(self) -> Result<T, TErr> {
        Ok(self.finish())
    }
}
impl ser::SerializeTupleStruct for SeqRec {
    type Ok = T;
    type Error = TErr;
    fn serialize_field<V: Serialize + ?Sized>(&mut self, v: &V) -> Result<(), TErr> {
        self.push(v)
    }
    fn end(self) -> Result<T, TErr> {
        Ok(self.finish())
    }
}
impl ser::SerializeTupleVariant for SeqRec {
    type Ok = T;
    type Error = TErr;
    fn serialize_field<V: Serialize + ?Sized>(&mut self, v: &V) -> Result<(), TErr> {
        self.push(v)
    }
    fn end(self) -> Result<T, TErr> {
        Ok(self.finish())
    }
}
impl ser::SerializeStruct for FieldRec {
    type Ok = T;
    type Error = TErr;
    fn serialize_field<V: Serialize + ?Sized>(&mut self, k: &'static str, v: &V) -> Result<(), TErr> {
        self.fields.push((k.to_string(), record(v, self.hr)?));
        Ok(())
    }
    fn end(self) -> Result<T, TErr> {
        Ok(if self.variant { T::VarStruct(self.name, self.idx, self.vname, self.fields) } else { T::Struct(self.name, self.fields) })
    }
}
impl ser::SerializeStructVariant for FieldRec {
    type Ok = T;
    type Error = TErr;
    fn serialize_field<V: Serialize + ?Sized>(&mut self, k: &'static str, v: &V) -> Result<(), TErr> {
        self.fields.push((k.to_string(), record(v, self.hr)?));
        Ok(())
    }
    fn end(self) -> Result<T, TErr> {
        Ok(T::VarStruct(self.name, self.idx, self.vname, self.fields))
    }
}
impl ser::SerializeMap for MapRec {
    type Ok = T;
    type Error = TErr;
    fn serialize_key<V: Serialize + ?Sized>(&mut self, k: &V) -> Result<(), TErr> {
        self.key = Some(record(k, self.hr)?);
        Ok(())
    }
    fn serialize_value<V: Serialize + ?Sized>(&mut self, v: &V) -> Result<(), TErr> {
        let k = self.key.take().ok_or_else(|| TErr("value without key".into()))?;
        self.items.push((k, record(v, self.hr)?));
        Ok(())
    }
    fn end(self) -> Result<T, TErr> {
        Ok(T::Map(self.items))
    }
}

impl ser::Serializer for TreeSer {
    type Ok = T;
    type Error = TErr;
    type SerializeSeq = SeqRec;
    type SerializeTuple = SeqRec;
    type SerializeTupleStruct = SeqRec;
    type SerializeTupleVariant = SeqRec;
    type SerializeMap = MapRec;
    type SerializeStruct = FieldRec;
    type SerializeStructVariant = FieldRec;
    fn is_human_readable(&self) -> bool {
        self.hr
    }
    fn serialize_bool(self, v: bool) -> Result<T, TErr> {
        Ok(T::Bool(v))
    }
    fn serialize_i8(self, _: i8) -> Result<T, TErr> {
        Err(TErr("signed".into()))
    }
    fn serialize_i16(self, _: i16) -> Result<T, TErr> {
        Err(TErr("signed".into()))
    }
    fn serialize_i32(self, _: i32) -> Result<T, TErr> {
        Err(TErr("signed".into()))
    }
    fn serialize_i64(self, _: i64) -> Result<T, TErr> {
        Err(TErr("signed".into()))
    }
    fn serialize_u8(self, v: u8) -> Result<T, TErr> {
        Ok(T::U(8, v as u128))
    }
    fn serialize_u16(self, v: u16) -> Result<T, TErr> {
        Ok(T::U(16, v as u128))
    }
    fn serialize_u32(self, v: u32) -> Result<T, TErr> {
        Ok(T::U(32, v as u128))
    }
    fn serialize_u64(self, v: u64) -> Result<T, TErr> {
        Ok(T::U(64, v as u128))
    }
    fn serialize_u128(self, v: u128) -> Result<T, TErr> {
        Ok(T::U(128, v))
    }
    fn serialize_f32(self, _: f32) -> Result<T, TErr> {
        Err(TErr("float".into()))
    }
    fn serialize_f64(self, _: f64) -> Result<T, TErr> {
        Err(TErr("float".into()))
    }
    fn serialize_char(self, c: char) -> Result<T, TErr> {
        Ok(T::Str(c.to_string()))
    }
    fn serialize_str(self, v: &str) -> Result<T, TErr> {
        Ok(T::Str(v.to_string()))
    }
    fn serialize_bytes(self, v: &[u8]) -> Result<T, TErr> {
        Ok(T::Bytes(v.to_vec()))
    }
    fn serialize_none(self) -> Result<T, TErr> {
        Ok(T::None)
    }
    fn serialize_some<V: Serialize + ?Sized>(self, v: &V) -> Result<T, TErr> {
        Ok(T::Some(Box::new(record(v, self.hr)?)))
    }
    fn serialize_unit(self) -> Result<T, TErr> {
        Ok(T::Unit)
    }
    fn serialize_unit_struct(self, n: &'static str) -> Result<T, TErr> {
        Ok(T::UnitStruct(n.into()))
    }
    fn serialize_unit_variant(self, t: &'static str, i: u32, n: &'static str) -> Result<T, TErr> {
        Ok(T::VarUnit(t.into(), i, n.into()))
    }
    fn serialize_newtype_struct<V: Serialize + ?Sized>(self, n: &'static str, v: &V) -> Result<T, TErr> {
        Ok(T::Newtype(n.into(), Box::new(record(v, self.hr)?)))
    }
    fn serialize_newtype_variant<V: Serialize + ?Sized>(self, t: &'static str, i: u32, n: &'static str, v: &V) -> Result<T, TErr> {
        Ok(T::VarNewtype(t.into(), i, n.into(), Box::new(record(v, self.hr)?)))
    }
    fn serialize_seq(self, _: Option<usize>) -> Result<SeqRec, TErr> {
        Ok(SeqRec { hr: self.hr, kind: 0, name: String::new(), idx: 0, vname: String::new(), items: vec![] })
    }
    fn serialize_tuple(self, _: usize) -> Result<SeqRec, TErr> {
        Ok(SeqRec { hr: self.hr, kind: 1, name: String::new(), idx: 0, vname: String::new(), items: vec![] })
    }
    fn serialize_tuple_struct(self, n: &'static str, _: usize) -> Result<SeqRec, TErr> {
        Ok(SeqRec { hr: self.hr, kind: 2, name: n.into(), idx: 0, vname: String::new(), items: vec![] })
    }
    fn serialize_tuple_variant(self, t: &'static str, i: u32, n: &'static str, _: usize) -> Result<SeqRec, TErr> {
        Ok(SeqRec { hr: self.hr, kind: 3, name: t.into(), idx: i, vname: n.into(), items: vec![] })
    }
    fn serialize_map(self, _: Option<usize>) -> Result<MapRec, TErr> {
        Ok(MapRec { hr: self.hr, key: None, items: vec![] })
    }
    fn serialize_struct(self, n: &'static str, _: usize) -> Result<FieldRec, TErr> {
        Ok(FieldRec { hr: self.hr, variant: false, name: n.into(), idx: 0, vname: String::new(), fields: vec![] })
    }
    fn serialize_struct_variant(self, t: &'static str, i: u32, n: &'static str, _: usize) -> Result<FieldRec, TErr> {
        Ok(FieldRec { hr: self.hr, variant: true, name: t.into(), idx: i, vname: n.into(), fields: vec![] })
    }
}

// =============================================================================== tree Deserializer
/// `sd` = self-describing transport (structs drive visit_map, enum variants are named, arrays and
/// sequences are interchangeable); otherwise positional (structs drive visit_seq, variants by
/// index, and asking for a tuple where a sequence was written is a "hint mismatch" error).
#[derive(Clone, Copy)]
pub struct TreeDe<'a> {
    pub t: &'a T,
    pub sd: bool,
    pub hr: bool,
}
pub fn replay_de<'a, V: de::Deserialize<'a>>(t: &'a T, sd: bool, hr: bool) -> Result<V, TErr> {
    V::deserialize(TreeDe { t, sd, hr })
}

struct SeqAcc<'a> {
    it: std::slice::Iter<'a, T>,
    sd: bool,
    hr: bool,
}
impl<'de, 'a> de::SeqAccess<'de> for SeqAcc<'a> {
    type Error = TErr;
    fn next_element_seed<S: DeserializeSeed<'de>>(&mut self, seed: S) -> Result<Option<S::Value>, TErr> {
        match self.it.next() {
            Some(t) => seed.deserialize(TreeDe { t, sd: self.sd, hr: self.hr }).map(Some),
            None => Ok(None),
        }
    }
    fn size_hint(&self) -> Option<usize> {
        Some(self.it.len())
    }
}
enum KeyRef<'a> {
    S(&'a str),
    T(&'a T),
}
struct MapAcc<'a> {
    items: Vec<(KeyRef<'a>, &'a T)>,
    pos: usize,
    sd: bool,
    hr: bool,
}
impl<'de, 'a> de::MapAccess<'de> for MapAcc<'a> {
    type Error = TErr;
    fn next_key_seed<S: DeserializeSeed<'de>>(&mut self, seed: S) -> Result<Option<S::Value>, TErr> {
        if self.pos >= self.items.len() {
            return Ok(None);
        }
        match &self.items[self.pos].0 {
            KeyRef::S(s) => {
                let d: de::value::StrDeserializer<'_, TErr> = (*s).into_deserializer();
                seed.deserialize(d).map(Some)
            }
            KeyRef::T(t) => seed.deserialize(TreeDe { t, sd: self.sd, hr: self.hr }).map(Some),
        }
    }
    fn next_value_seed<S: DeserializeSeed<'de>>(&mut self, seed: S) -> Result<S::Value, TErr> {
        let t = self.items[self.pos].1;
        self.pos += 1;
        seed.deserialize(TreeDe { t, sd: self.sd, hr: self.hr })
    }
}
struct EnumAcc<'a> {
    t: &'a T,
    sd: bool,
    hr: bool,
}
impl<'de, 'a> de::EnumAccess<'de> for EnumAcc<'a> {
    type Error = TErr;
    type Variant = Self;
    fn variant_seed<S: DeserializeSeed<'de>>(self, seed: S) -> Result<(S::Value, Self), TErr> {
        let (idx, name) = match self.t {
            T::VarUnit(_, i, n) | T::VarNewtype(_, i, n, _) | T::VarTuple(_, i, n, _) | T::VarStruct(_, i, n, _) => (*i, n.as_str()),
            _ => return Err(TErr("invalid type: not a variant".into())),
        };
        let v = if self.sd {
            let d: de::value::StrDeserializer<'_, TErr> = name.into_deserializer();
            seed.deserialize(d)?
        } else {
            let d: de::value::U32Deserializer<TErr> = idx.into_deserializer();
            seed.deserialize(d)?
        };
        Ok((v, self))
    }
}
impl<'de, 'a> de::VariantAccess<'de> for EnumAcc<'a> {
    type Error = TErr;
    fn unit_variant(self) -> Result<(), TErr> {
        match self.t {
            T::VarUnit(..) => Ok(()),
            _ => Err(TErr("invalid type: expected unit variant".into())),
        }
    }
    fn newtype_variant_seed<S: DeserializeSeed<'de>>(self, seed: S) -> Result<S::Value, TErr> {
        match self.t {
            T::VarNewtype(_, _, _, v) => seed.deserialize(TreeDe { t: v, sd: self.sd, hr: self.hr }),
            _ => Err(TErr("invalid type: expected newtype variant".into())),
        }
    }
    fn tuple_variant<V: Visitor<'de>>(self, _: usize, visitor: V) -> Result<V::Value, TErr> {
        match self.t {
            T::VarTuple(_, _, _, l) => visitor.visit_seq(SeqAcc { it: l.iter(), sd: self.sd, hr: self.hr }),
            _ => Err(TErr("invalid type: expected tuple variant".into())),
        }
    }
    fn struct_variant<V: Visitor<'de>>(self, _: &'static [&'static str], visitor: V) -> Result<V::Value, TErr> {
        match self.t {
            T::VarStruct(_, _, _, f) => {
                if self.sd {
                    visitor.visit_map(MapAcc { items: f.iter().map(|(k, v)| (KeyRef::S(k.as_str()), v)).collect(), pos: 0, sd: self.sd, hr: self.hr })
                } else {
                    let vals: Vec<T> = f.iter().map(|x| x.1.clone()).collect();
                    visitor.visit_seq(SeqAcc { it: vals.iter(), sd: self.sd, hr: self.hr })
                }
            }
            _ => Err(TErr("invalid type: expected struct variant".into())),
        }
    }
}

impl<'a> TreeDe<'a> {
    fn seq<'de, V: Visitor<'de>>(self, l: &'a [T], exact: Option<usize>, visitor: V) -> Result<V::Value, TErr> {
        let mut acc = SeqAcc { it: l.iter(), sd: self.sd, hr: self.hr };
        let r = visitor.visit_seq(&mut acc)?;
        if exact.is_some() && acc.it.len() > 0 {
            return Err(TErr(format!("invalid length {}, expected fewer elements", l.len())));
        }
        Ok(r)
    }
    fn fields<'de, V: Visitor<'de>>(self, f: &'a [(String, T)], visitor: V) -> Result<V::Value, TErr> {
        if self.sd {
            visitor.visit_map(MapAcc { items: f.iter().map(|(k, v)| (KeyRef::S(k.as_str()), v)).collect(), pos: 0, sd: self.sd, hr: self.hr })
        } else {
            let vals: Vec<&T> = f.iter().map(|x| &x.1).collect();
            struct RefSeq<'b> {
                v: Vec<&'b T>,
                pos: usize,
                sd: bool,
                hr: bool,
            }
            impl<'de, 'b> de::SeqAccess<'de> for RefSeq<'b> {
                type Error = TErr;
                fn next_element_seed<S: DeserializeSeed<'de>>(&mut self, seed: S) -> Result<Option<S::Value>, TErr> {
                    if self.pos >= self.v.len() {
                        return Ok(None);
                    }
                    let t = self.v[self.pos];
                    self.pos += 1;
                    seed.deserialize(TreeDe { t, sd: self.sd, hr: self.hr }).map(Some)
                }
            }
            visitor.visit_seq(RefSeq { v: vals, pos: 0, sd: self.sd, hr: self.hr })
        }
    }
}

impl<'de, 'a> de::Deserializer<'de> for TreeDe<'a> {
    type Error = TErr;
    fn is_human_readable(&self) -> bool {
        self.hr
    }
    fn deserialize_any<V: Visitor<'de>>(self, visitor: V) -> Result<V::Value, TErr> {
        match self.t {
            T::Unit => visitor.visit_unit(),
            T::Bool(b) => visitor.visit_bool(*b),
            T::U(w, n) => match w {
                8 => visitor.visit_u8(*n as u8),
                16 => visitor.visit_u16(*n as u16),
                32 => visitor.visit_u32(*n as u32),
                64 => visitor.visit_u64(*n as u64),
                _ => visitor.visit_u128(*n),
            },
            T::Str(s) => visitor.visit_str(s),
            T::Bytes(b) => visitor.visit_byte_buf(b.clone()),
            T::None => visitor.visit_none(),
            T::Some(v) => visitor.visit_some(TreeDe { t: v, ..self }),
            T::Seq(l) | T::Tuple(l) | T::TupleStruct(_, l) => self.seq(l, None, visitor),
            T::Newtype(_, v) => visitor.visit_newtype_struct(TreeDe { t: v, ..self }),
            T::UnitStruct(_) => visitor.visit_unit(),
            T::Struct(_, f) => self.fields(f, visitor),
            T::Map(kv) => visitor.visit_map(MapAcc { items: kv.iter().map(|(k, v)| (KeyRef::T(k), v)).collect(), pos: 0, sd: self.sd, hr: self.hr }),
            T::VarUnit(..) | T::VarNewtype(..) | T::VarTuple(..) | T::VarStruct(..) => visitor.visit_enum(EnumAcc { t: self.t, sd: self.sd, hr: self.hr }),
        }
    }
    fn deserialize_option<V: Visitor<'de>>(self, visitor: V) -> Result<V::Value, TErr> {
        match self.t {
            T::None => visitor.visit_none(),
            T::Some(v) => visitor.visit_some(TreeDe { t: v, ..self }),
            _ => visitor.visit_some(self),
        }
    }
    fn deserialize_newtype_struct<V: Visitor<'de>>(self, _: &'static str, visitor: V) -> Result<V::Value, TErr> {
        match self.t {
            T::Newtype(_, v) => visitor.visit_newtype_struct(TreeDe { t: v, ..self }),
            _ => visitor.visit_newtype_struct(self),
        }
    }
    fn deserialize_tuple<V: Visitor<'de>>(self, n: usize, visitor: V) -> Result<V::Value, TErr> {
        match self.t {
            T::Tuple(l) | T::TupleStruct(_, l) => self.seq(l, Some(n), visitor),
            T::Seq(l) => {
                if self.sd {
                    self.seq(l, Some(n), visitor)
                } else {
                    Err(TErr("hint mismatch: tuple requested, sequence written".into()))
                }
            }
            _ => self.deserialize_any(visitor),
        }
    }
    fn deserialize_seq<V: Visitor<'de>>(self, visitor: V) -> Result<V::Value, TErr> {
        match self.t {
            T::Seq(l) => self.seq(l, None, visitor),
            T::Tuple(l) | T::TupleStruct(_, l) => {
                if self.sd {
                    self.seq(l, None, visitor)
                } else {
                    Err(TErr("hint mismatch: sequence requested, tuple written".into()))
                }
            }
            _ => self.deserialize_any(visitor),
        }
    }
    fn deserialize_tuple_struct<V: Visitor<'de>>(self, _: &'static str, n: usize, visitor: V) -> Result<V::Value, TErr> {
        self.deserialize_tuple(n, visitor)
    }
    fn deserialize_struct<V: Visitor<'de>>(self, _: &'static str, _: &'static [&'static str], visitor: V) -> Result<V::Value, TErr> {
        self.deserialize_any(visitor)
    }
    fn deserialize_enum<V: Visitor<'de>>(self, _: &'static str, _: &'static [&'static str], visitor: V) -> Result<V::Value, TErr> {
        match self.t {
            T::VarUnit(..) | T::VarNewtype(..) | T::VarTuple(..) | T::VarStruct(..) => visitor.visit_enum(EnumAcc { t: self.t, sd: self.sd, hr: self.hr }),
            _ => Err(TErr("invalid type: expected enum".into())),
        }
    }
    fn deserialize_ignored_any<V: Visitor<'de>>(self, visitor: V) -> Result<V::Value, TErr> {
        visitor.visit_unit()
    }
    serde::forward_to_deserialize_any! {
        bool i8 i16 i32 i64 i128 u8 u16 u32 u64 u128 f32 f64 char str string bytes byte_buf unit unit_struct map identifier
    }
}
