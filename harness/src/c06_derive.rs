//! C06, derived impls: values of repository types in neutral form (`sval` of
//! coq/Serde/DeriveModel.v), the tree the real derive output emits, compared with the model.
#![allow(dead_code)]
use crate::g::*;
use crate::tree::*;
use fuel_tx::field::{self as f, BlobId as _, BytecodeRoot as _, BytecodeWitnessIndex as _, MintGasPrice as _, InputContract as _, Inputs as _, MintAmount as _, MintAssetId as _, OutputContract as _, Outputs as _, Policies as _, ProofSet as _, ReceiptsRoot as _, Salt as _, Script as _, ScriptData as _, ScriptGasLimit as _, StorageSlots as _, SubsectionIndex as _, SubsectionsNumber as _, TxPointer as _, UpgradePurpose as _, Witnesses as _};
use fuel_tx::input::coin::{CoinPredicate, CoinSigned};
use fuel_tx::input::message::{MessageCoinPredicate, MessageCoinSigned, MessageDataPredicate, MessageDataSigned};
use fuel_tx::*;
use fvh::*;
use serde_json::json;

#[derive(Clone, Debug)]
pub enum SV {
    Unit,
    N(u128),
    B(Vec<u8>),
    Pol(u32, [u64; 6]),
    None,
    Some(Box<SV>),
    List(Vec<SV>),
    Rec(Vec<SV>),
    Var(usize, Vec<SV>),
}
impl SV {
    pub fn coq(&self) -> String {
        let ls = |l: &Vec<SV>| coq_list(&l.iter().map(|x| x.coq()).collect::<Vec<_>>());
        match self {
            SV::Unit => "XUnit".into(),
            SV::N(n) => format!("(XN {})", n),
            SV::B(b) => format!("(XB (hex \"{}\"))", hex::encode(b)),
            SV::Pol(b, v) => format!("(XPol (mkPol {} {}))", b, coq_list(&v.iter().map(|x| x.to_string()).collect::<Vec<_>>())),
            SV::None => "XNone".into(),
            SV::Some(v) => format!("(XSome {})", v.coq()),
            SV::List(l) => format!("(XList {})", ls(l)),
            SV::Rec(l) => format!("(XRec {})", ls(l)),
            SV::Var(i, l) => format!("(XVar {} {})", i, ls(l)),
        }
    }
}
fn b<T: AsRef<[u8]>>(x: &T) -> SV {
    SV::B(x.as_ref().to_vec())
}
fn n<T: Into<u128>>(x: T) -> SV {
    SV::N(x.into())
}
fn utxo(u: &UtxoId) -> SV {
    SV::Rec(vec![b(u.tx_id()), n(u.output_index())])
}
fn txptr(p: &TxPointer) -> SV {
    SV::Rec(vec![n(*p.block_height()), n(p.tx_index())])
}
fn in_contract(c: &fuel_tx::input::contract::Contract) -> SV {
    SV::Rec(vec![utxo(&c.utxo_id), b(&c.balance_root), b(&c.state_root), txptr(&c.tx_pointer), b(&c.contract_id)])
}
fn out_contract(c: &fuel_tx::output::contract::Contract) -> SV {
    SV::Rec(vec![n(c.input_index), b(&c.balance_root), b(&c.state_root)])
}
pub fn input_sv(i: &Input) -> SV {
    let e = SV::Unit;
    match i {
        Input::CoinSigned(CoinSigned { utxo_id, owner, amount, asset_id, tx_pointer, witness_index, .. }) => SV::Var(
            0,
            vec![SV::Rec(vec![utxo(utxo_id), b(owner), n(*amount), b(asset_id), txptr(tx_pointer), n(*witness_index), e.clone(), e.clone(), e])],
        ),
        Input::CoinPredicate(CoinPredicate { utxo_id, owner, amount, asset_id, tx_pointer, predicate_gas_used, predicate, predicate_data, .. }) => SV::Var(
            1,
            vec![SV::Rec(vec![utxo(utxo_id), b(owner), n(*amount), b(asset_id), txptr(tx_pointer), e, n(*predicate_gas_used), SV::B(predicate.to_vec()), SV::B(predicate_data.to_vec())])],
        ),
        Input::Contract(c) => SV::Var(2, vec![in_contract(c)]),
        Input::MessageCoinSigned(MessageCoinSigned { sender, recipient, amount, nonce, witness_index, .. }) => {
            SV::Var(3, vec![SV::Rec(vec![b(sender), b(recipient), n(*amount), b(nonce), n(*witness_index), e.clone(), e.clone(), e.clone(), e])])
        }
        Input::MessageCoinPredicate(MessageCoinPredicate { sender, recipient, amount, nonce, predicate_gas_used, predicate, predicate_data, .. }) => SV::Var(
            4,
            vec![SV::Rec(vec![b(sender), b(recipient), n(*amount), b(nonce), e.clone(), n(*predicate_gas_used), e, SV::B(predicate.to_vec()), SV::B(predicate_data.to_vec())])],
        ),
        Input::MessageDataSigned(MessageDataSigned { sender, recipient, amount, nonce, witness_index, data, .. }) => {
            SV::Var(5, vec![SV::Rec(vec![b(sender), b(recipient), n(*amount), b(nonce), n(*witness_index), e.clone(), SV::B(data.to_vec()), e.clone(), e])])
        }
        Input::MessageDataPredicate(MessageDataPredicate { sender, recipient, amount, nonce, predicate_gas_used, data, predicate, predicate_data, .. }) => SV::Var(
            6,
            vec![SV::Rec(vec![b(sender), b(recipient), n(*amount), b(nonce), e, n(*predicate_gas_used), SV::B(data.to_vec()), SV::B(predicate.to_vec()), SV::B(predicate_data.to_vec())])],
        ),
    }
}
pub fn output_sv(o: &Output) -> SV {
    match o {
        Output::Coin { to, amount, asset_id } => SV::Var(0, vec![b(to), n(*amount), b(asset_id)]),
        Output::Contract(c) => SV::Var(1, vec![out_contract(c)]),
        Output::Change { to, amount, asset_id } => SV::Var(2, vec![b(to), n(*amount), b(asset_id)]),
        Output::Variable { to, amount, asset_id } => SV::Var(3, vec![b(to), n(*amount), b(asset_id)]),
        Output::ContractCreated { contract_id, state_root } => SV::Var(4, vec![b(contract_id), b(state_root)]),
    }
}
pub fn purpose_sv(p: &UpgradePurpose) -> SV {
    match p {
        UpgradePurpose::ConsensusParameters { witness_index, checksum } => SV::Var(0, vec![n(*witness_index), b(checksum)]),
        UpgradePurpose::StateTransition { root } => SV::Var(1, vec![b(root)]),
    }
}
fn pol_sv(p: &policies::Policies) -> SV {
    let s = format!("{:?}", p);
    let i = s.find("values: [").expect("Debug format of Policies") + 9;
    let j = i + s[i..].find(']').unwrap();
    let mut vals = [0u64; 6];
    for (k, x) in s[i..j].split(',').enumerate() {
        vals[k] = x.trim().parse().expect("Debug value");
    }
    SV::Pol(p.bits(), vals)
}
fn meta(present: bool) -> SV {
    if present { SV::Some(Box::new(SV::Unit)) } else { SV::None }
}
fn chargeable<Tx>(tx: &Tx, body: SV, has_meta: bool) -> SV
where
    Tx: f::Policies + f::Inputs + f::Outputs + f::Witnesses,
{
    SV::Rec(vec![
        body,
        pol_sv(tx.policies()),
        SV::List(tx.inputs().iter().map(input_sv).collect()),
        SV::List(tx.outputs().iter().map(output_sv).collect()),
        SV::List(tx.witnesses().iter().map(|w| SV::Rec(vec![SV::B(w.as_vec().clone())])).collect()),
        meta(has_meta),
    ])
}
pub fn tx_sv(tx: &Transaction) -> SV {
    match tx {
        Transaction::Script(t) => {
            let body = SV::Rec(vec![n(*t.script_gas_limit()), b(t.receipts_root()), SV::B(t.script().clone()), SV::B(t.script_data().clone())]);
            SV::Var(0, vec![chargeable(t, body, t.is_computed())])
        }
        Transaction::Create(t) => {
            let body = SV::Rec(vec![
                n(*t.bytecode_witness_index()),
                b(t.salt()),
                SV::List(t.storage_slots().iter().map(|s| SV::Rec(vec![b(s.key()), b(s.value())])).collect()),
            ]);
            SV::Var(1, vec![chargeable(t, body, t.is_computed())])
        }
        Transaction::Mint(t) => SV::Var(
            2,
            vec![SV::Rec(vec![
                txptr(t.tx_pointer()),
                in_contract(t.input_contract()),
                out_contract(t.output_contract()),
                n(*t.mint_amount()),
                b(t.mint_asset_id()),
                n(*t.gas_price()),
                meta(t.is_computed()),
            ])],
        ),
        Transaction::Upgrade(t) => {
            let body = SV::Rec(vec![purpose_sv(t.upgrade_purpose())]);
            SV::Var(3, vec![chargeable(t, body, t.is_computed())])
        }
        Transaction::Upload(t) => {
            let body = SV::Rec(vec![
                b(t.bytecode_root()),
                n(*t.bytecode_witness_index()),
                n(*t.subsection_index()),
                n(*t.subsections_number()),
                SV::List(t.proof_set().iter().map(|x| b(x)).collect()),
            ]);
            SV::Var(4, vec![chargeable(t, body, t.is_computed())])
        }
        Transaction::Blob(t) => {
            let body = SV::Rec(vec![b(t.blob_id()), n(*t.bytecode_witness_index())]);
            SV::Var(5, vec![chargeable(t, body, t.is_computed())])
        }
    }
}

fn derive_case<V: serde::Serialize + serde::de::DeserializeOwned + PartialEq>(out: &mut Out, schema: u32, sname: &str, v: &V, sv: SV, class: &str) {
    for hr in [false, true] {
        let t = match record(v, hr) {
            Ok(t) => t,
            Err(e) => {
                out.notes.push(format!("record failed for {}: {}", sname, e));
                continue;
            }
        };
        // the real Deserialize driven from the recorded tree through both transports
        let ok_seq = matches!(replay_de::<V>(&t, false, hr), Ok(a) if &a == v);
        let ok_map = matches!(replay_de::<V>(&t, true, hr), Ok(a) if &a == v);
        out.push(Case {
            coq: format!("CDerive {} {} {} {} {} {}", schema, coq_bool(hr), sv.coq(), t.coq(), coq_bool(ok_seq), coq_bool(ok_map)),
            json: json!({"kind":"derive","schema":sname,"hr":hr,"class":class,"nodes":t.size()}),
            key: format!("derive:{}:{}:{}", sname, hr, t.coq()),
            nontrivial: t.size() > 3,
            class: format!("derive/{}/{}", sname, class),
        });
    }
}

pub fn run_derive(args: &Args, out: &mut Out, rng: &mut Rng) {
    let n_tx = args.scale(4, 60);
    for kind in 0..6 {
        for i in 0..n_tx {
            let mut tx = gen_tx_kind(rng, kind, false);
            if i % 3 == 2 {
                let _ = tx.precompute(&chain());
            }
            let sv = tx_sv(&tx);
            derive_case(out, 0, "Transaction", &tx, sv, TX_KINDS[kind]);
        }
    }
    for k in 0..7 {
        let (pl, pdl, dl) = (1 + rng.below(9) as usize, rng.below(9) as usize, 1 + rng.below(9) as usize);
        let i = gen_input_kind(rng, k, pl, pdl, dl);
        derive_case(out, 3, "Input", &i, input_sv(&i), &format!("variant{}", k));
    }
    for k in 0..5 {
        let o = gen_output_kind(rng, k);
        derive_case(out, 4, "Output", &o, output_sv(&o), &format!("variant{}", k));
    }
    for _ in 0..4 {
        let p = gen_purpose(rng);
        derive_case(out, 5, "UpgradePurpose", &p, purpose_sv(&p), "purpose");
    }
    for dc in [
        DependentCost::LightOperation { base: rng.u64_biased(), units_per_gas: rng.u64_biased() },
        DependentCost::HeavyOperation { base: rng.u64_biased(), gas_per_unit: u64::MAX },
    ] {
        let sv = match dc {
            DependentCost::LightOperation { base, units_per_gas } => SV::Var(0, vec![n(base), n(units_per_gas)]),
            DependentCost::HeavyOperation { base, gas_per_unit } => SV::Var(1, vec![n(base), n(gas_per_unit)]),
        };
        derive_case(out, 1, "DependentCost", &dc, sv, "cost");
    }
    let fp = FeeParameters::DEFAULT.with_gas_per_byte(rng.u64_biased()).with_gas_price_factor(rng.u64_biased());
    derive_case(out, 2, "FeeParameters", &fp, SV::Var(0, vec![SV::Rec(vec![n(fp.gas_price_factor()), n(fp.gas_per_byte())])]), "fee");
}

pub fn dump() {
    let mut rng = Rng::new(1);
    for k in 0..6 {
        let tx = gen_tx_kind(&mut rng, k, false);
        println!("{}", tx_sv(&tx).coq());
        println!("{}", record(&tx, false).unwrap().coq());
    }
}
