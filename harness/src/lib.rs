//! Shared helpers for the correspondence harness binaries (one binary per model family
//! under src/bin/).  Every binary follows the same contract, driven by tools/vcheck.py:
//!
//!   <bin> --prop Cxx --tier quick|thorough --seed N --out DIR --shards K [--replay FILE]
//!         [--oracle-only]
//!
//! and writes into DIR:
//!   cases_<k>.v   Coq files: the cases (inputs + what the implementation returned) followed
//!                 by `Eval vm_compute in (bad_cases ...)` which lists the indices on which
//!                 the Gallina model disagrees with the implementation;
//!   meta.json     counts, distribution, samples, implementation-level oracle failures
//!                 (property checked directly on the real code) with their replay inputs.
use std::collections::{BTreeMap, BTreeSet};
use std::fmt::Write as _;
use std::panic::{catch_unwind, AssertUnwindSafe};

// ---------------------------------------------------------------- deterministic PRNG
/// SplitMix64: every random choice of a run derives from VERIF_SEED through this.
#[derive(Clone)]
pub struct Rng(pub u64);
impl Rng {
    pub fn new(seed: u64) -> Self {
        Rng(seed ^ 0x9E37_79B9_7F4A_7C15)
    }
    pub fn next(&mut self) -> u64 {
        self.0 = self.0.wrapping_add(0x9E37_79B9_7F4A_7C15);
        let mut z = self.0;
        z = (z ^ (z >> 30)).wrapping_mul(0xBF58_476D_1CE4_E5B9);
        z = (z ^ (z >> 27)).wrapping_mul(0x94D0_49BB_1331_11EB);
        z ^ (z >> 31)
    }
    pub fn below(&mut self, n: u64) -> u64 {
        if n == 0 { 0 } else { self.next() % n }
    }
    pub fn range(&mut self, lo: u64, hi_incl: u64) -> u64 {
        lo + self.below(hi_incl - lo + 1)
    }
    pub fn bool(&mut self) -> bool {
        self.next() & 1 == 1
    }
    pub fn chance(&mut self, num: u64, den: u64) -> bool {
        self.below(den) < num
    }
    pub fn pick<'a, T>(&mut self, xs: &'a [T]) -> &'a T {
        &xs[self.below(xs.len() as u64) as usize]
    }
    pub fn bytes(&mut self, n: usize) -> Vec<u8> {
        (0..n).map(|_| self.next() as u8).collect()
    }
    /// random byte string of random length in 0..=max
    pub fn bytes_upto(&mut self, max: usize) -> Vec<u8> {
        let n = self.below(max as u64 + 1) as usize;
        self.bytes(n)
    }
    pub fn bytes32(&mut self) -> [u8; 32] {
        let mut b = [0u8; 32];
        for x in b.iter_mut() {
            *x = self.next() as u8;
        }
        b
    }
    /// boundary-biased u64
    pub fn u64_biased(&mut self) -> u64 {
        const B: [u64; 24] = [
            0, 1, 2, 3, 7, 8, 9, 255, 256, 257, 65535, 65536,
            (1 << 31) - 1, 1 << 31, (1 << 32) - 1, 1 << 32, (1 << 32) + 1,
            (1 << 62), (1 << 63) - 1, 1 << 63, (1 << 63) + 1,
            u64::MAX - 2, u64::MAX - 1, u64::MAX,
        ];
        match self.below(10) {
            0..=3 => *self.pick(&B),
            4 => self.below(64),
            5 => 1u64 << self.below(64),
            6 => (1u64 << self.below(64)).wrapping_sub(1),
            7 => self.below(1 << 20),
            _ => self.next(),
        }
    }
    pub fn shuffle<T>(&mut self, v: &mut [T]) {
        for i in (1..v.len()).rev() {
            let j = self.below(i as u64 + 1) as usize;
            v.swap(i, j);
        }
    }
}

// ---------------------------------------------------------------- CLI
#[derive(Clone, Debug)]
pub struct Args {
    pub prop: String,
    pub tier: String,
    pub seed: u64,
    pub out: String,
    pub shards: usize,
    pub replay: Option<String>,
    pub oracle_only: bool,
    pub extra: BTreeMap<String, String>,
}
impl Args {
    pub fn parse() -> Args {
        let mut a = Args {
            prop: String::new(),
            tier: "quick".into(),
            seed: 0,
            out: ".".into(),
            shards: 1,
            replay: None,
            oracle_only: false,
            extra: BTreeMap::new(),
        };
        let v: Vec<String> = std::env::args().skip(1).collect();
        let mut i = 0;
        while i < v.len() {
            let k = v[i].clone();
            let mut val = || {
                i += 1;
                v.get(i).cloned().unwrap_or_default()
            };
            match k.as_str() {
                "--prop" => a.prop = val(),
                "--tier" => a.tier = val(),
                "--seed" => a.seed = val().parse().unwrap_or(0),
                "--out" => a.out = val(),
                "--shards" => a.shards = val().parse().unwrap_or(1).max(1),
                "--replay" => a.replay = Some(val()),
                "--oracle-only" => a.oracle_only = true,
                other if other.starts_with("--") => {
                    let key = other[2..].to_string();
                    let x = val();
                    a.extra.insert(key, x);
                }
                _ => {}
            }
            i += 1;
        }
        a
    }
    pub fn thorough(&self) -> bool {
        self.tier == "thorough"
    }
    /// scale a quick-tier count for the thorough tier
    pub fn scale(&self, quick: usize, thorough: usize) -> usize {
        let base = if self.thorough() { thorough } else { quick };
        match self.extra.get("scale").and_then(|s| s.parse::<f64>().ok()) {
            Some(f) => ((base as f64) * f).max(1.0) as usize,
            None => base,
        }
    }
}

// ---------------------------------------------------------------- Coq term printers
pub fn hexs(b: &[u8]) -> String {
    hex::encode(b)
}
/// `(hex "..")` : bytes
pub fn coq_bytes(b: &[u8]) -> String {
    format!("(hex \"{}\")", hex::encode(b))
}
pub fn coq_n(n: u64) -> String {
    format!("{}", n)
}
pub fn coq_n128(n: u128) -> String {
    format!("{}", n)
}
pub fn coq_bool(b: bool) -> &'static str {
    if b { "true" } else { "false" }
}
pub fn coq_list<T: AsRef<str>>(xs: &[T]) -> String {
    let mut s = String::from("[");
    for (i, x) in xs.iter().enumerate() {
        if i > 0 {
            s.push_str("; ");
        }
        s.push_str(x.as_ref());
    }
    s.push(']');
    s
}
pub fn coq_opt(x: Option<String>) -> String {
    match x {
        Some(s) => format!("(Some {})", s),
        None => "None".into(),
    }
}
pub fn coq_pair(a: &str, b: &str) -> String {
    format!("({}, {})", a, b)
}

// ---------------------------------------------------------------- output collector
/// One correspondence case: the Coq term (input + implementation result), a neutral JSON
/// description (for replay/evidence), a distinctness key, and whether it is non-trivial.
pub struct Case {
    pub coq: String,
    pub json: serde_json::Value,
    pub key: String,
    pub nontrivial: bool,
    pub class: String,
}

#[derive(Default)]
pub struct Out {
    pub cases: Vec<Case>,
    /// implementation-level oracle failures: (class, description, replay json)
    pub oracle_failures: Vec<(String, String, serde_json::Value)>,
    pub oracle_evaluations: u64,
    pub notes: Vec<String>,
    pub dist: BTreeMap<String, u64>,
}

impl Out {
    pub fn new() -> Self {
        Default::default()
    }
    pub fn push(&mut self, c: Case) {
        *self.dist.entry(c.class.clone()).or_insert(0) += 1;
        self.cases.push(c);
    }
    pub fn count(&mut self, k: &str) {
        *self.dist.entry(k.to_string()).or_insert(0) += 1;
    }
    pub fn oracle_fail(&mut self, class: &str, what: &str, replay: serde_json::Value) {
        self.oracle_failures.push((class.to_string(), what.to_string(), replay));
    }
    /// Write cases_<k>.v and meta.json.  `header` is the Require line(s); `ty` the Coq type
    /// of one case; `runner` the Coq function `list ty -> list N` returning bad indices.
    pub fn write(&self, args: &Args, header: &str, ty: &str, runner: &str) {
        std::fs::create_dir_all(&args.out).unwrap();
        let k = args.shards.max(1);
        // --oracle-only: the model is not run; only the implementation-level verdicts count
        let n = if args.oracle_only { 0 } else { self.cases.len() };
        let per = n.div_ceil(k).max(1);
        let mut shard_files = vec![];
        for s in 0..k {
            let lo = s * per;
            if lo >= n && s > 0 {
                break;
            }
            let hi = ((s + 1) * per).min(n);
            let mut f = String::new();
            writeln!(f, "{}", header).unwrap();
            writeln!(f, "Definition cases : list (N * ({})) := [", ty).unwrap();
            for (j, i) in (lo..hi).enumerate() {
                if j > 0 {
                    f.push_str(";\n");
                }
                write!(f, " ({}, {})", i, self.cases[i].coq).unwrap();
            }
            writeln!(f, "\n].").unwrap();
            writeln!(f, "Eval vm_compute in ({} cases).", runner).unwrap();
            let p = format!("{}/cases_{}.v", args.out, s);
            std::fs::write(&p, f).unwrap();
            shard_files.push(p);
        }
        let mut keys = BTreeSet::new();
        for c in self.cases.iter().take(n) {
            if c.nontrivial {
                keys.insert(c.key.clone());
            }
        }
        let samples: Vec<_> = self
            .cases
            .iter()
            .take(n)
            .enumerate()
            .filter(|(i, _)| n <= 6 || i % (n / 6).max(1) == 0)
            .take(8)
            .map(|(_, c)| c.json.clone())
            .collect();
        let meta = serde_json::json!({
            "prop": args.prop, "tier": args.tier, "seed": args.seed,
            "cases": n,
            "distinct_nontrivial": keys.len(),
            "distribution": self.dist,
            "samples": samples,
            "shards": shard_files,
            "oracle_evaluations": self.oracle_evaluations,
            "oracle_failures": self.oracle_failures.iter().map(|(c,w,r)| serde_json::json!({"class":c,"what":w,"replay":r})).collect::<Vec<_>>(),
            "notes": self.notes,
            "case_json": self.cases.iter().take(n).map(|c| c.json.clone()).collect::<Vec<_>>(),
        });
        std::fs::write(format!("{}/meta.json", args.out), serde_json::to_string(&meta).unwrap()).unwrap();
    }
}

/// Run `f`, mapping a host panic to Err(message).
pub fn guarded<T>(f: impl FnOnce() -> T) -> Result<T, String> {
    match catch_unwind(AssertUnwindSafe(f)) {
        Ok(v) => Ok(v),
        Err(e) => {
            let msg = if let Some(s) = e.downcast_ref::<&str>() {
                s.to_string()
            } else if let Some(s) = e.downcast_ref::<String>() {
                s.clone()
            } else {
                "panic".to_string()
            };
            Err(msg)
        }
    }
}

pub fn quiet_panics() {
    std::panic::set_hook(Box::new(|_| {}));
}

pub fn read_replay(path: &str) -> serde_json::Value {
    let s = std::fs::read_to_string(path).expect("replay file");
    serde_json::from_str(&s).expect("replay json")
}

/// VM program generator + step-wise tracer shared by the VM-family binaries (see VMTRACE.md).
pub mod vmtrace;
