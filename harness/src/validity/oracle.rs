// Implementation-level oracle for C19 (included by bin/validity.rs).
//
// An independent, declarative validity checker written from the rule list of the property
// text: every rule is evaluated on its own (no early exit, no ordering), with sets / counts /
// 128-bit sums; the result is the set of violated rule names.  `valid <=> no rule violated`.

fn in_asset(i: &AIn, base: &Id) -> Option<Id> {
    match i {
        AIn::CoinSigned { asset, .. } | AIn::CoinPredicate { asset, .. } => Some(asset.clone()),
        AIn::Contract { .. } => None,
        _ => Some(base.clone()),
    }
}
fn is_msg_data(i: &AIn) -> bool {
    matches!(i, AIn::MsgDataSigned { .. } | AIn::MsgDataPredicate { .. })
}
fn is_contract_in(i: &AIn) -> bool {
    matches!(i, AIn::Contract { .. })
}
fn is_spendable_in(i: &AIn) -> bool {
    !is_msg_data(i) && !is_contract_in(i)
}
fn owner_of(i: &AIn) -> Option<&Id> {
    match i {
        AIn::CoinSigned { owner, .. } | AIn::CoinPredicate { owner, .. } => Some(owner),
        AIn::Contract { .. } => None,
        AIn::MsgCoinSigned { recipient, .. }
        | AIn::MsgCoinPredicate { recipient, .. }
        | AIn::MsgDataSigned { recipient, .. }
        | AIn::MsgDataPredicate { recipient, .. } => Some(recipient),
    }
}
fn has_dup(ids: Vec<&Id>) -> bool {
    let set: BTreeSet<&Id> = ids.iter().cloned().collect();
    set.len() != ids.len()
}
fn pad8(n: u64) -> u128 {
    ((n as u128 + 7) / 8) * 8
}

/// spendable input totals per asset, coin output totals per asset, retryable total (exact)
fn spec_sums(t: &ACtx, base: &Id) -> (BTreeMap<Id, u128>, BTreeMap<Id, u128>, u128) {
    let mut ins: BTreeMap<Id, u128> = BTreeMap::new();
    let mut outs: BTreeMap<Id, u128> = BTreeMap::new();
    let mut retry = 0u128;
    for i in &t.ins {
        match i {
            AIn::CoinSigned { asset, amount, .. } | AIn::CoinPredicate { asset, amount, .. } => {
                *ins.entry(asset.clone()).or_default() += *amount as u128
            }
            AIn::MsgCoinSigned { amount, .. } | AIn::MsgCoinPredicate { amount, .. } => {
                *ins.entry(base.clone()).or_default() += *amount as u128
            }
            AIn::MsgDataSigned { amount, .. } | AIn::MsgDataPredicate { amount, .. } => retry += *amount as u128,
            AIn::Contract { .. } => {}
        }
    }
    for o in &t.outs {
        if let AOut::Coin { amount, asset } = o {
            *outs.entry(asset.clone()).or_default() += *amount as u128;
        }
    }
    (ins, outs, retry)
}

fn pol_get(p: &APol, k: usize) -> Option<u64> {
    if p.bits & (1 << k) != 0 { Some(p.values[k]) } else { None }
}

/// names of all violated rules
fn spec_violations(a: &ATx, p: &PPlan, height: u64) -> BTreeSet<&'static str> {
    let mut v = BTreeSet::new();
    let base: Id = hexs(&p.base_asset);
    match a {
        ATx::Mint(m) => {
            if m.size > p.max_size { v.insert("size"); }
            if m.height != height { v.insert("mint:height"); }
            if m.out_index != 0 { v.insert("mint:output_index"); }
            if m.asset != base { v.insert("mint:asset"); }
        }
        ATx::Charge(t) => {
            // ---- common
            if t.size > p.max_size { v.insert("size"); }
            let pol = &t.pol;
            let mut pol_ok = pol.bits < 64;
            for k in 0..6 {
                if pol.bits & (1 << k) == 0 && pol.values[k] != 0 { pol_ok = false; }
            }
            for k in [2usize, 4, 5] {
                if let Some(x) = pol_get(pol, k) { if x > u32::MAX as u64 { pol_ok = false; } }
            }
            if !pol_ok { v.insert("policies"); }
            let wbytes: u128 = t.wits.iter().map(|l| 8 + pad8(*l)).sum();
            if let Some(l) = pol_get(pol, 1) { if wbytes > l as u128 { v.insert("witness_limit"); } }
            if t.max_gas > p.max_gas_per_tx { v.insert("max_gas"); }
            if pol_get(pol, 3).is_none() { v.insert("max_fee_set"); }
            if let Some(m) = pol_get(pol, 2) { if m > height { v.insert("maturity"); } }
            if let Some(e) = pol_get(pol, 4) { if e < height { v.insert("expiration"); } }
            if t.ins.len() as u64 > p.max_inputs as u64 { v.insert("inputs_max"); }
            if t.outs.len() as u64 > p.max_outputs as u64 { v.insert("outputs_max"); }
            if t.wits.len() as u64 > p.max_witnesses as u64 { v.insert("witnesses_max"); }
            if let Some(o) = pol_get(pol, 5) {
                match t.ins.get(usize::try_from(o).unwrap_or(usize::MAX)) {
                    Some(i) if owner_of(i).is_some() => {}
                    _ => { v.insert("owner"); }
                }
            }
            if !t.ins.iter().any(is_spendable_in) { v.insert("spendable"); }
            let in_assets: BTreeSet<Id> = t.ins.iter().filter_map(|i| in_asset(i, &base)).collect();
            let change_assets: Vec<&Id> = t.outs.iter().filter_map(|o| if let AOut::Change { asset } = o { Some(asset) } else { None }).collect();
            if has_dup(change_assets.clone()) { v.insert("change_unique"); }
            if change_assets.iter().any(|a| !in_assets.contains(*a)) { v.insert("output:change_asset"); }
            if t.outs.iter().any(|o| matches!(o, AOut::Coin { asset, .. } if !in_assets.contains(asset))) { v.insert("output:coin_asset"); }
            if has_dup(t.ins.iter().filter_map(|i| match i { AIn::CoinSigned { utxo, .. } | AIn::CoinPredicate { utxo, .. } => Some(utxo), _ => None }).collect()) { v.insert("utxo_unique"); }
            if has_dup(t.ins.iter().filter_map(|i| if let AIn::Contract { cid, .. } = i { Some(cid) } else { None }).collect()) { v.insert("contract_unique"); }
            if has_dup(t.ins.iter().filter_map(|i| match i {
                AIn::MsgCoinSigned { nonce, .. } | AIn::MsgCoinPredicate { nonce, .. } | AIn::MsgDataSigned { nonce, .. } | AIn::MsgDataPredicate { nonce, .. } => Some(nonce),
                _ => None }).collect()) { v.insert("nonce_unique"); }
            let nwit = t.wits.len() as u64;
            for (idx, i) in t.ins.iter().enumerate() {
                let (wi, pred, data) = match i {
                    AIn::CoinSigned { wi, .. } | AIn::MsgCoinSigned { wi, .. } => (Some(*wi), None, None),
                    AIn::CoinPredicate { plen, pdlen, .. } | AIn::MsgCoinPredicate { plen, pdlen, .. } => (None, Some((*plen, *pdlen)), None),
                    AIn::MsgDataSigned { wi, dlen, .. } => (Some(*wi), None, Some(*dlen)),
                    AIn::MsgDataPredicate { plen, pdlen, dlen, .. } => (None, Some((*plen, *pdlen)), Some(*dlen)),
                    AIn::Contract { .. } => (None, None, None),
                };
                if let Some(w) = wi { if w >= nwit { v.insert("input:witness_index"); } }
                if let Some((pl, pdl)) = pred {
                    if pl == 0 || pl > p.max_pred_len || pdl > p.max_pred_data_len { v.insert("input:predicate"); }
                }
                if let Some(d) = data { if d == 0 || d > p.max_msg_data_len { v.insert("input:message_data"); } }
                if is_contract_in(i) {
                    let n = t.outs.iter().filter(|o| matches!(o, AOut::Contract { input_index } if *input_index == idx as u64)).count();
                    if n != 1 { v.insert("input:contract_output"); }
                }
            }
            for o in &t.outs {
                if let AOut::Contract { input_index } = o {
                    match t.ins.get(*input_index as usize) {
                        Some(i) if is_contract_in(i) => {}
                        _ => { v.insert("output:contract_index"); }
                    }
                }
            }
            // ---- sufficient balance (exact integers)
            let (ins, outs, retry) = spec_sums(t, &base);
            let word = 1u128 << 64;
            if ins.values().any(|x| *x >= word) || retry >= word { v.insert("balance:overflow"); }
            let fee = pol_get(pol, 3).unwrap_or(0) as u128;
            let base_in = ins.get(&base).cloned().unwrap_or(0);
            if base_in < fee { v.insert("balance:fee"); }
            for (a, o) in &outs {
                let i = ins.get(a).cloned().unwrap_or(0);
                let f = if *a == base { fee } else { 0 };
                if i < o + f { v.insert("balance:outputs"); }
            }
            // ---- kind rules
            let restricted = |v: &mut BTreeSet<&'static str>, allow_created: bool| {
                for i in &t.ins {
                    match i {
                        AIn::CoinSigned { asset, .. } | AIn::CoinPredicate { asset, .. } => { if *asset != base { v.insert("restricted:input_asset"); } }
                        AIn::Contract { .. } => { v.insert("restricted:input_contract"); }
                        AIn::MsgDataSigned { .. } | AIn::MsgDataPredicate { .. } => { v.insert("restricted:input_message_data"); }
                        _ => {}
                    }
                }
                for o in &t.outs {
                    match o {
                        AOut::Contract { .. } => { v.insert("restricted:output_contract"); }
                        AOut::Variable => { v.insert("restricted:output_variable"); }
                        AOut::Change { asset } => { if *asset != base { v.insert("restricted:change_asset"); } }
                        AOut::ContractCreated { .. } => { if !allow_created { v.insert("created_output"); } }
                        AOut::Coin { .. } => {}
                    }
                }
            };
            match &t.body {
                ABody::Script { slen, sdlen } => {
                    if *slen > p.max_script_len { v.insert("script:length"); }
                    if *sdlen > p.max_script_data_len { v.insert("script:data_length"); }
                    if t.outs.iter().any(|o| matches!(o, AOut::ContractCreated { .. })) { v.insert("created_output"); }
                }
                ABody::Create { bwi, slots, cid, sroot } => {
                    match t.wits.get(*bwi as usize) {
                        None => { v.insert("create:witness_index"); }
                        Some(l) => { if *l > p.contract_max_size { v.insert("create:bytecode_len"); } }
                    }
                    if slots.len() as u64 > p.max_storage_slots { v.insert("create:slots_max"); }
                    if slots.windows(2).any(|w| w[0] >= w[1]) { v.insert("create:slots_order"); }
                    restricted(&mut v, true);
                    let created: Vec<_> = t.outs.iter().filter_map(|o| if let AOut::ContractCreated { cid, state_root } = o { Some((cid, state_root)) } else { None }).collect();
                    if t.wits.get(*bwi as usize).is_some() && created.iter().any(|(c, s)| *c != cid || *s != sroot) { v.insert("create:created_mismatch"); }
                    if created.len() != 1 { v.insert("create:created_count"); }
                }
                ABody::UpgradeCP { wi, checksum_ok, decodes } => {
                    if !t.ins.iter().any(|i| owner_of(i) == Some(&hexs(&p.privileged))) { v.insert("upgrade:privileged"); }
                    if *wi >= nwit { v.insert("upgrade:witness_index"); } else {
                        if !checksum_ok { v.insert("upgrade:checksum"); }
                        if !decodes { v.insert("upgrade:decode"); }
                    }
                    restricted(&mut v, false);
                }
                ABody::UpgradeST => {
                    if !t.ins.iter().any(|i| owner_of(i) == Some(&hexs(&p.privileged))) { v.insert("upgrade:privileged"); }
                    restricted(&mut v, false);
                }
                ABody::Upload { n, wi, proof_ok } => {
                    if *n > p.max_subsections as u64 { v.insert("upload:subsections"); }
                    if *wi >= nwit { v.insert("upload:witness_index"); } else if !proof_ok { v.insert("upload:proof"); }
                    restricted(&mut v, false);
                }
                ABody::Blob { wi, id_ok } => {
                    if *wi >= nwit { v.insert("blob:witness_index"); } else if !id_ok { v.insert("blob:id"); }
                    restricted(&mut v, false);
                }
            }
        }
    }
    v
}

/// the rule(s) an error kind of the implementation claims to be violated
fn rules_of_error(kind: &str, a: &ATx) -> Vec<&'static str> {
    let body = match a { ATx::Charge(t) => Some(&t.body), _ => None };
    match kind {
        "NoSpendableInput" => vec!["spendable"],
        "InputWitnessIndexBounds" => match body {
            Some(ABody::UpgradeCP { .. }) => vec!["input:witness_index", "upgrade:witness_index"],
            Some(ABody::Upload { .. }) => vec!["input:witness_index", "upload:witness_index"],
            Some(ABody::Blob { .. }) => vec!["input:witness_index", "blob:witness_index"],
            _ => vec!["input:witness_index"],
        },
        "InputPredicateEmpty" | "InputPredicateLength" | "InputPredicateDataLength" => vec!["input:predicate"],
        "InputContractAssociatedOutputContract" => vec!["input:contract_output"],
        "InputMessageDataLength" => vec!["input:message_data"],
        "DuplicateInputUtxoId" => vec!["utxo_unique"],
        "DuplicateInputNonce" => vec!["nonce_unique"],
        "DuplicateInputContractId" => vec!["contract_unique"],
        "OutputContractInputIndex" => vec!["output:contract_index"],
        "TransactionInputContainsNonBaseAssetId" => vec!["restricted:input_asset"],
        "TransactionInputContainsContract" => vec!["restricted:input_contract"],
        "TransactionInputContainsMessageData" => vec!["restricted:input_message_data"],
        "TransactionOutputContainsContract" => vec!["restricted:output_contract"],
        "TransactionOutputContainsVariable" => vec!["restricted:output_variable"],
        "TransactionChangeChangeUsesNotBaseAsset" => vec!["restricted:change_asset"],
        "TransactionCreateOutputContractCreatedDoesntMatch" => vec!["create:created_mismatch"],
        "TransactionCreateOutputContractCreatedMultiple" | "TransactionOutputDoesntContainContractCreated" => vec!["create:created_count"],
        "TransactionCreateBytecodeLen" => vec!["create:bytecode_len"],
        "TransactionCreateBytecodeWitnessIndex" => vec!["create:witness_index"],
        "TransactionCreateStorageSlotMax" => vec!["create:slots_max"],
        "TransactionCreateStorageSlotOrder" => vec!["create:slots_order"],
        "TransactionScriptLength" => vec!["script:length"],
        "TransactionScriptDataLength" => vec!["script:data_length"],
        "TransactionOutputContainsContractCreated" => vec!["created_output"],
        "TransactionMintIncorrectBlockHeight" => vec!["mint:height"],
        "TransactionMintIncorrectOutputIndex" => vec!["mint:output_index"],
        "TransactionMintNonBaseAsset" => vec!["mint:asset"],
        "TransactionUpgradeNoPrivilegedAddress" => vec!["upgrade:privileged"],
        "TransactionUpgradeConsensusParametersChecksumMismatch" => vec!["upgrade:checksum"],
        "TransactionUpgradeConsensusParametersDeserialization" => vec!["upgrade:decode"],
        "TransactionUploadRootVerificationFailed" => vec!["upload:proof"],
        "TransactionUploadTooManyBytecodeSubsections" => vec!["upload:subsections"],
        "TransactionSizeLimitExceeded" => vec!["size"],
        "TransactionMaxGasExceeded" => vec!["max_gas"],
        "TransactionWitnessLimitExceeded" => vec!["witness_limit"],
        "TransactionPoliciesAreInvalid" => vec!["policies"],
        "TransactionMaturity" => vec!["maturity"],
        "TransactionExpiration" => vec!["expiration"],
        "TransactionMaxFeeNotSet" => vec!["max_fee_set"],
        "TransactionInputsMax" => vec!["inputs_max"],
        "TransactionOutputsMax" => vec!["outputs_max"],
        "TransactionWitnessesMax" => vec!["witnesses_max"],
        "TransactionOutputChangeAssetIdDuplicated" => vec!["change_unique"],
        "TransactionOutputChangeAssetIdNotFound" => vec!["output:change_asset"],
        "TransactionOutputCoinAssetIdNotFound" => vec!["output:coin_asset"],
        "InsufficientFeeAmount" => vec!["balance:fee"],
        "InsufficientInputAmount" => vec!["balance:outputs"],
        "BalanceOverflow" => vec!["balance:overflow"],
        "TransactionBlobIdVerificationFailed" => vec!["blob:id"],
        "TransactionOwnerIndexOutOfBounds" | "TransactionOwnerInputHasNoOwner" => vec!["owner"],
        _ => vec![],
    }
}

/// Check the property on the implementation's verdict.  Returns (class, description) per failure.
fn oracle_check(a: &ATx, p: &PPlan, height: u64, verdict: &Verdict) -> Vec<(String, String)> {
    let mut fails = vec![];
    let viol = spec_violations(a, p, height);
    match verdict {
        Verdict::Panic(m) => fails.push(("panic".to_string(), format!("into_checked_basic panicked: {m}"))),
        Verdict::Err { kind, .. } => {
            if viol.is_empty() {
                fails.push((format!("rejected-valid:{kind}"), format!("specification-valid transaction rejected with {kind}")));
            } else {
                let claimed = rules_of_error(kind, a);
                if !claimed.iter().any(|r| viol.contains(r)) {
                    fails.push((
                        format!("error-names-unviolated-rule:{kind}"),
                        format!("rejected with {kind} although that rule holds (violated: {:?})", viol),
                    ));
                }
            }
        }
        Verdict::Ok { balances, retryable } => {
            if !viol.is_empty() {
                let first = viol.iter().next().unwrap();
                let class = if viol.contains("balance:outputs") || viol.contains("balance:fee") {
                    // is a true per-asset total (coin outputs + fee limit) beyond the 64-bit range involved?
                    let at_boundary = if let ATx::Charge(t) = a {
                        let base: Id = hexs(&p.base_asset);
                        let (ins, outs, _) = spec_sums(t, &base);
                        let fee = pol_get(&t.pol, 3).unwrap_or(0) as u128;
                        outs.iter().any(|(asset, o)| {
                            let need = o + if *asset == base { fee } else { 0 };
                            need > ins.get(asset).cloned().unwrap_or(0) && need > u64::MAX as u128
                        })
                    } else { false };
                    if at_boundary { "overspend-accepted-at-u64-boundary".to_string() } else { "overspend-accepted".to_string() }
                } else {
                    format!("accepted-invalid:{first}")
                };
                fails.push((class, format!("transaction accepted although it violates {:?}", viol)));
            }
            if let ATx::Charge(t) = a {
                let base: Id = hexs(&p.base_asset);
                let (ins, outs, retry) = spec_sums(t, &base);
                let fee = pol_get(&t.pol, 3).unwrap_or(0) as i128;
                let rec: BTreeMap<Id, u64> = balances.iter().cloned().collect();
                let mut assets: BTreeSet<Id> = ins.keys().cloned().collect();
                assets.extend(outs.keys().cloned());
                assets.extend(rec.keys().cloned());
                assets.insert(base.clone());
                for asset in &assets {
                    let want = ins.get(asset).cloned().unwrap_or(0) as i128
                        - outs.get(asset).cloned().unwrap_or(0) as i128
                        - if *asset == base { fee } else { 0 };
                    let got = rec.get(asset).cloned().unwrap_or(0) as i128;
                    if want != got {
                        fails.push(("free-balance-mismatch".to_string(), format!("asset {asset}: recorded {got}, specification {want}")));
                    }
                }
                let want_keys: BTreeSet<Id> = ins.keys().cloned().chain(std::iter::once(base.clone())).collect();
                let got_keys: BTreeSet<Id> = rec.keys().cloned().collect();
                if want_keys != got_keys {
                    fails.push(("free-balance-keys".to_string(), "recorded assets differ from input assets + base asset".to_string()));
                }
                let is_script = matches!(t.body, ABody::Script { .. });
                if is_script && *retryable as u128 != retry {
                    fails.push(("retryable-balance-mismatch".to_string(), format!("recorded {retryable}, specification {retry}")));
                }
            }
        }
    }
    fails
}
