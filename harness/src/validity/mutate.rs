// Rule-violating / boundary mutations of a valid plan, case emission and main (included by
// bin/validity.rs).

fn kind_of(pl: &Plan) -> Kind {
    match pl.body {
        Body::Script { .. } => Kind::Script,
        Body::Create { .. } => Kind::Create,
        Body::UpgradeCP { .. } | Body::UpgradeST { .. } => Kind::Upgrade,
        Body::Upload { .. } => Kind::Upload,
        Body::Blob { .. } => Kind::Blob,
        Body::Mint { .. } => Kind::Mint,
    }
}

/// Policies with an arbitrary bitmask / raw first four values (through the serde path that the
/// network-facing code also uses); None if the crate refuses to build it.
fn raw_policies(bits: u32, first4: [u64; 4]) -> Option<Policies> {
    let mut b = bits.to_le_bytes().to_vec();
    for v in first4 {
        b.extend_from_slice(&v.to_le_bytes());
    }
    bincode::deserialize::<Policies>(&b).ok()
}

fn fix_created(pl: &mut Plan) {
    if let Body::Create { bwi, salt, slots, .. } = &pl.body {
        if let Some(code) = pl.wits.get(*bwi as usize) {
            let ss: Vec<StorageSlot> = slots.iter().map(|(k, v)| StorageSlot::new(Bytes32::from(*k), Bytes32::from(*v))).collect();
            let mut sorted = ss.clone();
            sorted.sort();
            let sr = Contract::initial_state_root(ss.iter());
            let id = Contract::id(&Salt::from(*salt), &Contract::root_from_code(code), &sr);
            for o in pl.outs.iter_mut() {
                if matches!(o, Output::ContractCreated { .. }) {
                    *o = Output::contract_created(id, sr);
                }
            }
        }
    }
}

fn sizes_of(pl: &Plan) -> (u64, u64) {
    match abstract_tx(&build(pl), &pl.p.build()) {
        ATx::Charge(t) => (t.size, t.max_gas),
        ATx::Mint(m) => (m.size, 0),
    }
}
fn base_balance(pl: &Plan) -> u128 {
    let base = AssetId::from(pl.p.base_asset);
    pl.ins.iter().map(|i| match i {
        Input::CoinSigned(c) if c.asset_id == base => c.amount as u128,
        Input::CoinPredicate(c) if c.asset_id == base => c.amount as u128,
        Input::MessageCoinSigned(m) => m.amount as u128,
        Input::MessageCoinPredicate(m) => m.amount as u128,
        _ => 0,
    }).sum()
}
fn asset_balance(pl: &Plan, a: &AssetId) -> u128 {
    if **a == pl.p.base_asset {
        return base_balance(pl);
    }
    pl.ins.iter().map(|i| match i {
        Input::CoinSigned(c) if c.asset_id == *a => c.amount as u128,
        Input::CoinPredicate(c) if c.asset_id == *a => c.amount as u128,
        _ => 0,
    }).sum()
}
fn coin_out_total(pl: &Plan, a: &AssetId) -> u128 {
    pl.outs.iter().map(|o| match o { Output::Coin { amount, asset_id, .. } if asset_id == a => *amount as u128, _ => 0 }).sum()
}
fn first_signed(pl: &Plan) -> Option<usize> {
    pl.ins.iter().position(|i| matches!(i, Input::CoinSigned(_) | Input::MessageCoinSigned(_) | Input::MessageDataSigned(_)))
}
fn first_predicate(pl: &Plan) -> Option<usize> {
    pl.ins.iter().position(|i| matches!(i, Input::CoinPredicate(_) | Input::MessageCoinPredicate(_) | Input::MessageDataPredicate(_)))
}
fn set_witness_index(i: &mut Input, w: u16) {
    match i {
        Input::CoinSigned(c) => c.witness_index = w,
        Input::MessageCoinSigned(m) => m.witness_index = w,
        Input::MessageDataSigned(m) => m.witness_index = w,
        _ => {}
    }
}
fn set_predicate(i: &mut Input, p: Vec<u8>, d: Option<Vec<u8>>) {
    macro_rules! go { ($c:expr) => {{ *$c.predicate = p; if let Some(d) = d { *$c.predicate_data = d; } }}; }
    match i {
        Input::CoinPredicate(c) => go!(c),
        Input::MessageCoinPredicate(c) => go!(c),
        Input::MessageDataPredicate(c) => go!(c),
        _ => {}
    }
}
fn pred_lens(i: &Input) -> (u64, u64) {
    match i {
        Input::CoinPredicate(c) => (c.predicate.len() as u64, c.predicate_data.len() as u64),
        Input::MessageCoinPredicate(c) => (c.predicate.len() as u64, c.predicate_data.len() as u64),
        Input::MessageDataPredicate(c) => (c.predicate.len() as u64, c.predicate_data.len() as u64),
        _ => (0, 0),
    }
}

const N_MUT: usize = 68;

/// apply mutation `m`; returns its name when applicable to this plan
fn mutate(r: &mut Rng, pl: &mut Plan, m: usize) -> Option<String> {
    let k = kind_of(pl);
    let charge = k != Kind::Mint;
    let script = k == Kind::Script;
    let base = AssetId::from(pl.p.base_asset);
    let over = r.bool();
    let tag = |s: &str, o: bool| Some(format!("{}{}", s, if o { ":over" } else { ":at-limit" }));
    match m {
        0 => {
            let (size, _) = sizes_of(pl);
            pl.p.max_size = if over { size - 1 } else { size };
            tag("size", over)
        }
        1 if charge => { pl.pol.set(PolicyType::Maturity, Some(u32::MAX as u64 + 1 + r.below(5))); Some("policy-maturity>u32".into()) }
        2 if charge => { pl.pol.set(PolicyType::Expiration, Some(u32::MAX as u64 + 1 + r.below(5))); Some("policy-expiration>u32".into()) }
        3 if charge => { pl.pol.set(PolicyType::Owner, Some(u32::MAX as u64 + 1 + r.below(5))); Some("policy-owner>u32".into()) }
        4 | 5 if charge => {
            let a = abs_policies(&pl.pol);
            if a.bits & 0b110000 != 0 { return None; }
            let mut v4 = [a.values[0], a.values[1], a.values[2], a.values[3]];
            let bits = if m == 4 { a.bits | (1 << r.range(6, 31)) } else {
                let unset: Vec<usize> = (0..4).filter(|k| a.bits & (1 << k) == 0).collect();
                if unset.is_empty() { return None; }
                v4[*r.pick(&unset)] = 1 + r.below(100);
                a.bits
            };
            pl.pol = raw_policies(bits, v4)?;
            Some(if m == 4 { "policy-unknown-bit".into() } else { "policy-unset-value-nonzero".into() })
        }
        6 if charge => {
            let ws = wit_dyn_size(&pl.wits);
            pl.pol.set(PolicyType::WitnessLimit, Some(if over { ws - 1 } else { ws }));
            tag("witness-limit", over)
        }
        7 if charge => {
            let (_, g) = sizes_of(pl);
            if g == 0 { return None; }
            pl.p.max_gas_per_tx = if over { g - 1 } else { g };
            tag("max-gas", over)
        }
        8 if script => { if let Body::Script { gas_limit, .. } = &mut pl.body { *gas_limit = u64::MAX - r.below(3); } Some("script-gas-limit-huge".into()) }
        9 if charge => { pl.pol.set(PolicyType::MaxFee, None); Some("max-fee-unset".into()) }
        10 if charge => {
            let o = over && pl.height < u32::MAX;
            pl.pol.set(PolicyType::Maturity, Some(if o { pl.height as u64 + 1 } else { pl.height as u64 }));
            tag("maturity", o)
        }
        11 if charge => {
            let o = over && pl.height > 0;
            pl.pol.set(PolicyType::Expiration, Some(if o { pl.height as u64 - 1 } else { pl.height as u64 }));
            tag("expiration", o)
        }
        12 if charge => { let n = pl.ins.len() as u16; pl.p.max_inputs = if over { n - 1 } else { n }; tag("inputs-max", over) }
        13 if charge => {
            let n = pl.outs.len() as u16;
            let o = over && n > 0;
            pl.p.max_outputs = if o { n - 1 } else { n };
            tag("outputs-max", o)
        }
        14 if charge => { let n = pl.wits.len() as u32; pl.p.max_witnesses = if over { n - 1 } else { n }; tag("witnesses-max", over) }
        15 if charge => { pl.pol.set(PolicyType::Owner, Some(pl.ins.len() as u64 + r.below(3))); Some("owner-index-out-of-bounds".into()) }
        16 if script => {
            let idx = pl.ins.len();
            pl.ins.push(gen_input(r, 6, [0; 32], 0, 1, [0; 32]));
            pl.outs.push(Output::contract(idx as u16, Bytes32::zeroed(), Bytes32::zeroed()));
            pl.pol.set(PolicyType::Owner, Some(idx as u64));
            Some("owner-is-contract-input".into())
        }
        17 if charge => {
            pl.ins.retain(|i| !i.is_coin() && !matches!(i, Input::MessageCoinSigned(_) | Input::MessageCoinPredicate(_)));
            if pl.ins.is_empty() || r.bool() {
                pl.ins.push(gen_input(r, 4, pl.p.base_asset, 5, pl.wits.len(), [1; 32]));
            }
            Some("no-spendable-input".into())
        }
        18 if charge => {
            let assets: Vec<AssetId> = pl.ins.iter().filter_map(|i| i.asset_id(&base).cloned()).collect();
            if assets.is_empty() { return None; }
            let a = *r.pick(&assets);
            if !script && a != base { return None; }
            pl.outs.retain(|o| !matches!(o, Output::Change { asset_id, .. } if *asset_id == a));
            pl.outs.push(Output::change(Address::zeroed(), 0, a));
            let pos = r.below(pl.outs.len() as u64 + 1) as usize;
            pl.outs.insert(pos, Output::change(Address::from(r.bytes32()), 0, a));
            Some("duplicate-change-output".into())
        }
        19 if charge => {
            // base asset present only through message inputs; two change outputs for it
            let nw = pl.wits.len();
            pl.ins = (0..r.range(1, 3)).map(|_| { let w = 2 + r.below(2); let amt = amount_small(r); gen_input(r, w, [0; 32], amt, nw, [3; 32]) }).collect();
            if k == Kind::Upgrade { pl.ins.push(gen_input(r, 2, [0; 32], 1, nw, pl.p.privileged)); }
            pl.outs.retain(|o| matches!(o, Output::ContractCreated { .. }));
            pl.pol.set(PolicyType::MaxFee, Some(0));
            pl.pol.set(PolicyType::Owner, None);
            pl.outs.push(Output::change(Address::zeroed(), 0, base));
            pl.outs.push(Output::change(Address::from([1; 32]), 0, base));
            Some("duplicate-base-change-via-messages".into())
        }
        20 if charge => { pl.outs.push(Output::change(Address::zeroed(), 0, AssetId::from(r.bytes32()))); Some("change-asset-not-in-inputs".into()) }
        21 if charge => {
            pl.outs.push(Output::coin(Address::zeroed(), if r.bool() { 0 } else { 1 + r.below(9) }, AssetId::from(r.bytes32())));
            Some("coin-output-asset-not-in-inputs".into())
        }
        22 if script => {
            // the base asset occurs only through a message WITH data (not spendable); a coin of another asset is the spendable input
            let nw = pl.wits.len();
            let other = r.bytes32();
            let w = 4 + r.below(2);
            let w0 = r.below(2);
            pl.ins = vec![gen_input(r, w0, other, 100, nw, [4; 32]), gen_input(r, w, [0; 32], 1000, nw, [4; 32])];
            pl.pol.set(PolicyType::MaxFee, Some(0));
            pl.pol.set(PolicyType::Owner, None);
            let amt = if over { 1 + r.below(1000) } else { 0 };
            pl.outs = vec![Output::coin(Address::zeroed(), amt, base)];
            if r.bool() { pl.outs.push(Output::change(Address::zeroed(), 0, base)); }
            tag("base-coin-output-backed-only-by-data-message", over)
        }
        23 if charge => {
            let coins: Vec<usize> = pl.ins.iter().enumerate().filter(|(_, i)| i.is_coin()).map(|(k, _)| k).collect();
            let u = match coins.first() { Some(c) => *pl.ins[*c].utxo_id().unwrap(), None => rnd_utxo(r) };
            let which = r.below(2);
            let mut n = gen_input(r, which, pl.p.base_asset, 1, pl.wits.len(), [5; 32]);
            match &mut n { Input::CoinSigned(c) => c.utxo_id = u, Input::CoinPredicate(c) => c.utxo_id = u, _ => {} }
            if coins.is_empty() { pl.ins.push(n.clone()); }
            let pos = r.below(pl.ins.len() as u64 + 1) as usize;
            pl.ins.insert(pos, n);
            // contract outputs refer to positions: re-point them
            repoint_contracts(pl);
            Some("duplicate-utxo-id".into())
        }
        24 if script => {
            let coins: Vec<usize> = pl.ins.iter().enumerate().filter(|(_, i)| i.is_coin()).map(|(k, _)| k).collect();
            let c = *coins.first()?;
            let u = *pl.ins[c].utxo_id().unwrap();
            let idx = pl.ins.len();
            pl.ins.push(Input::contract(u, Bytes32::zeroed(), Bytes32::zeroed(), tp(), ContractId::from(r.bytes32())));
            pl.outs.push(Output::contract(idx as u16, Bytes32::zeroed(), Bytes32::zeroed()));
            Some("contract-input-shares-utxo-id-with-coin(allowed)".into())
        }
        25 if script => {
            let id = ContractId::from(r.bytes32());
            for _ in 0..2 {
                let idx = pl.ins.len();
                pl.ins.push(Input::contract(rnd_utxo(r), Bytes32::zeroed(), Bytes32::zeroed(), tp(), id));
                pl.outs.push(Output::contract(idx as u16, Bytes32::zeroed(), Bytes32::zeroed()));
            }
            Some("duplicate-contract-id".into())
        }
        26 if charge => {
            let nonce = Nonce::from(r.bytes32());
            let kinds: Vec<u64> = if script { vec![2, 3, 4, 5] } else { vec![2, 3] };
            for _ in 0..2 {
                let w = *r.pick(&kinds);
                let mut n = gen_input(r, w, [0; 32], 1, pl.wits.len(), [6; 32]);
                match &mut n {
                    Input::MessageCoinSigned(m) => m.nonce = nonce,
                    Input::MessageCoinPredicate(m) => m.nonce = nonce,
                    Input::MessageDataSigned(m) => m.nonce = nonce,
                    Input::MessageDataPredicate(m) => m.nonce = nonce,
                    _ => {}
                }
                pl.ins.push(n);
            }
            Some("duplicate-nonce".into())
        }
        27 if charge => {
            let nw = pl.wits.len() as u16;
            let i = match first_signed(pl) { Some(i) => i, None => { pl.ins.push(gen_input(r, 0, pl.p.base_asset, 1, nw as usize, [7; 32])); pl.ins.len() - 1 } };
            set_witness_index(&mut pl.ins[i], if over { nw + r.below(2) as u16 } else { nw - 1 });
            tag("witness-index", over)
        }
        28 if charge => {
            let i = match first_predicate(pl) { Some(i) => i, None => { pl.ins.push(gen_input(r, 1, pl.p.base_asset, 1, 1, [7; 32])); pl.ins.len() - 1 } };
            set_predicate(&mut pl.ins[i], vec![], None);
            Some("predicate-empty".into())
        }
        29 | 30 if charge => {
            let i = match first_predicate(pl) { Some(i) => i, None => { pl.ins.push(gen_input(r, 3, pl.p.base_asset, 1, 1, [7; 32])); pl.ins.len() - 1 } };
            let n = r.range(1, 30) as usize;
            set_predicate(&mut pl.ins[i], r.bytes(n), Some(r.bytes(n)));
            let maxp = pl.ins.iter().map(|i| pred_lens(i).0).max().unwrap_or(0);
            let maxd = pl.ins.iter().map(|i| pred_lens(i).1).max().unwrap_or(0);
            if m == 29 { pl.p.max_pred_len = if over { maxp - 1 } else { maxp }; tag("predicate-length", over) }
            else { pl.p.max_pred_data_len = if over { maxd - 1 } else { maxd }; tag("predicate-data-length", over) }
        }
        31 if script => {
            let w = 4 + r.below(2);
            let mut n = gen_input(r, w, [0; 32], 3, pl.wits.len(), [8; 32]);
            let mode = r.below(3);
            let len = r.range(1, 40) as usize;
            let data = if mode == 0 { vec![] } else { r.bytes(len) };
            match &mut n { Input::MessageDataSigned(m) => *m.data = data, Input::MessageDataPredicate(m) => *m.data = data, _ => {} }
            pl.ins.push(n);
            let maxlen = pl.ins.iter().map(|i| match i { Input::MessageDataSigned(m) => m.data.len(), Input::MessageDataPredicate(m) => m.data.len(), _ => 0 }).max().unwrap() as u64;
            match mode {
                0 => Some("message-data-empty".into()),
                1 => { pl.p.max_msg_data_len = maxlen - 1; Some("message-data-length:over".into()) }
                _ => { pl.p.max_msg_data_len = maxlen; Some("message-data-length:at-limit".into()) }
            }
        }
        32 if script => { pl.ins.push(gen_input(r, 6, [0; 32], 0, 1, [0; 32])); Some("contract-input-without-output".into()) }
        33 if script => {
            let idx = pl.ins.len();
            pl.ins.push(gen_input(r, 6, [0; 32], 0, 1, [0; 32]));
            for _ in 0..2 { pl.outs.push(Output::contract(idx as u16, Bytes32::from(r.bytes32()), Bytes32::zeroed())); }
            Some("contract-input-with-two-outputs".into())
        }
        34 if script => {
            let non: Vec<usize> = pl.ins.iter().enumerate().filter(|(_, i)| !i.is_contract()).map(|(k, _)| k).collect();
            let idx = if over || non.is_empty() { pl.ins.len() + r.below(3) as usize } else { *r.pick(&non) };
            pl.outs.push(Output::contract(idx as u16, Bytes32::zeroed(), Bytes32::zeroed()));
            Some("contract-output-bad-input-index".into())
        }
        35 if charge => {
            let assets: Vec<AssetId> = pl.ins.iter().filter(|i| !i.is_contract() && !matches!(i, Input::MessageDataSigned(_) | Input::MessageDataPredicate(_))).filter_map(|i| i.asset_id(&base).cloned()).collect();
            if assets.is_empty() { return None; }
            let a = *r.pick(&assets);
            let fee = if a == base { pl.pol.get(PolicyType::MaxFee).unwrap_or(0) as u128 } else { 0 };
            let free = asset_balance(pl, &a).saturating_sub(fee).saturating_sub(coin_out_total(pl, &a));
            let amt = free + if over { 1 } else { 0 };
            if amt > u64::MAX as u128 { return None; }
            pl.outs.push(Output::coin(Address::zeroed(), amt as u64, a));
            tag("coin-outputs-vs-inputs", over)
        }
        36 if charge => {
            let b = base_balance(pl);
            let fee = b + if over { 1 } else { 0 };
            if fee > u64::MAX as u128 { return None; }
            pl.pol.set(PolicyType::MaxFee, Some(fee as u64));
            pl.outs.retain(|o| !matches!(o, Output::Coin { asset_id, .. } if *asset_id == base));
            tag("fee-limit-vs-base-inputs", over)
        }
        37 if charge => {
            let a = if script && r.bool() { r.bytes32() } else { pl.p.base_asset };
            let nw = pl.wits.len();
            let w1 = r.below(4);
            let w2 = r.below(4);
            let x = u64::MAX - r.below(5);
            let y = if over { u64::MAX - x + 1 + r.below(3) } else { u64::MAX - x };
            // remove what is already there for this asset so the total is exactly x + y
            let aid = AssetId::from(a);
            pl.ins.retain(|i| i.asset_id(&base) != Some(&aid) || matches!(i, Input::MessageDataSigned(_) | Input::MessageDataPredicate(_)));
            pl.ins.push(gen_input(r, w1, a, x, nw, [9; 32]));
            pl.ins.push(gen_input(r, w2, a, y, nw, [9; 32]));
            if k == Kind::Upgrade { pl.ins[0] = gen_input(r, 0, pl.p.base_asset, 0, nw, pl.p.privileged); }
            pl.pol.set(PolicyType::Owner, None);
            repoint_contracts(pl);
            tag("input-sum-vs-u64", over)
        }
        38 if script => {
            let nw = pl.wits.len();
            let x = u64::MAX - r.below(5);
            let y = if over { u64::MAX - x + 1 } else { u64::MAX - x };
            pl.ins.retain(|i| !matches!(i, Input::MessageDataSigned(_) | Input::MessageDataPredicate(_)));
            let (w1, w2) = (4 + r.below(2), 4 + r.below(2));
            pl.ins.push(gen_input(r, w1, [0; 32], x, nw, [9; 32]));
            pl.ins.push(gen_input(r, w2, [0; 32], y, nw, [9; 32]));
            pl.pol.set(PolicyType::Owner, None);
            repoint_contracts(pl);
            tag("retryable-sum-vs-u64", over)
        }
        39 | 40 if script => {
            let n = r.range(1, 40) as usize;
            if let Body::Script { script, data, .. } = &mut pl.body {
                if m == 39 { *script = r.bytes(n); } else { *data = r.bytes(n); }
            }
            if m == 39 { pl.p.max_script_len = if over { n as u64 - 1 } else { n as u64 }; tag("script-length", over) }
            else { pl.p.max_script_data_len = if over { n as u64 - 1 } else { n as u64 }; tag("script-data-length", over) }
        }
        41 if charge && k != Kind::Create => {
            let pos = r.below(pl.outs.len() as u64 + 1) as usize;
            pl.outs.insert(pos, Output::contract_created(ContractId::from(r.bytes32()), Bytes32::from(r.bytes32())));
            Some("contract-created-output-not-allowed".into())
        }
        42 if k == Kind::Create => { if let Body::Create { bwi, .. } = &mut pl.body { *bwi = pl.wits.len() as u16 + r.below(2) as u16; } Some("create-bytecode-witness-index".into()) }
        43 if k == Kind::Create => {
            if let Body::Create { bwi, .. } = &pl.body {
                let l = pl.wits.get(*bwi as usize)?.len() as u64;
                let o = over && l > 0;
                pl.p.contract_max_size = if o { l - 1 } else { l };
                return tag("create-bytecode-length", o);
            }
            None
        }
        44 if k == Kind::Create => {
            let mut n = 0;
            if let Body::Create { slots, .. } = &mut pl.body {
                if slots.is_empty() { slots.push((r.bytes32(), r.bytes32())); }
                n = slots.len() as u64;
            }
            fix_created(pl);
            pl.p.max_storage_slots = if over { n - 1 } else { n };
            tag("create-storage-slots-max", over)
        }
        45 if k == Kind::Create => {
            let mode = r.below(2);
            if let Body::Create { slots, keep_unsorted, .. } = &mut pl.body {
                if mode == 0 {
                    let s = (r.bytes32(), r.bytes32());
                    slots.push(s);
                    slots.push((s.0, r.bytes32()));
                    slots.sort();
                } else {
                    while slots.len() < 2 { slots.push((r.bytes32(), r.bytes32())); }
                    slots.sort();
                    slots.reverse();
                    *keep_unsorted = true;
                }
            }
            fix_created(pl);
            Some(if mode == 0 { "create-duplicate-slot-keys".into() } else { "create-unsorted-slots".into() })
        }
        46 if charge && !script => {
            let a = r.bytes32();
            let w = r.below(2);
            pl.ins.push(gen_input(r, w, a, 5, pl.wits.len(), [2; 32]));
            if r.bool() { pl.outs.push(Output::change(Address::zeroed(), 0, AssetId::from(a))); }
            Some("restricted-kind-non-base-input".into())
        }
        47 if charge && !script => {
            let idx = pl.ins.len();
            pl.ins.push(gen_input(r, 6, [0; 32], 0, 1, [0; 32]));
            if r.bool() { pl.outs.push(Output::contract(idx as u16, Bytes32::zeroed(), Bytes32::zeroed())); }
            Some("restricted-kind-contract-input".into())
        }
        48 if charge && !script => { let w = 4 + r.below(2); pl.ins.push(gen_input(r, w, [0; 32], 1, pl.wits.len(), [2; 32])); Some("restricted-kind-message-data-input".into()) }
        49 if charge && !script => { pl.outs.insert(0, Output::variable(Address::zeroed(), 0, AssetId::zeroed())); Some("restricted-kind-variable-output".into()) }
        50 if charge && !script => {
            // a contract output without any contract input (common part rejects it first)
            pl.outs.push(Output::contract(0, Bytes32::zeroed(), Bytes32::zeroed()));
            Some("restricted-kind-contract-output".into())
        }
        51 if k == Kind::Create => {
            for o in pl.outs.iter_mut() {
                if let Output::ContractCreated { contract_id, state_root } = o {
                    if over { *contract_id = ContractId::from(r.bytes32()); } else { *state_root = Bytes32::from(r.bytes32()); }
                }
            }
            Some("create-output-mismatch".into())
        }
        52 if k == Kind::Create => {
            let c = pl.outs.iter().find(|o| matches!(o, Output::ContractCreated { .. })).cloned()?;
            let pos = r.below(pl.outs.len() as u64 + 1) as usize;
            pl.outs.insert(pos, c);
            Some("create-two-created-outputs".into())
        }
        53 if k == Kind::Create => { pl.outs.retain(|o| !matches!(o, Output::ContractCreated { .. })); Some("create-no-created-output".into()) }
        54 if k == Kind::Upgrade => { pl.p.privileged = r.bytes32(); Some("upgrade-no-privileged-input".into()) }
        55 => { if let Body::UpgradeCP { wi, .. } = &mut pl.body { *wi = pl.wits.len() as u16; Some("upgrade-witness-index".into()) } else { None } }
        56 => { if let Body::UpgradeCP { checksum, .. } = &mut pl.body { checksum[r.below(32) as usize] ^= 1; Some("upgrade-checksum-mismatch".into()) } else { None } }
        57 => {
            if let Body::UpgradeCP { wi, checksum } = &mut pl.body {
                let n = r.range(0, 20) as usize;
                let junk = r.bytes(n);
                *checksum = sha256(&junk);
                match pl.wits.get_mut(*wi as usize) { Some(w) => *w = junk, None => return None }
                Some("upgrade-undecodable-parameters".into())
            } else { None }
        }
        58 => { if let Body::Upload { sub_n, .. } = &pl.body { let n = *sub_n; pl.p.max_subsections = if over { n - 1 } else { n }; tag("upload-subsections", over) } else { None } }
        59 => { if let Body::Upload { wi, .. } = &mut pl.body { *wi = pl.wits.len() as u16; Some("upload-witness-index".into()) } else { None } }
        60 => {
            if let Body::Upload { root, proof, wi, sub_idx, sub_n } = &mut pl.body {
                match r.below(4) {
                    0 => root[0] ^= 1,
                    1 if !proof.is_empty() => { let k = r.below(proof.len() as u64) as usize; proof[k][5] ^= 1 }
                    2 if (*wi as usize) < pl.wits.len() => pl.wits[*wi as usize].push(0),
                    _ => { if *sub_n > 1 { *sub_idx = (*sub_idx + 1) % *sub_n } else { proof.push([0; 32]) } }
                }
                Some("upload-proof-broken".into())
            } else { None }
        }
        61 => { if let Body::Blob { wi, .. } = &mut pl.body { *wi = pl.wits.len() as u16 + r.below(2) as u16; Some("blob-witness-index".into()) } else { None } }
        62 => { if let Body::Blob { id, wi } = &mut pl.body { if r.bool() || (*wi as usize) >= pl.wits.len() { id[3] ^= 1 } else { pl.wits[*wi as usize].push(1) } Some("blob-id-mismatch".into()) } else { None } }
        63 => { if let Body::Mint { height, .. } = &mut pl.body { *height = height.wrapping_add(1); Some("mint-height".into()) } else { None } }
        64 => { if let Body::Mint { out_index, .. } = &mut pl.body { *out_index = 1 + r.below(3) as u16; Some("mint-output-index".into()) } else { None } }
        65 => { if let Body::Mint { asset, .. } = &mut pl.body { asset[31] ^= 1; Some("mint-asset".into()) } else { None } }
        66 if charge => {
            // many inputs over few assets, near the count limits
            let nw = pl.wits.len();
            let extra = r.range(10, 40) as usize;
            for _ in 0..extra {
                let w = r.below(4);
                let amt = r.below(1 << 50);
                pl.ins.push(gen_input(r, w, pl.p.base_asset, amt, nw, [2; 32]));
            }
            pl.p.max_inputs = pl.ins.len() as u16;
            Some("many-inputs-at-limit".into())
        }
        67 if charge => {
            // consensus parameters at the ends of their ranges
            let which = r.below(6);
            match which {
                0 => pl.p.max_inputs = 0,
                1 => pl.p.max_outputs = 0,
                2 => pl.p.max_witnesses = 0,
                3 => {
                    pl.p.max_gas_per_tx = u64::MAX;
                    if let Body::Script { gas_limit, .. } = &mut pl.body { *gas_limit = u64::MAX; }
                }
                4 => { pl.p.max_size = u64::MAX; pl.p.max_pred_len = u64::MAX; pl.p.max_pred_data_len = u64::MAX; pl.p.max_msg_data_len = u64::MAX; pl.p.max_inputs = u16::MAX; pl.p.max_outputs = u16::MAX; pl.p.max_witnesses = u32::MAX; }
                _ => { pl.p.max_size = 0; }
            }
            Some(format!("params-extreme-{which}"))
        }
        _ => None,
    }
}

/// after inserting/removing inputs: make every contract output point at "its" contract input again
fn repoint_contracts(pl: &mut Plan) {
    let cpos: Vec<usize> = pl.ins.iter().enumerate().filter(|(_, i)| i.is_contract()).map(|(k, _)| k).collect();
    let mut it = cpos.into_iter();
    for o in pl.outs.iter_mut() {
        if let Output::Contract(c) = o {
            if let Some(k) = it.next() {
                c.input_index = k as u16;
            }
        }
    }
}

// ------------------------------------------------------------------ emission
fn emit_tx(out: &mut Out, args: &Args, p: &PPlan, height: u32, tx: &Transaction, class: &str) {
    let cp = p.build();
    let a = abstract_tx(tx, &cp);
    let verdict = real_verdict(tx, &cp, height);
    let txhex = bincode::serialize(tx).map(|b| hexs(&b)).unwrap_or_default();
    let replay = json!({"kind": "tx", "pplan": p.to_json(), "height": height, "tx": txhex, "class": class});
    out.oracle_evaluations += 1;
    for (cls, what) in oracle_check(&a, p, height as u64, &verdict) {
        out.oracle_fail(&cls, &format!("{what} [generator class {class}]"), replay.clone());
    }
    let vk = match &verdict {
        Verdict::Ok { .. } => "Ok".to_string(),
        Verdict::Err { kind, .. } => kind.clone(),
        Verdict::Panic(_) => "PANIC".to_string(),
    };
    out.count(&format!("verdict:{vk}"));
    if args.oracle_only {
        return;
    }
    let coq = format!(
        "{{| vc_params := {}; vc_height := {}; vc_tx := {}; vc_result := {} |}}",
        p.coq(), height, coq_tx(&a), coq_verdict(&verdict)
    );
    let kind = match &a {
        ATx::Mint(_) => "mint",
        ATx::Charge(t) => match t.body {
            ABody::Script { .. } => "script",
            ABody::Create { .. } => "create",
            ABody::UpgradeCP { .. } | ABody::UpgradeST => "upgrade",
            ABody::Upload { .. } => "upload",
            ABody::Blob { .. } => "blob",
        },
    };
    let mut js = json!({"kind": "tx", "tx_kind": kind, "class": class, "verdict": vk, "pplan": p.to_json(), "height": height});
    if txhex.len() < 16384 {
        js["tx"] = json!(txhex);
    }
    let key = format!("{:x}", u64::from_le_bytes(sha256(coq.as_bytes())[..8].try_into().unwrap()));
    out.push(Case { coq, json: js, key, nontrivial: !matches!(a, ATx::Mint(_)), class: format!("{kind}/{class}") });
}
fn emit(out: &mut Out, args: &Args, pl: &Plan, class: &str) {
    emit_tx(out, args, &pl.p, pl.height, &build(pl), class);
}

/// valid transactions assembled by the crates' own TransactionBuilder (signed inputs)
fn builder_cases(out: &mut Out, args: &Args, r: &mut Rng, n: usize) {
    use fuel_tx::{Finalizable, TransactionBuilder};
    use rand::SeedableRng;
    let mut srng = rand::rngs::StdRng::seed_from_u64(r.next());
    for _ in 0..n {
        let p = PPlan::standard();
        let n = r.range(0, 16) as usize;
        let mut b = TransactionBuilder::script(r.bytes(n), r.bytes_upto(16));
        let fee = r.below(1000);
        b.max_fee_limit(fee).script_gas_limit(r.below(10_000));
        b.add_unsigned_coin_input(
            fuel_crypto::SecretKey::random(&mut srng), rnd_utxo(r), fee + r.below(1000), AssetId::from(p.base_asset), tp());
        for _ in 0..r.below(3) {
            b.add_unsigned_coin_input(
                fuel_crypto::SecretKey::random(&mut srng), rnd_utxo(r), r.below(1 << 30), AssetId::from(r.bytes32()), tp());
        }
        if r.bool() {
            b.add_unsigned_message_input(fuel_crypto::SecretKey::random(&mut srng), Address::from(r.bytes32()), Nonce::from(r.bytes32()), r.below(1000), vec![]);
        }
        if r.bool() {
            b.add_output(Output::change(Address::from(r.bytes32()), 0, AssetId::from(p.base_asset)));
        }
        let tx: Transaction = b.finalize().into();
        emit_tx(out, args, &p, 0, &tx, "builder-valid");
    }
}


// ------------------------------------------------------------------ directed: balance arithmetic at the u64 boundary
/// split `total` into `n` parts, each <= u64::MAX (requires total <= n * u64::MAX)
fn split_u128(r: &mut Rng, total: u128, n: usize) -> Vec<u64> {
    let max = u64::MAX as u128;
    let mut parts = vec![];
    let mut rest = total;
    for k in 0..n {
        let left = (n - k - 1) as u128;
        let lo = rest.saturating_sub(left * max);
        let hi = rest.min(max);
        let x = if k == n - 1 { rest } else {
            match r.below(4) {
                0 => lo,
                1 => hi,
                _ => lo + (r.next() as u128) % (hi - lo + 1),
            }
        };
        parts.push(x as u64);
        rest -= x;
    }
    r.shuffle(&mut parts);
    parts
}

/// input sums in {MAX, MAX-1, MAX/2+1, 2^63} x coin-output lists whose TRUE sum (+ fee limit for the base
/// asset) is {= inputs, inputs+1, 2^64-1, 2^64, > 2^64}, split over 1..4 outputs; base asset through coins /
/// messages / both and a non-base asset; with and without fee limit, change and variable outputs; plus input
/// sums that overflow u64 themselves.
fn boundary_cases(out: &mut Out, args: &Args, r: &mut Rng, reps: usize) {
    let max = u64::MAX as u128;
    let sums: [u128; 4] = [max, max - 1, max / 2 + 1, 1u128 << 63];
    for rep in 0..reps {
        for variant in 0..4u64 {          // 0 base via coins, 1 base via messages, 2 base via both, 3 non-base coin
            for (si, s) in sums.iter().enumerate() {
                for target in 0..6u64 {   // 0 = inputs, 1 inputs+1, 2 2^64-1, 3 2^64, 4 > 2^64, 5 input sum itself overflows
                    let kind = if variant != 3 && (rep + si + target as usize) % 3 == 0 { *r.pick(&[Kind::Blob, Kind::Upload, Kind::Create]) } else { Kind::Script };
                    let mut pl = gen_valid(r, kind);
                    let script = kind == Kind::Script;
                    let nw = pl.wits.len();
                    let asset: [u8; 32] = if variant == 3 { r.bytes32() } else { pl.p.base_asset };
                    let is_base = variant != 3;
                    // inputs of the asset under test
                    let in_total: u128 = if target == 5 { max + 1 + r.below(3) as u128 + if r.bool() { *s } else { 0 } } else { *s };
                    let n_in = if in_total > max { r.range(2, 3).max(((in_total + max - 1) / max) as u64) as usize } else { r.range(1, 3) as usize };
                    let amounts = split_u128(r, in_total, n_in);
                    pl.ins.clear();
                    for (k, a) in amounts.iter().enumerate() {
                        let which = match variant { 0 | 3 => r.below(2), 1 => 2 + r.below(2), _ => if k % 2 == 0 { r.below(2) } else { 2 + r.below(2) } };
                        pl.ins.push(gen_input(r, which, asset, *a, nw, [0x11; 32]));
                    }
                    if !is_base {
                        // the fee is paid from a separate base-asset input
                        let w = r.below(4);
                        pl.ins.push(gen_input(r, w, pl.p.base_asset, 1000, nw, [0x11; 32]));
                    }
                    if script && r.chance(1, 3) {
                        let w = 4 + r.below(2);
                        let amt = r.u64_biased();
                        pl.ins.push(gen_input(r, w, [0; 32], amt, nw, [0x11; 32])); // a data message: never spendable
                    }
                    r.shuffle(&mut pl.ins);
                    // fee limit
                    let fee: u64 = if is_base { match r.below(4) { 0 | 1 => 0, 2 => 1 + r.below(1000), _ => r.below(1 << 62) } } else { r.below(1001) };
                    let fee_on_asset: u128 = if is_base { fee as u128 } else { 0 };
                    // true total of coin outputs (+ fee for the base asset)
                    let base_in = if target == 5 { *s } else { in_total };
                    let want_total: u128 = match target {
                        0 | 5 => base_in,
                        1 => base_in + 1,
                        2 => max,
                        3 => max + 1,
                        _ => max + 2 + (r.next() as u128) % (2 * max),
                    };
                    let out_total = want_total.saturating_sub(fee_on_asset);
                    let min_n = (((out_total + max - 1) / max) as usize).max(1);
                    if min_n > 4 { continue; }
                    let n_out = r.range(min_n as u64, 4) as usize;
                    pl.outs.retain(|o| matches!(o, Output::ContractCreated { .. }));
                    for a in split_u128(r, out_total, n_out) {
                        pl.outs.push(Output::coin(Address::from(r.bytes32()), a, AssetId::from(asset)));
                    }
                    if r.bool() { pl.outs.push(Output::change(Address::from(r.bytes32()), 0, AssetId::from(asset))); }
                    if script && r.bool() { pl.outs.push(Output::variable(Address::zeroed(), 0, AssetId::zeroed())); }
                    r.shuffle(&mut pl.outs);
                    pl.pol = Policies::new().with_max_fee(fee);
                    let tname = ["=inputs", "inputs+1", "2^64-1", "2^64", ">2^64", "input-sum-overflows"][target as usize];
                    let vname = ["base-coins", "base-messages", "base-coins+messages", "non-base-coins"][variant as usize];
                    emit(out, args, &pl, &format!("u64-boundary/{vname}/in#{si}/out{tname}"));
                }
            }
        }
    }
}

fn run_c19(args: &Args, out: &mut Out) {
    let mut r = Rng::new(args.seed);
    if let Some(pth) = &args.replay {
        let v = read_replay(pth);
        let p = PPlan::from_json(&v["pplan"]);
        let tx: Transaction = bincode::deserialize(&hex::decode(v["tx"].as_str().expect("replay without tx bytes")).unwrap()).expect("tx bincode");
        emit_tx(out, args, &p, v["height"].as_u64().unwrap() as u32, &tx, "replay");
        return;
    }
    let mult = if args.oracle_only { 4 } else { 1 };
    // 1. valid stream per kind
    let nvalid = args.scale(30, 300) * mult;
    for k in KINDS {
        for _ in 0..(if k == Kind::Mint { 6 } else { nvalid }) {
            let pl = gen_valid(&mut r, k);
            emit(out, args, &pl, "valid");
        }
    }
    builder_cases(out, args, &mut r, args.scale(12, 100));
    boundary_cases(out, args, &mut r, args.scale(2, 12) * mult);
    // 2. one-rule violations / boundaries
    let reps = args.scale(3, 30) * mult;
    for m in 0..N_MUT {
        for k in KINDS {
            let n = if k == Kind::Script { reps } else { (reps / 2).max(1) };
            for _ in 0..n {
                let mut pl = gen_valid(&mut r, k);
                if let Some(name) = mutate(&mut r, &mut pl, m) {
                    emit(out, args, &pl, &name);
                }
            }
        }
    }
    // 3. two-rule violations
    let npairs = args.scale(400, 6000) * mult;
    let mut done = 0;
    let mut tries = 0;
    while done < npairs && tries < npairs * 20 {
        tries += 1;
        let k = *r.pick(&KINDS[..5]);
        let mut pl = gen_valid(&mut r, k);
        let (m1, m2) = (r.below(N_MUT as u64) as usize, r.below(N_MUT as u64) as usize);
        let a = mutate(&mut r, &mut pl, m1);
        let b = mutate(&mut r, &mut pl, m2);
        if let (Some(a), Some(b)) = (a, b) {
            emit(out, args, &pl, &format!("{a}+{b}"));
            done += 1;
        }
    }
}

fn main() {
    if std::env::var("VERIF_LOUD").is_err() { quiet_panics(); }
    let args = Args::parse();
    let mut out = Out::new();
    let header = "From FV Require Import Base.Bytes Validity.ValiditySpec Validity.ValidityModel Run.Validity.\nOpen Scope N_scope.";
    match args.prop.as_str() {
        "C19" => {
            run_c19(&args, &mut out);
            out.write(&args, header, "validity_case", "bad_validity");
        }
        p => {
            eprintln!("validity: unknown property {p}");
            std::process::exit(2);
        }
    }
}
