// Generators for C19 (included by bin/validity.rs): a plan of a transaction from which the real
// `Transaction` is built with the crates' raw constructors (no builder fix-ups), a generator of
// VALID plans per kind, and rule-violating mutations.

#[derive(Clone, Debug)]
enum Body {
    Script { gas_limit: u64, script: Vec<u8>, data: Vec<u8> },
    Create { bwi: u16, salt: [u8; 32], slots: Vec<([u8; 32], [u8; 32])>, keep_unsorted: bool },
    UpgradeCP { wi: u16, checksum: [u8; 32] },
    UpgradeST { root: [u8; 32] },
    Upload { root: [u8; 32], wi: u16, sub_idx: u16, sub_n: u16, proof: Vec<[u8; 32]> },
    Blob { id: [u8; 32], wi: u16 },
    Mint { height: u32, tx_idx: u16, out_index: u16, amount: u64, asset: [u8; 32], gas_price: u64 },
}
#[derive(Clone, Debug)]
struct Plan {
    p: PPlan,
    height: u32,
    pol: Policies,
    ins: Vec<Input>,
    outs: Vec<Output>,
    wits: Vec<Vec<u8>>,
    body: Body,
}

fn build(pl: &Plan) -> Transaction {
    let wits: Vec<Witness> = pl.wits.iter().map(|w| Witness::from(w.clone())).collect();
    match &pl.body {
        Body::Script { gas_limit, script, data } => {
            Transaction::script(*gas_limit, script.clone(), data.clone(), pl.pol, pl.ins.clone(), pl.outs.clone(), wits).into()
        }
        Body::Create { bwi, salt, slots, keep_unsorted } => {
            let ss: Vec<StorageSlot> = slots.iter().map(|(k, v)| StorageSlot::new(Bytes32::from(*k), Bytes32::from(*v))).collect();
            let mut c = Transaction::create(*bwi, pl.pol, Salt::from(*salt), ss.clone(), pl.ins.clone(), pl.outs.clone(), wits);
            if *keep_unsorted {
                let mut r = c.storage_slots_mut();
                *r.as_mut() = ss;
                std::mem::forget(r); // the guard would sort on drop
            }
            c.into()
        }
        Body::UpgradeCP { wi, checksum } => Transaction::upgrade(
            UpgradePurpose::ConsensusParameters { witness_index: *wi, checksum: Bytes32::from(*checksum) },
            pl.pol, pl.ins.clone(), pl.outs.clone(), wits,
        ).into(),
        Body::UpgradeST { root } => Transaction::upgrade(
            UpgradePurpose::StateTransition { root: Bytes32::from(*root) },
            pl.pol, pl.ins.clone(), pl.outs.clone(), wits,
        ).into(),
        Body::Upload { root, wi, sub_idx, sub_n, proof } => Transaction::upload(
            UploadBody {
                root: Bytes32::from(*root),
                witness_index: *wi,
                subsection_index: *sub_idx,
                subsections_number: *sub_n,
                proof_set: proof.iter().map(|p| Bytes32::from(*p)).collect(),
            },
            pl.pol, pl.ins.clone(), pl.outs.clone(), wits,
        ).into(),
        Body::Blob { id, wi } => Transaction::blob(
            BlobBody { id: BlobId::from(*id), witness_index: *wi },
            pl.pol, pl.ins.clone(), pl.outs.clone(), wits,
        ).into(),
        Body::Mint { height, tx_idx, out_index, amount, asset, gas_price } => Transaction::mint(
            TxPointer::new(BlockHeight::from(*height), *tx_idx),
            fuel_tx::input::contract::Contract {
                utxo_id: UtxoId::new(Bytes32::from([7u8; 32]), 1),
                balance_root: Bytes32::zeroed(),
                state_root: Bytes32::zeroed(),
                tx_pointer: TxPointer::new(BlockHeight::from(0u32), 0),
                contract_id: ContractId::from([9u8; 32]),
            },
            fuel_tx::output::contract::Contract { input_index: *out_index, balance_root: Bytes32::zeroed(), state_root: Bytes32::zeroed() },
            *amount, AssetId::from(*asset), *gas_price,
        ).into(),
    }
}

// ------------------------------------------------------------------ pieces
fn tp() -> TxPointer {
    TxPointer::new(BlockHeight::from(0u32), 0)
}
fn rnd_utxo(r: &mut Rng) -> UtxoId {
    UtxoId::new(Bytes32::from(r.bytes32()), r.below(4) as u16)
}
fn amount_small(r: &mut Rng) -> u64 {
    match r.below(6) {
        0 => 0,
        1 => 1,
        2 => r.below(1000),
        3 => r.below(1 << 40),
        _ => r.below(u64::MAX / 16),
    }
}
#[derive(Clone, Copy, PartialEq, Debug)]
enum Kind { Script, Create, Upgrade, Upload, Blob, Mint }
const KINDS: [Kind; 6] = [Kind::Script, Kind::Create, Kind::Upgrade, Kind::Upload, Kind::Blob, Kind::Mint];

fn gen_input(r: &mut Rng, which: u64, asset: [u8; 32], amount: u64, nwit: usize, owner: [u8; 32]) -> Input {
    let wi = r.below(nwit as u64) as u16;
    let pred = {
        let n = r.range(1, 24) as usize;
        r.bytes(n)
    };
    let pdata = r.bytes_upto(16);
    let owner = Address::from(owner);
    let sender = Address::from(r.bytes32());
    match which {
        0 => Input::coin_signed(rnd_utxo(r), owner, amount, AssetId::from(asset), tp(), wi),
        1 => Input::coin_predicate(rnd_utxo(r), owner, amount, AssetId::from(asset), tp(), r.below(1000), pred, pdata),
        2 => Input::message_coin_signed(sender, owner, amount, Nonce::from(r.bytes32()), wi),
        3 => Input::message_coin_predicate(sender, owner, amount, Nonce::from(r.bytes32()), r.below(1000), pred, pdata),
        4 => {
            let n = r.range(1, 20) as usize;
            Input::message_data_signed(sender, owner, amount, Nonce::from(r.bytes32()), wi, r.bytes(n))
        }
        5 => {
            let n = r.range(1, 20) as usize;
            Input::message_data_predicate(sender, owner, amount, Nonce::from(r.bytes32()), r.below(1000), r.bytes(n), pred, pdata)
        }
        _ => Input::contract(rnd_utxo(r), Bytes32::from(r.bytes32()), Bytes32::from(r.bytes32()), tp(), ContractId::from(r.bytes32())),
    }
}

fn wit_dyn_size(wits: &[Vec<u8>]) -> u64 {
    wits.iter().map(|w| 8 + (w.len() as u64 + 7) / 8 * 8).sum()
}

fn gen_pplan(r: &mut Rng) -> PPlan {
    let mut p = PPlan::standard();
    if r.chance(1, 2) {
        p.base_asset = r.bytes32();
    }
    if r.chance(1, 2) {
        p.privileged = r.bytes32();
    }
    p
}

/// a specification-valid plan of the given kind (mostly; verdict is whatever the code says)
fn gen_valid(r: &mut Rng, kind: Kind) -> Plan {
    let p = gen_pplan(r);
    let height: u32 = match r.below(6) {
        0 => 0,
        1 => 1,
        2 => u32::MAX,
        3 => u32::MAX - 1,
        _ => r.below(1 << 24) as u32,
    };
    if kind == Kind::Mint {
        return Plan {
            body: Body::Mint { height, tx_idx: r.below(8) as u16, out_index: 0, amount: r.u64_biased(), asset: p.base_asset, gas_price: r.u64_biased() },
            p, height, pol: Policies::new(), ins: vec![], outs: vec![], wits: vec![],
        };
    }
    let script = kind == Kind::Script;
    // witnesses
    let nwit = r.range(1, 3) as usize;
    let mut wits: Vec<Vec<u8>> = (0..nwit).map(|_| if r.chance(2, 3) { r.bytes(64) } else { r.bytes_upto(40) }).collect();
    // asset pool
    let mut near = p.base_asset;
    near[31] ^= 1;
    let pool: Vec<[u8; 32]> = if script { vec![p.base_asset, near, r.bytes32(), r.bytes32()] } else { vec![p.base_asset] };
    // inputs
    let n_in = r.range(1, 6) as usize;
    let mut ins: Vec<Input> = vec![];
    let owner_pool = [r.bytes32(), r.bytes32()];
    for k in 0..n_in {
        let which = if script {
            if k == 0 { r.below(4) } else { r.below(7) }
        } else {
            r.below(4)
        };
        let asset = *r.pick(&pool);
        let owner = *r.pick(&owner_pool);
        let amt = amount_small(r);
        ins.push(gen_input(r, which, asset, amt, nwit, owner));
    }
    if kind == Kind::Upgrade {
        // one input owned by the privileged address
        let k = r.below(ins.len() as u64) as usize;
        let which = r.below(4);
        let amt = amount_small(r);
        ins[k] = gen_input(r, which, p.base_asset, amt, nwit, p.privileged);
    }
    r.shuffle(&mut ins);
    // balances per asset
    let mut bal: BTreeMap<[u8; 32], u128> = BTreeMap::new();
    for i in &ins {
        match i {
            Input::CoinSigned(c) => *bal.entry(*c.asset_id).or_default() += c.amount as u128,
            Input::CoinPredicate(c) => *bal.entry(*c.asset_id).or_default() += c.amount as u128,
            Input::MessageCoinSigned(m) => *bal.entry(p.base_asset).or_default() += m.amount as u128,
            Input::MessageCoinPredicate(m) => *bal.entry(p.base_asset).or_default() += m.amount as u128,
            _ => {}
        }
    }
    // fee
    let base_bal = bal.get(&p.base_asset).cloned().unwrap_or(0).min(u64::MAX as u128) as u64;
    let max_fee = match r.below(4) {
        0 => 0,
        1 => base_bal,
        _ => r.below(base_bal.saturating_add(1)),
    };
    if let Some(b) = bal.get_mut(&p.base_asset) {
        *b -= max_fee as u128;
    }
    // outputs
    let mut outs: Vec<Output> = vec![];
    for (k, i) in ins.iter().enumerate() {
        if i.is_contract() {
            outs.push(Output::contract(k as u16, Bytes32::from(r.bytes32()), Bytes32::from(r.bytes32())));
        }
    }
    let assets: Vec<[u8; 32]> = bal.keys().cloned().collect();
    for a in &assets {
        let ncoin = r.below(3);
        for _ in 0..ncoin {
            let avail = bal[a].min(u64::MAX as u128) as u64;
            let amt = match r.below(4) {
                0 => 0,
                1 => avail,
                _ => r.below(avail.saturating_add(1)),
            };
            *bal.get_mut(a).unwrap() -= amt as u128;
            outs.push(Output::coin(Address::from(r.bytes32()), amt, AssetId::from(*a)));
        }
        if r.chance(1, 2) {
            outs.push(Output::change(Address::from(r.bytes32()), 0, AssetId::from(*a)));
        }
    }
    if script {
        for _ in 0..r.below(3) {
            outs.push(Output::variable(Address::zeroed(), 0, AssetId::zeroed()));
        }
    }
    // body
    let body = match kind {
        Kind::Script => {
            let n = r.range(0, 24) as usize;
            Body::Script { gas_limit: r.below(100_000), script: r.bytes(n), data: r.bytes_upto(24) }
        }
        Kind::Create => {
            let n = (r.range(0, 40) * 4) as usize;
            let code = r.bytes(n);
            let salt = r.bytes32();
            let mut slots: Vec<([u8; 32], [u8; 32])> = (0..r.below(4)).map(|_| (r.bytes32(), r.bytes32())).collect();
            slots.sort();
            let bwi = wits.len() as u16;
            wits.push(code.clone());
            let ss: Vec<StorageSlot> = slots.iter().map(|(k, v)| StorageSlot::new(Bytes32::from(*k), Bytes32::from(*v))).collect();
            let sr = Contract::initial_state_root(ss.iter());
            let id = Contract::id(&Salt::from(salt), &Contract::root_from_code(&code), &sr);
            outs.push(Output::contract_created(id, sr));
            Body::Create { bwi, salt, slots, keep_unsorted: false }
        }
        Kind::Upgrade => {
            if r.chance(1, 2) {
                Body::UpgradeST { root: r.bytes32() }
            } else {
                let mut cp = ConsensusParameters::standard();
                cp.set_block_gas_limit(r.next());
                let ser = postcard::to_allocvec(&cp).unwrap();
                let wi = wits.len() as u16;
                let checksum = sha256(&ser);
                wits.push(ser);
                Body::UpgradeCP { wi, checksum }
            }
        }
        Kind::Upload => {
            let n = r.range(1, 200) as usize;
            let code = r.bytes(n);
            let sz = r.range(1, n as u64).max(n as u64 / 12 + 1) as usize;
            let subs = UploadSubsection::split_bytecode(&code, sz).unwrap();
            let s = r.pick(&subs).clone();
            let wi = wits.len() as u16;
            wits.push(s.subsection.clone());
            Body::Upload { root: *s.root, wi, sub_idx: s.subsection_index, sub_n: s.subsections_number, proof: s.proof_set.iter().map(|b| **b).collect() }
        }
        Kind::Blob => {
            let data = r.bytes_upto(100);
            let wi = wits.len() as u16;
            let id = sha256(&data);
            wits.push(data);
            Body::Blob { id, wi }
        }
        Kind::Mint => unreachable!(),
    };
    r.shuffle(&mut outs);
    // contract outputs must keep pointing at their inputs: indices are stored in the outputs, so shuffling is fine
    // policies
    let mut pol = Policies::new().with_max_fee(max_fee);
    if r.chance(1, 3) {
        pol = pol.with_tip(r.u64_biased());
    }
    if r.chance(1, 3) {
        let ws = wit_dyn_size(&wits);
        pol = pol.with_witness_limit(if r.bool() { ws } else { ws + r.below(1000) });
    }
    if r.chance(1, 3) {
        pol = pol.with_maturity(BlockHeight::from(if r.bool() { height } else { r.below(height as u64 + 1) as u32 }));
    }
    if r.chance(1, 3) {
        let e = if r.bool() { height } else { height + r.below((u32::MAX - height) as u64 + 1) as u32 };
        pol = pol.with_expiration(BlockHeight::from(e));
    }
    if r.chance(1, 3) {
        let owners: Vec<usize> = ins.iter().enumerate().filter(|(_, i)| i.input_owner().is_some()).map(|(k, _)| k).collect();
        if !owners.is_empty() {
            pol = pol.with_owner(*r.pick(&owners) as u64);
        }
    }
    Plan { p, height, pol, ins, outs, wits, body }
}
