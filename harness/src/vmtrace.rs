//! VM program generator and step-wise tracer (shared by the VM-family harness binaries).
//! Documented in /verif/harness/VMTRACE.md.
//!
//! Layers (each usable on its own):
//!   1. `World` / `TxSpec`      deployed contracts + consensus parameters + script tx builder
//!   2. `RecStorage<S>`         recording `InterpreterStorage` wrapper (reads and writes)
//!   3. `trace()` / `run_plain` single-stepped execution on the real `Interpreter` -> `Trace`
//!   4. `Asm` / `assemble`      tiny label assembler for every jump instruction
//!   5. `gen_scenario`          grammar-based program generator (seeded by `fvh::Rng`)
//!   6. JSON / Coq printers
#![allow(clippy::too_many_arguments)]
use crate::Rng;
use fuel_asm::{op, GMArgs, GTFArgs, Instruction, PanicReason, RegId};
use fuel_storage::{
    Mappable, StorageInspect, StorageMutate, StorageRead, StorageReadError, StorageSize, StorageWrite,
};
use fuel_tx::{
    ConsensusParameters, GasCosts, GasCostsValues, Input, Output, Receipt, Script, TransactionBuilder, TxPointer, UtxoId,
};
use fuel_types::{canonical::Serialize as _, Address, AssetId, BlockHeight, Bytes32, ContractId, Nonce, Word};
use fuel_vm::checked_transaction::{IntoChecked, Ready};
use fuel_vm::consts::{MEM_SIZE, VM_REGISTER_COUNT};
use fuel_vm::interpreter::{Interpreter, InterpreterParams, MemoryInstance};
use fuel_vm::prelude::{Call, CallFrame};
use fuel_vm::state::ProgramState;
use fuel_vm::storage::{
    BlobData, ContractsAssets, ContractsAssetsStorage, ContractsRawCode, ContractsState, InterpreterStorage,
    MemoryStorage, UploadedBytecode, UploadedBytecodes,
};
use serde_json::{json, Value};
use std::borrow::Cow;
use std::cell::RefCell;
use std::collections::{BTreeMap, BTreeSet};

// =====================================================================================
// 0. register conventions of generated code
// =====================================================================================
/// base pointer of the script data (set by every code unit's prologue with `gtf .. ScriptData`)
pub const R_DATA: u8 = 0x3F;
/// link register used by `jal` subroutines
pub const R_LINK: u8 = 0x3E;
/// loop counters for nesting levels 0..3
pub const R_CNT: [u8; 3] = [0x3B, 0x3C, 0x3D];
/// temporaries used by address idioms (never chosen as a random destination)
pub const R_TMP: [u8; 7] = [0x34, 0x35, 0x36, 0x37, 0x38, 0x39, 0x3A];
/// first/last general register available to random ALU code
pub const R_GEN_LO: u8 = 0x10;
pub const R_GEN_HI: u8 = 0x33;
/// bytes every unit allocates in its prologue on the stack (`cfei`) and on the heap (`aloc`)
pub const LOCAL: u32 = 1024;
pub const HEAPSZ: u32 = 256;

// =====================================================================================
// 1. gas schedules, world, transaction
// =====================================================================================
#[derive(Clone, Debug, PartialEq, Eq)]
pub enum GasSchedule {
    Default,
    Unit,
    Free,
    /// every fixed cost random in 0..=24 (rarely up to 5000); every dependent cost random
    /// Light (units_per_gas >= 1) or Heavy (gas_per_unit 0..=3)
    Random(u64),
}
impl GasSchedule {
    pub fn name(&self) -> String {
        match self {
            GasSchedule::Default => "default".into(),
            GasSchedule::Unit => "unit".into(),
            GasSchedule::Free => "free".into(),
            GasSchedule::Random(s) => format!("random:{s}"),
        }
    }
    pub fn costs(&self) -> GasCosts {
        match self {
            GasSchedule::Default => GasCosts::default(),
            GasSchedule::Unit => GasCosts::unit(),
            GasSchedule::Free => GasCosts::free(),
            GasSchedule::Random(seed) => {
                let mut rng = Rng::new(*seed ^ 0x6a5c);
                let v: GasCostsValues = GasCosts::default().into();
                let mut j = serde_json::to_value(&v).expect("gas costs to json");
                fn walk(v: &mut Value, rng: &mut Rng) {
                    match v {
                        Value::Number(_) => {
                            let x = if rng.chance(1, 12) { rng.below(5000) } else { rng.below(25) };
                            *v = json!(x);
                        }
                        Value::Object(m) => {
                            if m.contains_key("LightOperation") || m.contains_key("HeavyOperation") {
                                let base = if rng.chance(1, 10) { rng.below(3000) } else { rng.below(40) };
                                *v = if rng.chance(2, 3) {
                                    let upg = *rng.pick(&[1u64, 1, 2, 3, 7, 16, 64, 214, 1000, 3333]);
                                    json!({"LightOperation": {"base": base, "units_per_gas": upg}})
                                } else {
                                    json!({"HeavyOperation": {"base": base, "gas_per_unit": rng.below(4)}})
                                };
                            } else {
                                for (_, x) in m.iter_mut() {
                                    walk(x, rng);
                                }
                            }
                        }
                        Value::Array(a) => a.iter_mut().for_each(|x| walk(x, rng)),
                        _ => {}
                    }
                }
                walk(&mut j, &mut rng);
                let v: GasCostsValues = serde_json::from_value(j).expect("gas costs from json");
                GasCosts::new(v)
            }
        }
    }
}

/// One entry of a gas schedule as plain numbers.
#[derive(Clone, Debug, PartialEq, Eq)]
pub enum CostVal {
    Fixed(u64),
    Light { base: u64, units_per_gas: u64 },
    Heavy { base: u64, gas_per_unit: u64 },
}
impl CostVal {
    /// `DependentCost::resolve` / plain value (independent re-implementation, u128 arithmetic)
    pub fn resolve(&self, units: u64) -> u64 {
        let sat = |x: u128| if x > u64::MAX as u128 { u64::MAX } else { x as u64 };
        match self {
            CostVal::Fixed(x) => *x,
            CostVal::Light { base, units_per_gas } => sat(*base as u128 + (units / (*units_per_gas).max(1)) as u128),
            CostVal::Heavy { base, gas_per_unit } => sat(*base as u128 + sat(units as u128 * *gas_per_unit as u128) as u128),
        }
    }
    /// `DependentCost::resolve_without_base` (0 for a fixed cost)
    pub fn resolve_without_base(&self, units: u64) -> u64 {
        match self {
            CostVal::Fixed(_) => 0,
            CostVal::Light { units_per_gas, .. } => units / (*units_per_gas).max(1),
            CostVal::Heavy { gas_per_unit, .. } => units.saturating_mul(*gas_per_unit),
        }
    }
    pub fn base(&self) -> u64 {
        match self {
            CostVal::Fixed(x) => *x,
            CostVal::Light { base, .. } | CostVal::Heavy { base, .. } => *base,
        }
    }
    pub fn to_coq(&self) -> String {
        match self {
            CostVal::Fixed(x) => format!("(CFixed {x})"),
            CostVal::Light { base, units_per_gas } => format!("(CLight {base} {units_per_gas})"),
            CostVal::Heavy { base, gas_per_unit } => format!("(CHeavy {base} {gas_per_unit})"),
        }
    }
}
/// field name (as in `GasCostsValuesV7`, e.g. "add", "mod_op", "storage_read_cold") -> value
pub fn cost_table(costs: &GasCosts) -> BTreeMap<String, CostVal> {
    let v: GasCostsValues = costs.clone().into();
    let j = serde_json::to_value(&v).expect("gas costs to json");
    let mut out = BTreeMap::new();
    let inner = j.as_object().and_then(|m| m.values().next()).and_then(|x| x.as_object()).cloned().unwrap_or_default();
    for (k, x) in inner {
        // serde renames of GasCostsValues back to the struct field names
        let k = match k.as_str() { "mod" => "mod_op".to_string(), "move" => "move_op".to_string(), "ret_contract" => "ret".to_string(),
            "rvrt_contract" => "rvrt".to_string(), "retd_contract" => "retd".to_string(), _ => k };
        if let Some(n) = x.as_u64() {
            out.insert(k, CostVal::Fixed(n));
        } else if let Some(l) = x.get("LightOperation") {
            out.insert(k, CostVal::Light { base: l["base"].as_u64().unwrap_or(0), units_per_gas: l["units_per_gas"].as_u64().unwrap_or(1) });
        } else if let Some(h) = x.get("HeavyOperation") {
            out.insert(k, CostVal::Heavy { base: h["base"].as_u64().unwrap_or(0), gas_per_unit: h["gas_per_unit"].as_u64().unwrap_or(0) });
        }
    }
    out
}

#[derive(Clone, Debug)]
pub struct ContractDef {
    pub id: ContractId,
    pub code: Vec<u8>,
    pub balances: Vec<(AssetId, u64)>,
    pub slots: Vec<([u8; 32], Vec<u8>)>,
}

/// Deployed contracts + consensus parameters + chain facts.
#[derive(Clone, Debug)]
pub struct World {
    pub storage: MemoryStorage,
    pub params: ConsensusParameters,
    pub schedule: GasSchedule,
    pub contracts: Vec<ContractDef>,
    /// deployed blobs (id, bytes)
    pub blobs: Vec<([u8; 32], Vec<u8>)>,
    /// `assets[0]` is the base asset
    pub assets: Vec<AssetId>,
    pub block_height: u32,
    pub gas_price: u64,
}
impl World {
    pub fn new(schedule: GasSchedule, block_height: u32, assets: Vec<AssetId>) -> World {
        let mut params = ConsensusParameters::standard();
        params.set_gas_costs(schedule.costs());
        let base = assets.first().copied().unwrap_or_default();
        params.set_base_asset_id(base);
        let coinbase = ContractId::from([0xCB; 32]);
        World {
            storage: MemoryStorage::new(BlockHeight::from(block_height), coinbase),
            params,
            schedule,
            contracts: vec![],
            blobs: vec![],
            assets: if assets.is_empty() { vec![base] } else { assets },
            block_height,
            gas_price: 0,
        }
    }
    pub fn set_schedule(&mut self, schedule: GasSchedule) {
        self.params.set_gas_costs(schedule.costs());
        self.schedule = schedule;
    }
    /// store code, balances and state slots of a contract under `def.id`
    pub fn deploy(&mut self, def: ContractDef) {
        self.storage.storage_contract_insert(&def.id, &def.code).expect("infallible");
        for (k, v) in &def.slots {
            self.storage.contract_state_insert(&def.id, &Bytes32::from(*k), v).expect("infallible");
        }
        for (a, amt) in &def.balances {
            self.storage.contract_asset_id_balance_insert(&def.id, a, *amt).expect("infallible");
        }
        self.contracts.push(def);
    }
    /// store a blob under an arbitrary id
    pub fn deploy_blob(&mut self, id: [u8; 32], bytes: Vec<u8>) {
        StorageMutate::<BlobData>::insert(&mut self.storage, &fuel_types::BlobId::from(id), &bytes).expect("infallible");
        self.blobs.push((id, bytes));
    }
    pub fn deploy_code(&mut self, id: ContractId, code: &[u32]) {
        self.deploy(ContractDef { id, code: words_to_bytes(code), balances: vec![], slots: vec![] });
    }
    pub fn interpreter_params(&self) -> InterpreterParams {
        InterpreterParams::new(self.gas_price, &self.params)
    }
    pub fn costs(&self) -> BTreeMap<String, CostVal> {
        cost_table(self.params.gas_costs())
    }
    pub fn tx_offset(&self) -> usize {
        self.params.tx_params().tx_offset()
    }
    /// VM address of the first byte of the script / of the script data, for a script of
    /// `script_len` bytes
    pub fn script_addr(&self) -> u64 {
        (self.tx_offset() + <Script as fuel_tx::field::Script>::script_offset_static()) as u64
    }
    pub fn script_data_addr(&self, script_len: usize) -> u64 {
        self.script_addr() + (script_len.div_ceil(8) * 8) as u64
    }
}

pub fn words_to_bytes(ws: &[u32]) -> Vec<u8> {
    ws.iter().flat_map(|w| w.to_be_bytes()).collect()
}
pub fn instrs_to_words(is: &[Instruction]) -> Vec<u32> {
    is.iter().map(|i| u32::from_be_bytes((*i).into())).collect()
}

#[derive(Clone, Debug, PartialEq, Eq)]
pub enum OutSpec {
    Change(AssetId),
    Variable,
    Coin(AssetId, u64),
}

/// Description of a script transaction; `build` signs and checks it with the crate's own rules.
#[derive(Clone, Debug)]
pub struct TxSpec {
    pub script: Vec<u8>,
    pub script_data: Vec<u8>,
    pub gas_limit: u64,
    pub coins: Vec<(AssetId, u64)>,
    /// message inputs (amount of base asset, data)
    pub messages: Vec<(u64, Vec<u8>)>,
    /// contract inputs (each gets the matching contract output; outputs come first, in order)
    pub contract_inputs: Vec<ContractId>,
    pub outputs: Vec<OutSpec>,
    pub max_fee: u64,
    pub key_seed: u64,
}
impl TxSpec {
    pub fn new(script: Vec<u8>, script_data: Vec<u8>, gas_limit: u64) -> TxSpec {
        TxSpec { script, script_data, gas_limit, coins: vec![], messages: vec![], contract_inputs: vec![], outputs: vec![], max_fee: 0, key_seed: 1 }
    }
    pub fn build(&self, w: &World) -> Result<Ready<Script>, String> {
        use rand::{rngs::StdRng, Rng as _, SeedableRng};
        let mut r = StdRng::seed_from_u64(self.key_seed);
        let mut b = TransactionBuilder::script(self.script.clone(), self.script_data.clone());
        b.with_params(w.params.clone());
        b.script_gas_limit(self.gas_limit).max_fee_limit(self.max_fee);
        for (i, c) in self.contract_inputs.iter().enumerate() {
            b.add_input(Input::contract(UtxoId::new(r.r#gen(), i as u16), r.r#gen(), r.r#gen(), TxPointer::default(), *c));
        }
        for (i, (asset, amount)) in self.coins.iter().enumerate() {
            b.add_unsigned_coin_input(fuel_crypto::SecretKey::random(&mut r), UtxoId::new(r.r#gen(), 100 + i as u16), *amount, *asset, TxPointer::default());
        }
        for (amount, data) in &self.messages {
            let sender: Address = r.r#gen();
            let nonce: Nonce = r.r#gen();
            b.add_unsigned_message_input(fuel_crypto::SecretKey::random(&mut r), sender, nonce, *amount, data.clone());
        }
        if self.coins.is_empty() && self.messages.is_empty() {
            b.add_unsigned_coin_input(fuel_crypto::SecretKey::random(&mut r), UtxoId::new(r.r#gen(), 99), 1, *w.params.base_asset_id(), TxPointer::default());
        }
        for i in 0..self.contract_inputs.len() {
            b.add_output(Output::contract(i as u16, r.r#gen(), r.r#gen()));
        }
        for o in &self.outputs {
            let to: Address = r.r#gen();
            match o {
                OutSpec::Change(a) => b.add_output(Output::change(to, 0, *a)),
                OutSpec::Variable => b.add_output(Output::variable(Address::zeroed(), 0, AssetId::zeroed())),
                OutSpec::Coin(a, amt) => b.add_output(Output::coin(to, *amt, *a)),
            };
        }
        use fuel_tx::Finalizable;
        let tx = b.finalize();
        let checked = tx.into_checked(BlockHeight::from(w.block_height), &w.params).map_err(|e| format!("check: {e:?}"))?;
        checked
            .into_ready(w.gas_price, w.params.gas_costs(), w.params.fee_params(), Some(BlockHeight::from(w.block_height)))
            .map_err(|e| format!("ready: {e:?}"))
    }
    /// index (in the tx outputs) of the first `Variable` output, if any
    pub fn first_variable_output(&self) -> Option<usize> {
        self.outputs.iter().position(|o| *o == OutSpec::Variable).map(|i| i + self.contract_inputs.len())
    }
}

// =====================================================================================
// 2. recording storage wrapper
// =====================================================================================
#[derive(Clone, Debug, PartialEq, Eq)]
pub enum StorageOp {
    /// get / contains_key / size_of_value / read*: result = value bytes (or presence) seen
    Read,
    /// replace / write_bytes / replace_bytes / insert
    Write,
    /// take / take_bytes / remove
    Remove,
    /// contract_state_remove_range(start, n)
    RemoveRange,
}
#[derive(Clone, Debug, PartialEq, Eq)]
pub struct StorageEvent {
    pub table: &'static str,
    pub op: StorageOp,
    pub method: &'static str,
    pub key: Vec<u8>,
    /// value written (Write), previous value (Remove), value read (Read; None = absent)
    pub value: Option<Vec<u8>>,
    /// previous value for Write through replace*, range for RemoveRange
    pub prev: Option<Vec<u8>>,
    pub extra: u64,
}
impl StorageEvent {
    pub fn to_json(&self) -> Value {
        json!({"table": self.table, "op": format!("{:?}", self.op), "method": self.method, "key": hex::encode(&self.key),
               "value": self.value.as_ref().map(hex::encode), "prev": self.prev.as_ref().map(hex::encode), "extra": self.extra})
    }
    /// contract id the event belongs to (first 32 key bytes) for the contract-keyed tables
    pub fn contract(&self) -> Option<ContractId> {
        match self.table {
            "ContractsState" | "ContractsAssets" | "ContractsRawCode" if self.key.len() >= 32 => {
                let mut b = [0u8; 32];
                b.copy_from_slice(&self.key[..32]);
                Some(ContractId::from(b))
            }
            _ => None,
        }
    }
}

/// Tables the recorder knows how to print.
pub trait RecTable: Mappable {
    const NAME: &'static str;
    fn key_bytes(k: &Self::Key) -> Vec<u8>;
    fn val_bytes(v: &Self::Value) -> Vec<u8>;
    fn owned_bytes(v: &Self::OwnedValue) -> Vec<u8>;
}
impl RecTable for ContractsState {
    const NAME: &'static str = "ContractsState";
    fn key_bytes(k: &Self::Key) -> Vec<u8> { k.as_ref().to_vec() }
    fn val_bytes(v: &Self::Value) -> Vec<u8> { v.to_vec() }
    fn owned_bytes(v: &Self::OwnedValue) -> Vec<u8> { v.as_ref().to_vec() }
}
impl RecTable for ContractsAssets {
    const NAME: &'static str = "ContractsAssets";
    fn key_bytes(k: &Self::Key) -> Vec<u8> { k.as_ref().to_vec() }
    fn val_bytes(v: &Self::Value) -> Vec<u8> { v.to_be_bytes().to_vec() }
    fn owned_bytes(v: &Self::OwnedValue) -> Vec<u8> { v.to_be_bytes().to_vec() }
}
impl RecTable for ContractsRawCode {
    const NAME: &'static str = "ContractsRawCode";
    fn key_bytes(k: &Self::Key) -> Vec<u8> { k.as_ref().to_vec() }
    fn val_bytes(v: &Self::Value) -> Vec<u8> { v.to_vec() }
    fn owned_bytes(v: &Self::OwnedValue) -> Vec<u8> { v.as_ref().to_vec() }
}
impl RecTable for BlobData {
    const NAME: &'static str = "BlobData";
    fn key_bytes(k: &Self::Key) -> Vec<u8> { k.as_ref().to_vec() }
    fn val_bytes(v: &Self::Value) -> Vec<u8> { v.to_vec() }
    fn owned_bytes(v: &Self::OwnedValue) -> Vec<u8> { v.0.as_ref().to_vec() }
}
impl RecTable for UploadedBytecodes {
    const NAME: &'static str = "UploadedBytecodes";
    fn key_bytes(k: &Self::Key) -> Vec<u8> { k.as_ref().to_vec() }
    fn val_bytes(v: &Self::Value) -> Vec<u8> { Self::owned_bytes(v) }
    fn owned_bytes(v: &Self::OwnedValue) -> Vec<u8> {
        match v {
            UploadedBytecode::Uncompleted { bytecode, uploaded_subsections_number } => {
                let mut b = vec![0u8];
                b.extend(uploaded_subsections_number.to_be_bytes());
                b.extend(bytecode);
                b
            }
            UploadedBytecode::Completed(c) => {
                let mut b = vec![1u8];
                b.extend(c);
                b
            }
        }
    }
}

/// Generic recording wrapper: forwards everything to `inner` and appends a `StorageEvent`
/// per call.  `mark()`/`since(mark)` slice the log per instruction.
#[derive(Debug, Clone)]
pub struct RecStorage<S> {
    pub inner: S,
    pub log: RefCell<Vec<StorageEvent>>,
    pub enabled: bool,
}
impl<S> RecStorage<S> {
    pub fn new(inner: S) -> Self {
        RecStorage { inner, log: RefCell::new(vec![]), enabled: true }
    }
    pub fn mark(&self) -> usize {
        self.log.borrow().len()
    }
    pub fn since(&self, mark: usize) -> Vec<StorageEvent> {
        self.log.borrow()[mark..].to_vec()
    }
    fn push(&self, table: &'static str, op: StorageOp, method: &'static str, key: Vec<u8>, value: Option<Vec<u8>>, prev: Option<Vec<u8>>, extra: u64) {
        if self.enabled {
            self.log.borrow_mut().push(StorageEvent { table, op, method, key, value, prev, extra });
        }
    }
}
impl<T: RecTable, S: StorageInspect<T>> StorageInspect<T> for RecStorage<S> {
    type Error = <S as StorageInspect<T>>::Error;
    fn get(&self, key: &T::Key) -> Result<Option<Cow<'_, T::OwnedValue>>, Self::Error> {
        let r = self.inner.get(key)?;
        self.push(T::NAME, StorageOp::Read, "get", T::key_bytes(key), r.as_ref().map(|v| T::owned_bytes(v)), None, 0);
        Ok(r)
    }
    fn contains_key(&self, key: &T::Key) -> Result<bool, Self::Error> {
        let r = self.inner.contains_key(key)?;
        self.push(T::NAME, StorageOp::Read, "contains_key", T::key_bytes(key), if r { Some(vec![]) } else { None }, None, 0);
        Ok(r)
    }
}
impl<T: RecTable, S: StorageSize<T>> StorageSize<T> for RecStorage<S> {
    fn size_of_value(&self, key: &T::Key) -> Result<Option<usize>, Self::Error> {
        let r = self.inner.size_of_value(key)?;
        self.push(T::NAME, StorageOp::Read, "size_of_value", T::key_bytes(key), r.map(|_| vec![]), None, r.unwrap_or(0) as u64);
        Ok(r)
    }
}
impl<T: RecTable, S: StorageRead<T>> StorageRead<T> for RecStorage<S> {
    fn read_exact(&self, key: &T::Key, offset: usize, buf: &mut [u8]) -> Result<Result<usize, StorageReadError>, Self::Error> {
        let r = self.inner.read_exact(key, offset, buf)?;
        self.push(T::NAME, StorageOp::Read, "read_exact", T::key_bytes(key), r.ok().map(|_| buf.to_vec()), None, offset as u64);
        Ok(r)
    }
    fn read_zerofill(&self, key: &T::Key, offset: usize, buf: &mut [u8]) -> Result<Result<usize, StorageReadError>, Self::Error> {
        let r = self.inner.read_zerofill(key, offset, buf)?;
        self.push(T::NAME, StorageOp::Read, "read_zerofill", T::key_bytes(key), r.ok().map(|_| buf.to_vec()), None, offset as u64);
        Ok(r)
    }
    fn read_alloc(&self, key: &T::Key) -> Result<Option<Vec<u8>>, Self::Error> {
        let r = self.inner.read_alloc(key)?;
        self.push(T::NAME, StorageOp::Read, "read_alloc", T::key_bytes(key), r.clone(), None, 0);
        Ok(r)
    }
}
impl<T: RecTable, S: StorageMutate<T>> StorageMutate<T> for RecStorage<S> {
    fn replace(&mut self, key: &T::Key, value: &T::Value) -> Result<Option<T::OwnedValue>, Self::Error> {
        let r = self.inner.replace(key, value)?;
        self.push(T::NAME, StorageOp::Write, "replace", T::key_bytes(key), Some(T::val_bytes(value)), r.as_ref().map(T::owned_bytes), 0);
        Ok(r)
    }
    fn take(&mut self, key: &T::Key) -> Result<Option<T::OwnedValue>, Self::Error> {
        let r = self.inner.take(key)?;
        self.push(T::NAME, StorageOp::Remove, "take", T::key_bytes(key), r.as_ref().map(T::owned_bytes), None, 0);
        Ok(r)
    }
}
impl<T: RecTable, S: StorageWrite<T>> StorageWrite<T> for RecStorage<S> {
    fn write_bytes(&mut self, key: &T::Key, buf: &[u8]) -> Result<(), Self::Error> {
        self.inner.write_bytes(key, buf)?;
        self.push(T::NAME, StorageOp::Write, "write_bytes", T::key_bytes(key), Some(buf.to_vec()), None, 0);
        Ok(())
    }
    fn replace_bytes(&mut self, key: &T::Key, buf: &[u8]) -> Result<Option<Vec<u8>>, Self::Error> {
        let r = self.inner.replace_bytes(key, buf)?;
        self.push(T::NAME, StorageOp::Write, "replace_bytes", T::key_bytes(key), Some(buf.to_vec()), r.clone(), 0);
        Ok(r)
    }
    fn take_bytes(&mut self, key: &T::Key) -> Result<Option<Vec<u8>>, Self::Error> {
        let r = self.inner.take_bytes(key)?;
        self.push(T::NAME, StorageOp::Remove, "take_bytes", T::key_bytes(key), r.clone(), None, 0);
        Ok(r)
    }
}
impl<S: ContractsAssetsStorage> ContractsAssetsStorage for RecStorage<S> {}
impl<S: InterpreterStorage> InterpreterStorage for RecStorage<S> {
    type DataError = S::DataError;
    fn block_height(&self) -> Result<BlockHeight, Self::DataError> { self.inner.block_height() }
    fn consensus_parameters_version(&self) -> Result<u32, Self::DataError> { self.inner.consensus_parameters_version() }
    fn state_transition_version(&self) -> Result<u32, Self::DataError> { self.inner.state_transition_version() }
    fn timestamp(&self, height: BlockHeight) -> Result<Word, Self::DataError> { self.inner.timestamp(height) }
    fn block_hash(&self, block_height: BlockHeight) -> Result<Bytes32, Self::DataError> { self.inner.block_hash(block_height) }
    fn coinbase(&self) -> Result<ContractId, Self::DataError> { self.inner.coinbase() }
    fn set_consensus_parameters(&mut self, version: u32, cp: &ConsensusParameters) -> Result<Option<ConsensusParameters>, Self::DataError> {
        self.inner.set_consensus_parameters(version, cp)
    }
    fn set_state_transition_bytecode(&mut self, version: u32, hash: &Bytes32) -> Result<Option<Bytes32>, Self::DataError> {
        self.inner.set_state_transition_bytecode(version, hash)
    }
    fn contract_state_remove_range(&mut self, contract: &ContractId, start_key: &Bytes32, range: usize) -> Result<(), Self::DataError> {
        let mut k = contract.as_ref().to_vec();
        k.extend_from_slice(start_key.as_ref());
        self.push("ContractsState", StorageOp::RemoveRange, "contract_state_remove_range", k, None, None, range as u64);
        // the inner implementation may call its own (unrecorded) primitives
        self.inner.contract_state_remove_range(contract, start_key, range)
    }
}

// =====================================================================================
// 3. step-wise execution
// =====================================================================================
pub type Vm = Interpreter<MemoryInstance, RecStorage<MemoryStorage>, Script>;

#[derive(Clone, Debug, PartialEq, Eq)]
pub enum Outcome {
    Proceed,
    Return(u64),
    ReturnData,
    Revert(u64),
    /// the instruction panicked (reason byte, name)
    Panic(PanicReason),
    /// non-panic interpreter error (Bug, storage error, ...): text
    Error(String),
}
impl Outcome {
    pub fn name(&self) -> String {
        match self {
            Outcome::Proceed => "Proceed".into(),
            Outcome::Return(_) => "Return".into(),
            Outcome::ReturnData => "ReturnData".into(),
            Outcome::Revert(_) => "Revert".into(),
            Outcome::Panic(r) => format!("Panic:{r:?}"),
            Outcome::Error(_) => "Error".into(),
        }
    }
    pub fn panic_reason(&self) -> Option<PanicReason> {
        if let Outcome::Panic(r) = self { Some(*r) } else { None }
    }
}

#[derive(Clone, Debug, PartialEq, Eq)]
pub enum StepKind {
    /// one instruction was fetched and executed
    Exec,
    /// the fetch at `pc` failed (unreadable pc, or pc outside [$is, $ssp)); nothing executed;
    /// `outcome` is the panic; registers before = after
    FetchFault,
}

/// who executes: the script, or a contract (id read from the call frame at $fp)
#[derive(Clone, Debug, PartialEq, Eq)]
pub enum Ctx {
    Script,
    Contract(ContractId),
}

#[derive(Clone, Debug, PartialEq, Eq)]
pub struct FrameInfo {
    pub fp: u64,
    pub to: ContractId,
    pub asset_id: AssetId,
    /// registers saved in the frame (the caller's), incl. saved $cgas/$ggas
    pub saved_cgas: u64,
    pub saved_ggas: u64,
    pub saved_fp: u64,
    pub saved_pc: u64,
    pub code_size_padded: u64,
    pub a: u64,
    pub b: u64,
}

#[derive(Clone, Debug, PartialEq, Eq)]
pub struct MemDiff {
    pub addr: u64,
    pub old: Vec<u8>,
    pub new: Vec<u8>,
}

#[derive(Clone, Debug)]
pub struct Step {
    pub index: usize,
    pub kind: StepKind,
    pub pc: u64,
    /// raw instruction word at pc (0 when unreadable)
    pub raw: u32,
    /// decoded instruction (None: invalid opcode / reserved bits set)
    pub instr: Option<Instruction>,
    /// opcode byte and mnemonic ("?" if undefined)
    pub opcode: u8,
    pub mnemonic: String,
    /// register-id fields in order, immediate (0 if none)
    pub reg_args: Vec<u8>,
    pub imm: u32,
    pub regs_before: [u64; VM_REGISTER_COUNT],
    pub regs_after: [u64; VM_REGISTER_COUNT],
    /// changed byte ranges of accessible memory ([0, stack high-water) and [hp_min, MEM))
    pub mem_diff: Vec<MemDiff>,
    pub receipts: Vec<Receipt>,
    pub ctx_before: Ctx,
    pub ctx_after: Ctx,
    /// call frames innermost-last, read from VM memory through the $fp chain
    pub frames_before: Vec<FrameInfo>,
    pub frames_after: Vec<FrameInfo>,
    pub outcome: Outcome,
    pub storage: Vec<StorageEvent>,
    /// length of the VM's stack buffer (high-water mark of $sp; `MemoryInstance::verify` uses it)
    pub stack_len_before: u64,
    pub stack_len_after: u64,
}
impl Step {
    pub fn reg(&self, r: u8) -> u64 { self.regs_before[r as usize & 63] }
    pub fn reg_after(&self, r: u8) -> u64 { self.regs_after[r as usize & 63] }
    pub fn pc_after(&self) -> u64 { self.regs_after[RegId::PC.to_u8() as usize] }
    pub fn cgas(&self) -> (u64, u64) { (self.regs_before[10], self.regs_after[10]) }
    pub fn ggas(&self) -> (u64, u64) { (self.regs_before[9], self.regs_after[9]) }
    pub fn fp(&self) -> (u64, u64) { (self.regs_before[6], self.regs_after[6]) }
    pub fn depth(&self) -> (usize, usize) { (self.frames_before.len(), self.frames_after.len()) }
    /// 6-bit register fields a,b,c,d of the raw word (regardless of the opcode's shape)
    pub fn fields(&self) -> [u8; 4] {
        let w = self.raw;
        [((w >> 18) & 63) as u8, ((w >> 12) & 63) as u8, ((w >> 6) & 63) as u8, (w & 63) as u8]
    }
    /// values (before the step) of the registers named by the four raw fields
    pub fn field_values(&self) -> [u64; 4] {
        let f = self.fields();
        [self.reg(f[0]), self.reg(f[1]), self.reg(f[2]), self.reg(f[3])]
    }
    pub fn gas_charged(&self) -> u64 { self.regs_before[9].saturating_sub(self.regs_after[9]) }
}

#[derive(Clone, Debug)]
pub struct StorageDump {
    /// (contract, key) -> value
    pub state: BTreeMap<(ContractId, Bytes32), Vec<u8>>,
    /// (contract, asset) -> balance, for every pair probed (known contracts x known assets + touched)
    pub balances: BTreeMap<(ContractId, AssetId), u64>,
}

#[derive(Clone, Debug, PartialEq, Eq)]
pub enum FinalState {
    Return(u64),
    ReturnData(Bytes32),
    Revert(u64),
    /// transact/resume returned Err (not a VM panic): text
    Error(String),
    /// step budget exhausted (trace truncated)
    StepLimit,
}

#[derive(Clone, Debug)]
pub struct Trace {
    pub steps: Vec<Step>,
    pub final_state: FinalState,
    pub receipts: Vec<Receipt>,
    pub outputs: Vec<Output>,
    pub regs_initial: [u64; VM_REGISTER_COUNT],
    pub regs_final: [u64; VM_REGISTER_COUNT],
    pub gas_limit: u64,
    /// from the ScriptResult receipt
    pub gas_used: Option<u64>,
    pub script_result: Option<u64>,
    pub storage_before: StorageDump,
    pub storage_after: StorageDump,
    pub storage_log: Vec<StorageEvent>,
    pub tx_id: Bytes32,
    /// the storage object after the run (uncommitted `MemoryStorage`, exactly as the VM left it):
    /// `world.storage = trace.storage_final.clone()` chains the next transaction on it
    pub storage_final: MemoryStorage,
}

#[derive(Clone, Debug)]
pub struct PlainRun {
    pub final_state: FinalState,
    pub receipts: Vec<Receipt>,
    pub outputs: Vec<Output>,
    pub regs_final: [u64; VM_REGISTER_COUNT],
    pub storage_after: StorageDump,
    pub mem_stack: Vec<u8>,
}

fn regs_of<S>(vm: &Interpreter<MemoryInstance, S, Script>) -> [u64; VM_REGISTER_COUNT] {
    let mut r = [0u64; VM_REGISTER_COUNT];
    r.copy_from_slice(vm.registers());
    r
}

fn read_mem(mem: &MemoryInstance, addr: u64, len: usize) -> Option<Vec<u8>> {
    mem.read(addr, len).ok().map(|s| s.to_vec())
}

/// Call frames from VM memory: follow $fp -> saved $fp until 0 (outermost first).
pub fn frames_from_memory(mem: &MemoryInstance, fp: u64) -> Vec<FrameInfo> {
    let mut out = vec![];
    let mut fp = fp;
    let ro = CallFrame::registers_offset() as u64;
    let mut guard = 0;
    while fp != 0 && guard < 4096 {
        guard += 1;
        let Some(hdr) = read_mem(mem, fp, CallFrame::serialized_size()) else { break };
        let w = |off: usize| u64::from_be_bytes(hdr[off..off + 8].try_into().unwrap());
        let reg = |i: usize| w(ro as usize + 8 * i);
        let mut to = [0u8; 32];
        to.copy_from_slice(&hdr[0..32]);
        let mut asset = [0u8; 32];
        asset.copy_from_slice(&hdr[32..64]);
        let saved_fp = reg(6);
        out.push(FrameInfo {
            fp,
            to: to.into(),
            asset_id: asset.into(),
            saved_cgas: reg(10),
            saved_ggas: reg(9),
            saved_fp,
            saved_pc: reg(3),
            code_size_padded: w(CallFrame::code_size_offset()),
            a: w(CallFrame::a_offset()),
            b: w(CallFrame::b_offset()),
        });
        if saved_fp >= fp {
            break;
        }
        fp = saved_fp;
    }
    out.reverse();
    out
}

/// Shadow copy of accessible memory for diffing.
struct Shadow {
    stack: Vec<u8>,
    /// copy of [heap_lo, MEM_SIZE)
    heap: Vec<u8>,
}
impl Shadow {
    fn new() -> Self { Shadow { stack: vec![], heap: vec![] } }
    /// compare with the VM memory, return changed ranges, update the shadow
    fn diff(&mut self, mem: &MemoryInstance, hp: u64) -> Vec<MemDiff> {
        let mut out = vec![];
        let st = mem.stack_raw();
        // stack: compare common prefix chunk-wise; new bytes (growth) count as changes from 0 only
        // if non-zero (fresh memory reads as zero)
        diff_region(&mut out, 0, &self.stack, st);
        if self.stack.len() != st.len() || !out.is_empty() {
            // cheap enough: update only what changed
            if st.len() < self.stack.len() { self.stack.truncate(st.len()); }
            let old_len = self.stack.len();
            for d in &out {
                let a = d.addr as usize;
                let e = (a + d.new.len()).min(old_len);
                if a < e { self.stack[a..e].copy_from_slice(&d.new[..e - a]); }
            }
            if st.len() > old_len { self.stack.extend_from_slice(&st[old_len..]); }
        }
        // heap: accessible part is [hp, MEM_SIZE)
        let hp = (hp as usize).min(MEM_SIZE);
        let hraw = mem.heap_raw();
        let acc_len = MEM_SIZE - hp;
        let cur: &[u8] = if hraw.len() >= acc_len { &hraw[hraw.len() - acc_len..] } else { hraw };
        let base = (MEM_SIZE - cur.len()) as u64;
        let mut hd = vec![];
        // align the two tails: shadow covers [MEM-len_s, MEM), cur covers [MEM-len_c, MEM)
        let ls = self.heap.len();
        let lc = cur.len();
        if lc >= ls {
            // grown (or same): new low part compared against zeros
            let grown = lc - ls;
            diff_region_zero(&mut hd, base, &cur[..grown]);
            diff_region(&mut hd, base + grown as u64, &self.heap, &cur[grown..]);
        } else {
            diff_region(&mut hd, base, &self.heap[ls - lc..], cur);
        }
        if lc != ls || !hd.is_empty() {
            self.heap = cur.to_vec();
        }
        out.extend(hd);
        out
    }
}
fn diff_region_zero(out: &mut Vec<MemDiff>, base: u64, new: &[u8]) {
    const CH: usize = 4096;
    static Z: [u8; CH] = [0u8; CH];
    let mut i = 0;
    while i < new.len() {
        let e = (i + CH).min(new.len());
        if new[i..e] != Z[..e - i] {
            fine_diff(out, base + i as u64, &Z[..e - i], &new[i..e]);
        }
        i = e;
    }
}
fn diff_region(out: &mut Vec<MemDiff>, base: u64, old: &[u8], new: &[u8]) {
    const CH: usize = 4096;
    let n = old.len().min(new.len());
    let mut i = 0;
    while i < n {
        let e = (i + CH).min(n);
        if old[i..e] != new[i..e] {
            fine_diff(out, base + i as u64, &old[i..e], &new[i..e]);
        }
        i = e;
    }
    if new.len() > n {
        diff_region_zero(out, base + n as u64, &new[n..]);
    }
}
/// maximal runs of differing bytes (runs separated by < 8 equal bytes are merged)
fn fine_diff(out: &mut Vec<MemDiff>, base: u64, old: &[u8], new: &[u8]) {
    let n = old.len();
    let mut i = 0;
    while i < n {
        if old[i] == new[i] { i += 1; continue; }
        let start = i;
        let mut last = i;
        while i < n && i - last < 8 {
            if old[i] != new[i] { last = i; }
            i += 1;
        }
        let end = last + 1;
        // merge with previous diff if adjacent (chunk boundary)
        if let Some(p) = out.last_mut() {
            if p.addr + p.new.len() as u64 == base + start as u64 {
                p.old.extend_from_slice(&old[start..end]);
                p.new.extend_from_slice(&new[start..end]);
                i = end;
                continue;
            }
        }
        out.push(MemDiff { addr: base + start as u64, old: old[start..end].to_vec(), new: new[start..end].to_vec() });
        i = end;
    }
}

fn ctx_of(mem: &MemoryInstance, fp: u64) -> Ctx {
    if fp == 0 { Ctx::Script } else {
        match read_mem(mem, fp, 32) {
            Some(b) => { let mut a = [0u8; 32]; a.copy_from_slice(&b); Ctx::Contract(a.into()) }
            None => Ctx::Contract(ContractId::zeroed()),
        }
    }
}

pub fn dump_storage(st: &MemoryStorage, w: &World, extra: &[StorageEvent]) -> StorageDump {
    let mut state = BTreeMap::new();
    for (k, v) in st.all_contract_state() {
        state.insert((*k.contract_id(), *k.state_key()), v.as_ref().to_vec());
    }
    let mut pairs: BTreeSet<(ContractId, AssetId)> = BTreeSet::new();
    for c in &w.contracts {
        for a in &w.assets { pairs.insert((c.id, *a)); }
        for (a, _) in &c.balances { pairs.insert((c.id, *a)); }
    }
    for e in extra {
        if e.table == "ContractsAssets" && e.key.len() == 64 {
            let mut c = [0u8; 32]; c.copy_from_slice(&e.key[..32]);
            let mut a = [0u8; 32]; a.copy_from_slice(&e.key[32..]);
            pairs.insert((c.into(), a.into()));
        }
    }
    let mut balances = BTreeMap::new();
    for (c, a) in pairs {
        if let Ok(Some(b)) = st.contract_asset_id_balance(&c, &a) { balances.insert((c, a), b); }
    }
    StorageDump { state, balances }
}

fn decode_fields(raw: u32) -> (Option<Instruction>, u8, String, Vec<u8>, u32) {
    let opb = (raw >> 24) as u8;
    match Instruction::try_from(raw.to_be_bytes()) {
        Ok(i) => {
            let regs: Vec<u8> = i.reg_ids().iter().flatten().map(|r| r.to_u8()).collect();
            let bits = 24 - 6 * regs.len() as u32;
            let imm = if bits == 0 { 0 } else { raw & ((1u32 << bits) - 1) };
            (Some(i), opb, format!("{:?}", i.opcode()), regs, imm)
        }
        Err(_) => {
            let m = fuel_asm::Opcode::try_from(opb).map(|o| format!("{o:?}")).unwrap_or_else(|_| "?".into());
            (None, opb, m, vec![], raw & 0xff_ffff)
        }
    }
}

fn final_of(s: &ProgramState) -> FinalState {
    match s {
        ProgramState::Return(w) => FinalState::Return(*w),
        ProgramState::ReturnData(d) => FinalState::ReturnData(*d),
        ProgramState::Revert(w) => FinalState::Revert(*w),
        _ => FinalState::Error("debug state".into()),
    }
}

/// Options of a traced run.
#[derive(Clone, Debug)]
pub struct TraceOpts {
    pub max_steps: usize,
    /// record memory diffs (cost: a memcmp of accessible memory per step)
    pub mem_diff: bool,
    /// record storage events
    pub storage: bool,
    /// read frames from memory at every step (cheap)
    pub frames: bool,
}
impl Default for TraceOpts {
    fn default() -> Self { TraceOpts { max_steps: 20_000, mem_diff: true, storage: true, frames: true } }
}

/// Run `tx` on a fresh interpreter over (a clone of) the world's storage, one instruction at a
/// time (debugger single-stepping: `transact` stops before the first instruction, every
/// `resume` executes exactly one).  The world is not modified.
pub fn trace(w: &World, tx: &TxSpec, opts: &TraceOpts) -> Result<Trace, String> {
    let ready = tx.build(w)?;
    trace_ready(w, ready, tx.gas_limit, opts)
}

pub fn trace_ready(w: &World, ready: Ready<Script>, gas_limit: u64, opts: &TraceOpts) -> Result<Trace, String> {
    trace_ready_hooked(w, ready, gas_limit, opts, |_, _| (), |_, _, _| ()).map(|(t, _)| t)
}

/// What a `pre` hook sees: the instruction about to be executed.
#[derive(Clone, Debug)]
pub struct StepHeader {
    pub index: usize,
    pub pc: u64,
    pub raw: u32,
    pub regs_before: [u64; VM_REGISTER_COUNT],
}

/// `trace` with observation hooks: `pre(&vm, &header)` runs right before each instruction
/// (peek `vm.memory()` through pointer registers, `vm.as_ref()` = the recording storage, ...),
/// `post(&vm, &step, p)` right after it with the finished `Step` and `pre`'s value.  Returns
/// the trace and `(step index, post value)` for every executed instruction (synthetic
/// `FetchFault` steps have no entry).  The hooks get `&Vm`: they cannot disturb the run.
pub fn trace_hooked<P, Q>(w: &World, tx: &TxSpec, opts: &TraceOpts,
                          pre: impl FnMut(&Vm, &StepHeader) -> P, post: impl FnMut(&Vm, &Step, P) -> Q) -> Result<(Trace, Vec<(usize, Q)>), String> {
    let ready = tx.build(w)?;
    trace_ready_hooked(w, ready, tx.gas_limit, opts, pre, post)
}

pub fn trace_ready_hooked<P, Q>(w: &World, ready: Ready<Script>, gas_limit: u64, opts: &TraceOpts,
                                mut pre: impl FnMut(&Vm, &StepHeader) -> P, mut post: impl FnMut(&Vm, &Step, P) -> Q) -> Result<(Trace, Vec<(usize, Q)>), String> {
    let mut hooked: Vec<(usize, Q)> = vec![];
    let mut rec = RecStorage::new(w.storage.clone());
    rec.enabled = opts.storage;
    let storage_before = dump_storage(&w.storage, w, &[]);
    let mut vm: Vm = Interpreter::with_storage(MemoryInstance::new(), rec, w.interpreter_params());
    vm.set_single_stepping(true);
    let mut shadow = Shadow::new();
    let mut steps: Vec<Step> = vec![];
    let first = vm.transact(ready).map(|t| *t.state()).map_err(|e| format!("{e:?}"));
    let regs_initial = regs_of(&vm);
    if opts.mem_diff {
        let hp = vm.registers()[RegId::HP.to_u8() as usize];
        let _ = shadow.diff(vm.memory(), hp);
    }
    let mut state: Result<ProgramState, String> = first;
    let mut receipts_seen = vm.receipts().len();
    // receipts possibly produced before the first instruction belong to no step
    if !matches!(state, Ok(ProgramState::RunProgram(_))) { receipts_seen = 0; }
    let mut truncated = false;
    while let Ok(ProgramState::RunProgram(_)) = state {
        if steps.len() >= opts.max_steps { truncated = true; break; }
        let regs_before = regs_of(&vm);
        let pc = regs_before[3];
        let fp = regs_before[6];
        let raw = read_mem(vm.memory(), pc, 4).map(|b| u32::from_be_bytes(b.try_into().unwrap())).unwrap_or(0);
        let frames_before = if opts.frames { frames_from_memory(vm.memory(), fp) } else { vec![] };
        let ctx_before = ctx_of(vm.memory(), fp);
        let mark = vm.as_ref().mark();
        let stack_len_before = vm.memory().stack_raw().len() as u64;
        let pre_val = pre(&vm, &StepHeader { index: steps.len(), pc, raw, regs_before });
        let res = vm.resume().map_err(|e| format!("{e:?}"));
        let regs_after = regs_of(&vm);
        let new_receipts: Vec<Receipt> = vm.receipts()[receipts_seen.min(vm.receipts().len())..].to_vec();
        receipts_seen = vm.receipts().len();
        let storage = if opts.storage { vm.as_ref().since(mark) } else { vec![] };
        let mem_diff = if opts.mem_diff { shadow.diff(vm.memory(), regs_after[7]) } else { vec![] };
        let fp_after = regs_after[6];
        let stack_len_after = vm.memory().stack_raw().len() as u64;
        let frames_after = if opts.frames { frames_from_memory(vm.memory(), fp_after) } else { vec![] };
        let ctx_after = ctx_of(vm.memory(), fp_after);
        let (instr, opcode, mnemonic, reg_args, imm) = decode_fields(raw);
        // classify
        let panic = new_receipts.iter().find_map(|r| match r {
            Receipt::Panic { reason, pc, .. } => Some((*reason.reason(), *reason.instruction(), *pc)),
            _ => None,
        });
        let mut outcome = Outcome::Proceed;
        let mut fetch_fault: Option<(PanicReason, u32, u64)> = None;
        for r in &new_receipts {
            match r {
                Receipt::Return { val, .. } => outcome = Outcome::Return(*val),
                Receipt::ReturnData { .. } => outcome = Outcome::ReturnData,
                Receipt::Revert { ra, .. } => outcome = Outcome::Revert(*ra),
                _ => {}
            }
        }
        if let Some((reason, pinstr, ppc)) = panic {
            // the executed instruction panicked iff the panic receipt names it (same pc, same
            // word); otherwise the instruction completed and the *next fetch* faulted
            if ppc == pc && pinstr == raw {
                outcome = Outcome::Panic(reason);
            } else {
                fetch_fault = Some((reason, pinstr, ppc));
            }
        }
        if let Err(e) = &res { if panic.is_none() { outcome = Outcome::Error(e.clone()); } }
        let (own_receipts, fault_receipts): (Vec<Receipt>, Vec<Receipt>) = if fetch_fault.is_some() {
            let cut = new_receipts.iter().position(|r| matches!(r, Receipt::Panic { .. })).unwrap_or(new_receipts.len());
            (new_receipts[..cut].to_vec(), new_receipts[cut..].to_vec())
        } else { (new_receipts, vec![]) };
        let idx = steps.len();
        steps.push(Step {
            index: idx, kind: StepKind::Exec, pc, raw, instr, opcode, mnemonic, reg_args, imm,
            regs_before, regs_after, mem_diff, receipts: own_receipts,
            ctx_before, ctx_after: ctx_after.clone(), frames_before, frames_after: frames_after.clone(), outcome, storage,
            stack_len_before, stack_len_after,
        });
        hooked.push((idx, post(&vm, &steps[idx], pre_val)));
        if let Some((reason, pinstr, ppc)) = fetch_fault {
            let (instr, opcode, mnemonic, reg_args, imm) = decode_fields(pinstr);
            steps.push(Step {
                index: idx + 1, kind: StepKind::FetchFault, pc: ppc, raw: pinstr, instr, opcode, mnemonic, reg_args, imm,
                regs_before: regs_after, regs_after, mem_diff: vec![], receipts: fault_receipts,
                ctx_before: ctx_after.clone(), ctx_after, frames_before: frames_after.clone(), frames_after,
                outcome: Outcome::Panic(reason), storage: vec![], stack_len_before: stack_len_after, stack_len_after,
            });
        }
        state = res;
    }
    let final_state = if truncated { FinalState::StepLimit } else {
        match &state { Ok(s) => final_of(s), Err(e) => FinalState::Error(e.clone()) }
    };
    let receipts = vm.receipts().to_vec();
    let (mut gas_used, mut script_result) = (None, None);
    for r in &receipts {
        if let Receipt::ScriptResult { result, gas_used: g } = r { gas_used = Some(*g); script_result = Some(u64::from(*result)); }
    }
    let outputs = { use fuel_tx::field::Outputs; vm.transaction().outputs().to_vec() };
    let tx_id = read_mem(vm.memory(), 0, 32).map(|b| { let mut a = [0u8; 32]; a.copy_from_slice(&b); Bytes32::from(a) }).unwrap_or_default();
    let regs_final = regs_of(&vm);
    let storage_log = vm.as_ref().since(0);
    let storage_after = dump_storage(&vm.as_ref().inner, w, &storage_log);
    let storage_final = vm.as_ref().inner.clone();
    Ok((Trace { steps, final_state, receipts, outputs, regs_initial, regs_final, gas_limit, gas_used, script_result,
               storage_before, storage_after, storage_log, tx_id, storage_final }, hooked))
}

/// The same transaction through a plain `transact` (no debugger, plain `MemoryStorage`).
pub fn run_plain(w: &World, tx: &TxSpec) -> Result<PlainRun, String> {
    let ready = tx.build(w)?;
    let mut vm: Interpreter<MemoryInstance, MemoryStorage, Script> =
        Interpreter::with_storage(MemoryInstance::new(), w.storage.clone(), w.interpreter_params());
    let st = vm.transact(ready).map(|t| *t.state()).map_err(|e| format!("{e:?}"));
    let final_state = match &st { Ok(s) => final_of(s), Err(e) => FinalState::Error(e.clone()) };
    let outputs = { use fuel_tx::field::Outputs; vm.transaction().outputs().to_vec() };
    let storage_after = dump_storage(vm.as_ref(), w, &[]);
    Ok(PlainRun { final_state, receipts: vm.receipts().to_vec(), outputs, regs_final: regs_of(&vm), storage_after, mem_stack: vm.memory().stack_raw().to_vec() })
}

impl Trace {
    /// differences between the step-wise run and a plain run (empty = identical observables)
    pub fn compare_plain(&self, p: &PlainRun) -> Vec<String> {
        let mut d = vec![];
        if self.final_state != p.final_state { d.push(format!("final state {:?} vs {:?}", self.final_state, p.final_state)); }
        if self.receipts != p.receipts { d.push(format!("receipts differ ({} vs {})", self.receipts.len(), p.receipts.len())); }
        if self.outputs != p.outputs { d.push("outputs differ".into()); }
        if self.regs_final != p.regs_final { d.push("final registers differ".into()); }
        if self.storage_after.state != p.storage_after.state { d.push("contract state differs".into()); }
        for (k, v) in &p.storage_after.balances {
            if self.storage_after.balances.get(k) != Some(v) { d.push("contract balances differ".into()); break; }
        }
        d
    }
    pub fn panic_reason(&self) -> Option<PanicReason> {
        self.receipts.iter().find_map(|r| if let Receipt::Panic { reason, .. } = r { Some(*reason.reason()) } else { None })
    }
    pub fn final_ggas(&self) -> u64 { self.regs_final[9] }
}

// =====================================================================================
// 4. label assembler
// =====================================================================================
/// One assembler item.  Every item has a fixed size so labels resolve in two passes.
/// Absolute jumps count words from `$is` (= start of the code unit being assembled).
#[derive(Clone, Debug)]
pub enum Asm {
    I(Instruction),
    Raw(u32),
    Label(u32),
    /// `ji idx(label)`
    Ji(u32),
    /// `jnei a b idx(label)`
    Jnei(u8, u8, u32),
    /// `jnzi a idx(label)`
    Jnzi(u8, u32),
    /// `movi tmp idx(label); jmp tmp`
    Jmp(u8, u32),
    /// `movi tmp idx(label); jne a b tmp`
    Jne(u8, u8, u8, u32),
    /// `jmpf $zero k` / `jnzf a $zero k` / `jnef a b $zero k` (forward to label)
    Jmpf(u32),
    Jnzf(u8, u32),
    Jnef(u8, u8, u32),
    /// backward to label
    Jmpb(u32),
    Jnzb(u8, u32),
    Jneb(u8, u8, u32),
    /// `movi tmp k; jmpf tmp 0` / `movi tmp k; jmpb tmp 0` (distance in the dynamic register)
    JmpfDyn(u8, u32),
    JmpbDyn(u8, u32),
    /// `movi tmp k; jnzf a tmp 0`
    JnzfDyn(u8, u8, u32),
    /// `jal link $is idx(label)`
    Jal(u8, u32),
    /// `movi dst 4*idx(label); add dst dst $is` : absolute address of the label
    AddrOf(u8, u32),
}
impl Asm {
    pub fn words(&self) -> usize {
        match self {
            Asm::Label(_) => 0,
            Asm::Jmp(..) | Asm::Jne(..) | Asm::JmpfDyn(..) | Asm::JmpbDyn(..) | Asm::JnzfDyn(..) | Asm::AddrOf(..) => 2,
            _ => 1,
        }
    }
}
pub fn asm_words(items: &[Asm]) -> usize {
    items.iter().map(|a| a.words()).sum()
}
fn w(i: Instruction) -> u32 {
    u32::from_be_bytes(i.into())
}
/// Resolve labels and encode.  Errors: unknown label, distance not representable, backward
/// jump to a later label / forward jump to an earlier one.
pub fn assemble(items: &[Asm]) -> Result<Vec<u32>, String> {
    let mut pos = BTreeMap::new();
    let mut at = 0usize;
    for it in items {
        if let Asm::Label(l) = it {
            pos.insert(*l, at);
        }
        at += it.words();
    }
    let find = |l: &u32| pos.get(l).copied().ok_or_else(|| format!("unknown label {l}"));
    let fit = |v: usize, bits: u32, what: &str| if (v as u64) < (1u64 << bits) { Ok(v as u32) } else { Err(format!("{what}: {v} does not fit {bits} bits")) };
    let mut out = Vec::with_capacity(at);
    for it in items {
        let i = out.len();
        match it {
            Asm::Label(_) => {}
            Asm::I(x) => out.push(w(*x)),
            Asm::Raw(x) => out.push(*x),
            Asm::Ji(l) => out.push(w(op::ji(fit(find(l)?, 24, "ji")?))),
            Asm::Jnei(a, b, l) => out.push(w(op::jnei(*a, *b, fit(find(l)?, 12, "jnei")? as u16))),
            Asm::Jnzi(a, l) => out.push(w(op::jnzi(*a, fit(find(l)?, 18, "jnzi")?))),
            Asm::Jmp(t, l) => {
                out.push(w(op::movi(*t, fit(find(l)?, 18, "jmp")?)));
                out.push(w(op::jmp(*t)));
            }
            Asm::Jne(a, b, t, l) => {
                out.push(w(op::movi(*t, fit(find(l)?, 18, "jne")?)));
                out.push(w(op::jne(*a, *b, *t)));
            }
            Asm::Jmpf(l) | Asm::Jnzf(_, l) | Asm::Jnef(_, _, l) => {
                let t = find(l)?;
                if t <= i { return Err(format!("forward jump to earlier label {l}")); }
                let k = t - i - 1;
                out.push(match it {
                    Asm::Jmpf(_) => w(op::jmpf(0u8, fit(k, 18, "jmpf")?)),
                    Asm::Jnzf(a, _) => w(op::jnzf(*a, 0u8, fit(k, 12, "jnzf")? as u16)),
                    Asm::Jnef(a, b, _) => w(op::jnef(*a, *b, 0u8, fit(k, 6, "jnef")? as u8)),
                    _ => unreachable!(),
                });
            }
            Asm::Jmpb(l) | Asm::Jnzb(_, l) | Asm::Jneb(_, _, l) => {
                let t = find(l)?;
                if t >= i { return Err(format!("backward jump to later label {l}")); }
                let k = i - t - 1;
                out.push(match it {
                    Asm::Jmpb(_) => w(op::jmpb(0u8, fit(k, 18, "jmpb")?)),
                    Asm::Jnzb(a, _) => w(op::jnzb(*a, 0u8, fit(k, 12, "jnzb")? as u16)),
                    Asm::Jneb(a, b, _) => w(op::jneb(*a, *b, 0u8, fit(k, 6, "jneb")? as u8)),
                    _ => unreachable!(),
                });
            }
            Asm::JmpfDyn(t, l) | Asm::JnzfDyn(_, t, l) => {
                let tg = find(l)?;
                if tg <= i + 1 { return Err(format!("forward jump to earlier label {l}")); }
                out.push(w(op::movi(*t, fit(tg - (i + 1) - 1, 18, "jmpf dyn")?)));
                out.push(match it {
                    Asm::JmpfDyn(..) => w(op::jmpf(*t, 0)),
                    Asm::JnzfDyn(a, ..) => w(op::jnzf(*a, *t, 0)),
                    _ => unreachable!(),
                });
            }
            Asm::JmpbDyn(t, l) => {
                let tg = find(l)?;
                if tg >= i + 1 { return Err(format!("backward jump to later label {l}")); }
                out.push(w(op::movi(*t, fit((i + 1) - tg - 1, 18, "jmpb dyn")?)));
                out.push(w(op::jmpb(*t, 0)));
            }
            Asm::Jal(link, l) => out.push(w(op::jal(*link, RegId::IS, fit(find(l)?, 12, "jal")? as u16))),
            Asm::AddrOf(d, l) => {
                out.push(w(op::movi(*d, fit(find(l)? * 4, 18, "addrof")?)));
                out.push(w(op::add(*d, *d, RegId::IS)));
            }
        }
    }
    Ok(out)
}

// =====================================================================================
// 5. script-data layout and program generator
// =====================================================================================
/// Script data shared by all code units of a scenario (addressed as `R_DATA + offset`).
#[derive(Clone, Debug)]
pub struct DataLayout {
    pub bytes: Vec<u8>,
    /// per contract: offset of its `Call` struct (to ‖ a ‖ b); the first 32 bytes are the id
    pub call_off: Vec<usize>,
    pub asset_off: Vec<usize>,
    /// a 32-byte address (TRO / SMO recipient)
    pub addr_off: usize,
    /// `n_keys` consecutive 32-byte storage keys (key[i+1] = key[i] + 1 for range ops)
    pub key_off: usize,
    pub n_keys: usize,
    /// random bytes (signatures, messages, wide integers)
    pub blob_off: usize,
    pub blob_len: usize,
    /// an id that is not deployed
    pub missing_id_off: usize,
}
impl DataLayout {
    pub fn new(rng: &mut Rng, contracts: &[ContractId], assets: &[AssetId], call_a: u64) -> DataLayout {
        let mut bytes = vec![];
        let mut call_off = vec![];
        for c in contracts {
            call_off.push(bytes.len());
            bytes.extend(Call::new(*c, call_a, 0).to_bytes());
        }
        let mut asset_off = vec![];
        for a in assets {
            asset_off.push(bytes.len());
            bytes.extend_from_slice(a.as_ref());
        }
        let addr_off = bytes.len();
        bytes.extend(rng.bytes32());
        let key_off = bytes.len();
        let n_keys = 6;
        let mut k = rng.bytes32();
        k[31] = 0x10;
        for i in 0..n_keys {
            let mut ki = k;
            ki[31] = k[31] + i as u8;
            bytes.extend(ki);
        }
        let missing_id_off = bytes.len();
        bytes.extend([0xEE; 32]);
        let blob_off = bytes.len();
        let blob_len = 256;
        bytes.extend(rng.bytes(blob_len));
        DataLayout { bytes, call_off, asset_off, addr_off, key_off, n_keys, blob_off, blob_len, missing_id_off }
    }
}

/// number of `Variable` outputs of a generated transaction (each TRO needs a fresh one)
pub const N_VAR_OUT: usize = 4;
pub const F_ALU: u32 = 1 << 0;
pub const F_MEM: u32 = 1 << 1;
pub const F_FLOW: u32 = 1 << 2;
pub const F_CALL: u32 = 1 << 3;
pub const F_LOG: u32 = 1 << 4;
pub const F_STORAGE: u32 = 1 << 5;
pub const F_ASSET: u32 = 1 << 6;
pub const F_INFO: u32 = 1 << 7;
pub const F_GTF: u32 = 1 << 8;
pub const F_CRYPTO: u32 = 1 << 9;
pub const F_WIDE: u32 = 1 << 10;
pub const F_GARBAGE: u32 = 1 << 11;
pub const F_ALL: u32 = 0xFFF;

#[derive(Clone, Debug)]
pub struct GenCfg {
    pub n_contracts: usize,
    /// grammar items per code unit (each item is 1..~20 instructions)
    pub unit_items: usize,
    pub features: u32,
    /// probability (per mille) that an item is emitted in an intentionally faulty variant
    pub fault_per_mille: u64,
    pub schedule: GasSchedule,
    pub gas_limit: u64,
    /// value of Call.a for every call = remaining recursion depth for self-recursive contracts
    pub recursion_depth: u64,
}
impl Default for GenCfg {
    fn default() -> Self {
        GenCfg { n_contracts: 3, unit_items: 14, features: F_ALL & !F_GARBAGE, fault_per_mille: 3, schedule: GasSchedule::Default, gas_limit: 2_000_000, recursion_depth: 2 }
    }
}

/// A generated world + transaction, ready for `trace`.
#[derive(Clone, Debug)]
pub struct Scenario {
    pub world: World,
    pub tx: TxSpec,
    pub layout: DataLayout,
    /// assembled code units (script first, then contracts) for printing
    pub units: Vec<Vec<u32>>,
    pub seed_note: String,
}
impl Scenario {
    pub fn to_json(&self) -> Value {
        json!({
            "schedule": self.world.schedule.name(), "gas_limit": self.tx.gas_limit, "block_height": self.world.block_height,
            "script": hex::encode(&self.tx.script), "script_data": hex::encode(&self.tx.script_data),
            "contracts": self.world.contracts.iter().map(|c| json!({"id": hex::encode(c.id), "code": hex::encode(&c.code),
                "balances": c.balances.iter().map(|(a, v)| json!([hex::encode(a), v])).collect::<Vec<_>>(),
                "slots": c.slots.iter().map(|(k, v)| json!([hex::encode(k), hex::encode(v)])).collect::<Vec<_>>()})).collect::<Vec<_>>(),
            "blobs": self.world.blobs.iter().map(|(i, b)| json!([hex::encode(i), hex::encode(b)])).collect::<Vec<_>>(),
            "assets": self.world.assets.iter().map(hex::encode).collect::<Vec<_>>(),
            "coins": self.tx.coins.iter().map(|(a, v)| json!([hex::encode(a), v])).collect::<Vec<_>>(),
            "messages": self.tx.messages.iter().map(|(v, d)| json!([v, hex::encode(d)])).collect::<Vec<_>>(),
            "contract_inputs": self.tx.contract_inputs.iter().map(hex::encode).collect::<Vec<_>>(),
            "outputs": self.tx.outputs.iter().map(|o| format!("{o:?}")).collect::<Vec<_>>(),
            "key_seed": self.tx.key_seed, "note": self.seed_note,
        })
    }
    /// Rebuild a scenario from `to_json` output (for --replay).
    pub fn from_json(v: &Value) -> Result<Scenario, String> {
        let hx = |x: &Value| hex::decode(x.as_str().unwrap_or("")).map_err(|e| e.to_string());
        let b32 = |x: &Value| -> Result<[u8; 32], String> { hx(x)?.try_into().map_err(|_| "not 32 bytes".to_string()) };
        let sched = match v["schedule"].as_str().unwrap_or("default") {
            "default" => GasSchedule::Default,
            "unit" => GasSchedule::Unit,
            "free" => GasSchedule::Free,
            s => GasSchedule::Random(s.trim_start_matches("random:").parse().unwrap_or(0)),
        };
        let mut assets = vec![];
        for a in v["assets"].as_array().cloned().unwrap_or_default() { assets.push(AssetId::from(b32(&a)?)); }
        let mut world = World::new(sched, v["block_height"].as_u64().unwrap_or(0) as u32, assets);
        for c in v["contracts"].as_array().cloned().unwrap_or_default() {
            let mut balances = vec![];
            for b in c["balances"].as_array().cloned().unwrap_or_default() { balances.push((AssetId::from(b32(&b[0])?), b[1].as_u64().unwrap_or(0))); }
            let mut slots = vec![];
            for s in c["slots"].as_array().cloned().unwrap_or_default() { slots.push((b32(&s[0])?, hx(&s[1])?)); }
            world.deploy(ContractDef { id: ContractId::from(b32(&c["id"])?), code: hx(&c["code"])?, balances, slots });
        }
        for b in v["blobs"].as_array().cloned().unwrap_or_default() { world.deploy_blob(b32(&b[0])?, hx(&b[1])?); }
        let mut tx = TxSpec::new(hx(&v["script"])?, hx(&v["script_data"])?, v["gas_limit"].as_u64().unwrap_or(0));
        for c in v["coins"].as_array().cloned().unwrap_or_default() { tx.coins.push((AssetId::from(b32(&c[0])?), c[1].as_u64().unwrap_or(0))); }
        for m in v["messages"].as_array().cloned().unwrap_or_default() { tx.messages.push((m[0].as_u64().unwrap_or(0), hx(&m[1])?)); }
        for c in v["contract_inputs"].as_array().cloned().unwrap_or_default() { tx.contract_inputs.push(ContractId::from(b32(&c)?)); }
        for o in v["outputs"].as_array().cloned().unwrap_or_default() {
            let s = o.as_str().unwrap_or("");
            if s == "Variable" { tx.outputs.push(OutSpec::Variable); }
            else if let Some(r) = s.strip_prefix("Change(") { tx.outputs.push(OutSpec::Change(AssetId::from(b32(&json!(r.trim_end_matches(')')))?))); }
            else if let Some(r) = s.strip_prefix("Coin(") {
                let r = r.trim_end_matches(')');
                let (a, n) = r.split_once(", ").ok_or("bad coin output")?;
                tx.outputs.push(OutSpec::Coin(AssetId::from(b32(&json!(a))?), n.parse().map_err(|_| "bad amount")?));
            }
        }
        tx.key_seed = v["key_seed"].as_u64().unwrap_or(1);
        let ids: Vec<ContractId> = world.contracts.iter().map(|c| c.id).collect();
        let layout = DataLayout::new(&mut Rng::new(0), &ids, &world.assets.clone(), 0);
        Ok(Scenario { world, tx, layout, units: vec![], seed_note: v["note"].as_str().unwrap_or("").to_string() })
    }
}

#[derive(Clone, Debug)]
struct UnitCtx {
    /// None = script, Some(i) = contract i
    contract: Option<usize>,
    /// contracts this unit may call
    callees: Vec<usize>,
    self_recursive: bool,
}

/// The program generator.  One instance per scenario; `rng` is the only source of randomness.
pub struct ProgGen<'a> {
    pub rng: &'a mut Rng,
    pub cfg: GenCfg,
    pub layout: DataLayout,
    pub n_assets: usize,
    next_label: u32,
    variable_out: Option<usize>,
    var_used: usize,
    cur_lvl: usize,
    /// asset indices the script holds coins of / contracts hold balances of
    script_assets: Vec<usize>,
}

const ALU3: [fn(u8, u8, u8) -> Instruction; 17] = [
    |a, b, c| op::add(a, b, c), |a, b, c| op::and(a, b, c), |a, b, c| op::div(a, b, c), |a, b, c| op::eq(a, b, c),
    |a, b, c| op::exp(a, b, c), |a, b, c| op::gt(a, b, c), |a, b, c| op::lt(a, b, c), |a, b, c| op::mlog(a, b, c),
    |a, b, c| op::mroo(a, b, c), |a, b, c| op::mod_(a, b, c), |a, b, c| op::mul(a, b, c), |a, b, c| op::or(a, b, c),
    |a, b, c| op::sll(a, b, c), |a, b, c| op::srl(a, b, c), |a, b, c| op::sub(a, b, c), |a, b, c| op::xor(a, b, c),
    |a, b, c| op::add(a, b, c),
];
const ALUI: [fn(u8, u8, u16) -> Instruction; 11] = [
    |a, b, i| op::addi(a, b, i), |a, b, i| op::andi(a, b, i), |a, b, i| op::divi(a, b, i), |a, b, i| op::expi(a, b, i),
    |a, b, i| op::modi(a, b, i), |a, b, i| op::muli(a, b, i), |a, b, i| op::ori(a, b, i), |a, b, i| op::slli(a, b, i),
    |a, b, i| op::srli(a, b, i), |a, b, i| op::subi(a, b, i), |a, b, i| op::xori(a, b, i),
];

impl<'a> ProgGen<'a> {
    fn label(&mut self) -> u32 { self.next_label += 1; self.next_label }
    /// random general register (destination-safe)
    pub fn g(&mut self) -> u8 { self.rng.range(R_GEN_LO as u64, R_GEN_HI as u64) as u8 }
    /// random source register: general, sometimes a system register or a temp
    pub fn src(&mut self) -> u8 {
        match self.rng.below(10) {
            0 => *self.rng.pick(&[0u8, 1, 2, 3, 4, 5, 6, 7, 8, 9, 10, 11, 12, 13, 14, 15]),
            _ => self.g(),
        }
    }
    fn fault(&mut self) -> bool { self.rng.chance(self.cfg.fault_per_mille, 1000) }
    fn has(&self, f: u32) -> bool { self.cfg.features & f != 0 }
    fn small(&mut self) -> u32 {
        match self.rng.below(6) { 0 => 0, 1 => 1, 2 => self.rng.below(64) as u32, 3 => self.rng.below(4096) as u32, _ => self.rng.below(262144) as u32 }
    }
    /// `t = $ssp + off` (local, writable), off + len <= LOCAL
    fn loc(&mut self, out: &mut Vec<Asm>, t: u8, len: u32) -> u32 {
        let off = (self.rng.below((LOCAL - len) as u64 / 8) * 8) as u32;
        out.push(Asm::I(op::addi(t, RegId::SSP, off as u16)));
        off
    }
    /// `t = $hp + off` (heap, writable once allocated), off + len <= HEAPSZ
    fn heap(&mut self, out: &mut Vec<Asm>, t: u8, len: u32) {
        let off = self.rng.below((HEAPSZ - len) as u64 + 1) as u32;
        out.push(Asm::I(op::addi(t, RegId::HP, off as u16)));
    }
    /// `t = R_DATA + off`
    fn data(&mut self, out: &mut Vec<Asm>, t: u8, off: usize) {
        if off < 4096 { out.push(Asm::I(op::addi(t, R_DATA, off as u16))); }
        else { out.push(Asm::I(op::movi(t, off as u32))); out.push(Asm::I(op::add(t, t, R_DATA))); }
    }
    /// writable pointer of `len` bytes in t (local mostly, heap sometimes; faulty rarely)
    fn wptr(&mut self, out: &mut Vec<Asm>, t: u8, len: u32) {
        if self.fault() {
            match self.rng.below(4) {
                0 => out.push(Asm::I(op::move_(t, R_DATA))),             // tx memory: not owned
                1 => out.push(Asm::I(op::subi(t, RegId::HP, 8))),        // below heap: unallocated
                2 => out.push(Asm::I(op::not(t, RegId::ZERO))),          // 2^64-1
                _ => out.push(Asm::I(op::move_(t, RegId::ZERO))),        // address 0 (tx id)
            }
        } else if self.rng.chance(1, 4) { self.heap(out, t, len) } else { self.loc(out, t, len); }
    }
    /// readable pointer of `len` bytes in t
    fn rptr(&mut self, out: &mut Vec<Asm>, t: u8, len: u32) {
        match self.rng.below(4) {
            0 => { let o = self.layout.blob_off + self.rng.below((self.layout.blob_len as u32 - len.min(255)) as u64) as usize; self.data(out, t, o) }
            1 => self.heap(out, t, len.min(HEAPSZ)),
            _ => { self.loc(out, t, len); }
        }
    }

    // ---------------------------------------------------------------- items
    fn item_alu(&mut self, out: &mut Vec<Asm>) {
        let d = if self.fault() { *self.rng.pick(&[1u8, 3, 4, 5, 9, 10, 15]) } else { self.g() };
        let (a, b) = (self.src(), self.src());
        let i = match self.rng.below(12) {
            0 => { let v = self.small(); op::movi(d, v) }
            1 => op::move_(d, a),
            2 => op::not(d, a),
            3 => { let c = self.src(); op::mldv(d, a, b, c) }
            4 | 5 | 6 => { let f = *self.rng.pick(&ALUI); let m = if self.rng.bool() { 64 } else { 4096 }; let v = self.rng.below(m) as u16; f(d, a, v) }
            7 => { let v = self.rng.u64_biased(); // load a 64-bit boundary value: movi + shifts
                   out.push(Asm::I(op::movi(d, (v >> 46) as u32)));
                   out.push(Asm::I(op::slli(d, d, 18)));
                   out.push(Asm::I(op::ori(d, d, ((v >> 34) & 0xfff) as u16)));
                   op::slli(d, d, (self.rng.below(35)) as u16) }
            _ => { let f = *self.rng.pick(&ALU3); f(d, a, b) }
        };
        out.push(Asm::I(i));
    }
    fn item_mem(&mut self, out: &mut Vec<Asm>) {
        let [t0, t1, t2, ..] = R_TMP;
        match self.rng.below(14) {
            0 => { self.wptr(out, t0, 8); let s = self.src(); out.push(Asm::I(op::sw(t0, s, 0))) }
            1 => { self.wptr(out, t0, 16); let s = self.src(); out.push(Asm::I(op::sb(t0, s, self.rng.below(8) as u16))) }
            2 => { self.rptr(out, t0, 8); let d = self.g(); out.push(Asm::I(op::lw(d, t0, 0))) }
            3 => { self.rptr(out, t0, 16); let d = self.g(); out.push(Asm::I(op::lb(d, t0, self.rng.below(8) as u16))) }
            4 => { let n = self.rng.range(0, 96) as u32; self.wptr(out, t0, n.max(1)); out.push(Asm::I(op::mcli(t0, n))) }
            5 => { let n = self.rng.range(0, 96) as u32; self.wptr(out, t0, n.max(1)); out.push(Asm::I(op::movi(t1, n))); out.push(Asm::I(op::mcl(t0, t1))) }
            6 => { let n = self.rng.range(0, 64) as u32; let o = self.loc(out, t0, 64); let _ = o; self.heap(out, t1, 64); out.push(Asm::I(op::mcpi(t0, t1, n as u16))) }
            7 => { let n = self.rng.range(0, 64) as u32; self.heap(out, t0, 64);
                   let o = self.layout.blob_off + self.rng.below(128) as usize; self.data(out, t1, o);
                   out.push(Asm::I(op::movi(t2, n))); out.push(Asm::I(op::mcp(t0, t1, t2))) }
            8 => { let n = self.rng.range(0, 64) as u32; self.rptr(out, t0, 64); self.rptr(out, t1, 64); out.push(Asm::I(op::movi(t2, n)));
                   let d = self.g(); out.push(Asm::I(op::meq(d, t0, t1, t2))) }
            9 => { // push / pop pair around an ALU item
                   let m = (self.rng.next() as u32) & 0x00ff_ffff & if self.rng.bool() { 0xffff } else { 0xff_ffff };
                   let hi = self.rng.bool();
                   out.push(Asm::I(if hi { op::pshh(m & 0x0007ff) } else { op::pshl(m) }));
                   self.item_alu(out);
                   out.push(Asm::I(if hi { op::poph(m & 0x0007ff) } else { op::popl(m) })) }
            10 => { let n = (self.rng.below(32) * 8) as u32; out.push(Asm::I(op::cfei(n))); self.item_alu(out); out.push(Asm::I(op::cfsi(n))) }
            11 => { let n = (self.rng.below(32) * 8) as u32; out.push(Asm::I(op::movi(t0, n))); out.push(Asm::I(op::cfe(t0))); out.push(Asm::I(op::cfs(t0))) }
            12 => { let n = if self.fault() { 1 << 17 } else { self.rng.below(64) as u32 }; out.push(Asm::I(op::movi(t0, n))); out.push(Asm::I(op::aloc(t0))) }
            _ => { self.rptr(out, t0, 8); let d = self.g();
                   out.push(Asm::I(match self.rng.below(4) { 0 => op::lqw(d, t0, 1), 1 => op::lhw(d, t0, 1), 2 => op::lw(d, t0, 0), _ => op::lb(d, t0, 3) })) }
        }
    }
    fn item_wide(&mut self, out: &mut Vec<Asm>) {
        let [t0, t1, t2, t3, ..] = R_TMP;
        self.wptr(out, t0, 32); self.rptr(out, t1, 32); self.rptr(out, t2, 32); self.rptr(out, t3, 32);
        let fl = *self.rng.pick(&[0u8, 1, 2, 3, 4, 5, 6, 32, 33, 16, 48]);
        let i = match self.rng.below(14) {
            0 => { let d = self.g(); op::wdcm(d, t1, t2, fl & 0x27) }
            1 => { let d = self.g(); op::wqcm(d, t1, t2, fl & 0x27) }
            2 => op::wdop(t0, t1, t2, fl & 0x27), 3 => op::wqop(t0, t1, t2, fl & 0x27),
            4 => op::wdml(t0, t1, t2, fl & 0x30), 5 => op::wqml(t0, t1, t2, fl & 0x30),
            6 => op::wddv(t0, t1, t2, fl & 0x20), 7 => op::wqdv(t0, t1, t2, fl & 0x20),
            8 => op::wdmd(t0, t1, t2, t3), 9 => op::wqmd(t0, t1, t2, t3), 10 => op::wdam(t0, t1, t2, t3),
            11 => op::wqam(t0, t1, t2, t3), 12 => op::wdmm(t0, t1, t2, t3), _ => op::wqmm(t0, t1, t2, t3),
        };
        out.push(Asm::I(i));
    }
    fn junk(&mut self, out: &mut Vec<Asm>, n: usize) {
        for _ in 0..n { self.item_alu(out); }
    }
    fn item_flow(&mut self, out: &mut Vec<Asm>, lvl: usize, ctx: &UnitCtx, subs: &[u32]) {
        let [t0, ..] = R_TMP;
        let choice = self.rng.below(if lvl < 2 { 16 } else { 10 });
        match choice {
            0..=8 => {
                // forward skip over k junk instructions, every forward/absolute opcode
                let l = self.label();
                let (a, b) = (self.src(), self.src());
                let mut body = vec![];
                let k = self.rng.range(0, 4) as usize;
                self.junk(&mut body, k);
                let short = asm_words(&body) < 60;
                let j = match choice {
                    0 => Asm::Jmpf(l), 1 => Asm::Jnzf(a, l), 2 if short => Asm::Jnef(a, b, l), 2 => Asm::Jnzf(a, l),
                    3 => Asm::Ji(l), 4 => Asm::Jnei(a, b, l), 5 => Asm::Jnzi(a, l), 6 => Asm::Jmp(t0, l),
                    7 => Asm::Jne(a, b, t0, l), _ => if self.rng.bool() { Asm::JmpfDyn(t0, l) } else { Asm::JnzfDyn(a, t0, l) },
                };
                out.push(j); out.extend(body); out.push(Asm::Label(l));
            }
            9 if !subs.is_empty() => {
                let s = *self.rng.pick(subs);
                if self.rng.bool() { out.push(Asm::Jal(R_LINK, s)) } else { out.push(Asm::AddrOf(t0, s)); out.push(Asm::I(op::jal(R_LINK, t0, 0))) }
            }
            9 => self.junk(out, 1),
            _ => {
                // bounded loop, counter in R_CNT[lvl]
                let cnt = R_CNT[lvl];
                let n = self.rng.range(1, 4) as u32;
                out.push(Asm::I(op::movi(cnt, n)));
                let (top, exit) = (self.label(), self.label());
                let mut body = vec![];
                let items = self.rng.range(1, 3) as usize;
                for _ in 0..items { self.item(&mut body, lvl + 1, ctx, subs, false); }
                let bw = asm_words(&body);
                if self.rng.chance(2, 3) {
                    // do { body; cnt-- } while (cnt != 0)
                    out.push(Asm::Label(top)); out.extend(body); out.push(Asm::I(op::subi(cnt, cnt, 1)));
                    out.push(match self.rng.below(6) {
                        0 => Asm::Jnzb(cnt, top), 1 if bw < 58 => Asm::Jneb(cnt, 0, top), 2 => Asm::Jnzi(cnt, top),
                        3 => Asm::Jnei(cnt, 0, top), 4 => Asm::Jne(cnt, 0, t0, top), _ => Asm::Jnzb(cnt, top),
                    });
                } else {
                    // while (cnt != 0) { body; cnt-- }
                    out.push(Asm::Label(top));
                    out.push(Asm::I(op::jnzf(cnt, 0u8, 1)));
                    out.push(Asm::Jmpf(exit));
                    out.extend(body); out.push(Asm::I(op::subi(cnt, cnt, 1)));
                    out.push(match self.rng.below(4) { 0 => Asm::Jmpb(top), 1 => Asm::JmpbDyn(t0, top), 2 => Asm::Ji(top), _ => Asm::Jmp(t0, top) });
                    out.push(Asm::Label(exit));
                }
            }
        }
    }
    fn item_call(&mut self, out: &mut Vec<Asm>, ctx: &UnitCtx) {
        let [t0, t1, t2, t3, ..] = R_TMP;
        if ctx.callees.is_empty() { return self.junk(out, 1); }
        let j = if self.fault() { usize::MAX } else { *self.rng.pick(&ctx.callees) };
        let off = if j == usize::MAX { self.layout.missing_id_off } else { self.layout.call_off[j] };
        self.data(out, t0, off);
        // coins
        let ai = self.rng.below(self.n_assets as u64) as usize;
        let coins = match self.rng.below(6) { 0 | 1 | 2 => 0, 3 => 1, 4 => self.rng.below(50) as u32, _ => if self.fault() { 200_000 } else { self.rng.below(60) as u32 } };
        out.push(Asm::I(op::movi(t1, coins)));
        let ao = self.layout.asset_off[ai];
        self.data(out, t2, ao);
        // gas
        match self.rng.below(6) {
            0 | 1 => out.push(Asm::I(op::move_(t3, RegId::CGAS))),
            2 => out.push(Asm::I(op::srli(t3, RegId::CGAS, 1))),
            3 => out.push(Asm::I(op::not(t3, RegId::ZERO))),
            4 => { let v = self.rng.below(3000) as u32; out.push(Asm::I(op::movi(t3, v))) }
            _ => { let v = self.rng.below(200_000) as u32; out.push(Asm::I(op::movi(t3, v))) }
        }
        out.push(Asm::I(op::call(t0, t1, t2, t3)));
    }
    fn item_log(&mut self, out: &mut Vec<Asm>) {
        let [t0, t1, ..] = R_TMP;
        if self.rng.bool() {
            let (a, b, c, d) = (self.src(), self.src(), self.src(), self.src());
            out.push(Asm::I(op::log(a, b, c, d)));
        } else {
            let n = self.rng.range(0, 80) as u32;
            self.rptr(out, t0, 96);
            out.push(Asm::I(op::movi(t1, n)));
            let (a, b) = (self.src(), self.src());
            out.push(Asm::I(op::logd(a, b, t0, t1)));
        }
    }
    fn item_storage(&mut self, out: &mut Vec<Asm>) {
        let [t0, t1, t2, t3, ..] = R_TMP;
        let k = self.rng.below(self.layout.n_keys as u64 - 2) as usize;
        let ko = self.layout.key_off + 32 * k;
        self.data(out, t0, ko);
        let (d, s) = (self.g(), self.g());
        let s = if s == d { R_GEN_LO + ((d - R_GEN_LO + 1) % 8) } else { s };
        match self.rng.below(13) {
            0 => { let v = self.src(); out.push(Asm::I(op::sww(t0, s, v))) }
            1 => { let o = if self.fault() { 9 } else { 0 }; out.push(Asm::I(op::srw(d, s, t0, o))) }
            2 => { let n = self.rng.range(1, 2) as u32; self.rptr(out, t1, 64); out.push(Asm::I(op::movi(t2, n))); out.push(Asm::I(op::swwq(t0, s, t1, t2))) }
            3 => { let n = self.rng.range(1, 2) as u32; self.wptr(out, t1, 64); out.push(Asm::I(op::movi(t2, n))); out.push(Asm::I(op::srwq(t1, s, t0, t2))) }
            4 => { let n = self.rng.range(0, 2) as u32; out.push(Asm::I(op::movi(t2, n))); out.push(Asm::I(op::scwq(t0, s, t2))) }
            5 => { let n = *self.rng.pick(&[32u32, 32, 32, 40, 64, 100, 0]); self.rptr(out, t1, 100); out.push(Asm::I(op::movi(t2, n))); out.push(Asm::I(op::swrd(t0, t1, t2))) }
            6 => { let n = *self.rng.pick(&[32u16, 32, 32, 40, 64, 100, 1]); self.rptr(out, t1, 100); out.push(Asm::I(op::swri(t0, t1, n))) }
            7 => { let n = self.rng.range(0, 24) as u32; self.wptr(out, t1, 64); out.push(Asm::I(op::movi(t2, self.rng.below(8) as u32))); out.push(Asm::I(op::movi(t3, n))); out.push(Asm::I(op::srdd(t1, t0, t2, t3))) }
            8 => { self.wptr(out, t1, 64); out.push(Asm::I(op::movi(t2, self.rng.below(8) as u32))); out.push(Asm::I(op::srdi(t1, t0, t2, self.rng.below(24) as u8))) }
            9 => { let n = self.rng.range(0, 40) as u32; self.rptr(out, t1, 64); let o = if self.rng.chance(3, 4) { 0 } else { self.rng.below(24) as u32 }; out.push(Asm::I(op::movi(t2, o))); out.push(Asm::I(op::movi(t3, n))); out.push(Asm::I(op::supd(t0, t1, t2, t3))) }
            10 => { self.rptr(out, t1, 64); let o = if self.rng.chance(3, 4) { 0 } else { self.rng.below(24) as u32 }; out.push(Asm::I(op::movi(t2, o))); out.push(Asm::I(op::supi(t0, t1, t2, self.rng.below(33) as u8))) }
            11 => { out.push(Asm::I(op::movi(t2, self.rng.range(0, 2) as u32))); out.push(Asm::I(op::sclr(t0, t2))) }
            _ => out.push(Asm::I(op::spld(d, t0))),
        }
    }
    fn item_asset(&mut self, out: &mut Vec<Asm>, ctx: &UnitCtx) {
        let [t0, t1, t2, t3, ..] = R_TMP;
        let ai = self.rng.below(self.n_assets as u64) as usize;
        let ao = self.layout.asset_off[ai];
        let n_c = self.layout.call_off.len();
        let amount = if self.fault() { *self.rng.pick(&[0u32, 250_000]) } else { match self.rng.below(4) { 0 => 1, _ => self.rng.range(1, 40) as u32 } };
        match self.rng.below(8) {
            0 if n_c > 0 => { let c = self.rng.below(n_c as u64) as usize; self.data(out, t0, ao); let co = self.layout.call_off[c]; self.data(out, t1, co);
                              let d = self.g(); out.push(Asm::I(op::bal(d, t0, t1))) }
            1 if n_c > 0 => { let c = self.rng.below(n_c as u64) as usize; let co = self.layout.call_off[c]; self.data(out, t0, co); out.push(Asm::I(op::movi(t1, amount)));
                              self.data(out, t2, ao); out.push(Asm::I(op::tr(t0, t1, t2))) }
            2 if (self.variable_out.is_some() && self.cur_lvl == 0 && self.var_used < N_VAR_OUT) || self.fault() => { let ad = self.layout.addr_off; self.data(out, t0, ad);
                   let flt = self.fault(); let idx = match self.variable_out { Some(i) if !flt => { self.var_used += 1; (i + self.var_used - 1) as u32 } _ => 77 };
                   out.push(Asm::I(op::movi(t1, idx))); out.push(Asm::I(op::movi(t2, amount))); self.data(out, t3, ao);
                   out.push(Asm::I(op::tro(t0, t1, t2, t3))) }
            3 | 4 if ctx.contract.is_some() || self.fault() => {
                   let so = self.layout.key_off + 32 * self.rng.below(2) as usize; self.data(out, t0, so); out.push(Asm::I(op::movi(t1, amount)));
                   out.push(Asm::I(if self.rng.chance(5, 6) { op::mint(t1, t0) } else { op::burn(t1, t0) })) }
            5 => { let ad = self.layout.addr_off; self.data(out, t0, ad); self.rptr(out, t1, 64); out.push(Asm::I(op::movi(t2, self.rng.below(48) as u32)));
                   out.push(Asm::I(op::movi(t3, amount.min(30)))); out.push(Asm::I(op::smo(t0, t1, t2, t3))) }
            _ => self.junk(out, 1),
        }
    }
    fn item_info(&mut self, out: &mut Vec<Asm>) {
        let [t0, t1, t2, t3, ..] = R_TMP;
        let n_c = self.layout.call_off.len();
        let co = if n_c == 0 || self.fault() { self.layout.missing_id_off } else { self.layout.call_off[self.rng.below(n_c as u64) as usize] };
        let d = self.g();
        let lo = if n_c == 0 && co != self.layout.missing_id_off { 3 } else if n_c == 0 && !self.rng.chance(1, 6) { 3 } else { 0 };
        match self.rng.range(lo, 7) {
            0 => { self.wptr(out, t0, 32); self.data(out, t1, co); out.push(Asm::I(op::croo(t0, t1))) }
            1 => { self.data(out, t1, co); out.push(Asm::I(op::csiz(d, t1))) }
            2 => { self.wptr(out, t0, 64); self.data(out, t1, co); out.push(Asm::I(op::movi(t2, (self.rng.below(6) * 4) as u32))); out.push(Asm::I(op::movi(t3, self.rng.below(64) as u32)));
                   out.push(Asm::I(op::ccp(t0, t1, t2, t3))) }
            3 => out.push(Asm::I(op::bhei(d))),
            4 => { self.wptr(out, t0, 32); let h = self.src(); out.push(Asm::I(op::bhsh(t0, h))) }
            5 => { self.wptr(out, t0, 32); out.push(Asm::I(op::cb(t0))) }
            6 => { out.push(Asm::I(op::movi(t0, if self.fault() { 1 << 17 } else { self.rng.below(3) as u32 }))); out.push(Asm::I(op::time(d, t0))) }
            _ => out.push(Asm::I(op::bhei(d))),
        }
    }
    fn item_gtf(&mut self, out: &mut Vec<Asm>, ctx: &UnitCtx) {
        let d = self.g();
        if self.rng.chance(1, 4) {
            let internal = ctx.contract.is_some() || self.fault();
            let sel = if self.fault() { *self.rng.pick(&[99u32, GMArgs::GetCaller as u32, GMArgs::GetVerifyingPredicate as u32]) } else if internal && self.rng.bool() { GMArgs::IsCallerExternal as u32 }
                      else { *self.rng.pick(&[GMArgs::GetChainId as u32, GMArgs::TxStart as u32, GMArgs::BaseAssetId as u32, GMArgs::GetGasPrice as u32]) };
            out.push(Asm::I(op::gm(d, sel)));
        } else {
            const SEL: [GTFArgs; 22] = [GTFArgs::Type, GTFArgs::ScriptGasLimit, GTFArgs::ScriptLength, GTFArgs::ScriptDataLength, GTFArgs::TxInputsCount,
                GTFArgs::TxOutputsCount, GTFArgs::TxWitnessesCount, GTFArgs::Script, GTFArgs::ScriptData, GTFArgs::TxInputAtIndex, GTFArgs::TxOutputAtIndex,
                GTFArgs::TxLength, GTFArgs::InputType, GTFArgs::TxLength, GTFArgs::Type, GTFArgs::InputType, GTFArgs::OutputType,
                GTFArgs::WitnessDataLength, GTFArgs::PolicyTypes, GTFArgs::PolicyMaxFee, GTFArgs::TxInputsCount, GTFArgs::TxOutputsCount];
            let flt = self.fault();
            let sel = if flt { *self.rng.pick(&[0xFFFu16, GTFArgs::InputCoinAmount as u16, GTFArgs::InputMessageData as u16, GTFArgs::OutputCoinTo as u16]) } else { *self.rng.pick(&SEL) as u16 };
            let idx = if flt && self.rng.bool() { 1u8 } else { 0 };
            out.push(Asm::I(op::gtf(d, idx, sel)));
        }
    }
    fn item_crypto(&mut self, out: &mut Vec<Asm>) {
        let [t0, t1, t2, t3, ..] = R_TMP;
        let bo = self.layout.blob_off;
        match self.rng.below(6) {
            0 | 1 => { self.wptr(out, t0, 32); self.rptr(out, t1, 100); out.push(Asm::I(op::movi(t2, self.rng.below(100) as u32)));
                       out.push(Asm::I(if self.rng.bool() { op::s256(t0, t1, t2) } else { op::k256(t0, t1, t2) })) }
            2 => { self.wptr(out, t0, 64); self.data(out, t1, bo); self.data(out, t2, bo + 64); out.push(Asm::I(op::eck1(t0, t1, t2))) }
            3 => { self.wptr(out, t0, 64); self.data(out, t1, bo + 32); self.data(out, t2, bo + 96); out.push(Asm::I(op::ecr1(t0, t1, t2))) }
            4 => { self.data(out, t0, bo); self.data(out, t1, bo + 32); self.data(out, t2, bo + 96); out.push(Asm::I(op::movi(t3, self.rng.below(64) as u32))); out.push(Asm::I(op::ed19(t0, t1, t2, t3))) }
            _ => { self.wptr(out, t0, 32); self.rptr(out, t1, 32); out.push(Asm::I(op::movi(t2, 32))); out.push(Asm::I(op::s256(t0, t1, t2))) }
        }
    }
    /// one grammar item
    fn item(&mut self, out: &mut Vec<Asm>, lvl: usize, ctx: &UnitCtx, subs: &[u32], allow_call: bool) {
        self.cur_lvl = lvl;
        let mut menu: Vec<(u32, u64)> = vec![(F_ALU, 30), (F_MEM, 16), (F_FLOW, 16), (F_LOG, 4), (F_ASSET, 5), (F_INFO, 4), (F_GTF, 4), (F_CRYPTO, 2), (F_WIDE, 3), (F_GARBAGE, 1)];
        if allow_call { menu.push((F_CALL, 10)); }
        if ctx.contract.is_some() { menu.push((F_STORAGE, 12)); } else if self.fault() { menu.push((F_STORAGE, 40)); }
        let menu: Vec<(u32, u64)> = menu.into_iter().filter(|(f, _)| self.has(*f)).collect();
        if menu.is_empty() { return self.item_alu(out); }
        let total: u64 = menu.iter().map(|m| m.1).sum();
        let mut x = self.rng.below(total);
        let mut pick = menu[0].0;
        for (f, wt) in &menu { if x < *wt { pick = *f; break; } x -= wt; }
        match pick {
            F_ALU => self.item_alu(out),
            F_MEM => self.item_mem(out),
            F_FLOW => self.item_flow(out, lvl, ctx, subs),
            F_CALL => self.item_call(out, ctx),
            F_LOG => self.item_log(out),
            F_STORAGE => self.item_storage(out),
            F_ASSET => self.item_asset(out, ctx),
            F_INFO => self.item_info(out),
            F_GTF => self.item_gtf(out, ctx),
            F_CRYPTO => self.item_crypto(out),
            F_WIDE => self.item_wide(out),
            _ => out.push(Asm::Raw(self.rng.next() as u32)),
        }
    }

    /// A complete code unit: prologue, items, terminator, leaf subroutines.
    fn unit(&mut self, ctx: &UnitCtx) -> Vec<Asm> {
        let [t0, t1, t2, ..] = R_TMP;
        let mut out = vec![];
        out.push(Asm::I(op::gtf(R_DATA, 0u8, GTFArgs::ScriptData as u16)));
        out.push(Asm::I(op::cfei(LOCAL)));
        out.push(Asm::I(op::movi(t0, HEAPSZ)));
        out.push(Asm::I(op::aloc(t0)));
        if self.rng.chance(39, 40) {
            out.push(Asm::I(op::movi(t0, *self.rng.pick(&[3u32, 3, 3, 3, 3, 3, 3, 3, 3, 3, 3, 3, 3, 3, 3, 3, 3, 3, 1, 2]))));
            out.push(Asm::I(op::flag(t0)));
        }
        for _ in 0..self.rng.range(2, 5) {
            let (d, v) = (self.g(), self.small());
            out.push(Asm::I(op::movi(d, v)));
        }
        let n_subs = if self.has(F_FLOW) { self.rng.below(3) as usize } else { 0 };
        let subs: Vec<u32> = (0..n_subs).map(|_| self.label()).collect();
        if ctx.self_recursive {
            // if Call.a != 0: call self with a-1 (frame copied to local memory), gas = all
            let me = ctx.contract.unwrap_or(0);
            let skip = self.label();
            let n = self.g();
            out.push(Asm::I(op::lw(n, RegId::FP, (CallFrame::a_offset() / 8) as u16)));
            out.push(Asm::I(op::jnzf(n, 0u8, 1)));
            out.push(Asm::Jmpf(skip));
            out.push(Asm::I(op::subi(n, n, 1)));
            out.push(Asm::I(op::addi(t0, RegId::SSP, 0)));
            let co = self.layout.call_off[me];
            self.data(&mut out, t1, co);
            out.push(Asm::I(op::mcpi(t0, t1, Call::LEN as u16)));
            out.push(Asm::I(op::sw(t0, n, 4)));
            let ao = self.layout.asset_off[0];
            self.data(&mut out, t2, ao);
            out.push(Asm::I(op::call(t0, RegId::ZERO, t2, RegId::CGAS)));
            out.push(Asm::Label(skip));
        }
        for _ in 0..self.cfg.unit_items {
            self.item(&mut out, 0, ctx, &subs, true);
        }
        // terminator
        match self.rng.below(12) {
            0 => { let r = self.src(); out.push(Asm::I(op::rvrt(r))) }
            1 | 2 | 3 => { self.rptr(&mut out, t0, 64); out.push(Asm::I(op::movi(t1, self.rng.below(64) as u32))); out.push(Asm::I(op::retd(t0, t1))) }
            4 if self.has(F_GARBAGE) => {} // fall off the end
            _ => { let r = self.src(); out.push(Asm::I(op::ret(r))) }
        }
        for s in subs {
            out.push(Asm::Label(s));
            let k = self.rng.range(1, 4) as usize;
            self.junk(&mut out, k);
            out.push(Asm::I(op::jal(RegId::ZERO, R_LINK, 0)));
        }
        out
    }
}

/// Generate a world with `cfg.n_contracts` contracts (contract i may call contracts j > i;
/// the last one is sometimes self-recursive through `Call.a`), a script calling into them, coin
/// inputs of every asset, change/variable outputs.
pub fn gen_scenario(rng: &mut Rng, cfg: &GenCfg) -> Scenario {
    let n_assets = 3usize;
    let mut assets: Vec<AssetId> = vec![AssetId::from(rng.bytes32())];
    for _ in 1..n_assets { assets.push(AssetId::from(rng.bytes32())); }
    if rng.chance(1, 3) { assets[0] = AssetId::zeroed(); }
    let block_height = rng.range(1, 50) as u32;
    let mut world = World::new(cfg.schedule.clone(), block_height, assets.clone());
    let ids: Vec<ContractId> = (0..cfg.n_contracts).map(|_| ContractId::from(rng.bytes32())).collect();
    let layout = DataLayout::new(rng, &ids, &assets, cfg.recursion_depth);
    let has_var = rng.chance(3, 4);
    let n_c = cfg.n_contracts;
    let mut pg = ProgGen { rng, cfg: cfg.clone(), layout: layout.clone(), n_assets, next_label: 0, variable_out: if has_var { Some(n_c) } else { None }, var_used: 0, cur_lvl: 0, script_assets: (0..n_assets).collect() };
    let _ = &pg.script_assets;
    let mut units = vec![];
    let mut contract_words = vec![];
    for i in 0..n_c {
        let callees: Vec<usize> = ((i + 1)..n_c).collect();
        let self_recursive = i + 1 == n_c && pg.has(F_CALL) && pg.rng.chance(1, 2);
        let ctx = UnitCtx { contract: Some(i), callees, self_recursive };
        let items = pg.unit(&ctx);
        let words = assemble(&items).unwrap_or_else(|e| { let _ = e; vec![w(op::ret(RegId::ONE))] });
        contract_words.push(words);
    }
    let sctx = UnitCtx { contract: None, callees: (0..n_c).collect(), self_recursive: false };
    let sitems = pg.unit(&sctx);
    let swords = assemble(&sitems).unwrap_or_else(|_| vec![w(op::ret(RegId::ONE))]);
    let rng = pg.rng;
    units.push(swords.clone());
    for (i, cw) in contract_words.iter().enumerate() {
        let mut balances = vec![];
        for a in &assets { if rng.chance(9, 10) { balances.push((*a, rng.range(200, 5000))); } }
        let mut slots = vec![];
        for k in 0..layout.n_keys {
            if rng.chance(1, 2) {
                let mut key = [0u8; 32];
                key.copy_from_slice(&layout.bytes[layout.key_off + 32 * k..layout.key_off + 32 * k + 32]);
                let len = *rng.pick(&[32usize, 32, 32, 32, 32, 40, 64]);
                slots.push((key, rng.bytes(len)));
            }
        }
        world.deploy(ContractDef { id: ids[i], code: words_to_bytes(cw), balances, slots });
        units.push(cw.clone());
    }
    let mut tx = TxSpec::new(words_to_bytes(&swords), layout.bytes.clone(), cfg.gas_limit);
    tx.key_seed = rng.next();
    for a in &assets { tx.coins.push((*a, rng.range(100, 100_000))); }
    if rng.chance(1, 4) { tx.coins.push((assets[1 % assets.len()], rng.range(1, 1000))); }
    if rng.chance(1, 4) { tx.messages.push((rng.range(1, 5000), if rng.bool() { vec![] } else { rng.bytes_upto(24) })); }
    tx.contract_inputs = ids.clone();
    if rng.chance(1, 60) && !tx.contract_inputs.is_empty() { tx.contract_inputs.pop(); } // a callee not listed as input
    if has_var { for _ in 0..N_VAR_OUT { tx.outputs.push(OutSpec::Variable); } }
    for a in &assets { if rng.chance(2, 3) { tx.outputs.push(OutSpec::Change(*a)); } }
    if rng.chance(1, 4) { tx.outputs.push(OutSpec::Coin(assets[0], rng.range(0, 50))); }
    Scenario { world, tx, layout, units, seed_note: String::new() }
}

/// A script of raw (mostly random) words, no contracts: the "garbage" stream.
pub fn gen_garbage_scenario(rng: &mut Rng, schedule: GasSchedule, words: usize, gas_limit: u64) -> Scenario {
    let assets = vec![AssetId::from(rng.bytes32())];
    let mut world = World::new(schedule, 3, assets.clone());
    let id = ContractId::from(rng.bytes32());
    world.deploy(ContractDef { id, code: words_to_bytes(&[w(op::ret(RegId::ONE))]), balances: vec![], slots: vec![] });
    let layout = DataLayout::new(rng, &[id], &assets, 0);
    let mut ws = vec![];
    for _ in 0..words {
        ws.push(match rng.below(4) {
            0 => rng.next() as u32,
            1 => ((*rng.pick(&[0x10u8, 0x50, 0x72, 0x5d, 0x5f, 0x13, 0x90, 0x73, 0x74, 0x76, 0x99, 0x24, 0x47, 0x91, 0x26]) as u32) << 24) | (rng.next() as u32 & 0xff_ffff),
            2 => w(op::movi(rng.range(16, 63) as u8, rng.below(1 << 18) as u32)),
            _ => w(op::noop()),
        });
    }
    let mut tx = TxSpec::new(words_to_bytes(&ws), layout.bytes.clone(), gas_limit);
    tx.key_seed = rng.next();
    tx.coins.push((assets[0], 1000));
    tx.contract_inputs = vec![id];
    Scenario { world, tx, layout, units: vec![ws], seed_note: "garbage".into() }
}

// =====================================================================================
// 6. printers
// =====================================================================================
pub fn receipt_json(r: &Receipt) -> Value {
    serde_json::to_value(r).unwrap_or(Value::Null)
}
pub fn regs_json(r: &[u64; VM_REGISTER_COUNT]) -> Value {
    json!(r.to_vec())
}
pub fn step_json(s: &Step) -> Value {
    json!({
        "index": s.index, "kind": format!("{:?}", s.kind), "pc": s.pc, "raw": s.raw, "op": s.mnemonic, "opcode": s.opcode,
        "regs": s.reg_args, "imm": s.imm, "before": regs_json(&s.regs_before), "after": regs_json(&s.regs_after),
        "mem": s.mem_diff.iter().map(|d| json!([d.addr, hex::encode(&d.old), hex::encode(&d.new)])).collect::<Vec<_>>(),
        "receipts": s.receipts.iter().map(receipt_json).collect::<Vec<_>>(),
        "ctx": match &s.ctx_before { Ctx::Script => "script".to_string(), Ctx::Contract(c) => hex::encode(c) },
        "depth": [s.frames_before.len(), s.frames_after.len()],
        "outcome": s.outcome.name(), "storage": s.storage.iter().map(|e| e.to_json()).collect::<Vec<_>>(),
    })
}
/// compact JSON of a trace (`full` adds every step)
pub fn trace_json(t: &Trace, full: bool) -> Value {
    let mut ops: BTreeMap<String, u64> = BTreeMap::new();
    for s in &t.steps { *ops.entry(s.mnemonic.clone()).or_insert(0) += 1; }
    let mut v = json!({
        "steps": t.steps.len(), "final": format!("{:?}", t.final_state), "gas_limit": t.gas_limit, "gas_used": t.gas_used,
        "script_result": t.script_result, "receipts": t.receipts.iter().map(receipt_json).collect::<Vec<_>>(),
        "ops": ops, "final_regs": regs_json(&t.regs_final), "tx_id": hex::encode(t.tx_id),
    });
    if full { v["trace"] = json!(t.steps.iter().map(step_json).collect::<Vec<_>>()); }
    v
}
/// `[r0; r1; ...]` as a Coq `list N`
pub fn coq_regs(r: &[u64; VM_REGISTER_COUNT]) -> String {
    crate::coq_list(&r.iter().map(|x| x.to_string()).collect::<Vec<_>>())
}
pub fn coq_u64(x: u64) -> String { x.to_string() }
pub fn coq_memdiff(d: &[MemDiff]) -> String {
    crate::coq_list(&d.iter().map(|m| format!("({}, {}, {})", m.addr, crate::coq_bytes(&m.old), crate::coq_bytes(&m.new))).collect::<Vec<_>>())
}
/// byte of a panic reason (as in the receipt)
pub fn reason_byte(r: PanicReason) -> u8 { r as u8 }
