//! VM program generator and step-wise tracer (shared by the VM-family harness binaries).
//! Documented in /verif/harness/VMTRACE.md.
